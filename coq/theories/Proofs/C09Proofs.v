(* C09 — proofs about the RPC synchronisation protocol model (Conc/RpcSync.v)
   against the predicates of Spec/C09.v. The codec facts come from
   Proofs/C10Proofs.v (roundtrip_deep_eq, deep_core, checksum_detects). *)

From Coq Require Import List NArith ZArith Bool Arith Lia ZifyN ZifyNat ZifyBool.
From AMV Require Import Model.RpcCodec Spec.C10 Conc.RpcSync Spec.C09.
From AMV Require Proofs.C10Proofs.
Import ListNotations.
Open Scope N_scope.

(* ------------------------------------------------------------------ *)
(* generic facts about exec                                            *)

Lemma exec_app : forall p s a b, exec p s (a ++ b) = exec p (exec p s a) b.
Proof. intros. unfold exec. apply fold_left_app. Qed.

Lemma exec_cons : forall p s e r, exec p s (e :: r) = exec p (step p s e) r.
Proof. reflexivity. Qed.

Lemma exec_nil : forall p s, exec p s [] = s.
Proof. reflexivity. Qed.

(* ------------------------------------------------------------------ *)
(* a stuck client stays as it is, whatever happens                     *)

Lemma settle_stuck_cl : forall p f s, cl_stuck (st_cl s) = true ->
  st_cl (settle p f s) = st_cl s.
Proof.
  intros p f. induction f as [|f IH]; intros s H; [reflexivity|].
  cbn [settle]. unfold do_sync_serve. rewrite H, andb_false_r.
  destruct (st_wire s); [reflexivity|]. now rewrite H.
Qed.

Lemma step_stuck : forall p s e, cl_stuck (st_cl s) = true ->
  st_cl (step p s e) = st_cl s.
Proof.
  intros p s e H. unfold step. destruct (st_err s); [reflexivity|].
  destruct e.
  - reflexivity.
  - unfold do_push. destruct (negb (st_conn s)); [reflexivity|].
    destruct (sv_latest (st_sv s)) as [d|]; [|reflexivity].
    destruct ((d_sum (sv_last (st_sv s)) =? d_sum d) && (d_q (sv_last (st_sv s)) =? d_q d));
      [reflexivity|].
    destruct (p_mut p).
    + destruct (calc_update_muts _ _ _) as [[|u us]|]; destruct (d_mtime d); reflexivity.
    + destruct (calc_upd _ _ _) as [u|]; [|destruct (d_mtime d); reflexivity].
      destruct (u_idx u); destruct (d_mtime d); reflexivity.
  - unfold do_reply. destruct (p_mut p).
    + destruct (calc_update_muts _ _ _); [|reflexivity].
      destruct (sv_latest (st_sv s)); reflexivity.
    + destruct (sv_latest (st_sv s)); [|reflexivity].
      destruct (calc_upd _ _ _); reflexivity.
  - unfold do_write. destruct (st_pend s); reflexivity.
  - unfold do_deliver. now rewrite H.
  - unfold do_sync_req. now rewrite H.
  - unfold do_sync_serve. now rewrite H, andb_false_r.
  - unfold do_hello. now rewrite H.
  - now apply settle_stuck_cl.
Qed.

Lemma stuck_forever_lemma : forall p es s, cl_stuck (st_cl s) = true ->
  st_cl (exec p s es) = st_cl s.
Proof.
  intros p es. induction es as [|e r IH]; intros s H; [reflexivity|].
  rewrite exec_cons. rewrite IH; [now apply step_stuck|].
  now rewrite step_stuck.
Qed.

(* ------------------------------------------------------------------ *)
(* a full Sync restores the mirror                                     *)

Lemma cl_sync_ok : forall c t q m, t <> [] -> length t = length (cl_t c) ->
  cl_sync c t q m = mk_client t q m (cl_stuck c) false (cl_errs c).
Proof.
  intros c t q m Ht Hl. unfold cl_sync. destruct t as [|a r]; [congruence|].
  now rewrite (proj2 (Nat.eqb_eq _ _) Hl).
Qed.

Local Opaque client_apply calc_update calc_update_muts calc_upd w8 w16 w32 w64 hello_time.

Lemma full_sync_restores_lemma : forall p s,
  st_err s = false -> cl_stuck (st_cl s) = false -> st_wire s = [] ->
  s_time (st_cur s) <> [] ->
  length (s_time (st_cur s)) = length (cl_t (st_cl s)) ->
  let s' := exec p s [SyncReq; Settle] in
  client_view s' = (s_time (st_cur s), s_q (st_cur s),
                    if p_sync_m p then s_m (st_cur s) else 0) /\
  st_wire s' = [] /\ cl_need (st_cl s') = false /\ cl_stuck (st_cl s') = false /\
  st_err s' = false /\ st_sv s' = st_sv s.
Proof.
  intros p s He Hs Hw Ht Hl s'. subst s'.
  destruct s as [sv cl wire pend cur err sil rej syn np conn ip].
  destruct cl as [t q m stuck need errs].
  cbn in He, Hs, Hw, Ht, Hl. subst err stuck wire.
  cbn -[cl_sync].
  rewrite cl_sync_ok by (cbn; assumption).
  cbn. repeat split; reflexivity.
Qed.

(* with a schema the synchronised entries of a fully synced mirror are the
   source's, for every tracked set *)
Lemma full_sync_mirror_ok : forall c src,
  sync_schema c = true -> mirror_ok c src src = true.
Proof.
  intros c src H. unfold mirror_ok, activity_ok, ticks_ok, mir_tracked, src_tracked, client_tracked.
  rewrite H. destruct (shallow c).
  - apply C10Proofs.list_bool_eqb_refl.
  - apply C10Proofs.list_N_eqb_refl.
Qed.

Local Transparent client_apply calc_update calc_update_muts calc_upd w8 w16 w32 w64 hello_time.

(* ------------------------------------------------------------------ *)
(* refutations: witnesses evaluated on the model (each one is replayed  *)
(* on the real code by the corpus)                                      *)

Lemma repeat_fix : forall p s X, exec p s X = s ->
  forall n, exec p s (concat (repeat X n)) = s.
Proof.
  intros p s X H n. induction n as [|n IH]; [reflexivity|].
  cbn [repeat concat]. now rewrite exec_app, H.
Qed.

Definition all4 : cfg := {| sync_schema := true; shallow := false; tracked := [0;1;2;3]%nat |}.
Definition plain : pcfg := {| p_codec := all4; p_mut := false; p_hello_m := false; p_sync_m := false |}.
Definition sn (t : list N) (q m : N) : snap := {| s_time := t; s_q := q; s_m := m |}.

(* (R1) a reply overtaken by a push *)
Definition r1_s0 := sn [0;0;0;0] 1 0.
Definition r1_s1 := sn [1;0;0;0] 2 0.
Definition r1_s2 := sn [1;1;0;0] 3 0.
Definition r1_events : list ev := [Src r1_s1; Reply; Src r1_s2; Push; Deliver; Write; Deliver].

Theorem reorder_stale_refuted_lemma :
  exists (p : pcfg) (s0 s1 s2 : snap),
    p_mut p = false /\ shallow (p_codec p) = false /\
    cfg_wf (p_codec p) (length (s_time s0)) = true /\
    chain_in_range s0 [s1; s2] = true /\ s_m s0 = 0 /\
    let st := exec p (init p s0) [Src s1; Reply; Src s2; Push; Deliver; Write; Deliver] in
    quiescent st = true /\ st_err st = false /\ cl_stuck (st_cl st) = false /\
    st_rejpush st = true /\
    sv_last (st_sv st) = mk_data (p_codec p) s2 /\
    client_view st = (mirror (p_codec p) s1, s_q s1, s_m s1) /\
    mirror_ok (p_codec p) (s_time s2) (cl_t (st_cl st)) = false /\
    forall n, exec p st (concat (repeat [Push; Settle] n)) = st.
Proof.
  exists plain, r1_s0, r1_s1, r1_s2.
  repeat split; try (vm_compute; reflexivity).
  intros n. apply repeat_fix. vm_compute. reflexivity.
Qed.

(* (R2) in-order delivery, plain configuration: a push whose diff has no
   indexes (queue tick moved, no tracked tick did) is not sent, yet
   lastPushData advances: every later push is rejected *)
Definition r2_a := sn [1;0;0;0] 2 0.
Definition r2_b := sn [1;0;0;0] 3 0.
Definition r2_c := sn [1;1;0;0] 4 0.

Theorem inorder_converges_refuted_lemma :
  exists (p : pcfg) (s0 a b c : snap),
    p_mut p = false /\ shallow (p_codec p) = false /\
    cfg_wf (p_codec p) (length (s_time s0)) = true /\
    chain_in_range s0 [a; b; c] = true /\ s_m s0 = 0 /\
    let st := exec p (init p s0)
                [Src a; Push; Settle; Src b; Push; Settle; Src c; Push; Settle] in
    quiescent st = true /\ st_err st = false /\ cl_stuck (st_cl st) = false /\
    st_silent st = true /\ st_rejpush st = true /\
    mirror_ok (p_codec p) (s_time c) (cl_t (st_cl st)) = false /\
    forall n, exec p st (concat (repeat [Push; Settle] n)) = st.
Proof.
  exists plain, r1_s0, r2_a, r2_b, r2_c.
  repeat split; try (vm_compute; reflexivity).
  intros n. apply repeat_fix. vm_compute. reflexivity.
Qed.

(* (R3) a source with history: the placeholder dataLatest of NewServer is
   pushed by the first idle ticker run and replaces lastPushData *)
Definition r3_s0 := sn [1;0;0;0] 2 0.
Definition r3_a := sn [1;1;0;0] 3 0.

Theorem initial_data_push_refuted_lemma :
  exists (p : pcfg) (s0 a : snap),
    p_mut p = false /\ shallow (p_codec p) = false /\
    cfg_wf (p_codec p) (length (s_time s0)) = true /\
    chain_in_range s0 [a] = true /\ s_m s0 = 0 /\
    let st := exec p (init p s0) [Push; Settle; Src a; Push; Settle] in
    quiescent st = true /\ st_err st = false /\
    st_initpush st = true /\ st_rejpush st = true /\
    mirror_ok (p_codec p) (s_time a) (cl_t (st_cl st)) = false /\
    forall n, exec p st (concat (repeat [Push; Settle] n)) = st.
Proof.
  exists plain, r3_s0, r3_a.
  repeat split; try (vm_compute; reflexivity).
  intros n. apply repeat_fix. vm_compute. reflexivity.
Qed.

(* (R4) per-mutation sync: a rejected mutations push calls Sync() from the
   blocking read loop: the client is stuck, in-order delivery *)
Definition mutp : pcfg := {| p_codec := all4; p_mut := true; p_hello_m := false; p_sync_m := false |}.

Theorem mutations_push_blocks_refuted_lemma :
  exists (p : pcfg) (s0 a : snap),
    p_mut p = true /\ shallow (p_codec p) = false /\
    cfg_wf (p_codec p) (length (s_time s0)) = true /\
    chain_in_range s0 [a] = true /\ s_m s0 = 0 /\
    let st := exec p (init p s0) [Push; Settle; Src a; Push; Settle] in
    st_err st = false /\ cl_stuck (st_cl st) = true /\
    mirror_ok (p_codec p) (s_time a) (cl_t (st_cl st)) = false /\
    forall es, st_cl (exec p st es) = st_cl st.
Proof.
  exists mutp, r3_s0, r3_a.
  repeat split; try (vm_compute; reflexivity).
  intros es. apply stuck_forever_lemma. vm_compute. reflexivity.
Qed.

(* (R5) per-mutation sync: dataQueue is never flushed; from the third export
   on the chain restarts below lastPushData, the negative deltas wrap to
   2^32 / 2^16 and the mod-256 checksum accepts them *)
Definition r5_a := sn [1;0;0;0] 2 0.
Definition r5_b := sn [1;1;0;0] 3 0.
Definition r5_c := sn [1;1;1;0] 4 0.

Theorem mutation_queue_refuted_lemma :
  exists (p : pcfg) (s0 a b c : snap),
    p_mut p = true /\ shallow (p_codec p) = false /\
    cfg_wf (p_codec p) (length (s_time s0)) = true /\
    chain_in_range s0 [a; b; c] = true /\ s_m s0 = 0 /\
    let st := exec p (init p s0)
                [Src a; Push; Settle; Src b; Push; Settle; Src c; Push; Settle] in
    quiescent st = true /\ st_err st = false /\ cl_stuck (st_cl st) = false /\
    st_rejpush st = false /\
    activity_ok (p_codec p) (s_time c) (cl_t (st_cl st)) = true /\
    ticks_ok (p_codec p) (s_time c) (cl_t (st_cl st)) = false /\
    cl_t (st_cl st) = [1; 1 + 4294967296; 1; 0] /\ cl_q (st_cl st) = 4 + 65536.
Proof.
  exists mutp, r1_s0, r5_a, r5_b, r5_c.
  repeat split; vm_compute; reflexivity.
Qed.

(* (R6) a full Sync with a partial tracked set: RemoteSync returns the
   unfiltered time, the client's checksum then covers untracked states and
   every later push is rejected *)
Definition part4 : cfg := {| sync_schema := true; shallow := false; tracked := [0;1]%nat |}.
Definition partp : pcfg := {| p_codec := part4; p_mut := false; p_hello_m := false; p_sync_m := false |}.
Definition r6_a := sn [1;0;1;0] 3 0.
Definition r6_b := sn [1;1;1;0] 4 0.

Theorem full_sync_partial_refuted_lemma :
  exists (p : pcfg) (s0 a b : snap),
    p_mut p = false /\ shallow (p_codec p) = false /\
    cfg_wf (p_codec p) (length (s_time s0)) = true /\
    chain_in_range s0 [a; b] = true /\ s_m s0 = 0 /\
    let st1 := exec p (init p s0) [Src a; SyncReq; Settle] in
    let st := exec p st1 [Src b; Push; Settle] in
    mirror_ok (p_codec p) (s_time a) (cl_t (st_cl st1)) = true /\
    cl_t (st_cl st1) <> mirror (p_codec p) a /\
    quiescent st = true /\ st_err st = false /\ st_rejpush st = true /\
    mirror_ok (p_codec p) (s_time b) (cl_t (st_cl st)) = false /\
    forall n, exec p st (concat (repeat [Push; Settle] n)) = st.
Proof.
  exists partp, r1_s0, r6_a, r6_b.
  repeat split; try (vm_compute; reflexivity).
  - vm_compute. discriminate.
  - intros n. apply repeat_fix. vm_compute. reflexivity.
Qed.

(* (R7) a source whose MachineTick is not 0 (it was imported): RemoteHello
   memorises the tick, the client's HandshakeDone starts from 0: every diff
   carries MachTick 0 and fails the checksum, from the first push on *)
Definition r7_s0 := sn [0;0;0;0] 1 1.
Definition r7_a := sn [1;0;0;0] 2 1.

Theorem hello_machtick_refuted_lemma :
  exists (p : pcfg) (s0 a : snap),
    p_mut p = false /\ shallow (p_codec p) = false /\ p_hello_m p = false /\
    cfg_wf (p_codec p) (length (s_time s0)) = true /\
    chain_in_range s0 [a] = true /\ s_m s0 = 1 /\
    let st := exec p (init p s0) [Src a; Push; Settle] in
    quiescent st = true /\ st_err st = false /\ st_rejpush st = true /\
    mirror_ok (p_codec p) (s_time a) (cl_t (st_cl st)) = false /\
    forall n, exec p st (concat (repeat [Push; Settle] n)) = st.
Proof.
  exists plain, r7_s0, r7_a.
  repeat split; try (vm_compute; reflexivity).
  intros n. apply repeat_fix. vm_compute. reflexivity.
Qed.

(* (R8) shallow clocks: every push is rejected (C10 shallow_accept_refuted),
   the push path ignores it *)
Definition shp : pcfg :=
  {| p_codec := {| sync_schema := true; shallow := true; tracked := [0;1;2;3]%nat |};
     p_mut := false; p_hello_m := false; p_sync_m := false |}.

Theorem shallow_push_stale_refuted_lemma :
  exists (p : pcfg) (s0 a : snap),
    p_mut p = false /\ shallow (p_codec p) = true /\
    cfg_wf (p_codec p) (length (s_time s0)) = true /\
    chain_in_range s0 [a] = true /\ s_m s0 = 0 /\
    let st := exec p (init p s0) [Src a; Push; Settle] in
    quiescent st = true /\ st_err st = false /\ st_rejpush st = true /\
    mirror_ok (p_codec p) (s_time a) (cl_t (st_cl st)) = false /\
    forall n, exec p st (concat (repeat [Push; Settle] n)) = st.
Proof.
  exists shp, r1_s0, r1_s1.
  repeat split; try (vm_compute; reflexivity).
  intros n. apply repeat_fix. vm_compute. reflexivity.
Qed.
