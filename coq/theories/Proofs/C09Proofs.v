(* C09 — proofs about the RPC synchronisation protocol model (Conc/RpcSync.v)
   against the predicates of Spec/C09.v. The codec facts come from
   Proofs/C10Proofs.v (roundtrip_deep_eq, deep_core, checksum_detects). *)

From Coq Require Import List NArith ZArith Bool Arith Lia ZifyN ZifyNat ZifyBool.
From AMV Require Import Model.RpcCodec Spec.C10 Conc.RpcSync Spec.C09.
From AMV Require Proofs.C10Proofs.
Import ListNotations.
Open Scope N_scope.

(* ------------------------------------------------------------------ *)
(* generic facts about exec                                            *)

Lemma exec_app : forall p s a b, exec p s (a ++ b) = exec p (exec p s a) b.
Proof. intros. unfold exec. apply fold_left_app. Qed.

Lemma exec_cons : forall p s e r, exec p s (e :: r) = exec p (step p s e) r.
Proof. reflexivity. Qed.

Lemma exec_nil : forall p s, exec p s [] = s.
Proof. reflexivity. Qed.

(* ------------------------------------------------------------------ *)
(* no event blocks the client's read loop (since 4b9897e)               *)

Lemma cl_update_stuck : forall p c u c' b,
  cl_update p c u = Some (c', b) -> cl_stuck c' = cl_stuck c.
Proof.
  intros p c u c' b H. unfold cl_update in H.
  destruct (client_apply (p_codec p) u (cl_t c) (cl_q c) (cl_m c)) as [[[[t' q'] m'] acc]|];
    [|discriminate].
  destruct (acc && negb (Nat.eqb (length t') 0)); injection H as H1 H2; subst; reflexivity.
Qed.

Lemma cl_update_muts_stuck : forall p us c c' b,
  cl_update_muts p c us = Some (c', b) -> cl_stuck c' = cl_stuck c.
Proof.
  intros p us. induction us as [|u r IH]; intros c c' b H; cbn [cl_update_muts] in H.
  - injection H as H1 H2. now subst.
  - destruct (cl_update p c u) as [[c1 [|]]|] eqn:E; [| |discriminate].
    + rewrite (IH _ _ _ H). eapply cl_update_stuck; eauto.
    + injection H as H1 H2. subst. eapply cl_update_stuck; eauto.
Qed.

Lemma cl_sync_stuck : forall c t q m, cl_stuck (cl_sync c t q m) = cl_stuck c.
Proof.
  intros c t q m. unfold cl_sync. destruct t; [reflexivity|].
  destruct (Nat.eqb _ _); reflexivity.
Qed.

Lemma sync_serve_stuck : forall p s, cl_stuck (st_cl (do_sync_serve p s)) = cl_stuck (st_cl s).
Proof.
  intros p s. unfold do_sync_serve.
  destruct (cl_need (st_cl s) && negb (cl_stuck (st_cl s)) && negb (call_in_flight s)); reflexivity.
Qed.

Lemma deliver_stuck : forall p s, cl_stuck (st_cl s) = false ->
  cl_stuck (st_cl (do_deliver p s)) = false.
Proof.
  intros p s H. unfold do_deliver. rewrite H.
  destruct (st_wire s) as [|m w]; [exact H|].
  destruct m as [u|us|[u|us]|t q m].
  - destruct (cl_update p (st_cl s) u) as [[c' [|]]|] eqn:E; cbn; try exact H;
      rewrite (cl_update_stuck _ _ _ _ _ E); exact H.
  - destruct (cl_update_muts p (st_cl s) us) as [[c' [|]]|] eqn:E; cbn; try exact H;
      rewrite (cl_update_muts_stuck _ _ _ _ _ E); exact H.
  - destruct (cl_update p (st_cl s) u) as [[c' [|]]|] eqn:E; cbn; try exact H;
      rewrite (cl_update_stuck _ _ _ _ _ E); exact H.
  - destruct (cl_update_muts p (st_cl s) us) as [[c' [|]]|] eqn:E; cbn; try exact H;
      rewrite (cl_update_muts_stuck _ _ _ _ _ E); exact H.
  - cbn. now rewrite cl_sync_stuck.
Qed.

Lemma settle_not_stuck : forall p f s, cl_stuck (st_cl s) = false ->
  cl_stuck (st_cl (settle p f s)) = false.
Proof.
  intros p f. induction f as [|f IH]; intros s H; [exact H|].
  cbn [settle].
  assert (H2 : cl_stuck (st_cl (do_sync_serve p s)) = false) by now rewrite sync_serve_stuck.
  destruct (st_wire (do_sync_serve p s)); [exact H2|].
  rewrite H2. apply IH. now apply deliver_stuck.
Qed.

Lemma step_not_stuck : forall p s e, cl_stuck (st_cl s) = false ->
  cl_stuck (st_cl (step p s e)) = false.
Proof.
  intros p s e H. unfold step. destruct (st_err s); [exact H|].
  destruct e.
  - exact H.
  - unfold do_push. destruct (negb (st_conn s)); [exact H|].
    destruct (sv_latest (st_sv s)) as [d|]; [|exact H].
    destruct (d_mtime d); [|exact H].
    destruct ((d_sum (sv_last (st_sv s)) =? d_sum d) && (d_q (sv_last (st_sv s)) =? d_q d));
      [exact H|].
    destruct (p_mut p).
    + destruct (calc_update_muts _ _ _) as [[|u us]|]; exact H.
    + destruct (calc_upd _ _ _) as [u|]; exact H.
  - unfold do_reply. destruct (p_mut p).
    + destruct (calc_update_muts _ _ _); [|exact H].
      destruct (sv_latest (st_sv s)); exact H.
    + destruct (sv_latest (st_sv s)); [|exact H].
      destruct (calc_upd _ _ _); exact H.
  - unfold do_write. destruct (st_pend s); exact H.
  - now apply deliver_stuck.
  - unfold do_sync_req. rewrite H. exact H.
  - now rewrite sync_serve_stuck.
  - unfold do_hello. rewrite H. reflexivity.
  - now apply settle_not_stuck.
Qed.

Lemma never_blocks_lemma : forall p es s, cl_stuck (st_cl s) = false ->
  cl_stuck (st_cl (exec p s es)) = false.
Proof.
  intros p es. induction es as [|e r IH]; intros s H; [exact H|].
  rewrite exec_cons. apply IH. now apply step_not_stuck.
Qed.

(* ------------------------------------------------------------------ *)
(* a full Sync restores the mirror                                     *)

Lemma cl_sync_ok : forall c t q m, t <> [] -> length t = length (cl_t c) ->
  cl_sync c t q m = mk_client t q m (cl_stuck c) false (cl_errs c).
Proof.
  intros c t q m Ht Hl. unfold cl_sync. destruct t as [|a r]; [congruence|].
  now rewrite (proj2 (Nat.eqb_eq _ _) Hl).
Qed.

Local Opaque client_apply calc_update calc_update_muts calc_upd w8 w16 w32 w64 hello_time.

Lemma full_sync_restores_lemma : forall p s,
  st_err s = false -> cl_stuck (st_cl s) = false -> st_wire s = [] -> st_pend s = None ->
  s_time (st_cur s) <> [] ->
  length (s_time (st_cur s)) = length (cl_t (st_cl s)) ->
  let s' := exec p s [SyncReq; Settle] in
  client_view s' = (s_time (st_cur s), s_q (st_cur s),
                    if p_sync_m p then s_m (st_cur s) else 0) /\
  st_wire s' = [] /\ cl_need (st_cl s') = false /\ cl_stuck (st_cl s') = false /\
  st_err s' = false /\ st_sv s' = st_sv s.
Proof.
  intros p s He Hs Hw Hp Ht Hl s'. subst s'.
  destruct s as [sv cl wire pend cur err sil rej syn np conn ip].
  destruct cl as [t q m stuck need errs].
  cbn in He, Hs, Hw, Hp, Ht, Hl. subst err stuck wire pend.
  cbn -[cl_sync].
  rewrite cl_sync_ok by (cbn; assumption).
  cbn. repeat split; reflexivity.
Qed.

(* with a schema the synchronised entries of a fully synced mirror are the
   source's, for every tracked set *)
Lemma full_sync_mirror_ok : forall c src,
  sync_schema c = true -> mirror_ok c src src = true.
Proof.
  intros c src H. unfold mirror_ok, activity_ok, ticks_ok, mir_tracked, src_tracked, client_tracked.
  rewrite H. destruct (shallow c).
  - apply C10Proofs.list_bool_eqb_refl.
  - apply C10Proofs.list_N_eqb_refl.
Qed.

Local Transparent client_apply calc_update calc_update_muts calc_upd w8 w16 w32 w64 hello_time.

(* ------------------------------------------------------------------ *)
(* refutations: witnesses evaluated on the model (each one is replayed  *)
(* on the real code by the corpus)                                      *)

Lemma repeat_fix : forall p s X, exec p s X = s ->
  forall n, exec p s (concat (repeat X n)) = s.
Proof.
  intros p s X H n. induction n as [|n IH]; [reflexivity|].
  cbn [repeat concat]. now rewrite exec_app, H.
Qed.

Definition all4 : cfg := {| sync_schema := true; shallow := false; tracked := [0;1;2;3]%nat |}.
Definition plain : pcfg := {| p_codec := all4; p_mut := false; p_hello_m := false; p_sync_m := false |}.
Definition sn (t : list N) (q m : N) : snap := {| s_time := t; s_q := q; s_m := m |}.

Definition r1_s0 := sn [0;0;0;0] 1 0.
Definition r1_s1 := sn [1;0;0;0] 2 0.
Definition r1_s2 := sn [1;1;0;0] 3 0.
Definition race_events (y1 y2 : snap) : list ev :=
  [Src y1; Reply; Src y2; Push; Settle; Write; Settle].

(* (R1) what still fails: no schema + allow list. RemoteSync returns a time
   slice of the source's length, Client.Sync refuses it ("wrong clock len"):
   a drift can never be repaired. In-order witness with shallow clocks (every
   shallow push is rejected, C10 shallow_accept_refuted) *)
Definition nsp_sh : pcfg :=
  {| p_codec := {| sync_schema := false; shallow := true; tracked := [0;2]%nat |};
     p_mut := false; p_hello_m := true; p_sync_m := true |}.

Theorem sync_refused_refuted_lemma :
  exists (p : pcfg) (s0 a : snap),
    p_mut p = false /\ sync_schema (p_codec p) = false /\
    cfg_wf (p_codec p) (length (s_time s0)) = true /\
    chain_in_range s0 [a] = true /\ s_m s0 = 0 /\
    let st := exec p (init p s0) [Src a; Push; Settle] in
    quiescent st = true /\ st_err st = false /\ cl_stuck (st_cl st) = false /\
    st_rejpush st = true /\ st_synced st = true /\ cl_errs (st_cl st) = 1%nat /\
    mirror_ok (p_codec p) (s_time a) (cl_t (st_cl st)) = false /\
    forall n, exec p st (concat (repeat [Push; Settle] n)) = st.
Proof.
  exists nsp_sh, r1_s0, r1_s1.
  repeat split; try (vm_compute; reflexivity).
  intros n. apply repeat_fix. vm_compute. reflexivity.
Qed.

(* (R2) the same with deep clocks: the drift comes from a reply overtaken by
   a push *)
Definition nsp_deep : pcfg :=
  {| p_codec := {| sync_schema := false; shallow := false; tracked := [0;2]%nat |};
     p_mut := false; p_hello_m := true; p_sync_m := true |}.
Definition r2_y2 := sn [1;0;1;0] 3 0.

Theorem reorder_sync_refused_refuted_lemma :
  exists (p : pcfg) (s0 y1 y2 : snap),
    p_mut p = false /\ shallow (p_codec p) = false /\ sync_schema (p_codec p) = false /\
    cfg_wf (p_codec p) (length (s_time s0)) = true /\
    chain_in_range s0 [y1; y2] = true /\ s_m s0 = 0 /\
    let st := exec p (init p s0) (race_events y1 y2) in
    quiescent st = true /\ st_err st = false /\
    st_rejpush st = true /\ cl_errs (st_cl st) = 1%nat /\
    sv_last (st_sv st) = mk_data (p_codec p) y2 /\
    client_view st = (mirror (p_codec p) y1, s_q y1, s_m y1) /\
    mirror_ok (p_codec p) (s_time y2) (cl_t (st_cl st)) = false /\
    forall n, exec p st (concat (repeat [Push; Settle] n)) = st.
Proof.
  exists nsp_deep, r1_s0, r1_s1, r2_y2.
  repeat split; try (vm_compute; reflexivity).
  intros n. apply repeat_fix. vm_compute. reflexivity.
Qed.

(* (R3) RemoteSync does not memorise what it sent: after a Sync() the next
   push is computed against the older lastPushData and is rejected although
   the client was exactly current - a second full Sync repairs it *)
Definition all_fixed : pcfg := {| p_codec := all4; p_mut := false; p_hello_m := true; p_sync_m := true |}.
Definition r3_a := sn [1;0;0;0] 2 0.
Definition r3_b := sn [1;1;0;0] 3 0.

Theorem sync_not_memorised_refuted_lemma :
  exists (p : pcfg) (s0 a b : snap),
    p_mut p = false /\ shallow (p_codec p) = false /\
    cfg_wf (p_codec p) (length (s_time s0)) = true /\
    chain_in_range s0 [a; b] = true /\ s_m s0 = 0 /\
    let st1 := exec p (init p s0) [Src a; SyncReq; Settle] in
    let st := exec p st1 [Src b; Push; Settle] in
    client_view st1 = (mirror (p_codec p) a, s_q a, s_m a) /\
    st_rejpush st1 = false /\ st_rejpush st = true /\
    client_view st = (mirror (p_codec p) b, s_q b, s_m b) /\ quiescent st = true.
Proof.
  exists all_fixed, r1_s0, r3_a, r3_b.
  repeat split; vm_compute; reflexivity.
Qed.

(* (R4) RemoteSync returns the unfiltered time: with an allow list (and a
   schema) the synced mirror carries untracked ticks, the client's checksum
   covers them, and EVERY later push is rejected and answered by another full
   Sync; the synchronised states are right each time *)
Definition part4 : cfg := {| sync_schema := true; shallow := false; tracked := [0;1]%nat |}.
Definition partp : pcfg := {| p_codec := part4; p_mut := false; p_hello_m := true; p_sync_m := true |}.
Definition r6_a := sn [1;0;1;0] 3 0.
Definition r6_b := sn [1;1;1;0] 4 0.
Definition r6_c := sn [2;1;1;0] 5 0.

Theorem full_sync_partial_refuted_lemma :
  exists (p : pcfg) (s0 a b c : snap),
    p_mut p = false /\ shallow (p_codec p) = false /\
    cfg_wf (p_codec p) (length (s_time s0)) = true /\
    chain_in_range s0 [a; b; c] = true /\ s_m s0 = 0 /\
    let st1 := exec p (init p s0) [Src a; SyncReq; Settle] in
    let st2 := exec p st1 [Src b; Push; Settle] in
    let st3 := exec p (set_flags st2 false false false 0%nat) [Src c; Push; Settle] in
    cl_t (st_cl st1) <> mirror (p_codec p) a /\
    st_rejpush st2 = true /\ mirror_ok (p_codec p) (s_time b) (cl_t (st_cl st2)) = true /\
    cl_t (st_cl st2) <> mirror (p_codec p) b /\
    st_rejpush st3 = true /\ st_synced st3 = true /\
    mirror_ok (p_codec p) (s_time c) (cl_t (st_cl st3)) = true.
Proof.
  exists partp, r1_s0, r6_a, r6_b, r6_c.
  repeat split; try (vm_compute; reflexivity); vm_compute; discriminate.
Qed.

(* (R5) shallow clocks: every push is rejected (C10) and costs a full Sync *)
Definition shp : pcfg :=
  {| p_codec := {| sync_schema := true; shallow := true; tracked := [0;1;2;3]%nat |};
     p_mut := false; p_hello_m := true; p_sync_m := true |}.

Theorem shallow_push_rejected_refuted_lemma :
  exists (p : pcfg) (s0 a b : snap),
    p_mut p = false /\ shallow (p_codec p) = true /\
    cfg_wf (p_codec p) (length (s_time s0)) = true /\
    chain_in_range s0 [a; b] = true /\ s_m s0 = 0 /\
    let st1 := exec p (init p s0) [Src a; Push; Settle] in
    let st2 := exec p (set_flags st1 false false false 0%nat) [Src b; Push; Settle] in
    st_rejpush st1 = true /\ st_synced st1 = true /\
    mirror_ok (p_codec p) (s_time a) (cl_t (st_cl st1)) = true /\
    st_rejpush st2 = true /\ st_synced st2 = true /\
    mirror_ok (p_codec p) (s_time b) (cl_t (st_cl st2)) = true.
Proof.
  exists shp, r1_s0, r3_a, r3_b.
  repeat split; vm_compute; reflexivity.
Qed.

(* (R6) the unrepaired client (HandshakeDone ignores the Hello's MachineTick,
   RemoteSync sends none): on a source with MachineTick 1 every push is
   rejected and the full Sync leaves machine tick 0 again *)
Definition r7_s0 := sn [0;0;0;0] 1 1.
Definition r7_a := sn [1;0;0;0] 2 1.
Definition r7_b := sn [1;1;0;0] 3 1.

Theorem hello_machtick_refuted_lemma :
  exists (p : pcfg) (s0 a b : snap),
    p_mut p = false /\ shallow (p_codec p) = false /\ p_hello_m p = false /\ p_sync_m p = false /\
    cfg_wf (p_codec p) (length (s_time s0)) = true /\
    chain_in_range s0 [a; b] = true /\ s_m s0 = 1 /\
    let st1 := exec p (init p s0) [Src a; Push; Settle] in
    let st2 := exec p (set_flags st1 false false false 0%nat) [Src b; Push; Settle] in
    st_rejpush st1 = true /\ cl_m (st_cl st1) = 0 /\
    st_rejpush st2 = true /\ cl_m (st_cl st2) = 0 /\
    mirror_ok (p_codec p) (s_time b) (cl_t (st_cl st2)) = true.
Proof.
  exists plain, r7_s0, r7_a, r7_b.
  repeat split; vm_compute; reflexivity.
Qed.

(* positive instances of what the repairs changed (the old witnesses) *)
Definition mutp : pcfg := {| p_codec := all4; p_mut := true; p_hello_m := true; p_sync_m := true |}.
Definition r5_c := sn [1;1;1;0] 4 0.
Definition h_s0 := sn [1;0;0;0] 2 0.

(* e5ad5bb: per-mutation sync, three exports in order: exact ticks *)
Lemma mutation_queue_flushed_example :
  let st := exec mutp (init mutp r1_s0)
              [Src r3_a; Push; Settle; Src r3_b; Push; Settle; Src r5_c; Push; Settle] in
  client_view st = (mirror all4 r5_c, s_q r5_c, s_m r5_c) /\ st_rejpush st = false /\
  sv_queue (st_sv st) = [] /\ quiescent st = true.
Proof. vm_compute. repeat split; reflexivity. Qed.

(* 4b9897e + ca3c269: per-mutation sync on a source with history *)
Lemma mutations_history_example :
  let st := exec mutp (init mutp h_s0) [Push; Settle; Src r3_b; Push; Settle] in
  client_view st = (mirror all4 r3_b, s_q r3_b, s_m r3_b) /\ cl_stuck (st_cl st) = false /\
  st_rejpush st = false.
Proof. vm_compute. repeat split; reflexivity. Qed.

(* 8ad26fe: a push that only moves the queue tick is delivered *)
Lemma queue_tick_only_push_example :
  let b := sn [1;0;0;0] 3 0 in
  let st := exec all_fixed (init all_fixed r1_s0)
              [Src r3_a; Push; Settle; Src b; Push; Settle; Src (sn [1;1;0;0] 4 0); Push; Settle] in
  client_view st = ([1;1;0;0], 4, 0) /\ st_rejpush st = false /\ st_npush st = 3%nat.
Proof. vm_compute. repeat split; reflexivity. Qed.

(* ================= protocol theorems (for all configurations, snapshots,
   histories): in-order convergence, visibility on return, drift handling,
   the general reorder theorem ================= *)

Import C10Proofs.

Lemma calc_update_explicit : forall c s1 s2 hello,
  shallow c = false ->
  length (s_time s1) = length (s_time s2) ->
  cfg_wf c (length (s_time s1)) = true ->
  snaps_in_range s1 s2 = true ->
  calc_update c false (mk_data c s2) (last_data c hello s1)
  = Some (mk_upd (deep_prs c s1 s2) (s_q s2 - s_q s1) (s_m s2 - s_m s1)
            (checksum (sum64 (filter_time (s_time s2) (tracked c))) (s_q s2) (s_m s2))).
Proof.
  intros c s1 s2 hello Hsh Hlen Hwf Hrng.
  destruct (snaps_in_range_inv s1 s2 Hrng) as [Hdl [Hq1 [Hq2 [Hq3 [Hm1 [Hm2 Hm3]]]]]].
  set (n := length (s_time s1)) in *.
  unfold calc_update. rewrite (mk_data_deep c s2 Hsh).
  cbn [d_mtime d_q d_m d_check].
  assert (HA : exists A, d_mtime (last_data c hello s1) = Some A /\
             length A = clen c n /\
             (forall p, In p (client_tracked c) -> nth p A 0 = nth p (mirror c s1) 0) /\
             d_q (last_data c hello s1) = s_q s1 /\
             d_m (last_data c hello s1) = s_m s1).
  { unfold last_data. destruct hello.
    - exists (mirror c s1). cbn [hello_data d_mtime d_q d_m].
      repeat split; try reflexivity.
      apply (mirror_length c n s1 eq_refl).
    - exists (srv_time c s1). rewrite (mk_data_deep c s1 Hsh).
      cbn [d_mtime d_q d_m]. repeat split; try reflexivity.
      + apply (srv_time_length c n s1 eq_refl).
      + intros p Hp. rewrite (mirror_nth c n Hwf s1 eq_refl p Hp).
        now rewrite (srv_time_nth c n s1 eq_refl p Hp). }
  destruct HA as [A [HA1 [HA2 [HA3 [HA4 HA5]]]]].
  rewrite HA1, HA4, HA5.
  rewrite (gen_deep_ok c s1 s2 Hlen Hwf A HA2 HA3).
  rewrite (q_delta _ _ Hq1 Hq2 Hq3). rewrite (m_delta _ _ Hm1 Hm2 Hm3).
  reflexivity.
Qed.

Lemma roundtrip_explicit : forall c s1 s2,
  shallow c = false ->
  length (s_time s1) = length (s_time s2) ->
  cfg_wf c (length (s_time s1)) = true ->
  snaps_in_range s1 s2 = true ->
  client_apply c (mk_upd (deep_prs c s1 s2) (s_q s2 - s_q s1) (s_m s2 - s_m s1)
            (checksum (sum64 (filter_time (s_time s2) (tracked c))) (s_q s2) (s_m s2)))
     (mirror c s1) (s_q s1) (s_m s1)
  = Some (mirror c s2, s_q s2, s_m s2, true).
Proof.
  intros c s1 s2 Hsh Hlen Hwf Hrng.
  destruct (roundtrip_deep_eq c s1 s2 false Hsh Hlen Hwf Hrng) as [u [Hu Ha]].
  rewrite (calc_update_explicit c s1 s2 false Hsh Hlen Hwf Hrng) in Hu.
  injection Hu as Hu. now subst u.
Qed.

(* some synchronised tick changed => the diff has an index *)
Lemma changed_prs : forall c s1 s2,
  length (s_time s1) = length (s_time s2) ->
  cfg_wf c (length (s_time s1)) = true ->
  tracked_changed c s1 s2 = true ->
  deep_prs c s1 s2 <> [].
Proof.
  intros c s1 s2 Hlen Hwf Hch. unfold tracked_changed in Hch.
  apply existsb_exists in Hch. destruct Hch as [i [Hi Hne]].
  apply negb_true_iff, N.eqb_neq in Hne.
  set (n := length (s_time s1)) in *.
  (* the client position of machine index i *)
  assert (Hp : exists pp, In pp (client_tracked c) /\ sigma c pp = i).
  { unfold client_tracked, sigma. destruct (sync_schema c).
    - exists i. split; [exact Hi|reflexivity].
    - destruct (In_nth _ _ 0%nat Hi) as [k [Hk Hnth]].
      exists k. split; [apply in_seq; lia|exact Hnth]. }
  destruct Hp as [pp [Hpp Hs]].
  assert (Hd : nth pp (mirror c s1) 0 <> nth pp (srv_time c s2) 0).
  { rewrite (mirror_nth c n Hwf s1 eq_refl pp Hpp).
    rewrite (srv_time_nth c n s2 (eq_sym Hlen) pp Hpp). now rewrite Hs. }
  unfold deep_prs. intros He.
  pose proof (deep_pairs_in (mirror c s1) (srv_time c s2) (client_tracked c) pp Hpp Hd) as Hin.
  rewrite He in Hin. destruct Hin.
Qed.

Lemma d_q_last : forall c h x, d_q (last_data c h x) = s_q x.
Proof. intros c [|] x; reflexivity. Qed.
Lemma d_q_mk : forall c y, d_q (mk_data c y) = s_q y.
Proof. reflexivity. Qed.
Lemma last_data_false : forall c x, last_data c false x = mk_data c x.
Proof. reflexivity. Qed.
Lemma calc_upd_mk : forall p y last, shallow (p_codec p) = false ->
  calc_upd p (mk_data (p_codec p) y) last = calc_update (p_codec p) false (mk_data (p_codec p) y) last.
Proof. intros p y last H. unfold calc_upd. rewrite (mk_data_deep _ y H). cbn [d_mtime]. now rewrite H. Qed.
Lemma idx_of_nil : forall prs, idx_of prs = [] -> prs = [].
Proof. intros [|a r] H; [reflexivity|discriminate]. Qed.
Lemma mk_data_some : forall c y, exists t, d_mtime (mk_data c y) = Some t.
Proof. intros. eexists. reflexivity. Qed.

Lemma cl_update_acc : forall p c u t' q' m',
  client_apply (p_codec p) u (cl_t c) (cl_q c) (cl_m c) = Some (t', q', m', true) -> t' <> [] ->
  cl_update p c u = Some (mk_client t' q' m' (cl_stuck c) (cl_need c) (cl_errs c), true).
Proof.
  intros p c u t' q' m' H Hn. unfold cl_update. rewrite H.
  destruct t' as [|a r]; [congruence|reflexivity].
Qed.

Lemma mirror_nonempty : forall c y, cfg_wf c (length (s_time y)) = true -> tracked c <> [] ->
  mirror c y <> [].
Proof.
  intros c y Hwf Ht Hm.
  pose proof (mirror_length c _ y eq_refl) as Hl. rewrite Hm in Hl. cbn in Hl.
  unfold clen in Hl. destruct (tracked c) as [|i r] eqn:E; [congruence|].
  destruct (sync_schema c).
  - assert (Hi : (i < length (s_time y))%nat) by (apply (wf_all_lt c _ Hwf); rewrite E; now left). lia.
  - cbn in Hl. lia.
Qed.

Local Opaque client_apply calc_update calc_update_muts w8 w16 w32 w64 hello_time mk_data mirror checksum.

Definition synced_l (p : pcfg) (s : st) (x : snap) (hello : bool) : Prop :=
  st_err s = false /\ st_wire s = [] /\ st_pend s = None /\ st_conn s = true /\
  cl_stuck (st_cl s) = false /\ cl_need (st_cl s) = false /\
  client_view s = (mirror (p_codec p) x, s_q x, s_m x) /\
  sv_last (st_sv s) = last_data (p_codec p) hello x.

Lemma mk_data_mtime : forall c y, shallow c = false ->
  d_mtime (mk_data c y) = Some (srv_time c y).
Proof. intros c y H. now rewrite (mk_data_deep c y H). Qed.

Lemma push_round : forall p s x y hello,
  p_mut p = false -> shallow (p_codec p) = false ->
  synced_l p s x hello ->
  sv_latest (st_sv s) = Some (mk_data (p_codec p) y) ->
  length (s_time x) = length (s_time y) ->
  cfg_wf (p_codec p) (length (s_time x)) = true ->
  snaps_in_range x y = true ->
  s_q x <> s_q y ->
  tracked (p_codec p) <> [] ->
  synced_l p (exec p s [Push; Settle]) y false.
Proof.
  intros p s x y hello Hmut Hsh Hsy Hlat Hlen Hwf Hrng Hq Htr.
  destruct Hsy as [He [Hw [Hpe [Hco [Hst [Hne [Hv Hl]]]]]]].
  destruct s as [sv cl wire pend cur err sil rej syn np conn ip].
  destruct cl as [t q m stuck need errs]. destruct sv as [last latest queue].
  unfold client_view in Hv. cbn in He, Hw, Hpe, Hco, Hst, Hne, Hv, Hl, Hlat.
  injection Hv as Ht Hq' Hm'. subst err wire pend conn stuck need t q m last latest.
  unfold exec. cbn [fold_left]. unfold step at 2. cbn [st_err].
  unfold do_push.
  cbn [st_sv st_conn negb sv_latest sv_last].
  rewrite d_q_last, d_q_mk.
  replace (s_q x =? s_q y) with false by (symmetry; now apply N.eqb_neq).
  rewrite andb_false_r, Hmut.
  destruct (mk_data_some (p_codec p) y) as [ty Hty]. rewrite Hty.
  rewrite (calc_upd_mk p y _ Hsh).
  rewrite (calc_update_explicit _ x y hello Hsh Hlen Hwf Hrng).
  pose proof (roundtrip_explicit _ x y Hsh Hlen Hwf Hrng) as HR.
  remember (mk_upd (deep_prs (p_codec p) x y) (s_q y - s_q x) (s_m y - s_m x)
             (checksum (sum64 (filter_time (s_time y) (tracked (p_codec p)))) (s_q y) (s_m y))) as U eqn:EU.
  clear EU.
  cbn.
  erewrite cl_update_acc;
    [|exact HR|apply mirror_nonempty; [now rewrite <- Hlen|exact Htr]].
  cbn. unfold synced_l, client_view. cbn. repeat split; reflexivity.
Qed.

Lemma src_step : forall p s x y hello,
  p_mut p = false -> synced_l p s x hello ->
  synced_l p (step p s (Src y)) x hello /\
  sv_latest (st_sv (step p s (Src y))) = Some (mk_data (p_codec p) y).
Proof.
  intros p s x y hello Hmut Hsy.
  destruct Hsy as [He [Hw [Hpe [Hco [Hst [Hne [Hv Hl]]]]]]].
  unfold step. rewrite He. unfold do_src. rewrite Hmut.
  unfold synced_l, client_view in *. cbn. repeat split; assumption.
Qed.

Lemma srcs_steps : forall p mid s x hello,
  p_mut p = false -> synced_l p s x hello ->
  synced_l p (exec p s (map Src mid)) x hello.
Proof.
  intros p mid. induction mid as [|a r IH]; intros s x hello Hmut Hsy; [exact Hsy|].
  cbn [map]. rewrite exec_cons. apply IH; [exact Hmut|].
  now apply src_step.
Qed.

(* the client-issued round: when the reply has been processed (the call
   returns) the mirror is the snapshot the reply was computed from *)
Lemma reply_round : forall p s x y hello,
  p_mut p = false -> shallow (p_codec p) = false ->
  synced_l p s x hello ->
  sv_latest (st_sv s) = Some (mk_data (p_codec p) y) ->
  length (s_time x) = length (s_time y) ->
  cfg_wf (p_codec p) (length (s_time x)) = true ->
  snaps_in_range x y = true ->
  tracked (p_codec p) <> [] ->
  synced_l p (exec p s [Reply; Write; Deliver]) y false /\
  exec p s [Reply; Write; Settle] = exec p s [Reply; Write; Deliver].
Proof.
  intros p s x y hello Hmut Hsh Hsy Hlat Hlen Hwf Hrng Htr.
  destruct Hsy as [He [Hw [Hpe [Hco [Hst [Hne [Hv Hl]]]]]]].
  destruct s as [sv cl wire pend cur err sil rej syn np conn ip].
  destruct cl as [t q m stuck need errs]. destruct sv as [last latest queue].
  unfold client_view in Hv. cbn in He, Hw, Hpe, Hco, Hst, Hne, Hv, Hl, Hlat.
  injection Hv as Ht Hq' Hm'. subst err wire pend conn stuck need t q m last latest.
  pose proof (roundtrip_explicit _ x y Hsh Hlen Hwf Hrng) as HR.
  assert (Hnn : mirror (p_codec p) y <> [])
    by (apply mirror_nonempty; [now rewrite <- Hlen|exact Htr]).
  remember (mk_upd (deep_prs (p_codec p) x y) (s_q y - s_q x) (s_m y - s_m x)
             (checksum (sum64 (filter_time (s_time y) (tracked (p_codec p)))) (s_q y) (s_m y))) as U eqn:EU.
  match goal with |- context [exec p ?S _] => set (S0 := S) end.
  assert (E1 : step p S0 Reply
               = set_pend (set_sv S0 (mk_server (mk_data (p_codec p) y)
                                        (Some (mk_data (p_codec p) y)) queue))
                          (Some (RUpd U))).
  { unfold step, do_reply. subst S0. cbn [st_err st_sv sv_latest sv_last sv_queue]. rewrite Hmut.
    rewrite (calc_upd_mk p y _ Hsh).
    rewrite (calc_update_explicit _ x y hello Hsh Hlen Hwf Hrng). now rewrite <- EU. }
  clear EU.
  rewrite !exec_cons, !exec_nil, E1. subst S0.
  cbn.
  erewrite cl_update_acc; [|exact HR|exact Hnn].
  cbn. split; [|reflexivity].
  unfold synced_l, client_view. cbn. repeat split; reflexivity.
Qed.

(* ---------------------------------------------------------------- rounds *)

Lemma init_synced : forall p x,
  (p_hello_m p = true \/ s_m x = 0) -> synced_l p (init p x) x true.
Proof.
  intros p x Hm. unfold synced_l, init, client_view. cbn.
  repeat split; try reflexivity.
  destruct Hm as [Hm|Hm]; [now rewrite Hm|].
  rewrite Hm. now destruct (p_hello_m p).
Qed.

Lemma round_step : forall p s x hello r,
  p_mut p = false -> shallow (p_codec p) = false ->
  cfg_wf (p_codec p) (length (s_time x)) = true -> tracked (p_codec p) <> [] ->
  synced_l p s x hello ->
  length (s_time x) = length (s_time (round_end r)) ->
  snaps_in_range x (round_end r) = true ->
  match r with
  | RPush _ y => s_q x <> s_q y
  | RReply _ _ => True
  end ->
  synced_l p (exec p s (round_events r)) (round_end r) false.
Proof.
  intros p s x hello r Hmut Hsh Hwf Htr Hsy Hlen Hrng Hr.
  destruct r as [mid y|mid y]; cbn [round_events round_end] in *.
  - rewrite exec_app, exec_cons.
    pose proof (srcs_steps p mid s x hello Hmut Hsy) as H1.
    destruct (src_step p _ x y hello Hmut H1) as [H2 H3].
    now apply (push_round p _ x y hello).
  - rewrite exec_app, exec_cons.
    pose proof (srcs_steps p mid s x hello Hmut Hsy) as H1.
    destruct (src_step p _ x y hello Hmut H1) as [H2 H3].
    destruct (reply_round p _ x y hello Hmut Hsh H2 H3 Hlen Hwf Hrng Htr) as [H4 H5].
    now rewrite H5.
Qed.

Lemma rounds_synced : forall p rs s x hello,
  p_mut p = false -> shallow (p_codec p) = false ->
  cfg_wf (p_codec p) (length (s_time x)) = true -> tracked (p_codec p) <> [] ->
  synced_l p s x hello -> rounds_ok (p_codec p) x rs ->
  exists h', synced_l p (exec p s (flat_map round_events rs)) (last_end x rs) h'.
Proof.
  intros p rs. induction rs as [|r rest IH]; intros s x hello Hmut Hsh Hwf Htr Hsy Hok.
  - exists hello. exact Hsy.
  - cbn [flat_map last_end]. rewrite exec_app.
    cbn [rounds_ok] in Hok. destruct Hok as [Hlen [Hrng [Hr Hrest]]].
    apply (IH _ (round_end r) false Hmut Hsh); [now rewrite <- Hlen|exact Htr| |exact Hrest].
    apply (round_step p s x hello r); try assumption. destruct r; exact Hr.
Qed.

(* the synchronised entries of mirror c y are the source's *)
Lemma mirror_tracked : forall c y, cfg_wf c (length (s_time y)) = true ->
  mir_tracked c (mirror c y) = src_tracked c (s_time y).
Proof.
  intros c y Hwf. unfold mir_tracked, src_tracked, filter_time.
  assert (H : forall pp, In pp (client_tracked c) ->
            nth pp (mirror c y) 0 = nth (sigma c pp) (s_time y) 0)
    by (intros pp Hp; now apply (mirror_nth c _ Hwf y eq_refl)).
  rewrite (map_ext_in _ _ _ H).
  unfold client_tracked, sigma. destruct (sync_schema c); [reflexivity|].
  rewrite <- (map_map (fun pp => nth pp (tracked c) 0%nat) (fun i => nth i (s_time y) 0)).
  f_equal. clear. induction (tracked c) as [|a r IH]; [reflexivity|].
  cbn [length seq map nth]. f_equal. rewrite <- seq_shift, map_map. exact IH.
Qed.

Lemma synced_mirror_ok : forall p s y h,
  shallow (p_codec p) = false -> cfg_wf (p_codec p) (length (s_time y)) = true ->
  synced_l p s y h -> mirror_ok (p_codec p) (s_time y) (cl_t (st_cl s)) = true.
Proof.
  intros p s y h Hsh Hwf Hsy. destruct Hsy as [_ [_ [_ [_ [_ [_ [Hv _]]]]]]].
  unfold client_view in Hv. injection Hv as Ht _ _. rewrite Ht.
  unfold mirror_ok, ticks_ok. rewrite Hsh, (mirror_tracked _ y Hwf).
  apply list_N_eqb_refl.
Qed.

Lemma last_end_length : forall c rs x, rounds_ok c x rs ->
  length (s_time (last_end x rs)) = length (s_time x).
Proof.
  intros c rs. induction rs as [|r rest IH]; intros x H; [reflexivity|].
  cbn [last_end]. cbn [rounds_ok] in H. destruct H as [Hl [_ [_ Hr]]].
  rewrite (IH _ Hr). now symmetry.
Qed.

Theorem inorder_converges_lemma : forall p s0 rs,
  p_mut p = false -> shallow (p_codec p) = false ->
  cfg_wf (p_codec p) (length (s_time s0)) = true -> tracked (p_codec p) <> [] ->
  (p_hello_m p = true \/ s_m s0 = 0) ->
  rounds_ok (p_codec p) s0 rs ->
  let st := exec p (init p s0) (flat_map round_events rs) in
  let y := last_end s0 rs in
  client_view st = (mirror (p_codec p) y, s_q y, s_m y) /\
  mirror_ok (p_codec p) (s_time y) (cl_t (st_cl st)) = true /\
  quiescent st = true /\ st_err st = false /\ cl_stuck (st_cl st) = false.
Proof.
  intros p s0 rs Hmut Hsh Hwf Htr Hm Hok st y.
  destruct (rounds_synced p rs (init p s0) s0 true Hmut Hsh Hwf Htr (init_synced p s0 Hm) Hok)
    as [h' Hsy].
  fold st in Hsy. fold y in Hsy.
  assert (Hwfy : cfg_wf (p_codec p) (length (s_time y)) = true)
    by (unfold y; now rewrite (last_end_length _ rs s0 Hok)).
  pose proof (synced_mirror_ok p st y h' Hsh Hwfy Hsy) as Hmo.
  destruct Hsy as [He [Hw [Hpe [Hco [Hst [Hne [Hv Hl]]]]]]].
  repeat split; try assumption.
  unfold quiescent. now rewrite Hw, Hpe, Hne.
Qed.

Lemma cl_update_rej : forall p c u,
  rejected (client_apply (p_codec p) u (cl_t c) (cl_q c) (cl_m c)) = true ->
  cl_update p c u = Some (c, false).
Proof.
  intros p c u H. unfold cl_update.
  destruct (client_apply (p_codec p) u (cl_t c) (cl_q c) (cl_m c)) as [[[[t' q'] m'] acc]|];
    [|discriminate].
  cbn in H. apply negb_true_iff in H. now rewrite H.
Qed.

Local Opaque client_apply calc_update calc_update_muts w8 w16 w32 w64 hello_time mk_data mirror checksum.

(* the server's view is consistent with snapshot x, the client holds anything *)
Definition srv_at_l (p : pcfg) (s : st) (x : snap) (hello : bool) : Prop :=
  st_err s = false /\ st_wire s = [] /\ st_pend s = None /\ st_conn s = true /\
  cl_stuck (st_cl s) = false /\ cl_need (st_cl s) = false /\
  sv_last (st_sv s) = last_data (p_codec p) hello x.

Lemma settle_eq : forall p f s,
  settle p (S f) s =
  let s2 := do_sync_serve p s in
  match st_wire s2 with
  | [] => s2
  | _ => if cl_stuck (st_cl s2) then s2 else settle p f (do_deliver p s2)
  end.
Proof. reflexivity. Qed.

Local Opaque cl_sync settle.

(* the client side of a rejected push: a Sync is requested (86fb806), served
   and applied *)
Lemma rejected_push_settles : forall p sv t q m errs cur sil rej syn np ip u f,
  cl_update p ({| cl_t := t; cl_q := q; cl_m := m; cl_stuck := false; cl_need := false; cl_errs := errs |}) u = Some ({| cl_t := t; cl_q := q; cl_m := m; cl_stuck := false; cl_need := false; cl_errs := errs |}, false) ->
  s_time cur <> [] -> length (s_time cur) = length t ->
  settle p (S (S (S f)))
    {| st_sv := sv; st_cl := {| cl_t := t; cl_q := q; cl_m := m; cl_stuck := false; cl_need := false; cl_errs := errs |}; st_wire := [WPush u];
       st_pend := None; st_cur := cur; st_err := false; st_silent := sil; st_rejpush := rej;
       st_synced := syn; st_npush := np; st_conn := true; st_initpush := ip |}
  = {| st_sv := sv;
       st_cl := {| cl_t := s_time cur; cl_q := s_q cur; cl_m := if p_sync_m p then s_m cur else 0; cl_stuck := false; cl_need := false; cl_errs := errs |};
       st_wire := []; st_pend := None; st_cur := cur; st_err := false; st_silent := sil;
       st_rejpush := true; st_synced := true; st_npush := np; st_conn := true; st_initpush := ip |}.
Proof.
  intros p sv t q m errs cur sil rej syn np ip u f Hu Hne Hl.
  rewrite settle_eq. cbn -[cl_sync settle cl_update].
  rewrite Hu. cbn -[cl_sync settle cl_update].
  rewrite settle_eq. cbn -[cl_sync settle cl_update].
  rewrite cl_sync_ok by (cbn; assumption).
  rewrite settle_eq. cbn -[cl_sync settle cl_update].
  reflexivity.
Qed.

(* a detected drift on the push path is repaired as well (86fb806): the diff is
   rejected, the client requests a full Sync and ends up with the source's
   time; the server believes snapshot y *)
Lemma push_drift_resyncs_lemma : forall p s x y hello,
  p_mut p = false -> shallow (p_codec p) = false ->
  srv_at_l p s x hello ->
  sv_latest (st_sv s) = Some (mk_data (p_codec p) y) -> st_cur s = y ->
  length (s_time x) = length (s_time y) ->
  cfg_wf (p_codec p) (length (s_time x)) = true ->
  snaps_in_range x y = true ->
  s_q x <> s_q y ->
  length (cl_t (st_cl s)) = length (mirror (p_codec p) x) ->
  Forall (fun v => v < w64) (cl_t (st_cl s)) -> cl_q (st_cl s) < w64 -> cl_m (st_cl s) < w32 ->
  drifted (p_codec p) x (cl_t (st_cl s)) (cl_q (st_cl s)) (cl_m (st_cl s)) = true ->
  s_time y <> [] -> length (s_time y) = length (cl_t (st_cl s)) ->
  let s' := exec p s [Push; Settle] in
  client_view s' = (s_time y, s_q y, if p_sync_m p then s_m y else 0) /\
  st_rejpush s' = true /\ st_synced s' = true /\ quiescent s' = true /\ st_err s' = false /\
  sv_last (st_sv s') = mk_data (p_codec p) y.
Proof.
  intros p s x y hello Hmut Hsh Hsa Hlat Hcur Hlen Hwf Hrng Hq Hlt Hb1 Hb2 Hb3 Hdr Hne0 Hly s'.
  destruct Hsa as [He [Hw [Hpe [Hco [Hst [Hne Hl]]]]]].
  destruct s as [sv cl wire pend cur err sil rej syn np conn ip].
  destruct cl as [t q m stuck need errs]. destruct sv as [last latest queue].
  cbn in He, Hw, Hpe, Hco, Hst, Hne, Hl, Hlat, Hlt, Hb1, Hb2, Hb3, Hdr, Hcur, Hly.
  subst err wire pend conn stuck need last latest cur.
  destruct (checksum_detects_lemma (p_codec p) x y hello t q m Hsh Hlen Hwf Hrng Hlt Hb1 Hb2 Hb3 Hdr)
    as [u [Hu Hrej]].
  assert (Hu' : last_data (p_codec p) hello x = (if hello then hello_data (p_codec p) x else mk_data (p_codec p) x))
    by reflexivity.
  rewrite <- Hu' in Hu.
  assert (Hcu : cl_update p {| cl_t := t; cl_q := q; cl_m := m; cl_stuck := false; cl_need := false; cl_errs := errs |} u
                = Some ({| cl_t := t; cl_q := q; cl_m := m; cl_stuck := false; cl_need := false; cl_errs := errs |}, false))
    by (apply cl_update_rej; exact Hrej).
  eassert (E : s' = _).
  { subst s'.
    match goal with |- context [exec p ?S _] => set (S0 := S) end.
    assert (E1 : step p S0 Push
               = set_wire (set_sv (set_flags S0 sil rej syn (S np))
                                  (mk_server (mk_data (p_codec p) y)
                                     (Some (mk_data (p_codec p) y)) queue))
                          [WPush u]).
    { unfold step, do_push. subst S0.
      cbn [st_err st_conn negb st_sv sv_latest sv_last sv_queue st_wire app
           st_silent st_rejpush st_synced st_npush].
      destruct (mk_data_some (p_codec p) y) as [ty Hty]. rewrite Hty.
      rewrite d_q_last, d_q_mk.
      replace (s_q x =? s_q y) with false by (symmetry; now apply N.eqb_neq).
      rewrite andb_false_r, Hmut.
      rewrite (calc_upd_mk p y _ Hsh). now rewrite Hu. }
    rewrite !exec_cons, !exec_nil, E1. subst S0.
    unfold step. cbn -[cl_sync settle cl_update].
    unfold set_wire, set_sv, set_flags.
    cbn [st_sv st_cl st_wire st_pend st_cur st_err st_silent st_rejpush st_synced st_npush st_conn st_initpush].
    rewrite (rejected_push_settles p _ t q m errs y sil rej syn (S np) ip u _ Hcu Hne0 Hly).
    reflexivity. }
  rewrite E. unfold client_view, quiescent. cbn. repeat split; reflexivity.
Qed.

(* the client side of a rejected reply: Sync requested, served, applied *)
Lemma rejected_reply_settles : forall p sv t q m errs cur sil rej syn np ip u f,
  cl_update p ({| cl_t := t; cl_q := q; cl_m := m; cl_stuck := false; cl_need := false; cl_errs := errs |}) u = Some ({| cl_t := t; cl_q := q; cl_m := m; cl_stuck := false; cl_need := false; cl_errs := errs |}, false) ->
  s_time cur <> [] -> length (s_time cur) = length t ->
  settle p (S (S (S f)))
    {| st_sv := sv; st_cl := {| cl_t := t; cl_q := q; cl_m := m; cl_stuck := false; cl_need := false; cl_errs := errs |}; st_wire := [WReply (RUpd u)];
       st_pend := None; st_cur := cur; st_err := false; st_silent := sil; st_rejpush := rej;
       st_synced := syn; st_npush := np; st_conn := true; st_initpush := ip |}
  = {| st_sv := sv;
       st_cl := {| cl_t := s_time cur; cl_q := s_q cur; cl_m := if p_sync_m p then s_m cur else 0; cl_stuck := false; cl_need := false; cl_errs := errs |};
       st_wire := []; st_pend := None; st_cur := cur; st_err := false; st_silent := sil;
       st_rejpush := rej; st_synced := true; st_npush := np; st_conn := true; st_initpush := ip |}.
Proof.
  intros p sv t q m errs cur sil rej syn np ip u f Hu Hne Hl.
  rewrite settle_eq. cbn -[cl_sync settle cl_update].
  rewrite Hu. cbn -[cl_sync settle cl_update].
  rewrite settle_eq. cbn -[cl_sync settle cl_update].
  rewrite cl_sync_ok by (cbn; assumption).
  rewrite settle_eq. cbn -[cl_sync settle cl_update].
  reflexivity.
Qed.

Lemma reply_drift_resyncs_lemma : forall p s x y hello,
  p_mut p = false -> shallow (p_codec p) = false ->
  srv_at_l p s x hello ->
  sv_latest (st_sv s) = Some (mk_data (p_codec p) y) -> st_cur s = y ->
  length (s_time x) = length (s_time y) ->
  cfg_wf (p_codec p) (length (s_time x)) = true ->
  snaps_in_range x y = true ->
  length (cl_t (st_cl s)) = length (mirror (p_codec p) x) ->
  Forall (fun v => v < w64) (cl_t (st_cl s)) -> cl_q (st_cl s) < w64 -> cl_m (st_cl s) < w32 ->
  drifted (p_codec p) x (cl_t (st_cl s)) (cl_q (st_cl s)) (cl_m (st_cl s)) = true ->
  s_time y <> [] -> length (s_time y) = length (cl_t (st_cl s)) ->
  let s' := exec p s [Reply; Write; Settle] in
  client_view s' = (s_time y, s_q y, if p_sync_m p then s_m y else 0) /\
  st_synced s' = true /\ quiescent s' = true /\ st_err s' = false /\
  sv_last (st_sv s') = mk_data (p_codec p) y.
Proof.
  intros p s x y hello Hmut Hsh Hsa Hlat Hcur Hlen Hwf Hrng Hlt Hb1 Hb2 Hb3 Hdr Hne0 Hly s'.
  destruct Hsa as [He [Hw [Hpe [Hco [Hst [Hne Hl]]]]]].
  destruct s as [sv cl wire pend cur err sil rej syn np conn ip].
  destruct cl as [t q m stuck need errs]. destruct sv as [last latest queue].
  cbn in He, Hw, Hpe, Hco, Hst, Hne, Hl, Hlat, Hlt, Hb1, Hb2, Hb3, Hdr, Hcur, Hly.
  subst err wire pend conn stuck need last latest cur.
  destruct (checksum_detects_lemma (p_codec p) x y hello t q m Hsh Hlen Hwf Hrng Hlt Hb1 Hb2 Hb3 Hdr)
    as [u [Hu Hrej]].
  assert (Hu' : last_data (p_codec p) hello x = (if hello then hello_data (p_codec p) x else mk_data (p_codec p) x))
    by reflexivity.
  rewrite <- Hu' in Hu.
  assert (Hcu : cl_update p {| cl_t := t; cl_q := q; cl_m := m; cl_stuck := false; cl_need := false; cl_errs := errs |} u
                = Some ({| cl_t := t; cl_q := q; cl_m := m; cl_stuck := false; cl_need := false; cl_errs := errs |}, false))
    by (apply cl_update_rej; exact Hrej).
  eassert (E : s' = _).
  { subst s'.
    match goal with |- context [exec p ?S _] => set (S0 := S) end.
    assert (E1 : step p S0 Reply
               = set_pend (set_sv S0 (mk_server (mk_data (p_codec p) y)
                                        (Some (mk_data (p_codec p) y)) queue))
                          (Some (RUpd u))).
    { unfold step, do_reply. subst S0. cbn [st_err st_sv sv_latest sv_last sv_queue]. rewrite Hmut.
      rewrite (calc_upd_mk p y _ Hsh). now rewrite Hu. }
    rewrite !exec_cons, !exec_nil, E1. subst S0.
    unfold step. cbn -[cl_sync settle cl_update].
    unfold set_pend, set_wire, set_sv.
    cbn [st_sv st_cl st_wire st_pend st_cur st_err st_silent st_rejpush st_synced st_npush st_conn st_initpush].
    rewrite (rejected_reply_settles p _ t q m errs y sil rej syn np ip u _ Hcu Hne0 Hly).
    reflexivity. }
  rewrite E. unfold client_view, quiescent. cbn. repeat split; reflexivity.
Qed.

Local Transparent cl_sync settle.

(* ---------------------------------------------------------------- staleness *)

Lemma list_N_eqb_eq : forall a b, list_N_eqb a b = true -> a = b.
Proof.
  induction a as [|x r IH]; intros [|y s] H; cbn in H; try discriminate; [reflexivity|].
  apply andb_true_iff in H. destruct H as [H1 H2]. apply N.eqb_eq in H1. subst y.
  f_equal. now apply IH.
Qed.

Lemma changed_not_ticks_ok : forall c a b,
  cfg_wf c (length (s_time a)) = true ->
  tracked_changed c a b = true ->
  ticks_ok c (s_time b) (mirror c a) = false.
Proof.
  intros c a b Hwf Hch. unfold ticks_ok. rewrite (mirror_tracked c a Hwf).
  destruct (list_N_eqb (src_tracked c (s_time a)) (src_tracked c (s_time b))) eqn:E; [|reflexivity].
  exfalso. apply list_N_eqb_eq in E. unfold src_tracked, filter_time in E.
  unfold tracked_changed in Hch. apply existsb_exists in Hch. destruct Hch as [i [Hi Hne]].
  apply negb_true_iff, N.eqb_neq in Hne. apply Hne.
  clear Hne Hwf. induction (tracked c) as [|j r IH]; [destruct Hi|].
  cbn [map] in E. injection E as E1 E2. destruct Hi as [Hi|Hi]; [now subst j|now apply IH].
Qed.

(* nothing to export and nothing in flight: further push runs change nothing *)
Lemma push_noop : forall p s d,
  st_err s = false -> st_wire s = [] -> cl_need (st_cl s) = false ->
  sv_latest (st_sv s) = Some d -> sv_last (st_sv s) = d ->
  exec p s [Push; Settle] = s.
Proof.
  intros p s d He Hw Hn Hla Hl.
  destruct s as [sv cl wire pend cur err sil rej syn np conn ip].
  destruct cl as [t q m stuck need errs]. destruct sv as [last latest queue].
  cbn in He, Hw, Hn, Hla, Hl. subst err wire need latest last.
  unfold exec, step, do_push. cbn [fold_left st_err st_conn st_sv sv_latest sv_last].
  rewrite !N.eqb_refl. cbn [andb].
  destruct (negb conn); destruct (d_mtime d); cbn; unfold do_sync_serve; cbn; reflexivity.
Qed.

Local Opaque client_apply calc_update calc_update_muts w8 w16 w32 w64 hello_time mk_data mirror checksum.

Section Steps.
  Variable p : pcfg.
  Hypothesis Hmut : p_mut p = false.
  Hypothesis Hsh : shallow (p_codec p) = false.
  Let c := p_codec p.

  Lemma st_src : forall l (la : option tdata) qu cl wire pend cur sil rej syn np y,
    step p (mkst (mk_server l la qu) cl wire pend cur sil rej syn np) (Src y)
    = mkst (mk_server l (Some (mk_data c y)) qu) cl wire pend y sil rej syn np.
  Proof. intros. unfold step, do_src, mkst. cbn. now rewrite Hmut. Qed.

  Lemma st_reply : forall l qu cl wire pend cur sil rej syn np y u,
    calc_update c false (mk_data c y) l = Some u ->
    step p (mkst (mk_server l (Some (mk_data c y)) qu) cl wire pend cur sil rej syn np) Reply
    = mkst (mk_server (mk_data c y) (Some (mk_data c y)) qu) cl wire (Some (RUpd u)) cur sil rej syn np.
  Proof.
    intros. unfold step, do_reply, mkst. cbn [st_err st_sv sv_latest sv_last sv_queue mk_server].
    rewrite Hmut. rewrite (calc_upd_mk p y _ Hsh). fold c. rewrite H. reflexivity.
  Qed.

  Lemma st_push : forall l qu cl wire pend cur sil rej syn np y u,
    d_q l <> s_q y ->
    calc_update c false (mk_data c y) l = Some u ->
    step p (mkst (mk_server l (Some (mk_data c y)) qu) cl wire pend cur sil rej syn np) Push
    = mkst (mk_server (mk_data c y) (Some (mk_data c y)) qu) cl (wire ++ [WPush u]) pend cur
           sil rej syn (S np).
  Proof.
    intros l qu cl wire pend cur sil rej syn np y u Hq Hu.
    unfold step, do_push, mkst. cbn [st_err st_conn negb st_sv sv_latest sv_last mk_server].
    destruct (mk_data_some c y) as [ty Hty]. fold c. rewrite Hty.
    rewrite d_q_mk. replace (d_q l =? s_q y) with false by (symmetry; now apply N.eqb_neq).
    rewrite andb_false_r, Hmut.
    rewrite (calc_upd_mk p y _ Hsh). fold c. rewrite Hu. reflexivity.
  Qed.

  Lemma st_write : forall sv cl wire r cur sil rej syn np,
    step p (mkst sv cl wire (Some r) cur sil rej syn np) Write
    = mkst sv cl (wire ++ [WReply r]) None cur sil rej syn np.
  Proof. reflexivity. Qed.

  Local Opaque cl_sync settle.

  (* a push is delivered and rejected while a mutation call is in flight: the
     Sync it requests waits for the client's callLock *)
  Lemma st_settle_parked_push_rej : forall sv t q m errs r cur sil rej syn np u,
    rejected (client_apply c u t q m) = true ->
    step p (mkst sv (mk_client t q m false false errs) [WPush u] (Some r) cur sil rej syn np) Settle
    = mkst sv (mk_client t q m false true errs) [] (Some r) cur sil true syn np.
  Proof.
    intros sv t q m errs r cur sil rej syn np u H.
    assert (Hcu : cl_update p (mk_client t q m false false errs) u
                  = Some (mk_client t q m false false errs, false))
      by (apply cl_update_rej; exact H).
    unfold step, mkst. cbn [st_err st_wire length Nat.mul Nat.add].
    rewrite settle_eq. unfold mk_client in *. cbn -[cl_sync settle cl_update].
    rewrite Hcu. cbn -[cl_sync settle cl_update].
    rewrite settle_eq. cbn -[cl_sync settle cl_update].
    reflexivity.
  Qed.

  (* the reply is processed (accepted), the call returns, then the pending Sync
     is served and applied *)
  Lemma st_settle_reply_then_sync : forall sv t q m errs cur sil rej syn np u t' q' m',
    client_apply c u t q m = Some (t', q', m', true) -> t' <> [] ->
    s_time cur <> [] -> length (s_time cur) = length t' ->
    step p (mkst sv (mk_client t q m false true errs) [WReply (RUpd u)] None cur sil rej syn np) Settle
    = mkst sv (mk_client (s_time cur) (s_q cur) (if p_sync_m p then s_m cur else 0) false false errs)
           [] None cur sil rej true np.
  Proof.
    intros sv t q m errs cur sil rej syn np u t' q' m' Ha Hn Hc Hl.
    assert (Hcu : cl_update p (mk_client t q m false true errs) u
                  = Some (mk_client t' q' m' false true errs, true))
      by (apply (cl_update_acc p (mk_client t q m false true errs) u t' q' m' Ha Hn)).
    unfold step, mkst. cbn [st_err st_wire length Nat.mul Nat.add].
    rewrite settle_eq. unfold mk_client in *. cbn -[cl_sync settle cl_update].
    rewrite Hcu. cbn -[cl_sync settle cl_update].
    rewrite settle_eq. cbn -[cl_sync settle cl_update].
    rewrite cl_sync_ok by (cbn; assumption).
    rewrite settle_eq. cbn -[cl_sync settle cl_update].
    reflexivity.
  Qed.

  Local Transparent cl_sync settle.
End Steps.

(* (5) a reply overtaken by a push, for all snapshots: the push is rejected,
   the Sync it requests waits behind the mutation call, the reply is accepted,
   then the Sync brings the client to the source's current time. Needs the
   Sync response to be acceptable (same length: a schema, or all states
   tracked) - otherwise see reorder_sync_refused_refuted *)
Theorem reorder_converges_lemma : forall p x y1 y2 hello l0 la qu errs sil rej syn np,
  p_mut p = false -> shallow (p_codec p) = false ->
  l0 = last_data (p_codec p) hello x ->
  length (s_time x) = length (s_time y1) -> length (s_time y1) = length (s_time y2) ->
  cfg_wf (p_codec p) (length (s_time x)) = true -> tracked (p_codec p) <> [] ->
  snaps_in_range x y1 = true -> snaps_in_range y1 y2 = true ->
  s_q y1 <> s_q y2 ->
  Forall (fun v => v < w64) (mirror (p_codec p) x) -> s_q x < w64 -> s_m x < w32 ->
  (* the checksums of x and y1 differ (mod 256): the overtaking push is rejected *)
  drifted (p_codec p) y1 (mirror (p_codec p) x) (s_q x) (s_m x) = true ->
  s_time y2 <> [] -> length (s_time y2) = length (mirror (p_codec p) y1) ->
  let s := mkst (mk_server l0 la qu) (mk_client (mirror (p_codec p) x) (s_q x) (s_m x) false false errs)
                [] None x sil rej syn np in
  let s1 := exec p s [Src y1; Reply; Src y2; Push; Settle] in
  let st := exec p s1 [Write; Settle] in
  (* while the reply is parked the mirror is untouched *)
  client_view s1 = (mirror (p_codec p) x, s_q x, s_m x) /\ st_rejpush s1 = true /\
  client_view st = (s_time y2, s_q y2, if p_sync_m p then s_m y2 else 0) /\
  sv_last (st_sv st) = mk_data (p_codec p) y2 /\ st_synced st = true /\
  quiescent st = true /\ st_err st = false /\ cl_stuck (st_cl st) = false /\
  (sync_schema (p_codec p) = true ->
   mirror_ok (p_codec p) (s_time y2) (cl_t (st_cl st)) = true).
Proof.
  intros p x y1 y2 hello l0 la qu errs sil rej syn np Hmut Hsh Hl0 Hlen1 Hlen2 Hwf Htr Hr1 Hr2
         Hq Hb1 Hb2 Hb3 Hdr Hne2 Hl2 s s1 st.
  set (c := p_codec p) in *.
  assert (Hwf1 : cfg_wf c (length (s_time y1)) = true) by now rewrite <- Hlen1.
  pose proof (calc_update_explicit c x y1 hello Hsh Hlen1 Hwf Hr1) as HU1.
  pose proof (roundtrip_explicit c x y1 Hsh Hlen1 Hwf Hr1) as HR1.
  remember (mk_upd (deep_prs c x y1) (s_q y1 - s_q x) (s_m y1 - s_m x)
             (checksum (sum64 (filter_time (s_time y1) (tracked c))) (s_q y1) (s_m y1))) as U1 eqn:E1.
  clear E1. rewrite <- Hl0 in HU1.
  assert (Hlm : length (mirror c x) = length (mirror c y1)).
  { rewrite (mirror_length c _ x eq_refl), (mirror_length c _ y1 eq_refl). now rewrite Hlen1. }
  destruct (checksum_detects_lemma c y1 y2 false (mirror c x) (s_q x) (s_m x)
              Hsh Hlen2 Hwf1 Hr2 Hlm Hb1 Hb2 Hb3 Hdr) as [u2 [Hu2 Hrej2]].
  cbv zeta in Hu2. change (if false then hello_data c y1 else mk_data c y1) with (mk_data c y1) in Hu2.
  assert (Hnn : mirror c y1 <> []) by (apply mirror_nonempty; assumption).
  assert (Es1 : s1 = mkst (mk_server (mk_data c y2) (Some (mk_data c y2)) qu)
                          (mk_client (mirror c x) (s_q x) (s_m x) false true errs)
                          [] (Some (RUpd U1)) y2 sil true syn (S np)).
  { subst s1 s. rewrite !exec_cons, exec_nil.
    rewrite (st_src p Hmut). fold c.
    rewrite (st_reply p Hmut Hsh _ _ _ _ _ _ _ _ _ _ _ U1 HU1). fold c.
    rewrite (st_src p Hmut). fold c.
    rewrite (st_push p Hmut Hsh _ _ _ _ _ _ _ _ _ _ _ u2); fold c;
      [|rewrite d_q_mk; exact Hq|exact Hu2].
    cbn [app].
    rewrite (st_settle_parked_push_rej p _ _ _ _ _ _ _ _ _ _ _ u2 Hrej2).
    reflexivity. }
  assert (Est : st = mkst (mk_server (mk_data c y2) (Some (mk_data c y2)) qu)
                          (mk_client (s_time y2) (s_q y2) (if p_sync_m p then s_m y2 else 0) false false errs)
                          [] None y2 sil true true (S np)).
  { subst st. rewrite Es1. rewrite !exec_cons, exec_nil.
    rewrite st_write. cbn [app].
    rewrite (st_settle_reply_then_sync p _ _ _ _ _ _ _ _ _ _ U1 _ _ _ HR1 Hnn Hne2 Hl2).
    reflexivity. }
  rewrite Es1, Est. unfold client_view, quiescent, mkst. cbn.
  repeat split; try reflexivity.
  intros Hss. now apply full_sync_mirror_ok.
Qed.

(* the client-issued round as a whole, from any synced state *)
Theorem reply_visible_lemma : forall p s x y hello mid,
  p_mut p = false -> shallow (p_codec p) = false ->
  synced_l p s x hello ->
  length (s_time x) = length (s_time y) ->
  cfg_wf (p_codec p) (length (s_time x)) = true ->
  snaps_in_range x y = true ->
  tracked (p_codec p) <> [] ->
  let s1 := exec p s (map Src mid ++ [Src y; Reply; Write; Deliver]) in
  synced_l p s1 y false /\
  mirror_ok (p_codec p) (s_time y) (cl_t (st_cl s1)) = true /\
  exec p s (map Src mid ++ [Src y; Reply; Write; Settle]) = s1.
Proof.
  intros p s x y hello mid Hmut Hsh Hsy Hlen Hwf Hrng Htr s1. subst s1.
  rewrite !exec_app, !exec_cons.
  pose proof (srcs_steps p mid s x hello Hmut Hsy) as H1.
  destruct (src_step p _ x y hello Hmut H1) as [H2 H3].
  destruct (reply_round p _ x y hello Hmut Hsh H2 H3 Hlen Hwf Hrng Htr) as [H4 H5].
  split; [exact H4|]. split; [|exact H5].
  apply (synced_mirror_ok p _ y false Hsh); [now rewrite <- Hlen|exact H4].
Qed.

(* ca3c269: before the first transition after the handshake pushClient exports
   nothing, however often it runs - whatever history the source has *)
Theorem placeholder_not_pushed_lemma : forall p x n,
  exec p (init p x) (concat (repeat [Push; Settle] n)) = init p x.
Proof.
  intros p x n. apply repeat_fix.
  unfold exec, step, init, do_push. cbn [fold_left st_err st_conn negb st_sv sv_latest mk_server].
  cbn [init_data d_mtime]. cbn. unfold do_sync_serve. cbn. reflexivity.
Qed.

(* aabeecb: a (re-)Hello starts the session from the handshake clock: the
   tracer's dataQueue is empty, lastPushData and the mirror are the source now *)
Theorem hello_restarts_lemma : forall p s,
  st_err s = false -> cl_stuck (st_cl s) = false ->
  let s' := step p s Hello in
  let x := st_cur s in
  sv_queue (st_sv s') = [] /\
  client_view s' = (mirror (p_codec p) x, s_q x, if p_hello_m p then s_m x else 0) /\
  d_mtime (sv_last (st_sv s')) = Some (mirror (p_codec p) x) /\
  d_q (sv_last (st_sv s')) = s_q x /\ d_m (sv_last (st_sv s')) = s_m x /\
  st_wire s' = [] /\ st_pend s' = None /\ cl_need (st_cl s') = false /\ st_err s' = false.
Proof.
  intros p s He Hs. unfold step. rewrite He. unfold do_hello. rewrite Hs.
  unfold client_view. cbn. rewrite He. repeat split; reflexivity.
Qed.

(* per-mutation sync after a reconnect, on the former witness of
   hello_keeps_queue_refuted: exact ticks *)
Lemma mutations_reconnect_example :
  let st := exec mutp (init mutp r1_s0) [Src r3_a; Src r3_b; Hello; Src r5_c; Push; Settle] in
  client_view st = (mirror all4 r5_c, s_q r5_c, s_m r5_c) /\ st_rejpush st = false /\
  quiescent st = true /\ st_err st = false.
Proof. vm_compute. repeat split; reflexivity. Qed.

(* shallow clocks, after a Sync(): RemoteSync did not update lastPushData, the
   reply of the next (no-op) mutation is computed against the older belief;
   the client's shallow checksum (number of tracked states + queue tick)
   matches the server's (number of active states + queue tick) by
   coincidence, the wrong diff is accepted: wrong parity, wrong queue tick,
   the server believes the client is current, nothing repairs it *)
Definition shpart : pcfg :=
  {| p_codec := {| sync_schema := true; shallow := true; tracked := [1]%nat |};
     p_mut := false; p_hello_m := true; p_sync_m := true |}.
Definition sb_s0 := sn [1;0;0;0] 2 0.
Definition sb_a := sn [1;1;0;0] 3 0.
Definition sb_b := sn [1;1;0;0] 4 0.

Theorem shallow_stale_belief_refuted_lemma :
  exists (p : pcfg) (s0 a b : snap),
    p_mut p = false /\ shallow (p_codec p) = true /\
    cfg_wf (p_codec p) (length (s_time s0)) = true /\
    chain_in_range s0 [a; b] = true /\ s_m s0 = 0 /\
    let st1 := exec p (init p s0) [Src a; SyncReq; Settle] in
    let st := exec p st1 [Src b; Reply; Write; Settle] in
    mirror_ok (p_codec p) (s_time a) (cl_t (st_cl st1)) = true /\
    quiescent st = true /\ st_err st = false /\
    st_rejpush st = false /\ cl_need (st_cl st) = false /\ st_synced st = st_synced st1 /\
    cl_q (st_cl st) <> s_q b /\
    mirror_ok (p_codec p) (s_time b) (cl_t (st_cl st)) = false /\
    forall n, exec p st (concat (repeat [Push; Settle] n)) = st.
Proof.
  exists shpart, sb_s0, sb_a, sb_b.
  repeat split; try (vm_compute; reflexivity).
  - vm_compute. discriminate.
  - intros n. apply repeat_fix. vm_compute. reflexivity.
Qed.
