(* C04p — proofs over the generalised interleaving model Conc/QueueLockP.v
   (check threads prepend tick-less mutations; three-valued re-check mode):
   any number of threads, any mix of check / non-check threads, any schedule,
   by induction over the schedule with inductive invariants (as C04Proofs.v). *)
From Coq Require Import List Bool Arith Lia.
From AMV Require Import Conc.QueueLockP.
Import ListNotations.

(* ================================================================== *)
(* generic list lemmas                                                *)
(* ================================================================== *)

Lemma filter_len_split : forall A (f : A -> bool) l1 t l2,
  length (filter f (l1 ++ t :: l2)) =
  length (filter f l1) + (if f t then 1 else 0) + length (filter f l2).
Proof.
  intros. rewrite filter_app, app_length. simpl. destruct (f t); simpl; lia.
Qed.

Lemma filter_len0 : forall A (f : A -> bool) l,
  length (filter f l) = 0 -> Forall (fun x => f x = false) l.
Proof.
  induction l as [|x r IH]; simpl; intros H; constructor.
  - destruct (f x); simpl in H; [discriminate | reflexivity].
  - apply IH. destruct (f x); simpl in H; [discriminate | assumption].
Qed.

Lemma filter_len_pos : forall A (f : A -> bool) l,
  1 <= length (filter f l) -> exists x, In x l /\ f x = true.
Proof.
  intros A f l H. destruct (filter f l) as [|x r] eqn:E; simpl in H; [lia|].
  exists x. apply filter_In. rewrite E. left. reflexivity.
Qed.

Lemma replace_nth_split : forall A (l1 l2 : list A) a x,
  replace_nth (l1 ++ a :: l2) (length l1) x = l1 ++ x :: l2.
Proof.
  induction l1 as [|h l1 IH]; simpl; intros; [reflexivity | f_equal; apply IH].
Qed.

Lemma Forall_split3 : forall A (P : A -> Prop) l1 t l2,
  Forall P (l1 ++ t :: l2) <-> Forall P l1 /\ P t /\ Forall P l2.
Proof.
  intros. rewrite Forall_app, Forall_cons_iff. tauto.
Qed.

(* ================================================================== *)
(* one step = one thread of a split thread list                       *)
(* ================================================================== *)

Lemma step_cases : forall mode c i,
  (nth_error (ths c) i = None /\ step mode c i = c) \/
  exists l1 t l2,
    nth_error (ths c) i = Some t /\
    ths c = l1 ++ t :: l2 /\ length l1 = i /\
    step mode c i =
      {| sh := fst (step_thread mode (sh c) i t);
         ths := l1 ++ snd (step_thread mode (sh c) i t) :: l2 |}.
Proof.
  intros mode c i. unfold step. destruct (nth_error (ths c) i) as [t|] eqn:E.
  - right. pose proof E as E0. apply nth_error_split in E.
    destruct E as (l1 & l2 & E1 & E2).
    exists l1, t, l2. repeat split; auto.
    destruct (step_thread mode (sh c) i t) as [s' t'] eqn:Es. simpl.
    rewrite E1. subst i. rewrite replace_nth_split. reflexivity.
  - left. split; reflexivity.
Qed.

(* the schedule fold, with an invariant carried along *)
Lemma exec_sched_inv : forall (P : cfg -> Prop) mode,
  (forall c i, P c -> P (step mode c i)) ->
  forall sched c, P c -> P (exec_sched mode c sched).
Proof.
  intros P mode Hstep. unfold exec_sched.
  induction sched as [|i r IH]; simpl; intros c Hc; auto.
Qed.

(* effect of enqueue_all on the shared record *)
Lemma enqueue_all_effect : forall ms s,
  let s' := enqueue_all s ms in
  processing s' = processing s /\ qtick s' = qtick s /\
  executed s' = executed s /\ nested_of s' = nested_of s /\
  pending s' = pending s + length ms /\
  exists ext, queue s' = queue s ++ ext /\ map fst ext = ms.
Proof.
  induction ms as [|m r IH]; intros s; simpl.
  - repeat split; auto. exists []. rewrite app_nil_r. auto.
  - destruct (IH (fst (enqueue s m))) as (H1 & H2 & H3 & H4 & H5 & ext & H6 & H7).
    simpl in *. repeat split; auto; try lia.
    exists ((m, S (pending s) + qtick s) :: ext). split.
    + rewrite H6. rewrite <- app_assoc. reflexivity.
    + simpl. f_equal. exact H7.
Qed.

(* ================================================================== *)
(* (1) mutual exclusion of the drain                                  *)
(* ================================================================== *)

Definition pop_ne (s : shared) (t : thread) : Prop := t_pc t = PPop -> queue s <> [].

Definition invM (c : cfg) : Prop :=
  holders c <= 1 /\ processing (sh c) = (holders c =? 1) /\
  Forall (pop_ne (sh c)) (ths c).

Lemma invM_init : forall muts, invM (init_cfg muts).
Proof.
  intros muts. unfold invM, holders, init_cfg. simpl.
  assert (H : filter holding (map init_thread muts) = []).
  { induction muts as [|p r IH]; simpl; auto. }
  rewrite H. simpl. repeat split; auto.
  apply Forall_forall. intros t Hin. apply in_map_iff in Hin.
  destruct Hin as (p & Hp & _). subst t. unfold pop_ne. simpl. discriminate.
Qed.

Lemma app_ne_nil : forall A (l : list A) x, l ++ [x] <> [].
Proof. intros A l x H. destruct l; discriminate. Qed.

Ltac pne := unfold pop_ne, finish, set_pc; cbn; let Hx := fresh "Hx" in intros Hx; discriminate Hx.

Lemma invM_step : forall mode c i, invM c -> invM (step mode c i).
Proof.
  intros mode c i (Hle & Hpr & Hpop).
  destruct (step_cases mode c i) as [[_ E]|(l1 & t & l2 & _ & Eths & _ & E)];
    rewrite E; [repeat split; assumption|].
  clear E. unfold invM, holders in *. simpl. rewrite Eths in *.
  rewrite filter_len_split in *.
  apply Forall_split3 in Hpop. destruct Hpop as (Hp1 & Hpt & Hp2).
  rewrite Forall_split3.
  unfold step_thread. unfold pop_ne in Hpt.
  remember (holding t) as ht eqn:Eht. unfold holding in Eht.
  destruct (t_pc t) eqn:Epc; subst ht.
  - (* PEnq *)
    destruct (t_chk t) eqn:Echk.
    + (* check thread: prepend *)
      simpl. repeat split; auto.
      * eapply Forall_impl; [|exact Hp1]. unfold pop_ne; simpl. intros; discriminate.
      * pne.
      * eapply Forall_impl; [|exact Hp2]. unfold pop_ne; simpl. intros; discriminate.
    + simpl. repeat split; auto.
      * eapply Forall_impl; [|exact Hp1]. unfold pop_ne; simpl. intros; apply app_ne_nil.
      * pne.
      * eapply Forall_impl; [|exact Hp2]. unfold pop_ne; simpl. intros; apply app_ne_nil.
  - (* PEntry *)
    destruct (Nat.eqb (qlen (sh c)) 0); simpl; repeat split; auto; pne.
  - (* PCas *)
    destruct (processing (sh c)) eqn:Epr; simpl.
    + repeat split; auto; [congruence | pne].
    + symmetry in Hpr. apply Nat.eqb_neq in Hpr.
      repeat split; auto; try lia.
      * symmetry. apply Nat.eqb_eq. lia.
      * pne.
  - (* PLoop *)
    destruct (Nat.eqb (qlen (sh c)) 0) eqn:Eq; simpl; repeat split; auto.
    + pne.
    + unfold pop_ne; simpl. intros _ Hq. unfold qlen in Eq. rewrite Hq in Eq. discriminate.
  - (* PPop *)
    destruct (queue (sh c)) as [|[m tick] rest] eqn:Eq.
    + exfalso. apply Hpt; reflexivity.
    + match goal with |- context [enqueue_all ?a ?b] =>
        destruct (enqueue_all_effect b a) as (H1 & H2 & H3 & H4 & H5 & ext & H6 & H7)
      end.
      simpl in *.
      assert (Hz1 : length (filter holding l1) = 0) by lia.
      assert (Hz2 : length (filter holding l2) = 0) by lia.
      apply filter_len0 in Hz1. apply filter_len0 in Hz2.
      rewrite H1. repeat split; auto.
      * eapply Forall_impl; [|exact Hz1]. unfold pop_ne, holding. intros a Ha Hb.
        rewrite Hb in Ha. discriminate.
      * pne.
      * eapply Forall_impl; [|exact Hz2]. unfold pop_ne, holding. intros a Ha Hb.
        rewrite Hb in Ha. discriminate.
  - (* PRelease *)
    simpl. repeat split; auto; try lia.
    + symmetry. apply Nat.eqb_neq. lia.
    + pne.
  - (* PRecheck *)
    destruct (recheck_again mode (sh c)); simpl; repeat split; auto; pne.
  - (* PDone *)
    simpl. unfold holding at 2 5. rewrite Epc. repeat split; auto. unfold pop_ne. rewrite Epc. discriminate.
Qed.

Lemma invM_reach : forall mode muts sched,
  invM (exec_sched mode (init_cfg muts) sched).
Proof.
  intros. apply exec_sched_inv; [intros; apply invM_step; assumption | apply invM_init].
Qed.

Lemma drain_mutex_p_lemma :
  forall (mode : rmode) (muts : list (nat * list nat * bool)) (sched : list nat),
    mutex_ok (exec_sched mode (init_cfg muts) sched) = true.
Proof.
  intros. destruct (invM_reach mode muts sched) as (Hle & Hpr & _).
  unfold mutex_ok. rewrite Hpr, eqb_reflx, andb_true_r. apply Nat.leb_le. exact Hle.
Qed.

(* ================================================================== *)
(* (2) an idle machine never sits on a non-empty queue (mode RmLen)   *)
(* ================================================================== *)

(* a non-empty queue has a thread that will look at it again: one that is not
   done and, if it stands before the CAS, will win it *)
Definition invN (c : cfg) : Prop :=
  queue (sh c) <> [] ->
  exists t, In t (ths c) /\ t_pc t <> PDone /\ (t_pc t = PCas -> processing (sh c) = false).

Lemma holder_exists : forall c,
  invM c -> processing (sh c) = true -> exists h, In h (ths c) /\ holding h = true.
Proof.
  intros c (Hle & Hpr & _) Hp. rewrite Hp in Hpr. symmetry in Hpr.
  apply Nat.eqb_eq in Hpr. unfold holders in Hpr.
  apply filter_len_pos. lia.
Qed.

Lemma holding_pc : forall h, holding h = true -> t_pc h <> PDone /\ t_pc h <> PCas.
Proof. intros h H. unfold holding in H. destruct (t_pc h); split; discriminate. Qed.

Lemma other_holder : forall c l1 t l2 t',
  invM c -> processing (sh c) = true -> ths c = l1 ++ t :: l2 -> holding t = false ->
  exists h, In h (l1 ++ t' :: l2) /\ t_pc h <> PDone /\ t_pc h <> PCas.
Proof.
  intros c l1 t l2 t' HM Hp Eths Hnt.
  destruct (holder_exists c HM Hp) as (h & Hin & Hh).
  rewrite Eths in Hin. exists h. split.
  - apply in_app_or in Hin. apply in_or_app. destruct Hin as [Hin|[Hin|Hin]].
    + left; exact Hin.
    + subst h. congruence.
    + right; right; exact Hin.
  - apply holding_pc. exact Hh.
Qed.

Lemma invN_init : forall muts, invN (init_cfg muts).
Proof. intros muts H. simpl in H. congruence. Qed.

Lemma invN_step : forall c i, invM c -> invN c -> invN (step RmLen c i).
Proof.
  intros c i HM HN.
  destruct (step_cases RmLen c i) as [[_ E]|(l1 & t & l2 & _ & Eths & _ & E)];
    rewrite E; [assumption|].
  clear E. unfold invN. simpl. unfold step_thread.
  destruct (t_pc t) eqn:Epc.
  - (* PEnq *)
    destruct (t_chk t) eqn:Echk; simpl; intros _;
      (eexists; split; [apply in_elt|]; simpl; split; discriminate).
  - (* PEntry *)
    destruct (Nat.eqb (qlen (sh c)) 0) eqn:Eq; simpl; intros Hq.
    + apply Nat.eqb_eq in Eq. unfold qlen in Eq. destruct (queue (sh c)); [congruence|discriminate].
    + destruct (processing (sh c)) eqn:Epr.
      * destruct (other_holder c l1 t l2 (set_pc t PCas) HM Epr Eths) as (h & Hin & Hd & Hc).
        { unfold holding. rewrite Epc. reflexivity. }
        exists h. repeat split; auto. intros; contradiction.
      * eexists. split; [apply in_elt|]. simpl. split; [discriminate|auto].
  - (* PCas *)
    destruct (processing (sh c)) eqn:Epr; simpl; intros Hq.
    + match goal with |- context [l1 ++ ?x :: l2] =>
        destruct (other_holder c l1 t l2 x HM Epr Eths) as (h & Hin & Hd & Hc)
      end.
      { unfold holding. rewrite Epc. reflexivity. }
      exists h. repeat split; auto. intros; contradiction.
    + eexists. split; [apply in_elt|]. simpl. split; discriminate.
  - (* PLoop *)
    destruct (Nat.eqb (qlen (sh c)) 0); simpl; intros _;
      (eexists; split; [apply in_elt|]; simpl; split; discriminate).
  - (* PPop *)
    destruct (queue (sh c)) as [|[m tick] rest] eqn:Eq; simpl; intros Hq.
    + congruence.
    + eexists. split; [apply in_elt|]. simpl. split; discriminate.
  - (* PRelease *)
    simpl. intros _. eexists. split; [apply in_elt|]. simpl. split; discriminate.
  - (* PRecheck *)
    unfold recheck_again. destruct (Nat.eqb (qlen (sh c)) 0) eqn:Eq; simpl; intros Hq.
    + apply Nat.eqb_eq in Eq. unfold qlen in Eq. destruct (queue (sh c)); [congruence|discriminate].
    + eexists. split; [apply in_elt|]. simpl. split; discriminate.
  - (* PDone *)
    (* unchanged configuration *)
    simpl. rewrite <- Eths. exact HN.
Qed.

Definition invMN (c : cfg) : Prop := invM c /\ invN c.

Lemma invMN_reach : forall muts sched, invMN (exec_sched RmLen (init_cfg muts) sched).
Proof.
  intros. apply exec_sched_inv.
  - intros c i [HM HN]. split; [apply invM_step; assumption | apply invN_step; assumption].
  - split; [apply invM_init | apply invN_init].
Qed.

Lemma all_done_Forall : forall c,
  all_done c = true -> Forall (fun t => t_pc t = PDone) (ths c).
Proof.
  intros c H. unfold all_done in H. rewrite forallb_forall in H.
  apply Forall_forall. intros t Hin. specialize (H t Hin).
  destruct (t_pc t); try discriminate. reflexivity.
Qed.

Lemma quiescent_queue_empty : forall muts sched,
  all_done (exec_sched RmLen (init_cfg muts) sched) = true ->
  queue (sh (exec_sched RmLen (init_cfg muts) sched)) = [].
Proof.
  intros muts sched Hd. destruct (invMN_reach muts sched) as [_ HN].
  apply all_done_Forall in Hd. rewrite Forall_forall in Hd.
  destruct (queue (sh (exec_sched RmLen (init_cfg muts) sched))) as [|x r] eqn:Eq; auto.
  exfalso. unfold invN in HN. rewrite Eq in HN.
  destruct HN as (t & Hin & Hnd & _); [discriminate|].
  apply Hnd. apply Hd. exact Hin.
Qed.

Lemma no_strand_p_lemma :
  forall (muts : list (nat * list nat * bool)) (sched : list nat),
    no_strand_ok (exec_sched RmLen (init_cfg muts) sched) = true /\
    (all_done (exec_sched RmLen (init_cfg muts) sched) = true ->
     queue (sh (exec_sched RmLen (init_cfg muts) sched)) = []).
Proof.
  intros muts sched. split; [|apply quiescent_queue_empty].
  unfold no_strand_ok.
  destruct (all_done (exec_sched RmLen (init_cfg muts) sched)) eqn:Ed; simpl; auto.
  unfold qlen. rewrite (quiescent_queue_empty muts sched Ed). reflexivity.
Qed.

(* ================================================================== *)
(* (3) the pending-based re-check strands a tick-less entry           *)
(* ================================================================== *)

Lemma no_strand_pending_refuted_lemma :
  exists (muts : list (nat * list nat * bool)) (sched : list nat),
    let c := exec_sched RmPending (init_cfg muts) sched in
    all_done c = true /\ queue (sh c) <> [] /\ pending (sh c) = 0 /\
    processing (sh c) = false /\ no_strand_ok c = false.
Proof.
  exists [(0, [], false); (1, [], true)], [0;0;0;0;0;0; 1;1;1; 0;0].
  vm_compute. repeat split; try reflexivity. discriminate.
Qed.

Lemma no_strand_pending_same_schedule_ok_lemma :
  let muts := [(0, [], false); (1, [], true)] in
  let sched := [0;0;0;0;0;0; 1;1;1; 0;0] in
  let cb := exec_sched RmPending (init_cfg muts) sched in
  let c1 := exec_sched RmLen (init_cfg muts) sched in
  let c2 := exec_sched RmLen (init_cfg muts) (sched ++ [0;0;0;0;0;0;0]) in
  (* the seeded variant: everybody returned, the check entry is stranded *)
  (all_done cb = true /\ queue (sh cb) = [(1, 0)] /\
   map t_res (ths cb) = [RExecuted; RQueued 0] /\ no_strand_ok cb = false) /\
  (* the code: after the same schedule thread 0 is back at the entry ... *)
  (all_done c1 = false /\ queue (sh c1) = [(1, 0)] /\
   map t_pc (ths c1) = [PEntry; PDone] /\ no_strand_ok c1 = true) /\
  (* ... and, scheduled to completion, drains the check entry *)
  (all_done c2 = true /\ queue (sh c2) = [] /\
   map fst (rev (executed (sh c2))) = [0; 1] /\
   map t_res (ths c2) = [RExecuted; RQueued 0] /\ no_strand_ok c2 = true).
Proof. vm_compute. repeat split; reflexivity. Qed.
