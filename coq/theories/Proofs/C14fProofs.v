From Coq Require Import List NArith Bool Arith Lia.
From AMV Require Import Base.ListSet Model.Schema Model.Machine Spec.C01 Spec.C14 Spec.C14f.
Import ListNotations.

Definition fault_free (acts : list haction) : Prop :=
  forallb (fun a => match ha_fault a with FNone => true | _ => false end) acts = true.

Lemma act_faulted_free acts j : fault_free acts -> act_faulted acts j = false.
Proof.
  unfold fault_free, act_faulted. intros H.
  destruct (Nat.lt_ge_cases j (length acts)) as [Hl|Hl].
  - rewrite forallb_forall in H.
    specialize (H (nth j acts default_action) (nth_In _ _ Hl)).
    destruct (ha_fault (nth j acts default_action)); try discriminate; reflexivity.
  - rewrite nth_overflow by exact Hl. reflexivity.
Qed.

Lemma tx_faulted_free acts t : fault_free acts -> tx_faulted acts t = false.
Proof.
  intros H. unfold tx_faulted.
  induction (seq (tx_hfrom t) (tx_hto t - tx_hfrom t)) as [|j l IH]; cbn [existsb].
  - reflexivity.
  - rewrite act_faulted_free by exact H. exact IH.
Qed.

Lemma flags_ok_f_free fl a txs :
  (forall t, fl t = false) ->
  flags_ok_f fl a txs = bools_eqb a (map (fun t => tx_accepted t && negb (tx_check t)) txs).
Proof.
  intros Hf. revert txs. induction a as [|x r IH]; intros [|t s]; cbn [flags_ok_f bools_eqb map]; try reflexivity.
  rewrite Hf, IH. reflexivity.
Qed.

Lemma chain_ok_f_free fl p txs :
  (forall t, fl t = false) -> chain_ok_f fl p txs = chain_ok (tx_after p) txs.
Proof.
  intros Hf. revert p. induction txs as [|t r IH]; intros p; cbn [chain_ok_f chain_ok].
  - reflexivity.
  - rewrite !Hf, IH. reflexivity.
Qed.

Lemma forallb_ext_eq {A} (f g : A -> bool) l : (forall x, f x = g x) -> forallb f l = forallb g l.
Proof. intros H. induction l as [|x l IH]; cbn [forallb]; [reflexivity|]. rewrite H, IH. reflexivity. Qed.

(* with a fault-free script the fault-aware predicate is the plain one *)
Lemma c14f_conservative_lemma acts tr extra :
  fault_free acts -> c14f_codes acts tr extra = c14_codes tr extra.
Proof.
  intros H. unfold c14f_codes, c14_codes.
  assert (Hf : forall t, tx_faulted acts t = false) by (intros t; apply tx_faulted_free; exact H).
  f_equal.
  { destruct (brackets BIdle (tr_evs tr) []) as [fs|]; [|reflexivity].
    rewrite (flags_ok_f_free _ _ _ Hf). reflexivity. }
  f_equal.
  { destruct (tr_txs tr) as [|t r]; [reflexivity|]. rewrite (chain_ok_f_free _ _ _ Hf). reflexivity. }
  f_equal.
  { rewrite (forallb_ext_eq _ (fun t => if tx_check t || negb (tx_accepted t)
                                        then clock_eqb (tx_before t) (tx_after t) else true)).
    - reflexivity.
    - intros t. rewrite Hf. reflexivity. }
  f_equal.
  { rewrite (forallb_ext_eq _ (fun t => clock_eqb (tx_after t) (tx_mach_after t))).
    - reflexivity.
    - intros t. rewrite Hf. reflexivity. }
  f_equal.
  destruct (rev (tr_txs tr)) as [|t r]; [reflexivity|].
  destruct (rev (tr_calls tr)) as [|c r']; [reflexivity|].
  rewrite Hf. reflexivity.
Qed.

(* a missing TransitionEnd is flagged whatever the faults: the bracket clause is not exempt *)
Lemma c14f_missing_end_lemma acts tr extra :
  tr_crashed tr = false -> brackets BIdle (tr_evs tr) [] = None -> In 141%N (c14f_codes acts tr extra).
Proof.
  intros Hc Hb. unfold c14f_codes. rewrite Hb, Hc. cbn. left. reflexivity.
Qed.
