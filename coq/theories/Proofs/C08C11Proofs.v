(* C08 (handler faults are contained) and C11 (determinism) — proofs about the
   sequential model Model/Machine.v and the resolver Model/Resolver.v.
   Lemmas only; the property theorems are restated in Props/C08.v and
   Props/C11.v and closed by [exact]. *)

From Coq Require Import List Bool Arith NArith Lia Permutation Sorted.
From AMV Require Import Base.ListSet Model.Schema Model.Resolver Model.Machine
  Spec.C01 Spec.C05 Spec.C08.
Import ListNotations.

(* ================================================================== *)
(* 0. list helpers                                                     *)
(* ================================================================== *)

Lemma mem_In : forall x l, mem x l = true <-> In x l.
Proof.
  intros x l. unfold mem. rewrite existsb_exists. split.
  - intros [y [Hy Heq]]. apply Nat.eqb_eq in Heq. subst. exact Hy.
  - intros Hin. exists x. split; [exact Hin | apply Nat.eqb_refl].
Qed.

Lemma mem_false : forall x l, mem x l = false <-> ~ In x l.
Proof.
  intros x l. split.
  - intros Hf Hin. apply mem_In in Hin. congruence.
  - intros Hn. destruct (mem x l) eqn:E; [|reflexivity].
    apply mem_In in E. contradiction.
Qed.

Lemma mem_ext : forall l1 l2, (forall x, In x l1 <-> In x l2) ->
  forall x, mem x l1 = mem x l2.
Proof.
  intros l1 l2 Hext x. destruct (mem x l2) eqn:E.
  - apply mem_In. apply Hext. apply mem_In. exact E.
  - apply mem_false. intros Hin. apply Hext in Hin. apply mem_In in Hin. congruence.
Qed.

Lemma mem_app : forall x a b, mem x (a ++ b) = mem x a || mem x b.
Proof. intros x a b. unfold mem. apply existsb_app. Qed.

Lemma uniq_acc_In : forall l seen x,
  In x (uniq_acc seen l) <-> In x l /\ ~ In x seen.
Proof.
  induction l as [|y r IH]; intros seen x; simpl.
  - tauto.
  - destruct (mem y seen) eqn:E.
    + rewrite IH. apply mem_In in E. split.
      * intros [H1 H2]. tauto.
      * intros [[H1|H1] H2]; [subst; contradiction | tauto].
    + apply mem_false in E. simpl. rewrite IH. simpl. split.
      * intros [H|[H1 H2]]; [subst; tauto | tauto].
      * intros [[H1|H1] H2]; [tauto|].
        destruct (Nat.eq_dec y x) as [Heq|Hne]; [tauto|]. right. tauto.
Qed.

Lemma uniq_acc_NoDup : forall l seen, NoDup (uniq_acc seen l).
Proof.
  induction l as [|y r IH]; intros seen; simpl.
  - constructor.
  - destruct (mem y seen) eqn:E.
    + apply IH.
    + constructor; [|apply IH].
      rewrite uniq_acc_In. simpl. tauto.
Qed.

Lemma uniq_NoDup : forall l, NoDup (uniq l).
Proof. intros l. apply uniq_acc_NoDup. Qed.

Lemma ins_perm : forall (A : Type) (less : A -> A -> bool) x rp,
  Permutation (ins less x rp) (x :: rp).
Proof.
  intros A less x rp. induction rp as [|p r IH]; simpl.
  - apply Permutation_refl.
  - destruct (less x p).
    + apply Permutation_trans with (p :: x :: r).
      * apply perm_skip. exact IH.
      * apply perm_swap.
    + apply Permutation_refl.
Qed.

Lemma fold_ins_perm : forall (A : Type) (less : A -> A -> bool) l acc,
  Permutation (fold_left (fun a x => ins less x a) l acc) (l ++ acc).
Proof.
  intros A less l. induction l as [|x r IH]; intros acc; simpl.
  - apply Permutation_refl.
  - apply Permutation_trans with (r ++ ins less x acc); [apply IH|].
    apply Permutation_trans with (r ++ x :: acc).
    + apply Permutation_app_head. apply ins_perm.
    + apply Permutation_sym. apply Permutation_middle.
Qed.

Lemma go_insertion_sort_perm : forall (A : Type) (less : A -> A -> bool) l,
  Permutation (go_insertion_sort less l) l.
Proof.
  intros A less l. unfold go_insertion_sort.
  apply Permutation_trans with (fold_left (fun a x => ins less x a) l []).
  - apply Permutation_sym. apply Permutation_rev.
  - pose proof (fold_ins_perm A less l []) as H. rewrite app_nil_r in H. exact H.
Qed.

Lemma sort_states_perm : forall sc topo l, Permutation (sort_states sc topo l) l.
Proof.
  intros sc topo l. unfold sort_states.
  eapply Permutation_trans; apply go_insertion_sort_perm.
Qed.

Lemma sort_states_In : forall sc topo l x, In x (sort_states sc topo l) <-> In x l.
Proof.
  intros sc topo l x. split; apply Permutation_in.
  - apply sort_states_perm.
  - apply Permutation_sym. apply sort_states_perm.
Qed.

Lemma sort_states_NoDup : forall sc topo l, NoDup l -> NoDup (sort_states sc topo l).
Proof.
  intros sc topo l Hnd. eapply Permutation_NoDup; [|exact Hnd].
  apply Permutation_sym. apply sort_states_perm.
Qed.

Lemma parse_require_fuel_NoDup : forall fuel sc states,
  NoDup states -> NoDup (parse_require_fuel fuel sc states).
Proof.
  induction fuel as [|f IH]; intros sc states Hnd; simpl; [exact Hnd|].
  destruct (Nat.eqb _ _); [exact Hnd|].
  apply IH. apply NoDup_filter. exact Hnd.
Qed.

Lemma target_states_NoDup : forall c to_set, NoDup (target_states c to_set).
Proof.
  intros c to_set. unfold target_states. apply sort_states_NoDup.
  unfold target_unsorted, parse_require. apply parse_require_fuel_NoDup.
  apply NoDup_rev. apply uniq_NoDup.
Qed.

Lemma diff_In : forall a b x, In x (diff a b) <-> In x a /\ ~ In x b.
Proof.
  intros a b x. unfold diff. rewrite filter_In. rewrite negb_true_iff, mem_false. tauto.
Qed.

Lemma without_In_other : forall l x y, y <> x -> In y l -> In y (without l x).
Proof.
  induction l as [|z r IH]; intros x y Hne Hin; simpl; [contradiction|].
  destruct (Nat.eqb x z) eqn:E.
  - apply Nat.eqb_eq in E. subst z. destruct Hin as [Heq|Hin]; [congruence | exact Hin].
  - destruct Hin as [Heq|Hin]; [left; exact Heq | right; apply IH; assumption].
Qed.

Lemma without_incl : forall l x y, In y (without l x) -> In y l.
Proof.
  induction l as [|z r IH]; intros x y Hin; simpl in *; [contradiction|].
  destruct (Nat.eqb x z).
  - right. exact Hin.
  - destruct Hin as [Heq|Hin]; [left; exact Heq | right; eapply IH; exact Hin].
Qed.

Lemma without_NoDup : forall l x, NoDup l -> NoDup (without l x).
Proof.
  induction l as [|z r IH]; intros x Hnd; simpl; [constructor|].
  inversion Hnd as [|? ? Hnotin Hnd']; subst.
  destruct (Nat.eqb x z); [exact Hnd'|].
  constructor; [|apply IH; exact Hnd'].
  intros Hin. apply Hnotin. eapply without_incl. exact Hin.
Qed.

Lemma without_notin_self : forall l x, NoDup l -> ~ In x (without l x).
Proof.
  induction l as [|z r IH]; intros x Hnd; simpl; [tauto|].
  inversion Hnd as [|? ? Hnotin Hnd']; subst.
  destruct (Nat.eqb x z) eqn:E.
  - apply Nat.eqb_eq in E. subst z. exact Hnotin.
  - apply Nat.eqb_neq in E. intros [Heq|Hin]; [congruence|].
    exact (IH x Hnd' Hin).
Qed.

Lemma without_filter : forall l x, NoDup l ->
  without l x = filter (fun z => negb (Nat.eqb z x)) l.
Proof.
  induction l as [|z r IH]; intros x Hnd; simpl; [reflexivity|].
  inversion Hnd as [|? ? Hnotin Hnd']; subst.
  rewrite (Nat.eqb_sym z x).
  destruct (Nat.eqb x z) eqn:E; simpl.
  - apply Nat.eqb_eq in E. subst z.
    symmetry. clear IH Hnd Hnd'. induction r as [|w r IHr]; simpl; [reflexivity|].
    destruct (Nat.eqb w x) eqn:E2.
    + apply Nat.eqb_eq in E2. subst w. exfalso. apply Hnotin. left. reflexivity.
    + simpl. f_equal. apply IHr. intros Hin. apply Hnotin. right. exact Hin.
  - f_equal. apply IH. exact Hnd'.
Qed.

(* ================================================================== *)
(* 1. frame lemmas: who touches the flags                              *)
(* ================================================================== *)

(* the three "fault" flags *)
Definition flags_ok (s : st) : Prop :=
  crashed s = false /\ loop_dead s = false /\ hung s = false.

(* functions that only enqueue keep the flags *)
Definition same_flags (s s' : st) : Prop :=
  crashed s' = crashed s /\ loop_dead s' = loop_dead s /\ hung s' = hung s.

Lemma same_flags_refl : forall s, same_flags s s.
Proof. intros s. repeat split. Qed.

Lemma same_flags_trans : forall a b c, same_flags a b -> same_flags b c -> same_flags a c.
Proof.
  intros a b c [H1 [H2 H3]] [H4 [H5 H6]]. repeat split; congruence.
Qed.

Lemma queue_mutation_flags : forall s mt states args,
  same_flags s (fst (queue_mutation s mt states args)).
Proof.
  intros s mt states args. unfold queue_mutation.
  destruct (negb _ && negb args && is_dup _ _ _); simpl; repeat split.
Qed.

Lemma nested_add_flags : forall s states args, same_flags s (fst (nested_add s states args)).
Proof.
  intros s states args. unfold nested_add.
  destruct (limit_hit s && _); [apply same_flags_refl|].
  pose proof (queue_mutation_flags s MAdd states args) as H.
  destruct (queue_mutation s MAdd states args) as [s1 tick]. simpl in H.
  destruct (tick =? 0)%N; exact H.
Qed.

Lemma nested_remove_flags : forall s states args, same_flags s (fst (nested_remove s states args)).
Proof.
  intros s states args. unfold nested_remove.
  destruct (limit_hit s && _); [apply same_flags_refl|].
  destruct (Nat.eqb _ 0 && _); [apply same_flags_refl|].
  pose proof (queue_mutation_flags s MRemove states args) as H.
  destruct (queue_mutation s MRemove states args) as [s1 tick]. simpl in H.
  destruct (tick =? 0)%N; exact H.
Qed.

Lemma nested_set_flags : forall s states args, same_flags s (fst (nested_set s states args)).
Proof.
  intros s states args. unfold nested_set.
  destruct (limit_hit s); [apply same_flags_refl|].
  pose proof (queue_mutation_flags s MSet states args) as H.
  destruct (queue_mutation s MSet states args) as [s1 tick]. simpl in H.
  destruct (tick =? 0)%N; exact H.
Qed.

Lemma nested_api_flags : forall s c, same_flags s (fst (nested_api s c)).
Proof.
  intros s c. unfold nested_api. destruct (ac_kind c).
  - apply nested_add_flags.
  - apply nested_remove_flags.
  - apply nested_set_flags.
  - destruct (mach_is s (ac_states c)); [apply nested_remove_flags | apply nested_add_flags].
  - destruct (limit_hit s); [apply same_flags_refl|].
    eapply same_flags_trans; [|apply nested_add_flags]. repeat split.
  - repeat split.
  - repeat split.
Qed.

Lemma run_calls_flags : forall cs s, same_flags s (fst (run_calls s cs)).
Proof.
  induction cs as [|c r IH]; intros s; simpl; [apply same_flags_refl|].
  pose proof (nested_api_flags s c) as H1.
  destruct (nested_api s c) as [s1 res]. simpl in H1.
  pose proof (IH s1) as H2.
  destruct (run_calls s1 r) as [s2 rs]. simpl in *.
  eapply same_flags_trans; eassumption.
Qed.

Lemma recover_final_phase_flags : forall s t k, same_flags s (recover_final_phase s t k).
Proof. intros s t k. repeat split. Qed.

Lemma recover_to_err_flags : forall s t k, same_flags s (recover_to_err s t k).
Proof.
  intros s t k. unfold recover_to_err.
  destruct (mem (exc s) _); [apply same_flags_refl|].
  destruct (is_final_key k); repeat split.
Qed.

Lemma call_bindings_flags : forall bs s t k bi caught inv s1 r,
  loop_dead s = false ->
  call_bindings s t k bs bi caught inv = (s1, r) ->
  same_flags s s1.
Proof.
  induction bs as [|b rest IH]; intros s t k bi caught inv s1 r Hld Hcb; simpl in Hcb.
  - inversion Hcb; subst. apply same_flags_refl.
  - destruct (existsb (hkey_eqb k) b); [|eapply IH; eassumption].
    rewrite Hld in Hcb.
    destruct inv.
    + destruct (is_final_key k); [eapply IH; eassumption|].
      inversion Hcb; subst. apply same_flags_refl.
    + pose proof (run_calls_flags (ha_calls (hd default_action (actions s)))
                    (set_actions s (tl (actions s)))) as Hrc.
      destruct (run_calls (set_actions s (tl (actions s)))
                  (ha_calls (hd default_action (actions s)))) as [s1' rs].
      simpl fst in Hrc.
      set (e := {| hl_key := k; hl_binding := bi; hl_active := active (set_actions s (tl (actions s)));
                   hl_clock := clock (set_actions s (tl (actions s))); hl_results := rs;
                   hl_ret := ha_ret (hd default_action (actions s)) |}) in *.
      assert (Hs2 : same_flags s (set_hlog s1' (e :: hlog s1'))).
      { destruct Hrc as [H1 [H2 H3]]. repeat split; simpl; assumption. }
      destruct (ha_fault (hd default_action (actions s))).
      * destruct (negb (is_final_key k) && negb (ha_ret (hd default_action (actions s)))).
        -- inversion Hcb; subst. exact Hs2.
        -- eapply same_flags_trans; [exact Hs2|].
           eapply IH; [|exact Hcb]. destruct Hs2 as [_ [H2 _]]. congruence.
      * assert (Hs3 : same_flags s (recover_to_err (set_hlog s1' (e :: hlog s1')) t k)).
        { eapply same_flags_trans; [exact Hs2 | apply recover_to_err_flags]. }
        destruct (is_final_key k).
        -- eapply same_flags_trans; [exact Hs3|].
           eapply IH; [|exact Hcb]. destruct Hs3 as [_ [H2 _]]. congruence.
        -- inversion Hcb; subst. exact Hs3.
      * inversion Hcb; subst. exact Hs2.
Qed.

Lemma handle_flags : forall s t k s1 t1 ok,
  loop_dead s = false -> handle s t k = (s1, t1, ok) -> same_flags s s1.
Proof.
  intros s t k s1 t1 ok Hld Hh. unfold handle in Hh.
  destruct (call_bindings s t k (bindings s) 0 false (t_invalid t)) as [s' r] eqn:E.
  inversion Hh; subst. eapply call_bindings_flags; eassumption.
Qed.

Lemma flags_ok_same : forall s s', flags_ok s -> same_flags s s' -> flags_ok s'.
Proof.
  intros s s' [H1 [H2 H3]] [H4 [H5 H6]]. repeat split; congruence.
Qed.

(* ================================================================== *)
(* 2. what a handler event does to the in-flight transition            *)
(* ================================================================== *)

(* everything but target / accepted / invalid *)
Definition same_tx (t t1 : tstate) : Prop :=
  t_mut t1 = t_mut t /\ t_before t1 = t_before t /\ t_clock_before t1 = t_clock_before t
  /\ t_enters t1 = t_enters t /\ t_exits t1 = t_exits t.

Lemma same_tx_refl : forall t, same_tx t t.
Proof. intros t. repeat split. Qed.

Lemma same_tx_trans : forall a b c, same_tx a b -> same_tx b c -> same_tx a c.
Proof.
  intros a b c [H1 [H2 [H3 [H4 H5]]]] [H6 [H7 [H8 [H9 H10]]]]. repeat split; congruence.
Qed.

Lemma same_tx_with_target : forall t tg, same_tx t (with_target t tg).
Proof. intros t tg. repeat split. Qed.

Lemma same_tx_with_panicked : forall t, same_tx t (with_panicked t).
Proof. intros t. repeat split. Qed.

Lemma handle_t_cases : forall s t k s1 t1 ok,
  handle s t k = (s1, t1, ok) -> t1 = t \/ t1 = with_panicked t.
Proof.
  intros s t k s1 t1 ok Hh. unfold handle in Hh.
  destruct (call_bindings s t k (bindings s) 0 false (t_invalid t)) as [s' r].
  inversion Hh; subst. destruct (hr_invalidated r); [right|left]; reflexivity.
Qed.

Lemma handle_same_tx : forall s t k s1 t1 ok,
  handle s t k = (s1, t1, ok) -> same_tx t t1 /\ t_target t1 = t_target t.
Proof.
  intros s t k s1 t1 ok Hh. apply handle_t_cases in Hh.
  destruct Hh as [Heq|Heq]; subst; split; try reflexivity;
    [apply same_tx_refl | apply same_tx_with_panicked].
Qed.

(* a handler event that was not canceled did not invalidate the transition *)
Lemma call_bindings_ok : forall bs s t k bi caught inv s1 r,
  call_bindings s t k bs bi caught inv = (s1, r) -> hr_ok r = true ->
  caught = false /\ hr_invalidated r = inv && negb (t_invalid t).
Proof.
  induction bs as [|b rest IH]; intros s t k bi caught inv s1 r Hcb Hok; simpl in Hcb.
  - inversion Hcb; subst. simpl in *. apply negb_true_iff in Hok. split; [exact Hok | reflexivity].
  - destruct (existsb (hkey_eqb k) b); [|eapply IH; eassumption].
    destruct (loop_dead s); [inversion Hcb; subst; discriminate|].
    destruct inv.
    + destruct (is_final_key k); [eapply IH; eassumption|].
      inversion Hcb; subst; discriminate.
    + destruct (run_calls (set_actions s (tl (actions s)))
                  (ha_calls (hd default_action (actions s)))) as [s1' rs].
      destruct (ha_fault (hd default_action (actions s))).
      * destruct (negb (is_final_key k) && negb (ha_ret (hd default_action (actions s)))).
        -- inversion Hcb; subst; discriminate.
        -- eapply IH; eassumption.
      * destruct (is_final_key k).
        -- apply IH in Hcb; [|exact Hok]. destruct Hcb as [Hc _]. discriminate.
        -- inversion Hcb; subst; discriminate.
      * inversion Hcb; subst; discriminate.
Qed.

Lemma handle_ok_t : forall s t k s1 t1,
  handle s t k = (s1, t1, true) -> t1 = t.
Proof.
  intros s t k s1 t1 Hh. unfold handle in Hh.
  destruct (call_bindings s t k (bindings s) 0 false (t_invalid t)) as [s' r] eqn:E.
  inversion Hh as [[H1 H2 H3]]. 
  destruct (call_bindings_ok _ _ _ _ _ _ _ _ _ E H3) as [_ Hinv].
  rewrite Hinv. destruct (t_invalid t); reflexivity.
Qed.

(* ================================================================== *)
(* 3. the negotiation never reaches the Delete(-1) crash               *)
(* ================================================================== *)

Lemma emit_exits_no_crash : forall l s t s1 t1 nr,
  emit_exits s t l = (s1, t1, nr) -> nr <> NCrash.
Proof.
  induction l as [|x r IH]; intros s t s1 t1 nr He; simpl in He.
  - inversion He; subst. discriminate.
  - destruct (handle s t (HExit x)) as [[s' t'] ok].
    destruct (hung s'); [inversion He; subst; discriminate|].
    destruct ok; [eapply IH; eassumption|].
    destruct (mu_auto (t_mut t') && is_auto_state s x).
    + destruct (mem x (t_target t')); [eapply IH; eassumption|].
      inversion He; subst; discriminate.
    + inversion He; subst; discriminate.
Qed.

(* the exits are never in the target: emit_exits leaves the target alone *)
Lemma emit_exits_target : forall l s t s1 t1 nr,
  (forall x, In x l -> ~ In x (t_target t)) ->
  emit_exits s t l = (s1, t1, nr) -> same_tx t t1 /\ t_target t1 = t_target t.
Proof.
  induction l as [|x r IH]; intros s t s1 t1 nr Hdis He; simpl in He.
  - inversion He; subst. split; [apply same_tx_refl | reflexivity].
  - destruct (handle s t (HExit x)) as [[s' t'] ok] eqn:Eh.
    apply handle_same_tx in Eh. destruct Eh as [Hst Htg].
    assert (Hrec : forall s1 t1 nr, emit_exits s' t' r = (s1, t1, nr) ->
                     same_tx t t1 /\ t_target t1 = t_target t).
    { intros s2 t2 nr2 He2. apply IH in He2.
      - destruct He2 as [H1 H2]. split; [eapply same_tx_trans; eassumption | congruence].
      - intros y Hy. rewrite Htg. apply Hdis. right. exact Hy. }
    destruct (hung s'); [inversion He; subst; split; assumption|].
    destruct ok; [eapply Hrec; eassumption|].
    destruct (mu_auto (t_mut t') && is_auto_state s x).
    + destruct (mem x (t_target t')) eqn:Em.
      * exfalso. apply mem_In in Em. rewrite Htg in Em. exact (Hdis x (or_introl eq_refl) Em).
      * inversion He; subst; split; assumption.
    + inversion He; subst; split; assumption.
Qed.

Lemma emit_enters_no_crash : forall l s t s1 t1 nr,
  NoDup l -> (forall x, In x l -> In x (t_target t)) ->
  emit_enters s t l = (s1, t1, nr) -> nr <> NCrash.
Proof.
  induction l as [|x r IH]; intros s t s1 t1 nr Hnd Hsub He; simpl in He.
  - inversion He; subst. discriminate.
  - inversion Hnd as [|? ? Hnotin Hnd']; subst.
    destruct (handle s t (HEnter x)) as [[s' t'] ok] eqn:Eh.
    apply handle_same_tx in Eh. destruct Eh as [_ Htg].
    destruct (hung s'); [inversion He; subst; discriminate|].
    destruct ok.
    { eapply IH; [exact Hnd' | | exact He]. intros y Hy. rewrite Htg. apply Hsub. right. exact Hy. }
    destruct (mu_auto (t_mut t') && is_auto_state s x).
    + destruct (mem x (t_target t')) eqn:Em.
      * eapply IH; [exact Hnd' | | exact He].
        intros y Hy. simpl. unfold delete_state. apply without_In_other.
        -- intros Heq. subst y. contradiction.
        -- rewrite Htg. apply Hsub. right. exact Hy.
      * exfalso. apply mem_false in Em. apply Em. rewrite Htg. apply Hsub. left. reflexivity.
    + inversion He; subst; discriminate.
Qed.

Lemma shift_delete_target : forall tg x k, In x tg ->
  shift_delete (map Some tg ++ repeat None k) x
  = map Some (without tg x) ++ repeat None (S k).
Proof.
  induction tg as [|y r IH]; intros x k Hin; [contradiction|].
  simpl. destruct (Nat.eqb x y) eqn:E.
  - rewrite <- app_assoc. f_equal.
    change [@None nat] with (repeat (@None nat) 1). rewrite <- repeat_app.
    rewrite Nat.add_comm. reflexivity.
  - apply Nat.eqb_neq in E. destruct Hin as [Heq|Hin]; [congruence|].
    rewrite IH by exact Hin. reflexivity.
Qed.

Lemma nth_error_target_arr : forall (tg : list nat) k i (x : nat),
  nth_error (map Some tg ++ repeat None k) i = Some (Some x) -> In x tg.
Proof.
  intros tg k i x Hn. apply nth_error_In in Hn. apply in_app_or in Hn.
  destruct Hn as [Hn|Hn].
  - apply in_map_iff in Hn. destruct Hn as [y [Heq Hy]]. inversion Heq; subst. exact Hy.
  - apply repeat_spec in Hn. discriminate.
Qed.

Lemma emit_selfs_no_crash : forall fuel s t arr i last s1 t1 nr,
  (exists k, arr = map Some (t_target t) ++ repeat None k) ->
  emit_selfs fuel s t arr i last = (s1, t1, nr) -> nr <> NCrash.
Proof.
  induction fuel as [|f IH]; intros s t arr i last s1 t1 nr Harr He; simpl in He.
  - inversion He; subst. destruct last; discriminate.
  - destruct (nth_error arr i) as [[x|]|] eqn:En.
    + destruct (negb (is_active s x)); [eapply IH; eassumption|].
      destruct (handle s t (HSelf x)) as [[s' t'] ok] eqn:Eh.
      apply handle_same_tx in Eh. destruct Eh as [_ Htg].
      destruct (hung s'); [inversion He; subst; discriminate|].
      destruct ok.
      { eapply IH; [|exact He]. rewrite Htg. exact Harr. }
      destruct (mu_auto (t_mut t') && is_auto_state s x).
      * destruct Harr as [k Harr]. subst arr.
        assert (Hin : In x (t_target t)) by (eapply nth_error_target_arr; exact En).
        destruct (mem x (t_target t')) eqn:Em.
        -- eapply IH; [|exact He]. exists (S k). simpl. rewrite Htg. unfold delete_state.
           apply shift_delete_target. exact Hin.
        -- exfalso. apply mem_false in Em. apply Em. rewrite Htg. exact Hin.
      * inversion He; subst; discriminate.
    + eapply IH; eassumption.
    + inversion He; subst. destruct last; discriminate.
Qed.

Lemma emit_trans_inner_no_crash : forall after s t b s1 t1 nr,
  emit_trans_inner s t b after = (s1, t1, nr) -> nr <> NCrash.
Proof.
  induction after as [|a r IH]; intros s t b s1 t1 nr He; simpl in He.
  - inversion He; subst; discriminate.
  - destruct (Nat.eqb b a); [eapply IH; eassumption|].
    destruct (handle s t (HTrans b a)) as [[s' t'] ok].
    destruct (hung s'); [inversion He; subst; discriminate|].
    destruct ok; [eapply IH; eassumption|].
    destruct (mu_auto (t_mut t') && is_auto_state s a); [eapply IH; eassumption|].
    inversion He; subst; discriminate.
Qed.

Lemma emit_trans_no_crash : forall before s t after s1 t1 nr,
  emit_trans s t before after = (s1, t1, nr) -> nr <> NCrash.
Proof.
  induction before as [|b r IH]; intros s t after s1 t1 nr He; simpl in He.
  - inversion He; subst; discriminate.
  - destruct (emit_trans_inner s t b after) as [[s' t'] nr'] eqn:Ei.
    destruct nr'.
    + eapply IH; eassumption.
    + inversion He; subst; discriminate.
    + apply emit_trans_inner_no_crash in Ei. congruence.
Qed.

(* the shape newTransition gives an accepted transition *)
Definition tx_shape (t : tstate) : Prop :=
  NoDup (t_enters t) /\
  (forall x, In x (t_enters t) -> In x (t_target t)) /\
  (forall x, In x (t_exits t) -> ~ In x (t_target t)).

Lemma negotiate_no_crash : forall s t s1 t1 nr,
  tx_shape t -> negotiate s t = (s1, t1, nr) -> nr <> NCrash.
Proof.
  intros s t s1 t1 nr [Hnd [Hsub Hdis]] Hn. unfold negotiate in Hn.
  destruct (emit_exits s t (t_exits t)) as [[sa ta] nra] eqn:Ea.
  pose proof (emit_exits_no_crash _ _ _ _ _ _ Ea) as Hca.
  apply emit_exits_target in Ea; [|exact Hdis]. destruct Ea as [[_ [_ [_ [Hen _]]]] Htg].
  destruct nra; [|inversion Hn; subst; discriminate | congruence].
  destruct (emit_enters sa ta (t_enters ta)) as [[sb tb] nrb] eqn:Eb.
  assert (Hcb : nrb <> NCrash).
  { eapply emit_enters_no_crash; [| |exact Eb]; rewrite Hen; [exact Hnd|].
    intros x Hx. rewrite Htg. apply Hsub. exact Hx. }
  destruct nrb; [|inversion Hn; subst; discriminate | congruence].
  destruct (mu_type (t_mut tb)).
  - destruct (emit_selfs (S (length (t_target tb))) sb tb (map Some (t_target tb)) 0 true)
      as [[sc0 tc] nrc] eqn:Ec.
    assert (Hcc : nrc <> NCrash).
    { eapply emit_selfs_no_crash; [|exact Ec]. exists 0. simpl. rewrite app_nil_r. reflexivity. }
    destruct nrc; [|inversion Hn; subst; discriminate | congruence].
    eapply emit_trans_no_crash. exact Hn.
  - eapply emit_trans_no_crash. exact Hn.
  - destruct (emit_selfs (S (length (t_target tb))) sb tb (map Some (t_target tb)) 0 true)
      as [[sc0 tc] nrc] eqn:Ec.
    assert (Hcc : nrc <> NCrash).
    { eapply emit_selfs_no_crash; [|exact Ec]. exists 0. simpl. rewrite app_nil_r. reflexivity. }
    destruct nrc; [|inversion Hn; subst; discriminate | congruence].
    eapply emit_trans_no_crash. exact Hn.
Qed.

Lemma with_exit_enter_shape : forall sch tp act t,
  NoDup (t_target t) -> tx_shape (with_exit_enter sch tp act t).
Proof.
  intros sch tp act t Hnd. unfold tx_shape, with_exit_enter. simpl. repeat split.
  - apply NoDup_filter. exact Hnd.
  - intros x Hx. apply filter_In in Hx. tauto.
  - intros x Hx. apply sort_states_In in Hx. apply diff_In in Hx. tauto.
Qed.

Lemma new_transition_shape : forall s mu,
  t_accepted (new_transition s mu) = true -> tx_shape (new_transition s mu).
Proof.
  intros s mu. unfold new_transition.
  set (c := {| rc_schema := sc s; rc_before := active s; rc_mtype := mu_type mu;
               rc_called := mu_called mu; rc_topology := topo s |}).
  set (tg := target_states c (states_to_set (mu_type mu) (mu_called mu) (active s))).
  destruct (setup_accepted s mu tg) eqn:Ea.
  - intros _. apply with_exit_enter_shape. simpl. apply target_states_NoDup.
  - simpl. intros H. congruence.
Qed.

(* ================================================================== *)
(* 4. generic invariants of the event emitters                         *)
(* ================================================================== *)

Section EmitInv.
  Variable P : st -> tstate -> Prop.
  Hypothesis P_handle : forall s t k s1 t1 ok,
    is_final_key k = false -> P s t -> handle s t k = (s1, t1, ok) -> P s1 t1.
  Hypothesis P_handle_fin : forall s t k s1 t1 ok,
    is_final_key k = true -> P s t -> handle s t k = (s1, t1, ok) -> P s1 t1.
  Hypothesis P_del : forall s t x,
    P s t -> P s (with_target t (delete_state (t_target t) x)).

  Lemma emit_exits_P : forall l s t s1 t1 nr,
    P s t -> emit_exits s t l = (s1, t1, nr) -> P s1 t1.
  Proof.
    induction l as [|x r IH]; intros s t s1 t1 nr HP He; simpl in He.
    - inversion He; subst. exact HP.
    - destruct (handle s t (HExit x)) as [[s' t'] ok] eqn:Eh.
      apply (P_handle _ _ _ _ _ _) with (2 := HP) in Eh; [|reflexivity].
      destruct (hung s'); [inversion He; subst; exact Eh|].
      destruct ok; [eapply IH; eassumption|].
      destruct (mu_auto (t_mut t') && is_auto_state s x).
      + destruct (mem x (t_target t')).
        * eapply IH; [|exact He]. apply P_del. exact Eh.
        * inversion He; subst; exact Eh.
      + inversion He; subst; exact Eh.
  Qed.

  Lemma emit_enters_P : forall l s t s1 t1 nr,
    P s t -> emit_enters s t l = (s1, t1, nr) -> P s1 t1.
  Proof.
    induction l as [|x r IH]; intros s t s1 t1 nr HP He; simpl in He.
    - inversion He; subst. exact HP.
    - destruct (handle s t (HEnter x)) as [[s' t'] ok] eqn:Eh.
      apply (P_handle _ _ _ _ _ _) with (2 := HP) in Eh; [|reflexivity].
      destruct (hung s'); [inversion He; subst; exact Eh|].
      destruct ok; [eapply IH; eassumption|].
      destruct (mu_auto (t_mut t') && is_auto_state s x).
      + destruct (mem x (t_target t')).
        * eapply IH; [|exact He]. apply P_del. exact Eh.
        * inversion He; subst; exact Eh.
      + inversion He; subst; exact Eh.
  Qed.

  Lemma emit_selfs_P : forall fuel s t arr i last s1 t1 nr,
    P s t -> emit_selfs fuel s t arr i last = (s1, t1, nr) -> P s1 t1.
  Proof.
    induction fuel as [|f IH]; intros s t arr i last s1 t1 nr HP He; simpl in He.
    - inversion He; subst. exact HP.
    - destruct (nth_error arr i) as [[x|]|].
      + destruct (negb (is_active s x)); [eapply IH; eassumption|].
        destruct (handle s t (HSelf x)) as [[s' t'] ok] eqn:Eh.
        apply (P_handle _ _ _ _ _ _) with (2 := HP) in Eh; [|reflexivity].
        destruct (hung s'); [inversion He; subst; exact Eh|].
        destruct ok; [eapply IH; eassumption|].
        destruct (mu_auto (t_mut t') && is_auto_state s x).
        * destruct (mem x (t_target t')).
          -- eapply IH; [|exact He]. apply P_del. exact Eh.
          -- inversion He; subst; exact Eh.
        * inversion He; subst; exact Eh.
      + eapply IH; eassumption.
      + inversion He; subst. exact HP.
  Qed.

  Lemma emit_trans_inner_P : forall after s t b s1 t1 nr,
    P s t -> emit_trans_inner s t b after = (s1, t1, nr) -> P s1 t1.
  Proof.
    induction after as [|a r IH]; intros s t b s1 t1 nr HP He; simpl in He.
    - inversion He; subst; exact HP.
    - destruct (Nat.eqb b a); [eapply IH; eassumption|].
      destruct (handle s t (HTrans b a)) as [[s' t'] ok] eqn:Eh.
      apply (P_handle _ _ _ _ _ _) with (2 := HP) in Eh; [|reflexivity].
      destruct (hung s'); [inversion He; subst; exact Eh|].
      destruct ok; [eapply IH; eassumption|].
      destruct (mu_auto (t_mut t') && is_auto_state s a).
      + eapply IH; [|exact He]. apply P_del. exact Eh.
      + inversion He; subst; exact Eh.
  Qed.

  Lemma emit_trans_P : forall before s t after s1 t1 nr,
    P s t -> emit_trans s t before after = (s1, t1, nr) -> P s1 t1.
  Proof.
    induction before as [|b r IH]; intros s t after s1 t1 nr HP He; simpl in He.
    - inversion He; subst; exact HP.
    - destruct (emit_trans_inner s t b after) as [[s' t'] nr'] eqn:Ei.
      apply (emit_trans_inner_P _ _ _ _ _ _ _ HP) in Ei.
      destruct nr'; [eapply IH; eassumption | inversion He; subst; exact Ei
                    | inversion He; subst; exact Ei].
  Qed.

  Lemma negotiate_P : forall s t s1 t1 nr,
    P s t -> negotiate s t = (s1, t1, nr) -> P s1 t1.
  Proof.
    intros s t s1 t1 nr HP Hn. unfold negotiate in Hn.
    destruct (emit_exits s t (t_exits t)) as [[sa ta] nra] eqn:Ea.
    apply (emit_exits_P _ _ _ _ _ _ HP) in Ea.
    destruct nra; [|inversion Hn; subst; exact Ea | inversion Hn; subst; exact Ea].
    destruct (emit_enters sa ta (t_enters ta)) as [[sb tb] nrb] eqn:Eb.
    apply (emit_enters_P _ _ _ _ _ _ Ea) in Eb.
    destruct nrb; [|inversion Hn; subst; exact Eb | inversion Hn; subst; exact Eb].
    destruct (mu_type (t_mut tb)).
    - destruct (emit_selfs (S (length (t_target tb))) sb tb (map Some (t_target tb)) 0 true)
        as [[sc0 tc] nrc] eqn:Ec.
      apply (emit_selfs_P _ _ _ _ _ _ _ _ _ Eb) in Ec.
      destruct nrc; [|inversion Hn; subst; exact Ec | inversion Hn; subst; exact Ec].
      eapply emit_trans_P; eassumption.
    - eapply emit_trans_P; eassumption.
    - destruct (emit_selfs (S (length (t_target tb))) sb tb (map Some (t_target tb)) 0 true)
        as [[sc0 tc] nrc] eqn:Ec.
      apply (emit_selfs_P _ _ _ _ _ _ _ _ _ Eb) in Ec.
      destruct nrc; [|inversion Hn; subst; exact Ec | inversion Hn; subst; exact Ec].
      eapply emit_trans_P; eassumption.
  Qed.

  Lemma emit_finals_P : forall l s t s1 t1 fk,
    P s t -> emit_finals s t l = (s1, t1, fk) -> P s1 t1.
  Proof.
    induction l as [|x r IH]; intros s t s1 t1 fk HP He; simpl in He.
    - inversion He; subst; exact HP.
    - destruct (handle s t (if mem x (t_enters t) then HState x else HEnd x))
        as [[s' t'] ok] eqn:Eh.
      apply (P_handle_fin _ _ _ _ _ _) with (2 := HP) in Eh;
        [|destruct (mem x (t_enters t)); reflexivity].
      destruct ok; [eapply IH; eassumption | inversion He; subst; exact Eh].
  Qed.
End EmitInv.

(* a negotiation that went through without a veto, for a non-auto mutation,
   left the transition object alone *)
Lemma emit_exits_ok_t : forall l s t s1 t1,
  mu_auto (t_mut t) = false -> emit_exits s t l = (s1, t1, NOk) -> t1 = t.
Proof.
  induction l as [|x r IH]; intros s t s1 t1 Hna He; simpl in He.
  - inversion He; subst. reflexivity.
  - destruct (handle s t (HExit x)) as [[s' t'] ok] eqn:Eh.
    destruct (hung s'); [inversion He|].
    destruct ok.
    + apply handle_ok_t in Eh. subst t'. eapply IH; eassumption.
    + apply handle_same_tx in Eh. destruct Eh as [[Hm _] _]. rewrite Hm, Hna in He.
      simpl in He. inversion He.
Qed.

Lemma emit_enters_ok_t : forall l s t s1 t1,
  mu_auto (t_mut t) = false -> emit_enters s t l = (s1, t1, NOk) -> t1 = t.
Proof.
  induction l as [|x r IH]; intros s t s1 t1 Hna He; simpl in He.
  - inversion He; subst. reflexivity.
  - destruct (handle s t (HEnter x)) as [[s' t'] ok] eqn:Eh.
    destruct (hung s'); [inversion He|].
    destruct ok.
    + apply handle_ok_t in Eh. subst t'. eapply IH; eassumption.
    + apply handle_same_tx in Eh. destruct Eh as [[Hm _] _]. rewrite Hm, Hna in He.
      simpl in He. inversion He.
Qed.

Lemma emit_selfs_ok_t : forall fuel s t arr i last s1 t1,
  mu_auto (t_mut t) = false -> emit_selfs fuel s t arr i last = (s1, t1, NOk) -> t1 = t.
Proof.
  induction fuel as [|f IH]; intros s t arr i last s1 t1 Hna He; simpl in He.
  - inversion He; subst. reflexivity.
  - destruct (nth_error arr i) as [[x|]|].
    + destruct (negb (is_active s x)); [eapply IH; eassumption|].
      destruct (handle s t (HSelf x)) as [[s' t'] ok] eqn:Eh.
      destruct (hung s'); [inversion He|].
      destruct ok.
      * apply handle_ok_t in Eh. subst t'. eapply IH; eassumption.
      * apply handle_same_tx in Eh. destruct Eh as [[Hm _] _]. rewrite Hm, Hna in He.
        simpl in He. inversion He.
    + eapply IH; eassumption.
    + inversion He; subst. reflexivity.
Qed.

Lemma emit_trans_inner_ok_t : forall after s t b s1 t1,
  mu_auto (t_mut t) = false -> emit_trans_inner s t b after = (s1, t1, NOk) -> t1 = t.
Proof.
  induction after as [|a r IH]; intros s t b s1 t1 Hna He; simpl in He.
  - inversion He; subst. reflexivity.
  - destruct (Nat.eqb b a); [eapply IH; eassumption|].
    destruct (handle s t (HTrans b a)) as [[s' t'] ok] eqn:Eh.
    destruct (hung s'); [inversion He|].
    destruct ok.
    + apply handle_ok_t in Eh. subst t'. eapply IH; eassumption.
    + apply handle_same_tx in Eh. destruct Eh as [[Hm _] _]. rewrite Hm, Hna in He.
      simpl in He. inversion He.
Qed.

Lemma emit_trans_ok_t : forall before s t after s1 t1,
  mu_auto (t_mut t) = false -> emit_trans s t before after = (s1, t1, NOk) -> t1 = t.
Proof.
  induction before as [|b r IH]; intros s t after s1 t1 Hna He; simpl in He.
  - inversion He; subst. reflexivity.
  - destruct (emit_trans_inner s t b after) as [[s' t'] nr'] eqn:Ei.
    destruct nr'; [|inversion He|inversion He].
    apply emit_trans_inner_ok_t in Ei; [|exact Hna]. subst t'. eapply IH; eassumption.
Qed.

Lemma negotiate_ok_t : forall s t s1 t1,
  mu_auto (t_mut t) = false -> negotiate s t = (s1, t1, NOk) -> t1 = t.
Proof.
  intros s t s1 t1 Hna Hn. unfold negotiate in Hn.
  destruct (emit_exits s t (t_exits t)) as [[sa ta] nra] eqn:Ea.
  destruct nra; [|inversion Hn|inversion Hn].
  apply emit_exits_ok_t in Ea; [|exact Hna]. subst ta.
  destruct (emit_enters sa t (t_enters t)) as [[sb tb] nrb] eqn:Eb.
  destruct nrb; [|inversion Hn|inversion Hn].
  apply emit_enters_ok_t in Eb; [|exact Hna]. subst tb.
  destruct (mu_type (t_mut t)).
  - destruct (emit_selfs (S (length (t_target t))) sb t (map Some (t_target t)) 0 true)
      as [[sc0 tc] nrc] eqn:Ec.
    destruct nrc; [|inversion Hn|inversion Hn].
    apply emit_selfs_ok_t in Ec; [|exact Hna]. subst tc.
    eapply emit_trans_ok_t; eassumption.
  - eapply emit_trans_ok_t; eassumption.
  - destruct (emit_selfs (S (length (t_target t))) sb t (map Some (t_target t)) 0 true)
      as [[sc0 tc] nrc] eqn:Ec.
    destruct nrc; [|inversion Hn|inversion Hn].
    apply emit_selfs_ok_t in Ec; [|exact Hna]. subst tc.
    eapply emit_trans_ok_t; eassumption.
Qed.

Lemma emit_finals_none_t : forall l s t s1 t1,
  emit_finals s t l = (s1, t1, None) -> t1 = t.
Proof.
  induction l as [|x r IH]; intros s t s1 t1 He; simpl in He.
  - inversion He; subst. reflexivity.
  - destruct (handle s t (if mem x (t_enters t) then HState x else HEnd x))
      as [[s' t'] ok] eqn:Eh.
    destruct ok; [|inversion He].
    apply handle_ok_t in Eh. subst t'. eapply IH; eassumption.
Qed.

(* ================================================================== *)
(* 5. run_tx cut into phases                                           *)
(* ================================================================== *)

Definition rt_s0 (s : st) : st := add_ev (add_ev s EvInit) EvStart.

Definition rt_neg (s : st) (mu : mutation) : st * tstate * nres :=
  if has_handlers (rt_s0 s) && negb (negb (t_accepted (new_transition s mu)))
  then negotiate (rt_s0 s) (new_transition s mu)
  else (rt_s0 s, new_transition s mu, NOk).

Definition rt_canceled1 (s : st) (mu : mutation) (nr : nres) : bool :=
  negb (t_accepted (new_transition s mu)) || match nr with NCancel => true | _ => false end.

Definition rt_canceled2 (s : st) (mu : mutation) (t1 : tstate) (nr : nres) : bool :=
  if has_handlers (rt_s0 s)
  then rt_canceled1 s mu nr || (mu_auto mu && Nat.eqb (length (t_target t1)) 0)
  else rt_canceled1 s mu nr.

Definition rt_anyenter (s : st) (mu : mutation) (s1 : st) (t1 : tstate) (nr : nres)
  : st * tstate * bool :=
  if has_handlers (rt_s0 s) && negb (rt_canceled2 s mu t1 nr) then
    let '(sx, tx, ok) := handle s1 t1 HAnyEnter in (sx, tx, negb ok)
  else (s1, t1, rt_canceled2 s mu t1 nr).

Definition rt_check_rec (s : st) (mu : mutation) (s2 : st) (t1 : tstate) (canceled3 : bool) : txrec :=
  {| tx_type := mu_type mu; tx_called := mu_called mu; tx_auto := mu_auto mu;
     tx_check := true; tx_qtick := mu_qtick mu;
     tx_before := t_clock_before t1; tx_after := t_clock_before t1;
     tx_active_before := t_before t1; tx_target := t_target t1;
     tx_accepted := t_accepted t1 && negb canceled3; tx_mach_after := clock s2;
     tx_hfrom := length (hlog s); tx_hto := length (hlog s2) |}.

Definition rt_t2 (mu : mutation) (s2 : st) (t1 : tstate) : tstate :=
  if mu_auto mu then
    with_exit_enter (sc s2) (topo s2) (active s2)
      (with_target t1
         (target_states (rctx_of s2 t1)
            (states_to_set MAdd (diff (mu_called mu) (diff (mu_called mu) (t_target t1)))
               (active s2))))
  else t1.

Definition rt_cl (mu : mutation) (s2 : st) (t2 : tstate) : list N :=
  set_active_clock (sc s2) (clock s2) (active s2) (mu_called mu) (t_target t2).

Definition rt_s3 (mu : mutation) (s2 : st) (t2 : tstate) : st :=
  add_ev (set_mach s2 (rt_cl mu s2 t2) (t_target t2)) EvFinals.

Definition rt_finals (s3 : st) (t2 : tstate) : st * tstate * bool :=
  if has_handlers s3 then
    match emit_finals s3 t2 (t_exits t2 ++ t_enters t2) with
    | (sx, tx, Some k) => (if hung sx then sx else recover_final_phase sx tx k, tx, true)
    | (sx, tx, None) => (sx, tx, false)
    end
  else (s3, t2, false).

Definition rt_anystate (s4 : st) (t3 : tstate) (fcancel : bool) : st * tstate * bool :=
  if has_handlers s4 && negb fcancel then
    let '(sx, tx, ok) := handle s4 t3 HAnyState in (sx, tx, negb ok)
  else (s4, t3, fcancel).

Definition rt_s6 (mu : mutation) (s4 : st) (t3 : tstate) (s5 : st) (fcancel2 : bool) : st :=
  if negb fcancel2 && negb (nclock_eqb (clock s4) (t_clock_before t3))
     && negb (mu_auto mu) && negb (is_health s5 mu)
  then prepend_auto s5 else s5.

Definition rt_res (mu : mutation) (s6 : st) (t4 : tstate) (fcancel2 : bool) : result :=
  if fcancel2 then Canceled else
  match mu_type mu with
  | MRemove => if mach_not s6 (mu_called mu) then Executed else Canceled
  | _ => if mu_auto mu then
           (if length (t_before t4) <? length (t_target t4) then Executed else Canceled)
         else (if mach_is s6 (t_target t4) then Executed else Canceled)
  end.

Definition rt_apply_rec (s : st) (mu : mutation) (cl : list N) (t4 : tstate) (s6 : st)
  (fcancel2 : bool) : txrec :=
  {| tx_type := mu_type mu; tx_called := mu_called mu; tx_auto := mu_auto mu;
     tx_check := false; tx_qtick := mu_qtick mu;
     tx_before := t_clock_before t4; tx_after := cl;
     tx_active_before := t_before t4; tx_target := t_target t4;
     tx_accepted := t_accepted t4 && negb fcancel2; tx_mach_after := clock s6;
     tx_hfrom := length (hlog s); tx_hto := length (hlog s6) |}.

Definition rt_cancel_rec (s : st) (mu : mutation) (s2 : st) (t2 : tstate) : txrec :=
  {| tx_type := mu_type mu; tx_called := mu_called mu; tx_auto := mu_auto mu;
     tx_check := false; tx_qtick := mu_qtick mu;
     tx_before := t_clock_before t2; tx_after := clock s2;
     tx_active_before := t_before t2; tx_target := t_target t2;
     tx_accepted := false; tx_mach_after := clock s2;
     tx_hfrom := length (hlog s); tx_hto := length (hlog s2) |}.

Definition run_tx' (s : st) (mu : mutation) : st * result :=
  let '(s1, t1, nr) := rt_neg s mu in
  match nr with
  | NCrash => (set_crashed s1, Canceled)
  | _ =>
    if hung s1 then (s1, Canceled) else
    let '(s2, t1', canceled3) := rt_anyenter s mu s1 t1 nr in
    if hung s2 then (s2, Canceled) else
    if mu_check mu then
      (add_ev (add_tx s2 (rt_check_rec s mu s2 t1' canceled3)) EvEnd,
       if canceled3 then Canceled else Executed)
    else
      if negb canceled3 then
        let '(s4, t3, fcancel) := rt_finals (rt_s3 mu s2 (rt_t2 mu s2 t1')) (rt_t2 mu s2 t1') in
        if hung s4 then (s4, Canceled) else
        let '(s5, t4, fcancel2) := rt_anystate s4 t3 fcancel in
        if hung s5 then (s5, Canceled) else
        (add_ev (add_tx (rt_s6 mu s4 t3 s5 fcancel2)
                   (rt_apply_rec s mu (rt_cl mu s2 (rt_t2 mu s2 t1')) t4
                      (rt_s6 mu s4 t3 s5 fcancel2) fcancel2)) EvEnd,
         rt_res mu (rt_s6 mu s4 t3 s5 fcancel2) t4 fcancel2)
      else
        (add_ev (add_tx s2 (rt_cancel_rec s mu s2 (rt_t2 mu s2 t1'))) EvEnd, Canceled)
  end.

Lemma run_tx_eq : forall s mu, run_tx s mu = run_tx' s mu.
Proof. intros s mu. reflexivity. Qed.

(* the ways out of run_tx *)
Inductive run_tx_path (s : st) (mu : mutation) : st -> result -> Prop :=
| path_crash : forall s1 t1,
    rt_neg s mu = (s1, t1, NCrash) ->
    run_tx_path s mu (set_crashed s1) Canceled
| path_hung1 : forall s1 t1 nr,
    rt_neg s mu = (s1, t1, nr) -> nr <> NCrash -> hung s1 = true ->
    run_tx_path s mu s1 Canceled
| path_hung2 : forall s1 t1 nr s2 t1' c3,
    rt_neg s mu = (s1, t1, nr) -> nr <> NCrash -> hung s1 = false ->
    rt_anyenter s mu s1 t1 nr = (s2, t1', c3) -> hung s2 = true ->
    run_tx_path s mu s2 Canceled
| path_check : forall s1 t1 nr s2 t1' c3,
    rt_neg s mu = (s1, t1, nr) -> nr <> NCrash -> hung s1 = false ->
    rt_anyenter s mu s1 t1 nr = (s2, t1', c3) -> hung s2 = false ->
    mu_check mu = true ->
    run_tx_path s mu (add_ev (add_tx s2 (rt_check_rec s mu s2 t1' c3)) EvEnd)
                (if c3 then Canceled else Executed)
| path_cancel : forall s1 t1 nr s2 t1',
    rt_neg s mu = (s1, t1, nr) -> nr <> NCrash -> hung s1 = false ->
    rt_anyenter s mu s1 t1 nr = (s2, t1', true) -> hung s2 = false ->
    mu_check mu = false ->
    run_tx_path s mu (add_ev (add_tx s2 (rt_cancel_rec s mu s2 (rt_t2 mu s2 t1'))) EvEnd) Canceled
| path_hung4 : forall s1 t1 nr s2 t1' s4 t3 fc,
    rt_neg s mu = (s1, t1, nr) -> nr <> NCrash -> hung s1 = false ->
    rt_anyenter s mu s1 t1 nr = (s2, t1', false) -> hung s2 = false ->
    mu_check mu = false ->
    rt_finals (rt_s3 mu s2 (rt_t2 mu s2 t1')) (rt_t2 mu s2 t1') = (s4, t3, fc) ->
    hung s4 = true ->
    run_tx_path s mu s4 Canceled
| path_hung5 : forall s1 t1 nr s2 t1' s4 t3 fc s5 t4 fc2,
    rt_neg s mu = (s1, t1, nr) -> nr <> NCrash -> hung s1 = false ->
    rt_anyenter s mu s1 t1 nr = (s2, t1', false) -> hung s2 = false ->
    mu_check mu = false ->
    rt_finals (rt_s3 mu s2 (rt_t2 mu s2 t1')) (rt_t2 mu s2 t1') = (s4, t3, fc) ->
    hung s4 = false ->
    rt_anystate s4 t3 fc = (s5, t4, fc2) -> hung s5 = true ->
    run_tx_path s mu s5 Canceled
| path_apply : forall s1 t1 nr s2 t1' s4 t3 fc s5 t4 fc2,
    rt_neg s mu = (s1, t1, nr) -> nr <> NCrash -> hung s1 = false ->
    rt_anyenter s mu s1 t1 nr = (s2, t1', false) -> hung s2 = false ->
    mu_check mu = false ->
    rt_finals (rt_s3 mu s2 (rt_t2 mu s2 t1')) (rt_t2 mu s2 t1') = (s4, t3, fc) ->
    hung s4 = false ->
    rt_anystate s4 t3 fc = (s5, t4, fc2) -> hung s5 = false ->
    run_tx_path s mu
      (add_ev (add_tx (rt_s6 mu s4 t3 s5 fc2)
                 (rt_apply_rec s mu (rt_cl mu s2 (rt_t2 mu s2 t1')) t4
                    (rt_s6 mu s4 t3 s5 fc2) fc2)) EvEnd)
      (rt_res mu (rt_s6 mu s4 t3 s5 fc2) t4 fc2).

Lemma run_tx_inv : forall s mu s' r, run_tx s mu = (s', r) -> run_tx_path s mu s' r.
Proof.
  intros s mu s' r H. rewrite run_tx_eq in H. unfold run_tx' in H.
  destruct (rt_neg s mu) as [[s1 t1] nr] eqn:En.
  assert (Hmain : nr <> NCrash ->
    (if hung s1 then (s1, Canceled) else
      let '(s2, t1', canceled3) := rt_anyenter s mu s1 t1 nr in
      if hung s2 then (s2, Canceled) else
      if mu_check mu then
        (add_ev (add_tx s2 (rt_check_rec s mu s2 t1' canceled3)) EvEnd,
         if canceled3 then Canceled else Executed)
      else
        if negb canceled3 then
          let '(s4, t3, fcancel) := rt_finals (rt_s3 mu s2 (rt_t2 mu s2 t1')) (rt_t2 mu s2 t1') in
          if hung s4 then (s4, Canceled) else
          let '(s5, t4, fcancel2) := rt_anystate s4 t3 fcancel in
          if hung s5 then (s5, Canceled) else
          (add_ev (add_tx (rt_s6 mu s4 t3 s5 fcancel2)
                     (rt_apply_rec s mu (rt_cl mu s2 (rt_t2 mu s2 t1')) t4
                        (rt_s6 mu s4 t3 s5 fcancel2) fcancel2)) EvEnd,
           rt_res mu (rt_s6 mu s4 t3 s5 fcancel2) t4 fcancel2)
        else
          (add_ev (add_tx s2 (rt_cancel_rec s mu s2 (rt_t2 mu s2 t1'))) EvEnd, Canceled))
    = (s', r) -> run_tx_path s mu s' r).
  { intros Hnc H'.
    destruct (hung s1) eqn:Eh1.
    { inversion H'; subst. eapply path_hung1; eassumption. }
    destruct (rt_anyenter s mu s1 t1 nr) as [[s2 t1'] c3] eqn:Ea.
    destruct (hung s2) eqn:Eh2.
    { inversion H'; subst. eapply path_hung2; eassumption. }
    destruct (mu_check mu) eqn:Ech.
    { inversion H'; subst. eapply path_check; eassumption. }
    destruct c3; simpl negb in H'; cbv iota in H'.
    { inversion H'; subst. eapply path_cancel; eassumption. }
    destruct (rt_finals (rt_s3 mu s2 (rt_t2 mu s2 t1')) (rt_t2 mu s2 t1')) as [[s4 t3] fc] eqn:Ef.
    destruct (hung s4) eqn:Eh4.
    { inversion H'; subst. eapply path_hung4; eassumption. }
    destruct (rt_anystate s4 t3 fc) as [[s5 t4] fc2] eqn:Es.
    destruct (hung s5) eqn:Eh5.
    { inversion H'; subst. eapply path_hung5; eassumption. }
    inversion H'; subst. eapply path_apply; eassumption. }
  destruct nr.
  - apply Hmain; [discriminate | exact H].
  - apply Hmain; [discriminate | exact H].
  - inversion H; subst. eapply path_crash; eassumption.
Qed.

(* ---- the transition object along the phases ---- *)

Lemma new_transition_fields : forall s mu,
  t_mut (new_transition s mu) = mu /\ t_invalid (new_transition s mu) = false
  /\ t_before (new_transition s mu) = active s /\ t_clock_before (new_transition s mu) = clock s.
Proof.
  intros s mu. unfold new_transition.
  destruct (setup_accepted s mu _); repeat split.
Qed.

Lemma rt_neg_no_crash : forall s mu s1 t1 nr, rt_neg s mu = (s1, t1, nr) -> nr <> NCrash.
Proof.
  intros s mu s1 t1 nr H. unfold rt_neg in H.
  destruct (has_handlers (rt_s0 s)); simpl in H.
  - destruct (t_accepted (new_transition s mu)) eqn:Ea; simpl in H.
    + eapply negotiate_no_crash; [|exact H]. apply new_transition_shape. exact Ea.
    + inversion H; subst; discriminate.
  - inversion H; subst; discriminate.
Qed.

Lemma rt_neg_ok_t : forall s mu s1 t1,
  mu_auto mu = false -> rt_neg s mu = (s1, t1, NOk) -> t1 = new_transition s mu.
Proof.
  intros s mu s1 t1 Hna H. unfold rt_neg in H.
  destruct (has_handlers (rt_s0 s) && negb (negb (t_accepted (new_transition s mu)))).
  - eapply negotiate_ok_t; [|exact H].
    destruct (new_transition_fields s mu) as [Hm _]. rewrite Hm. exact Hna.
  - inversion H; subst; reflexivity.
Qed.

Lemma rt_anyenter_false : forall s mu s1 t1 nr s2 t1',
  rt_anyenter s mu s1 t1 nr = (s2, t1', false) ->
  t1' = t1 /\ rt_canceled2 s mu t1 nr = false.
Proof.
  intros s mu s1 t1 nr s2 t1' H. unfold rt_anyenter in H.
  destruct (rt_canceled2 s mu t1 nr) eqn:Ec.
  - rewrite andb_false_r in H. inversion H.
  - split; [|reflexivity].
    destruct (has_handlers (rt_s0 s) && negb false).
    + destruct (handle s1 t1 HAnyEnter) as [[sx tx] ok] eqn:Eh.
      inversion H; subst. destruct ok; [|discriminate].
      apply handle_ok_t in Eh. exact Eh.
    + inversion H; subst; reflexivity.
Qed.

Lemma rt_canceled2_false : forall s mu t1 nr,
  rt_canceled2 s mu t1 nr = false -> nr <> NCancel /\ t_accepted (new_transition s mu) = true.
Proof.
  intros s mu t1 nr H. unfold rt_canceled2, rt_canceled1 in H.
  assert (Hc : negb (t_accepted (new_transition s mu))
               || match nr with NCancel => true | _ => false end = false).
  { destruct (has_handlers (rt_s0 s)); [|exact H].
    apply orb_false_iff in H. tauto. }
  apply orb_false_iff in Hc. destruct Hc as [Ha Hn]. split.
  - intros Heq. subst nr. discriminate.
  - apply negb_false_iff in Ha. exact Ha.
Qed.

Lemma rt_finals_false : forall s3 t2 s4 t3,
  rt_finals s3 t2 = (s4, t3, false) -> t3 = t2.
Proof.
  intros s3 t2 s4 t3 H. unfold rt_finals in H.
  destruct (has_handlers s3); [|inversion H; subst; reflexivity].
  destruct (emit_finals s3 t2 (t_exits t2 ++ t_enters t2)) as [[sx tx] [k|]] eqn:Ef.
  - inversion H.
  - inversion H; subst. eapply emit_finals_none_t; exact Ef.
Qed.

Lemma rt_anystate_false : forall s4 t3 fc s5 t4,
  rt_anystate s4 t3 fc = (s5, t4, false) -> t4 = t3 /\ fc = false.
Proof.
  intros s4 t3 fc s5 t4 H. unfold rt_anystate in H.
  destruct fc.
  - rewrite andb_false_r in H. inversion H.
  - split; [|reflexivity].
    destruct (has_handlers s4 && negb false).
    + destruct (handle s4 t3 HAnyState) as [[sx tx] ok] eqn:Eh.
      inversion H; subst. destruct ok; [|discriminate].
      apply handle_ok_t in Eh. exact Eh.
    + inversion H; subst; reflexivity.
Qed.

(* when the auto mutation is prepended the transition object is still the
   one newTransition built *)
Lemma rt_s6_prepend_t : forall s mu s1 t1 nr s2 t1' s4 t3 fc s5 t4 fc2,
  rt_neg s mu = (s1, t1, nr) -> nr <> NCrash ->
  rt_anyenter s mu s1 t1 nr = (s2, t1', false) ->
  rt_finals (rt_s3 mu s2 (rt_t2 mu s2 t1')) (rt_t2 mu s2 t1') = (s4, t3, fc) ->
  rt_anystate s4 t3 fc = (s5, t4, fc2) ->
  negb fc2 && negb (nclock_eqb (clock s4) (t_clock_before t3))
     && negb (mu_auto mu) && negb (is_health s5 mu) = true ->
  t4 = new_transition s mu /\ fc = false /\ fc2 = false /\ mu_auto mu = false /\ nr = NOk.
Proof.
  intros s mu s1 t1 nr s2 t1' s4 t3 fc s5 t4 fc2 Hn Hnc Ha Hf Hs Hc.
  repeat rewrite andb_true_iff in Hc. destruct Hc as [[[Hc1 _] Hc3] _].
  apply negb_true_iff in Hc1. apply negb_true_iff in Hc3. subst fc2.
  apply rt_anystate_false in Hs. destruct Hs as [Ht4 Hfc]. subst t4 fc.
  apply rt_finals_false in Hf. subst t3.
  apply rt_anyenter_false in Ha. destruct Ha as [Ht1 Hc2]. subst t1'.
  apply rt_canceled2_false in Hc2. destruct Hc2 as [Hnr _].
  assert (Hok : nr = NOk) by (destruct nr; congruence). subst nr.
  unfold rt_t2. rewrite Hc3.
  apply rt_neg_ok_t in Hn; [|exact Hc3]. subst t1. repeat split; reflexivity.
Qed.

Section RunTxInv.
  Variable P : st -> tstate -> Prop.
  Hypothesis P_handle : forall s t k s1 t1 ok,
    is_final_key k = false -> P s t -> handle s t k = (s1, t1, ok) -> P s1 t1.
  Hypothesis P_handle_fin : forall s t k s1 t1 ok,
    is_final_key k = true -> P s t -> handle s t k = (s1, t1, ok) -> P s1 t1.
  Hypothesis P_target : forall s t tg, P s t -> P s (with_target t tg).
  Hypothesis P_exit_enter : forall s t a b c, P s t -> P s (with_exit_enter a b c t).
  Hypothesis P_ev : forall s t e, P s t -> P (add_ev s e) t.
  Hypothesis P_tx : forall s t r, P s t -> P (add_tx s r) t.
  Hypothesis P_mach : forall s t cl ac, P s t -> P (set_mach s cl ac) t.
  Hypothesis P_rfp : forall s t k, P s t -> P (recover_final_phase s t k) t.
  Hypothesis P_auto : forall s t, P s t -> t_invalid t = false -> P (prepend_auto s) t.

  Lemma P_del' : forall s t x, P s t -> P s (with_target t (delete_state (t_target t) x)).
  Proof. intros s t x HP. apply P_target. exact HP. Qed.

  Lemma rt_neg_P : forall s mu s1 t1 nr,
    P (rt_s0 s) (new_transition s mu) -> rt_neg s mu = (s1, t1, nr) -> P s1 t1.
  Proof.
    intros s mu s1 t1 nr HP H. unfold rt_neg in H.
    destruct (has_handlers (rt_s0 s) && negb (negb (t_accepted (new_transition s mu)))).
    - eapply (negotiate_P P P_handle P_del'); eassumption.
    - inversion H; subst; exact HP.
  Qed.

  Lemma rt_anyenter_P : forall s mu s1 t1 nr s2 t1' c3,
    P s1 t1 -> rt_anyenter s mu s1 t1 nr = (s2, t1', c3) -> P s2 t1'.
  Proof.
    intros s mu s1 t1 nr s2 t1' c3 HP H. unfold rt_anyenter in H.
    destruct (has_handlers (rt_s0 s) && negb (rt_canceled2 s mu t1 nr)).
    - destruct (handle s1 t1 HAnyEnter) as [[sx tx] ok] eqn:Eh.
      inversion H; subst. eapply P_handle; [| exact HP | exact Eh]. reflexivity.
    - inversion H; subst; exact HP.
  Qed.

  Lemma rt_t2_P : forall mu s2 t1, P s2 t1 -> P s2 (rt_t2 mu s2 t1).
  Proof.
    intros mu s2 t1 HP. unfold rt_t2. destruct (mu_auto mu); [|exact HP].
    apply P_exit_enter. apply P_target. exact HP.
  Qed.

  Lemma rt_s3_P : forall mu s2 t2, P s2 t2 -> P (rt_s3 mu s2 t2) t2.
  Proof. intros mu s2 t2 HP. unfold rt_s3. apply P_ev. apply P_mach. exact HP. Qed.

  Lemma rt_finals_P : forall s3 t2 s4 t3 fc,
    P s3 t2 -> rt_finals s3 t2 = (s4, t3, fc) -> P s4 t3.
  Proof.
    intros s3 t2 s4 t3 fc HP H. unfold rt_finals in H.
    destruct (has_handlers s3); [|inversion H; subst; exact HP].
    destruct (emit_finals s3 t2 (t_exits t2 ++ t_enters t2)) as [[sx tx] fk] eqn:Ef.
    apply (emit_finals_P P P_handle_fin _ _ _ _ _ _ HP) in Ef.
    destruct fk as [k|]; inversion H; subst; [|exact Ef].
    destruct (hung sx); [exact Ef | apply P_rfp; exact Ef].
  Qed.

  Lemma rt_anystate_P : forall s4 t3 fc s5 t4 fc2,
    P s4 t3 -> rt_anystate s4 t3 fc = (s5, t4, fc2) -> P s5 t4.
  Proof.
    intros s4 t3 fc s5 t4 fc2 HP H. unfold rt_anystate in H.
    destruct (has_handlers s4 && negb fc).
    - destruct (handle s4 t3 HAnyState) as [[sx tx] ok] eqn:Eh.
      inversion H; subst. eapply P_handle_fin; [| exact HP | exact Eh]. reflexivity.
    - inversion H; subst; exact HP.
  Qed.

  Lemma run_tx_P : forall s mu s' r,
    P (rt_s0 s) (new_transition s mu) -> run_tx s mu = (s', r) -> exists t', P s' t'.
  Proof.
    intros s mu s' r HP H. apply run_tx_inv in H.
    destruct H as [s1 t1 Hn
                  |s1 t1 nr Hn Hnc Hh1
                  |s1 t1 nr s2 t1' c3 Hn Hnc Hh1 Ha Hh2
                  |s1 t1 nr s2 t1' c3 Hn Hnc Hh1 Ha Hh2 Hck
                  |s1 t1 nr s2 t1' Hn Hnc Hh1 Ha Hh2 Hck
                  |s1 t1 nr s2 t1' s4 t3 fc Hn Hnc Hh1 Ha Hh2 Hck Hf Hh4
                  |s1 t1 nr s2 t1' s4 t3 fc s5 t4 fc2 Hn Hnc Hh1 Ha Hh2 Hck Hf Hh4 Hs Hh5
                  |s1 t1 nr s2 t1' s4 t3 fc s5 t4 fc2 Hn Hnc Hh1 Ha Hh2 Hck Hf Hh4 Hs Hh5].
    - exfalso. apply rt_neg_no_crash in Hn. congruence.
    - exists t1. eapply rt_neg_P; eassumption.
    - exists t1'. eapply rt_anyenter_P; [|exact Ha]. eapply rt_neg_P; eassumption.
    - exists t1'. apply P_ev. apply P_tx.
      eapply rt_anyenter_P; [|exact Ha]. eapply rt_neg_P; eassumption.
    - exists t1'. apply P_ev. apply P_tx.
      eapply rt_anyenter_P; [|exact Ha]. eapply rt_neg_P; eassumption.
    - exists t3. eapply rt_finals_P; [|exact Hf]. apply rt_s3_P. apply rt_t2_P.
      eapply rt_anyenter_P; [|exact Ha]. eapply rt_neg_P; eassumption.
    - exists t4. eapply rt_anystate_P; [|exact Hs].
      eapply rt_finals_P; [|exact Hf]. apply rt_s3_P. apply rt_t2_P.
      eapply rt_anyenter_P; [|exact Ha]. eapply rt_neg_P; eassumption.
    - exists t4. apply P_ev. apply P_tx.
      assert (HP5 : P s5 t4).
      { eapply rt_anystate_P; [|exact Hs].
        eapply rt_finals_P; [|exact Hf]. apply rt_s3_P. apply rt_t2_P.
        eapply rt_anyenter_P; [|exact Ha]. eapply rt_neg_P; eassumption. }
      unfold rt_s6.
      destruct (negb fc2 && negb (nclock_eqb (clock s4) (t_clock_before t3))
                && negb (mu_auto mu) && negb (is_health s5 mu)) eqn:Ec; [|exact HP5].
      apply P_auto; [exact HP5|].
      destruct (rt_s6_prepend_t _ _ _ _ _ _ _ _ _ _ _ _ _ Hn Hnc Ha Hf Hs Ec) as [Ht4 _].
      subst t4. destruct (new_transition_fields s mu) as [_ [Hi _]]. exact Hi.
  Qed.
End RunTxInv.

(* ================================================================== *)
(* 6. C08 (a): faults never escape                                     *)
(* ================================================================== *)

Lemma prepend_auto_flags : forall s, same_flags s (prepend_auto s).
Proof.
  intros s. unfold prepend_auto. destruct (auto_candidates (sc s) (active s)); repeat split.
Qed.

Lemma run_tx_flags_lemma : forall s mu,
  flags_ok s -> flags_ok (fst (run_tx s mu)).
Proof.
  intros s mu Hf.
  destruct (run_tx s mu) as [s' r] eqn:E. simpl.
  destruct (run_tx_P (fun s _ => flags_ok s)) with (s := s) (mu := mu) (s' := s') (r := r)
    as [_ HP]; try assumption.
  - intros s0 t k s1 t1 ok _ HP Hh. eapply flags_ok_same; [exact HP|].
    eapply handle_flags; [|exact Hh]. destruct HP as [_ [H _]]. exact H.
  - intros s0 t k s1 t1 ok _ HP Hh. eapply flags_ok_same; [exact HP|].
    eapply handle_flags; [|exact Hh]. destruct HP as [_ [H _]]. exact H.
  - intros s0 t tg HP; exact HP.
  - intros s0 t a b c HP; exact HP.
  - intros s0 t e HP; exact HP.
  - intros s0 t r0 HP; exact HP.
  - intros s0 t cl ac HP; exact HP.
  - intros s0 t k HP; exact HP.
  - intros s0 t HP _. eapply flags_ok_same; [exact HP | apply prepend_auto_flags].
Qed.

Lemma faults_never_escape_lemma : forall s mu,
  crashed s = false -> loop_dead s = false -> hung s = false ->
  crashed (fst (run_tx s mu)) = false /\ loop_dead (fst (run_tx s mu)) = false
  /\ hung (fst (run_tx s mu)) = false.
Proof.
  intros s mu H1 H2 H3. apply (run_tx_flags_lemma s mu). repeat split; assumption.
Qed.

(* lift to the drain loop, the top-level calls and whole runs *)
Lemma drain_flags : forall fuel s first,
  flags_ok s -> flags_ok (fst (fst (drain fuel s first))).
Proof.
  induction fuel as [|f IH]; intros s first Hf; simpl; [exact Hf|].
  destruct (crashed s || hung s); [exact Hf|].
  destruct (queue s) as [|mu rest]; [exact Hf|].
  match goal with |- context [run_tx ?x mu] => set (s1 := x) end.
  assert (Hf1 : flags_ok s1).
  { unfold s1. destruct (0 <? mu_qtick mu)%N; exact Hf. }
  pose proof (run_tx_flags_lemma s1 mu Hf1) as Hf2.
  destruct (run_tx s1 mu) as [s2 r]. simpl in Hf2.
  apply IH. exact Hf2.
Qed.

Lemma process_queue_flags : forall fuel s,
  flags_ok s -> flags_ok (fst (fst (process_queue fuel s))).
Proof.
  intros fuel s Hf. unfold process_queue.
  destruct (queue s); [exact Hf|].
  pose proof (drain_flags fuel s None Hf) as H.
  destruct (drain fuel s None) as [[s1 first] ok]. exact H.
Qed.

Lemma top_mutation_flags : forall fuel s mt states args,
  flags_ok s -> flags_ok (fst (fst (top_mutation fuel s mt states args))).
Proof.
  intros fuel s mt states args Hf. unfold top_mutation.
  pose proof (queue_mutation_flags s mt states args) as Hq.
  destruct (queue_mutation s mt states args) as [s1 tick]. simpl in Hq.
  pose proof (flags_ok_same _ _ Hf Hq) as Hf1.
  destruct (tick =? 0)%N; [exact Hf1|].
  pose proof (process_queue_flags fuel s1 Hf1) as H.
  destruct (process_queue fuel s1) as [[s2 r] ok]. exact H.
Qed.

Lemma top_add_flags : forall fuel s states args,
  flags_ok s -> flags_ok (fst (fst (top_add fuel s states args))).
Proof.
  intros fuel s states args Hf. unfold top_add.
  destruct (limit_hit s && _); [exact Hf | apply top_mutation_flags; exact Hf].
Qed.

Lemma top_remove_flags : forall fuel s states args,
  flags_ok s -> flags_ok (fst (fst (top_remove fuel s states args))).
Proof.
  intros fuel s states args Hf. unfold top_remove.
  destruct (limit_hit s && _); [exact Hf | apply top_mutation_flags; exact Hf].
Qed.

Lemma top_api_flags : forall fuel s c,
  flags_ok s -> flags_ok (fst (fst (top_api fuel s c))).
Proof.
  intros fuel s c Hf. unfold top_api. destruct (ac_kind c).
  - apply top_add_flags; exact Hf.
  - apply top_remove_flags; exact Hf.
  - destruct (limit_hit s); [exact Hf | apply top_mutation_flags; exact Hf].
  - destruct (mach_is s (ac_states c)); [apply top_remove_flags | apply top_add_flags]; exact Hf.
  - destruct (limit_hit s); [exact Hf|]. apply top_add_flags. exact Hf.
  - apply process_queue_flags. exact Hf.
  - apply process_queue_flags. exact Hf.
Qed.

Lemma run_calls_top_flags : forall fuel cs s acc,
  flags_ok s -> flags_ok (fst (fst (run_calls_top fuel s cs acc))).
Proof.
  intros fuel cs. induction cs as [|c r IH]; intros s acc Hf; simpl; [exact Hf|].
  destruct (crashed s || hung s); [exact Hf|].
  pose proof (top_api_flags fuel s c Hf) as H1.
  destruct (top_api fuel s c) as [[s1 res] ok]. simpl in H1.
  destruct (crashed s1 || hung s1); [exact H1|].
  destruct ok; [apply IH; exact H1 | exact H1].
Qed.

Lemma run_never_crashes_lemma : forall fuel sch tp hl ex bs ql acts cs,
  tr_crashed (run fuel (init_st sch tp hl ex bs ql acts) cs) = false /\
  tr_hung (run fuel (init_st sch tp hl ex bs ql acts) cs) = false.
Proof.
  intros fuel sch tp hl ex bs ql acts cs. unfold run.
  assert (Hf : flags_ok (init_st sch tp hl ex bs ql acts)) by (repeat split).
  pose proof (run_calls_top_flags fuel cs _ [] Hf) as H.
  destruct (run_calls_top fuel (init_st sch tp hl ex bs ql acts) cs []) as [[s1 obs] ok].
  simpl in *. destruct H as [H1 [_ H3]]. split; assumption.
Qed.

(* (f) the machine lives on: a drain that was not cut short empties the queue *)
Lemma machine_lives_on_lemma : forall fuel s first s' r,
  drain fuel s first = (s', r, true) -> crashed s' = false -> hung s' = false ->
  queue s' = [].
Proof.
  induction fuel as [|f IH]; intros s first s' r Hd Hc Hh; simpl in Hd; [inversion Hd|].
  destruct (crashed s || hung s) eqn:Ef.
  - inversion Hd; subst. rewrite Hc, Hh in Ef. discriminate.
  - destruct (queue s) as [|mu rest] eqn:Eq.
    + inversion Hd; subst. simpl. exact Eq.
    + destruct (run_tx _ mu) as [s2 r2]. eapply IH; eassumption.
Qed.

(* (g) no run yields the "escaped panic" (81) or "wedged" (82) codes *)
Definition fault_code_val (c : N) : Prop :=
  c = 84%N \/ c = 86%N \/ c = 890%N \/ c = 891%N \/ c = 892%N.

Lemma tx_fault_codes_vals : forall sch tp ex acts hlog t next c,
  In c (tx_fault_codes sch tp ex acts hlog t next) -> fault_code_val c.
Proof.
  intros sch tp ex acts hlog t next c Hin. unfold tx_fault_codes in Hin.
  destruct (first_fault acts (tx_entries hlog t)) as [[j h]|]; [|contradiction].
  apply in_app_or in Hin. destruct Hin as [Hin|Hin].
  - destruct (existsb _ _ && negb (mem ex (tx_called t))); [|contradiction].
    destruct next as [n|].
    + destruct (mut_type_eqb (tx_type n) MAdd && list_eqb (tx_called n) [ex]
                && negb (tx_auto n) && (tx_qtick n =? 0)%N); [contradiction|].
      destruct Hin as [Hin|[]]. left. symmetry. exact Hin.
    + destruct Hin as [Hin|[]]. left. symmetry. exact Hin.
  - destruct (negb (is_final_key (hl_key h))).
    + destruct (tx_auto t); [contradiction|].
      destruct (negb (tx_accepted t) && clock_eqb (tx_before t) (tx_mach_after t));
        [contradiction|].
      destruct Hin as [Hin|[]]. right. left. symmetry. exact Hin.
    + match type of Hin with In c (if ?b then _ else _) => destruct b end; [contradiction|].
      destruct (hl_key h); destruct Hin as [Hin|[]]; subst c; unfold fault_code_val; tauto.
Qed.

Lemma txs_fault_codes_vals : forall sch tp ex acts hlog txs c,
  In c (txs_fault_codes sch tp ex acts hlog txs) -> fault_code_val c.
Proof.
  intros sch tp ex acts hlog txs c. induction txs as [|t r IH]; simpl; [contradiction|].
  intros Hin. apply in_app_or in Hin. destruct Hin as [Hin|Hin].
  - eapply tx_fault_codes_vals. exact Hin.
  - apply IH. exact Hin.
Qed.

Lemma c08_no_escape_codes_lemma : forall fuel sch tp hl ex bs ql acts cs interr,
  let tr := run fuel (init_st sch tp hl ex bs ql acts) cs in
  ~ In 81%N (c08_codes sch tp ex acts interr tr) /\
  ~ In 82%N (c08_codes sch tp ex acts interr tr).
Proof.
  intros fuel sch tp hl ex bs ql acts cs interr tr.
  destruct (run_never_crashes_lemma fuel sch tp hl ex bs ql acts cs) as [Hc Hh].
  fold tr in Hc, Hh.
  assert (Hall : forall c, In c (c08_codes sch tp ex acts interr tr) ->
                   c = 80%N \/ c = 87%N \/ fault_code_val c).
  { intros c Hin. unfold c08_codes in Hin. rewrite Hc, Hh in Hin. simpl in Hin.
    apply in_app_or in Hin. destruct Hin as [Hin|Hin].
    - destruct (forallb _ (tr_calls tr)); [contradiction|].
      destruct Hin as [Hin|[]]. left. symmetry. exact Hin.
    - apply in_app_or in Hin. destruct Hin as [Hin|Hin].
      + right. right. eapply txs_fault_codes_vals. exact Hin.
      + destruct (count_stalls acts (length (tr_hlog tr)) <=? interr); [contradiction|].
        destruct Hin as [Hin|[]]. right. left. symmetry. exact Hin. }
  split; intros Hin; apply Hall in Hin; unfold fault_code_val in Hin;
    repeat (destruct Hin as [Hin|Hin]; [discriminate|]); discriminate.
Qed.

(* ================================================================== *)
(* 7. what the enqueueing calls leave alone                            *)
(* ================================================================== *)

Definition same_core (s s' : st) : Prop :=
  hlog s' = hlog s /\ actions s' = actions s /\ exc s' = exc s /\ clock s' = clock s
  /\ active s' = active s /\ txs s' = txs s /\ sc s' = sc s /\ topo s' = topo s
  /\ bindings s' = bindings s.

Lemma same_core_refl : forall s, same_core s s.
Proof. intros s. repeat split. Qed.

Lemma same_core_trans : forall a b c, same_core a b -> same_core b c -> same_core a c.
Proof.
  intros a b c H1 H2. unfold same_core in *.
  destruct H1 as [A1 [A2 [A3 [A4 [A5 [A6 [A7 [A8 A9]]]]]]]].
  destruct H2 as [B1 [B2 [B3 [B4 [B5 [B6 [B7 [B8 B9]]]]]]]].
  repeat split; congruence.
Qed.

Lemma queue_mutation_core : forall s mt states args,
  same_core s (fst (queue_mutation s mt states args)).
Proof.
  intros s mt states args. unfold queue_mutation.
  destruct (negb _ && negb args && is_dup _ _ _); simpl; repeat split.
Qed.

Lemma nested_add_core : forall s states args, same_core s (fst (nested_add s states args)).
Proof.
  intros s states args. unfold nested_add.
  destruct (limit_hit s && _); [apply same_core_refl|].
  pose proof (queue_mutation_core s MAdd states args) as H.
  destruct (queue_mutation s MAdd states args) as [s1 tick]. simpl in H.
  destruct (tick =? 0)%N; exact H.
Qed.

Lemma nested_remove_core : forall s states args, same_core s (fst (nested_remove s states args)).
Proof.
  intros s states args. unfold nested_remove.
  destruct (limit_hit s && _); [apply same_core_refl|].
  destruct (Nat.eqb _ 0 && _); [apply same_core_refl|].
  pose proof (queue_mutation_core s MRemove states args) as H.
  destruct (queue_mutation s MRemove states args) as [s1 tick]. simpl in H.
  destruct (tick =? 0)%N; exact H.
Qed.

Lemma nested_set_core : forall s states args, same_core s (fst (nested_set s states args)).
Proof.
  intros s states args. unfold nested_set.
  destruct (limit_hit s); [apply same_core_refl|].
  pose proof (queue_mutation_core s MSet states args) as H.
  destruct (queue_mutation s MSet states args) as [s1 tick]. simpl in H.
  destruct (tick =? 0)%N; exact H.
Qed.

Lemma nested_api_core : forall s c, same_core s (fst (nested_api s c)).
Proof.
  intros s c. unfold nested_api. destruct (ac_kind c).
  - apply nested_add_core.
  - apply nested_remove_core.
  - apply nested_set_core.
  - destruct (mach_is s (ac_states c)); [apply nested_remove_core | apply nested_add_core].
  - destruct (limit_hit s); [apply same_core_refl|].
    eapply same_core_trans; [|apply nested_add_core]. repeat split.
  - repeat split.
  - repeat split.
Qed.

Lemma run_calls_core : forall cs s, same_core s (fst (run_calls s cs)).
Proof.
  induction cs as [|c r IH]; intros s; simpl; [apply same_core_refl|].
  pose proof (nested_api_core s c) as H1.
  destruct (nested_api s c) as [s1 res]. simpl in H1.
  pose proof (IH s1) as H2.
  destruct (run_calls s1 r) as [s2 rs]. simpl in *.
  eapply same_core_trans; eassumption.
Qed.

(* ================================================================== *)
(* 8. C08 (b): a recovered panic becomes Add[Exception]                *)
(* ================================================================== *)

Definition exc_mut (e : nat) : mutation :=
  {| mu_type := MAdd; mu_called := [e]; mu_auto := false; mu_check := false;
     mu_args := true; mu_qtick := 0 |}.

Lemma recover_to_err_prepends_lemma : forall s t k,
  mem (exc s) (mu_called (t_mut t)) = false ->
  queue (recover_to_err s t k) = exc_mut (exc s) :: queue s /\
  err_code (recover_to_err s t k) = 2%N /\
  hlog (recover_to_err s t k) = hlog s /\ actions (recover_to_err s t k) = actions s /\
  exc (recover_to_err s t k) = exc s.
Proof.
  intros s t k Hm. unfold recover_to_err. rewrite Hm.
  destruct (is_final_key k); simpl; repeat split.
Qed.

(* the one-step unfolding of call_bindings at a binding whose scripted action
   panics: recover_to_err is called on the state the handler left *)
Lemma call_bindings_panic_step_lemma : forall s t k b rest bi caught,
  existsb (hkey_eqb k) b = true -> loop_dead s = false ->
  ha_fault (hd default_action (actions s)) = FPanic ->
  exists s2,
    hlog s2 = {| hl_key := k; hl_binding := bi; hl_active := active s; hl_clock := clock s;
                 hl_results := snd (run_calls (set_actions s (tl (actions s)))
                                      (ha_calls (hd default_action (actions s))));
                 hl_ret := ha_ret (hd default_action (actions s)) |} :: hlog s /\
    actions s2 = tl (actions s) /\
    call_bindings s t k (b :: rest) bi caught false =
      if is_final_key k
      then call_bindings (recover_to_err s2 t k) t k rest (S bi) true (negb (exc_called s t))
      else (recover_to_err s2 t k,
            {| hr_ok := false; hr_invalidated := negb (exc_called s t) |}).
Proof.
  intros s t k b rest bi caught Hb Hld Hf.
  pose proof (run_calls_core (ha_calls (hd default_action (actions s)))
                (set_actions s (tl (actions s)))) as Hc.
  cbn [call_bindings]. rewrite Hb, Hld.
  destruct (run_calls (set_actions s (tl (actions s)))
              (ha_calls (hd default_action (actions s)))) as [s1 rs].
  simpl fst in Hc. simpl snd. rewrite Hf.
  destruct Hc as [H1 [H2 _]].
  eexists. split; [|split; [|reflexivity]].
  - simpl. rewrite H1. reflexivity.
  - simpl. rewrite H2. reflexivity.
Qed.

(* bookkeeping: the j-th handler-log entry consumes the j-th scripted action *)
Definition book (s0 s : st) (ents : list hlentry) : Prop :=
  hlog s = rev ents ++ hlog s0 /\ actions s = skipn (length ents) (actions s0).

Lemma book_refl : forall s, book s s [].
Proof. intros s. split; reflexivity. Qed.

Lemma hd_skipn_nth : forall (A : Type) (d : A) n l, hd d (skipn n l) = nth n l d.
Proof.
  intros A d n. induction n as [|n IH]; intros l; destruct l as [|x r]; simpl; try reflexivity.
  apply IH.
Qed.

Lemma tl_skipn : forall (A : Type) n (l : list A), tl (skipn n l) = skipn (S n) l.
Proof.
  intros A n. induction n as [|n IH]; intros l.
  - destruct l as [|x r]; reflexivity.
  - destruct l as [|x r]; [reflexivity|].
    change (skipn (S n) (x :: r)) with (skipn n r).
    change (skipn (S (S n)) (x :: r)) with (skipn (S n) r). apply IH.
Qed.

(* one consumed action extends the book *)
Lemma book_step : forall s0 s ents s2 e,
  book s0 s ents -> hlog s2 = e :: hlog s -> actions s2 = tl (actions s) ->
  book s0 s2 (ents ++ [e]) /\
  ha_fault (hd default_action (actions s)) = fault_at (actions s0) (length ents).
Proof.
  intros s0 s ents s2 e [Hh Ha] H1 H2. split; [split|].
  - rewrite H1, Hh, rev_app_distr. reflexivity.
  - rewrite H2, Ha, tl_skipn, app_length. simpl. rewrite Nat.add_comm. reflexivity.
  - rewrite Ha, hd_skipn_nth. reflexivity.
Qed.

Section PanicInv.
  Variable s0 : st.
  Variable ex : nat.

  Definition PB (s : st) (iv : bool) : Prop :=
    flags_ok s /\ exc s = ex /\
    exists ents, book s0 s ents /\
      ((exists j, j < length ents /\ fault_at (actions s0) j = FPanic) -> iv = true) /\
      (iv = true -> hd_error (queue s) = Some (exc_mut ex) /\ err_code s = 2%N).

  Lemma PB_same : forall s s' iv,
    PB s iv -> same_flags s s' -> exc s' = exc s -> hlog s' = hlog s ->
    actions s' = actions s -> queue s' = queue s -> err_code s' = err_code s -> PB s' iv.
  Proof.
    intros s s' iv [Hf [He [ents [[Hb1 Hb2] [Hp Hq]]]]] Hsf H1 H2 H3 H4 H5.
    split; [eapply flags_ok_same; eassumption|]. split; [congruence|].
    exists ents. split; [split; congruence|]. split; [exact Hp|].
    rewrite H4, H5. exact Hq.
  Qed.

  Lemma call_bindings_PB : forall bs s t k bi caught inv s1 r,
    call_bindings s t k bs bi caught inv = (s1, r) ->
    (t_invalid t = true -> inv = true) ->
    mem ex (mu_called (t_mut t)) = false ->
    PB s inv -> PB s1 (t_invalid t || hr_invalidated r).
  Proof.
    induction bs as [|b rest IH]; intros s t k bi caught inv s1 r Hcb Hti Hm HP; simpl in Hcb.
    - inversion Hcb; subst. simpl.
      destruct (t_invalid t) eqn:Et; simpl.
      + rewrite (Hti eq_refl) in HP. exact HP.
      + rewrite andb_true_r. exact HP.
    - destruct (existsb (hkey_eqb k) b); [|eapply IH; eassumption].
      assert (Hld : loop_dead s = false) by (destruct HP as [[_ [H _]] _]; exact H).
      rewrite Hld in Hcb.
      destruct inv.
      + destruct (is_final_key k); [eapply IH; eassumption|].
        inversion Hcb; subst. simpl. rewrite orb_negb_r. exact HP.
      + assert (Et : t_invalid t = false).
        { destruct (t_invalid t); [|reflexivity]. symmetry. apply Hti. reflexivity. }
        pose proof (run_calls_core (ha_calls (hd default_action (actions s)))
                      (set_actions s (tl (actions s)))) as Hc.
        pose proof (run_calls_flags (ha_calls (hd default_action (actions s)))
                      (set_actions s (tl (actions s)))) as Hfl.
        destruct (run_calls (set_actions s (tl (actions s)))
                    (ha_calls (hd default_action (actions s)))) as [s1' rs].
        simpl fst in Hc, Hfl.
        destruct Hc as [C1 [C2 [C3 _]]].
        set (e := {| hl_key := k; hl_binding := bi;
                     hl_active := active (set_actions s (tl (actions s)));
                     hl_clock := clock (set_actions s (tl (actions s))); hl_results := rs;
                     hl_ret := ha_ret (hd default_action (actions s)) |}) in *.
        set (s2 := set_hlog s1' (e :: hlog s1')) in *.
        destruct HP as [Hf [He [ents [Hb [Hp _]]]]].
        assert (Hh2 : hlog s2 = e :: hlog s) by (unfold s2; simpl; rewrite C1; reflexivity).
        assert (Ha2 : actions s2 = tl (actions s)) by (unfold s2; simpl; rewrite C2; reflexivity).
        destruct (book_step _ _ _ _ _ Hb Hh2 Ha2) as [Hb2 Hfa].
        assert (Hf2 : flags_ok s2).
        { eapply flags_ok_same; [exact Hf|]. destruct Hfl as [F1 [F2 F3]].
          repeat split; simpl; assumption. }
        assert (He2 : exc s2 = ex) by (unfold s2; simpl; rewrite C3; exact He).
        assert (Hnone : (exists j, j < length ents /\ fault_at (actions s0) j = FPanic) -> False).
        { intros Hj. apply Hp in Hj. discriminate. }
        (* PB s2 false when this action did not panic *)
        assert (HP2 : ha_fault (hd default_action (actions s)) <> FPanic -> PB s2 false).
        { intros Hnp. split; [exact Hf2|]. split; [exact He2|].
          exists (ents ++ [e]). split; [exact Hb2|]. split; [|discriminate].
          intros [j [Hj Hjf]]. rewrite app_length in Hj. simpl in Hj.
          destruct (Nat.eq_dec j (length ents)) as [Heq|Hne].
          - subst j. rewrite <- Hfa in Hjf. contradiction.
          - exfalso. apply Hnone. exists j. split; [lia | exact Hjf]. }
        destruct (ha_fault (hd default_action (actions s))) eqn:Efa.
        * assert (HP2' : PB s2 false) by (apply HP2; discriminate).
          destruct (negb (is_final_key k) && negb (ha_ret (hd default_action (actions s)))).
          -- inversion Hcb; subst. simpl. rewrite Et. exact HP2'.
          -- eapply IH; [exact Hcb | exact Hti | exact Hm | exact HP2'].
        * (* panic *)
          assert (Hm2 : mem (exc s2) (mu_called (t_mut t)) = false) by (rewrite He2; exact Hm).
          destruct (recover_to_err_prepends_lemma s2 t k Hm2) as [R1 [R2 [R3 [R4 R5]]]].
          assert (HP3 : PB (recover_to_err s2 t k) true).
          { split; [eapply flags_ok_same; [exact Hf2 | apply recover_to_err_flags]|].
            split; [congruence|].
            exists (ents ++ [e]). split; [split; [rewrite R3|rewrite R4]; apply Hb2|].
            split; [reflexivity|]. intros _. rewrite R1, R2, He2. split; reflexivity. }
          assert (Hinv' : negb (exc_called s t) = true).
          { unfold exc_called. rewrite He, Hm. reflexivity. }
          rewrite Hinv' in Hcb.
          destruct (is_final_key k).
          -- apply IH in Hcb; [| reflexivity | exact Hm | exact HP3].
             exact Hcb.
          -- inversion Hcb; subst. simpl. rewrite orb_true_r. exact HP3.
        * assert (HP2' : PB s2 false) by (apply HP2; discriminate).
          inversion Hcb; subst. simpl. rewrite Et. exact HP2'.
  Qed.

  Variable mu : mutation.
  Hypothesis exc_not_called : mem ex (mu_called mu) = false.

  Definition PBt (s : st) (t : tstate) : Prop := PB s (t_invalid t) /\ t_mut t = mu.

  Lemma handle_PBt : forall s t k s1 t1 ok,
    PBt s t -> handle s t k = (s1, t1, ok) -> PBt s1 t1.
  Proof.
    intros s t k s1 t1 ok [HP Hm] Hh. unfold handle in Hh.
    destruct (call_bindings s t k (bindings s) 0 false (t_invalid t)) as [s' r] eqn:E.
    inversion Hh; subst.
    apply call_bindings_PB in E; [| tauto | rewrite Hm; exact exc_not_called | exact HP].
    split.
    - destruct (hr_invalidated r); simpl.
      + rewrite orb_true_r in E. exact E.
      + rewrite orb_false_r in E. exact E.
    - destruct (hr_invalidated r); exact Hm.
  Qed.
End PanicInv.

Lemma run_tx_panic_inv : forall s mu s' r,
  flags_ok s -> mem (exc s) (mu_called mu) = false -> run_tx s mu = (s', r) ->
  exists iv, PB (rt_s0 s) (exc s) s' iv.
Proof.
  intros s mu s' r Hf Hm Hr.
  destruct (run_tx_P (PBt (rt_s0 s) (exc s) mu)) with (s := s) (mu := mu) (s' := s') (r := r)
    as [t' [HP _]]; try assumption.
  - intros s1 t k s2 t1 ok _ HP Hh. eapply handle_PBt; eassumption.
  - intros s1 t k s2 t1 ok _ HP Hh. eapply handle_PBt; eassumption.
  - intros s1 t tg HP. exact HP.
  - intros s1 t a b c HP. exact HP.
  - intros s1 t e [HP Hmu]. split; [|exact Hmu].
    eapply PB_same; [exact HP| | | | | |]; repeat split.
  - intros s1 t r0 [HP Hmu]. split; [|exact Hmu].
    eapply PB_same; [exact HP| | | | | |]; repeat split.
  - intros s1 t cl ac [HP Hmu]. split; [|exact Hmu].
    eapply PB_same; [exact HP| | | | | |]; repeat split.
  - intros s1 t k [HP Hmu]. split; [|exact Hmu].
    eapply PB_same; [exact HP| | | | | |]; repeat split.
  - intros s1 t [HP Hmu] Hi. split; [|exact Hmu]. rewrite Hi in *.
    destruct HP as [F [E [ents [B [Pn _]]]]].
    split; [eapply flags_ok_same; [exact F | apply prepend_auto_flags]|].
    unfold prepend_auto. destruct (auto_candidates (sc s1) (active s1)).
    + split; [exact E|]. exists ents. split; [exact B|]. split; [exact Pn | discriminate].
    + split; [exact E|]. exists ents. split; [exact B|]. split; [exact Pn | discriminate].
  - split.
    + destruct (new_transition_fields s mu) as [_ [Hi _]]. rewrite Hi.
      split; [exact Hf|]. split; [reflexivity|].
      exists []. split; [apply book_refl|]. split; [|discriminate].
      intros [j [Hj _]]. simpl in Hj. lia.
    + destruct (new_transition_fields s mu) as [Hmu _]. exact Hmu.
  - exists (t_invalid t'). exact HP.
Qed.

Lemma panic_makes_exception_step_lemma : forall s mu s' r,
  crashed s = false -> loop_dead s = false -> hung s = false ->
  run_tx s mu = (s', r) ->
  mem (exc s) (mu_called mu) = false ->
  (exists j, j < length (hlog s') - length (hlog s) /\ fault_at (actions s) j = FPanic) ->
  hd_error (queue s') = Some {| mu_type := MAdd; mu_called := [exc s]; mu_auto := false;
                                mu_check := false; mu_args := true; mu_qtick := 0 |}
  /\ err_code s' = 2%N.
Proof.
  intros s mu s' r H1 H2 H3 Hr Hm [j [Hj Hjf]].
  destruct (run_tx_panic_inv s mu s' r) as [iv [_ [_ [ents [[B1 B2] [Pn Pq]]]]]];
    [repeat split; assumption | exact Hm | exact Hr |].
  simpl in B1. rewrite B1, app_length, rev_length in Hj.
  apply Pq. apply Pn. exists j. split; [lia | exact Hjf].
Qed.

(* ================================================================== *)
(* 9. C08 (d)/(e): recover_walk and recover_final_phase                *)
(* ================================================================== *)

Definition rw_step (enters : list nat) (act : list nat) (x : nat) : list nat :=
  if mem x enters then without act x else if mem x act then act else act ++ [x].

Lemma recover_walk_true : forall finals to enters act,
  recover_walk to enters true finals act = fold_left (rw_step enters) finals act.
Proof.
  induction finals as [|x r IH]; intros to enters act; simpl; [reflexivity|].
  rewrite IH. reflexivity.
Qed.

Lemma recover_walk_from : forall finals x enters act,
  recover_walk (Some x) enters false finals act
  = fold_left (rw_step enters) (from_state x finals) act.
Proof.
  induction finals as [|y r IH]; intros x enters act; simpl; [reflexivity|].
  rewrite (Nat.eqb_sym y x). destruct (Nat.eqb x y).
  - rewrite recover_walk_true. reflexivity.
  - apply IH.
Qed.

Lemma recover_walk_none : forall finals enters act,
  recover_walk None enters false finals act = act.
Proof.
  induction finals as [|y r IH]; intros enters act; simpl; [reflexivity|]. apply IH.
Qed.

Lemma rw_step_NoDup : forall enters act x, NoDup act -> NoDup (rw_step enters act x).
Proof.
  intros enters act x Hnd. unfold rw_step.
  destruct (mem x enters); [apply without_NoDup; exact Hnd|].
  destruct (mem x act) eqn:Em; [exact Hnd|].
  apply mem_false in Em.
  apply NoDup_rev in Hnd. rewrite <- (rev_involutive (act ++ [x])).
  apply NoDup_rev. rewrite rev_app_distr. simpl. constructor; [|exact Hnd].
  intros Hin. apply in_rev in Hin. contradiction.
Qed.

Lemma fold_rw_NoDup : forall enters finals act,
  NoDup act -> NoDup (fold_left (rw_step enters) finals act).
Proof.
  intros enters finals. induction finals as [|x r IH]; intros act Hnd; simpl; [exact Hnd|].
  apply IH. apply rw_step_NoDup. exact Hnd.
Qed.

(* (d) recover_walk keeps the list duplicate-free *)
Lemma recover_walk_nodup_lemma : forall to enters found finals act,
  NoDup act -> NoDup (recover_walk to enters found finals act).
Proof.
  intros to enters found finals act Hnd. destruct found.
  - rewrite recover_walk_true. apply fold_rw_NoDup. exact Hnd.
  - destruct to as [x|].
    + rewrite recover_walk_from. apply fold_rw_NoDup. exact Hnd.
    + rewrite recover_walk_none. exact Hnd.
Qed.

Lemma without_In_iff : forall l x z, NoDup l -> (In z (without l x) <-> In z l /\ z <> x).
Proof.
  intros l x z Hnd. split.
  - intros Hin. split; [eapply without_incl; exact Hin|].
    intros Heq. subst z. exact (without_notin_self l x Hnd Hin).
  - intros [Hin Hne]. apply without_In_other; assumption.
Qed.

(* the set computed by the walk once the failing state was found *)
Lemma fold_rw_In : forall enters finals act z, NoDup act ->
  (In z (fold_left (rw_step enters) finals act) <->
   (In z act /\ ~ (In z finals /\ In z enters)) \/ (In z finals /\ ~ In z enters)).
Proof.
  intros enters finals. induction finals as [|y r IH]; intros act z Hnd; simpl.
  - tauto.
  - rewrite IH by (apply rw_step_NoDup; exact Hnd).
    unfold rw_step. destruct (mem y enters) eqn:Ey.
    + apply mem_In in Ey. rewrite without_In_iff by exact Hnd.
      destruct (Nat.eq_dec z y) as [Heq|Hne].
      * subst z. tauto.
      * assert (Hyz : y <> z) by congruence. tauto.
    + apply mem_false in Ey. destruct (mem y act) eqn:Ea.
      * apply mem_In in Ea.
        destruct (Nat.eq_dec z y) as [Heq|Hne].
        -- subst z. tauto.
        -- assert (Hyz : y <> z) by congruence. tauto.
      * apply mem_false in Ea. rewrite in_app_iff. simpl.
        destruct (Nat.eq_dec z y) as [Heq|Hne].
        -- subst z. tauto.
        -- assert (Hyz : y <> z) by congruence. tauto.
Qed.

Lemma from_state_incl : forall x l z, In z (from_state x l) -> In z l.
Proof.
  intros x l. induction l as [|y r IH]; intros z Hin; simpl in *; [contradiction|].
  destruct (Nat.eqb x y); [exact Hin|]. right. apply IH. exact Hin.
Qed.

Lemma from_state_app_notin : forall x a b, ~ In x a -> from_state x (a ++ b) = from_state x b.
Proof.
  intros x a b. induction a as [|y r IH]; intros Hn; simpl; [reflexivity|].
  destruct (Nat.eqb x y) eqn:E.
  - apply Nat.eqb_eq in E. subst y. exfalso. apply Hn. left. reflexivity.
  - apply IH. intros Hin. apply Hn. right. exact Hin.
Qed.

Lemma from_state_app_in : forall x a b, In x a -> from_state x (a ++ b) = from_state x a ++ b.
Proof.
  intros x a b. induction a as [|y r IH]; intros Hin; simpl; [contradiction|].
  destruct (Nat.eqb x y) eqn:E; [reflexivity|].
  apply Nat.eqb_neq in E. destruct Hin as [Heq|Hin]; [congruence|]. apply IH. exact Hin.
Qed.

(* (e) the walk, characterised: a fault in the State handler of x (x is an
   enter): the enters at and after x are deactivated again *)
Lemma recover_walk_state_lemma : forall x exits enters act z,
  NoDup act -> ~ In x exits ->
  (In z (recover_walk (Some x) enters false (exits ++ enters) act) <->
   In z act /\ ~ In z (from_state x enters)).
Proof.
  intros x exits enters act z Hnd Hnx.
  rewrite recover_walk_from, from_state_app_notin by exact Hnx.
  rewrite fold_rw_In by exact Hnd.
  pose proof (from_state_incl x enters z) as Hinc. tauto.
Qed.

(* a fault in the End handler of x (x is an exit): every enter is deactivated
   again, the exits at and after x are re-activated *)
Lemma recover_walk_end_lemma : forall x exits enters act z,
  NoDup act -> In x exits -> (forall e, In e exits -> ~ In e enters) ->
  (In z (recover_walk (Some x) enters false (exits ++ enters) act) <->
   (In z act /\ ~ In z enters) \/ In z (from_state x exits)).
Proof.
  intros x exits enters act z Hnd Hx Hdis.
  rewrite recover_walk_from, from_state_app_in by exact Hx.
  rewrite fold_rw_In by exact Hnd. rewrite in_app_iff.
  pose proof (from_state_incl x exits z) as Hinc.
  pose proof (Hdis z) as Hd. tauto.
Qed.

(* AnyState belongs to no state: nothing is rolled back *)
Lemma recover_walk_any_lemma : forall exits enters act,
  recover_walk None enters false (exits ++ enters) act = act.
Proof. intros exits enters act. apply recover_walk_none. Qed.

(* the general form: every state of the result was active or is an exit *)
Lemma recover_walk_range : forall to enters finals act z,
  NoDup act -> In z (recover_walk to enters false finals act) ->
  In z act \/ (In z finals /\ ~ In z enters).
Proof.
  intros to enters finals act z Hnd Hin. destruct to as [x|].
  - rewrite recover_walk_from in Hin. apply fold_rw_In in Hin; [|exact Hnd].
    pose proof (from_state_incl x finals z). tauto.
  - rewrite recover_walk_none in Hin. left. exact Hin.
Qed.

(* ---------------- clocks ---------------- *)

Lemma map_combine_seq_nth : forall (f : nat * N -> N) cl a j,
  j < length cl ->
  nth j (map f (combine (seq a (length cl)) cl)) 0%N = f (a + j, nth j cl 0%N).
Proof.
  intros f cl. induction cl as [|c r IH]; intros a j Hj; simpl in *; [lia|].
  destruct j as [|j].
  - rewrite Nat.add_0_r. reflexivity.
  - rewrite IH by lia. f_equal. f_equal. lia.
Qed.

Lemma map_combine_seq_length : forall (f : nat * N -> N) cl a,
  length (map f (combine (seq a (length cl)) cl)) = length cl.
Proof.
  intros f cl a. rewrite map_length, combine_length, seq_length. apply Nat.min_id.
Qed.

Lemma tick_at_length : forall cl i d, length (tick_at cl i d) = length cl.
Proof. intros cl i d. unfold tick_at. apply map_combine_seq_length. Qed.

Lemma tick_at_nth : forall cl i d j, j < length cl ->
  nth j (tick_at cl i d) 0%N = if Nat.eqb j i then (nth j cl 0 + d)%N else nth j cl 0%N.
Proof.
  intros cl i d j Hj. unfold tick_at. rewrite map_combine_seq_nth by exact Hj. reflexivity.
Qed.

Lemma map_combine_seq_id : forall (f : nat * N -> N) cl a,
  (forall p, f p = snd p) -> map f (combine (seq a (length cl)) cl) = cl.
Proof.
  intros f cl. induction cl as [|c r IH]; intros a Hf; simpl; [reflexivity|].
  rewrite Hf. simpl. f_equal. apply IH. exact Hf.
Qed.

Lemma tick_at_zero : forall cl i, tick_at cl i 0 = cl.
Proof.
  intros cl i. unfold tick_at. apply map_combine_seq_id.
  intros p. destruct (Nat.eqb (fst p) i); [apply N.add_0_r | reflexivity].
Qed.

Lemma fold_left_ext : forall (A B : Type) (f g : A -> B -> A) l a,
  (forall x y, f x y = g x y) -> fold_left f l a = fold_left g l a.
Proof.
  intros A B f g l. induction l as [|y r IH]; intros a H; simpl; [reflexivity|].
  rewrite H. apply IH. exact H.
Qed.

Lemma fold_tick_nth : forall (d : nat -> N) l cl, NoDup l ->
  length (fold_left (fun c n => tick_at c n (d n)) l cl) = length cl /\
  forall j, j < length cl ->
    nth j (fold_left (fun c n => tick_at c n (d n)) l cl) 0%N
    = (nth j cl 0 + (if mem j l then d j else 0))%N.
Proof.
  intros d l. induction l as [|x r IH]; intros cl Hnd; simpl.
  - split; [reflexivity|]. intros j _. rewrite N.add_0_r. reflexivity.
  - inversion Hnd as [|? ? Hnotin Hnd']; subst.
    destruct (IH (tick_at cl x (d x)) Hnd') as [Hlen Hnth].
    rewrite tick_at_length in Hlen, Hnth. split; [exact Hlen|].
    intros j Hj. rewrite Hnth by exact Hj. rewrite tick_at_nth by exact Hj.
    destruct (Nat.eqb j x) eqn:E; simpl.
    + apply Nat.eqb_eq in E. subst j.
      apply mem_false in Hnotin. rewrite Hnotin. rewrite N.add_0_r. reflexivity.
    + reflexivity.
Qed.

Definition sac_d (sch : schema) (prev called : list nat) (name : nat) : N :=
  if negb (mem name prev) then 1%N
  else if mem name called && s_multi (sget sch name) then 2%N else 0%N.

Lemma set_active_clock_eq : forall sch cl prev called target,
  set_active_clock sch cl prev called target
  = fold_left (fun c n => tick_at c n ((fun _ => 1%N) n)) (diff prev target)
      (fold_left (fun c n => tick_at c n (sac_d sch prev called n)) target cl).
Proof.
  intros sch cl prev called target. unfold set_active_clock. f_equal.
  apply fold_left_ext. intros c name. unfold sac_d.
  destruct (negb (mem name prev)); [reflexivity|].
  destruct (mem name called && s_multi (sget sch name)); [reflexivity|].
  symmetry. apply tick_at_zero.
Qed.

Lemma set_active_clock_nth : forall sch cl prev called target,
  NoDup prev -> NoDup target ->
  length (set_active_clock sch cl prev called target) = length cl /\
  forall j, j < length cl ->
    nth j (set_active_clock sch cl prev called target) 0%N
    = (nth j cl 0 + (if mem j target then sac_d sch prev called j else 0)
       + (if mem j (diff prev target) then 1 else 0))%N.
Proof.
  intros sch cl prev called target Hp Ht. rewrite set_active_clock_eq.
  destruct (fold_tick_nth (sac_d sch prev called) target cl Ht) as [L1 N1].
  assert (Hd : NoDup (diff prev target)) by (apply NoDup_filter; exact Hp).
  destruct (fold_tick_nth (fun _ => 1%N) (diff prev target)
              (fold_left (fun c n => tick_at c n (sac_d sch prev called n)) target cl) Hd)
    as [L2 N2].
  rewrite L1 in L2, N2. split; [exact L2|].
  intros j Hj. rewrite N2 by exact Hj. rewrite N1 by exact Hj. reflexivity.
Qed.

Lemma forallb_combine_seq : forall (g : nat * N -> bool) cl a,
  forallb g (combine (seq a (length cl)) cl) = true <->
  (forall j, j < length cl -> g (a + j, nth j cl 0%N) = true).
Proof.
  intros g cl. induction cl as [|c r IH]; intros a; simpl.
  - split; [intros _ j Hj; lia | reflexivity].
  - rewrite andb_true_iff, IH. split.
    + intros [H0 Hr] j Hj. destruct j as [|j].
      * rewrite Nat.add_0_r. exact H0.
      * replace (a + S j) with (S a + j) by lia. apply Hr. lia.
    + intros H. split.
      * specialize (H 0). rewrite Nat.add_0_r in H. apply H. lia.
      * intros j Hj. replace (S a + j) with (a + S j) by lia. apply (H (S j)). lia.
Qed.

Lemma parity_ok_iff : forall cl act,
  parity_ok cl act = true <->
  (forall j, j < length cl -> N.odd (nth j cl 0%N) = mem j act) /\
  (forall a, In a act -> a < length cl).
Proof.
  intros cl act. unfold parity_ok. rewrite andb_true_iff, forallb_combine_seq, forallb_forall.
  split.
  - intros [H1 H2]. split.
    + intros j Hj. specialize (H1 j Hj). simpl in H1. apply eqb_prop in H1. exact H1.
    + intros a Ha. apply H2 in Ha. apply Nat.ltb_lt in Ha. exact Ha.
  - intros [H1 H2]. split.
    + intros j Hj. simpl. rewrite (H1 j Hj). apply eqb_reflx.
    + intros a Ha. apply Nat.ltb_lt. apply H2. exact Ha.
Qed.

Lemma set_active_clock_parity : forall sch cl prev called target,
  parity_ok cl prev = true -> NoDup prev -> NoDup target ->
  (forall a, In a target -> a < length cl) ->
  parity_ok (set_active_clock sch cl prev called target) target = true.
Proof.
  intros sch cl prev called target Hpar Hp Ht Hrange.
  apply parity_ok_iff in Hpar. destruct Hpar as [Hodd _].
  destruct (set_active_clock_nth sch cl prev called target Hp Ht) as [Hlen Hnth].
  apply parity_ok_iff. rewrite Hlen. split; [|exact Hrange].
  intros j Hj. rewrite Hnth by exact Hj.
  rewrite !N.odd_add, (Hodd j Hj). unfold sac_d, diff.
  destruct (mem j target) eqn:Et.
  - assert (Hd : mem j (filter (fun x => negb (mem x target)) prev) = false).
    { apply mem_false. intros Hin. apply filter_In in Hin. destruct Hin as [_ Hin].
      rewrite Et in Hin. discriminate. }
    rewrite Hd. destruct (mem j prev); simpl; [|reflexivity].
    destruct (mem j called && s_multi (sget sch j)); reflexivity.
  - destruct (mem j prev) eqn:Ep.
    + assert (Hd : mem j (filter (fun x => negb (mem x target)) prev) = true).
      { apply mem_In. apply filter_In. split; [apply mem_In; exact Ep|].
        rewrite Et. reflexivity. }
      rewrite Hd. reflexivity.
    + assert (Hd : mem j (filter (fun x => negb (mem x target)) prev) = false).
      { apply mem_false. intros Hin. apply filter_In in Hin. destruct Hin as [Hin _].
        apply mem_In in Hin. congruence. }
      rewrite Hd. reflexivity.
Qed.

Lemma clock_le_map_seq : forall (f : nat * N -> N) cl a,
  (forall p, (snd p <= f p)%N) -> clock_le cl (map f (combine (seq a (length cl)) cl)) = true.
Proof.
  intros f cl. induction cl as [|c r IH]; intros a Hf; simpl; [reflexivity|].
  apply andb_true_iff. split.
  - apply N.leb_le. apply (Hf (a, c)).
  - apply IH. exact Hf.
Qed.

Lemma clock_le_tick_at : forall cl i d, clock_le cl (tick_at cl i d) = true.
Proof.
  intros cl i d. unfold tick_at. apply clock_le_map_seq.
  intros p. destruct (Nat.eqb (fst p) i); lia.
Qed.

Lemma clock_le_refl : forall cl, clock_le cl cl = true.
Proof.
  induction cl as [|c r IH]; simpl; [reflexivity|].
  rewrite IH, N.leb_refl. reflexivity.
Qed.

Lemma clock_le_trans : forall a b c,
  clock_le a b = true -> clock_le b c = true -> clock_le a c = true.
Proof.
  induction a as [|x a IH]; intros b c H1 H2; destruct b as [|y b]; destruct c as [|z c];
    simpl in *; try discriminate; try reflexivity.
  apply andb_true_iff in H1. apply andb_true_iff in H2.
  destruct H1 as [H1 H1']. destruct H2 as [H2 H2'].
  apply andb_true_iff. split.
  - apply N.leb_le. apply N.leb_le in H1. apply N.leb_le in H2. lia.
  - eapply IH; eassumption.
Qed.

Lemma fold_clock_le : forall (f : list N -> nat -> list N) l cl,
  (forall c n, clock_le c (f c n) = true) -> clock_le cl (fold_left f l cl) = true.
Proof.
  intros f l. induction l as [|x r IH]; intros cl Hf; simpl; [apply clock_le_refl|].
  eapply clock_le_trans; [apply Hf | apply IH; exact Hf].
Qed.

Lemma set_active_clock_le : forall sch cl prev called target,
  clock_le cl (set_active_clock sch cl prev called target) = true.
Proof.
  intros sch cl prev called target. unfold set_active_clock.
  eapply clock_le_trans.
  - apply (fold_clock_le (fun c name =>
      if negb (mem name prev) then tick_at c name 1
      else if mem name called && s_multi (sget sch name) then tick_at c name 2 else c)).
    intros c n. destruct (negb (mem n prev)); [apply clock_le_tick_at|].
    destruct (mem n called && s_multi (sget sch n)); [apply clock_le_tick_at | apply clock_le_refl].
  - apply fold_clock_le. intros c n. apply clock_le_tick_at.
Qed.

(* (d) recover_final_phase: parity, no duplicates, monotone clocks *)
Lemma recover_final_phase_parity_lemma : forall s t k,
  parity_ok (clock s) (active s) = true -> NoDup (active s) ->
  (forall x, In x (t_exits t) -> x < length (clock s)) ->
  parity_ok (clock (recover_final_phase s t k)) (active (recover_final_phase s t k)) = true
  /\ NoDup (active (recover_final_phase s t k)).
Proof.
  intros s t k Hpar Hnd Hex. unfold recover_final_phase. simpl.
  assert (Hnd' : NoDup (recover_walk (key_to_state k) (t_enters t) false
                          (t_exits t ++ t_enters t) (active s))).
  { apply recover_walk_nodup_lemma. exact Hnd. }
  split; [|exact Hnd'].
  apply set_active_clock_parity; try assumption.
  intros a Ha. apply recover_walk_range in Ha; [|exact Hnd].
  destruct Ha as [Ha|[Ha Hne]].
  - apply parity_ok_iff in Hpar. destruct Hpar as [_ Hr]. apply Hr. exact Ha.
  - apply in_app_or in Ha. destruct Ha as [Ha|Ha]; [apply Hex; exact Ha | contradiction].
Qed.

Lemma recover_final_phase_clock_le_lemma : forall s t k,
  clock_le (clock s) (clock (recover_final_phase s t k)) = true.
Proof. intros s t k. unfold recover_final_phase. simpl. apply set_active_clock_le. Qed.

(* (e) at the level of recover_final_phase *)
Lemma final_rollback_state_lemma : forall s t x z,
  NoDup (active s) -> ~ In x (t_exits t) ->
  (In z (active (recover_final_phase s t (HState x))) <->
   In z (active s) /\ ~ In z (from_state x (t_enters t))).
Proof.
  intros s t x z Hnd Hx. unfold recover_final_phase. simpl.
  apply recover_walk_state_lemma; assumption.
Qed.

Lemma final_rollback_end_lemma : forall s t x z,
  NoDup (active s) -> In x (t_exits t) ->
  (forall e, In e (t_exits t) -> ~ In e (t_enters t)) ->
  (In z (active (recover_final_phase s t (HEnd x))) <->
   (In z (active s) /\ ~ In z (t_enters t)) \/ In z (from_state x (t_exits t))).
Proof.
  intros s t x z Hnd Hx Hdis. unfold recover_final_phase. simpl.
  apply recover_walk_end_lemma; assumption.
Qed.

Lemma final_rollback_any_lemma : forall s t,
  active (recover_final_phase s t HAnyState) = active s.
Proof. intros s t. unfold recover_final_phase. simpl. apply recover_walk_none. Qed.

(* ================================================================== *)
(* 10. C08 (c): a fault in the negotiation phase changes nothing       *)
(* ================================================================== *)

Definition same_mach (s s' : st) : Prop :=
  clock s' = clock s /\ active s' = active s /\ txs s' = txs s.

Lemma same_mach_refl : forall s, same_mach s s.
Proof. intros s. repeat split. Qed.

Lemma same_mach_trans : forall a b c, same_mach a b -> same_mach b c -> same_mach a c.
Proof. intros a b c [H1 [H2 H3]] [H4 [H5 H6]]. repeat split; congruence. Qed.

Lemma same_core_mach : forall s s', same_core s s' -> same_mach s s'.
Proof. intros s s' [_ [_ [_ [H1 [H2 [H3 _]]]]]]. repeat split; assumption. Qed.

Lemma recover_to_err_neg_mach : forall s t k,
  is_final_key k = false -> same_mach s (recover_to_err s t k).
Proof.
  intros s t k Hk. unfold recover_to_err. rewrite Hk.
  destruct (mem (exc s) _); repeat split.
Qed.

Lemma call_bindings_neg_mach : forall bs s t k bi caught inv s1 r,
  is_final_key k = false ->
  call_bindings s t k bs bi caught inv = (s1, r) -> same_mach s s1.
Proof.
  induction bs as [|b rest IH]; intros s t k bi caught inv s1 r Hk Hcb; simpl in Hcb.
  - inversion Hcb; subst. apply same_mach_refl.
  - destruct (existsb (hkey_eqb k) b); [|eapply IH; eassumption].
    destruct (loop_dead s); [inversion Hcb; subst; repeat split|].
    rewrite Hk in Hcb.
    destruct inv; [inversion Hcb; subst; apply same_mach_refl|].
    pose proof (run_calls_core (ha_calls (hd default_action (actions s)))
                  (set_actions s (tl (actions s)))) as Hc.
    destruct (run_calls (set_actions s (tl (actions s)))
                (ha_calls (hd default_action (actions s)))) as [s1' rs].
    simpl fst in Hc. apply same_core_mach in Hc.
    match type of Hcb with context [set_hlog s1' (?e :: hlog s1')] =>
      set (s2 := set_hlog s1' (e :: hlog s1')) in * end.
    assert (H2 : same_mach s s2).
    { destruct Hc as [A [B C]]. repeat split; simpl; assumption. }
    destruct (ha_fault (hd default_action (actions s))).
    + simpl in Hcb. destruct (negb (ha_ret (hd default_action (actions s)))).
      * inversion Hcb; subst. exact H2.
      * eapply same_mach_trans; [exact H2|]. eapply IH; eassumption.
    + inversion Hcb; subst. eapply same_mach_trans; [exact H2|].
      apply recover_to_err_neg_mach. exact Hk.
    + inversion Hcb; subst. exact H2.
Qed.

Lemma handle_neg_mach : forall s t k s1 t1 ok,
  is_final_key k = false -> handle s t k = (s1, t1, ok) -> same_mach s s1.
Proof.
  intros s t k s1 t1 ok Hk Hh. unfold handle in Hh.
  destruct (call_bindings s t k (bindings s) 0 false (t_invalid t)) as [s' r] eqn:E.
  inversion Hh; subst. eapply call_bindings_neg_mach; eassumption.
Qed.

(* the handler log of one event: entries of that key, one action each *)
Lemma recover_to_err_book : forall s t k,
  hlog (recover_to_err s t k) = hlog s /\ actions (recover_to_err s t k) = actions s.
Proof.
  intros s t k. unfold recover_to_err.
  destruct (mem (exc s) _); [split; reflexivity|].
  destruct (is_final_key k); split; reflexivity.
Qed.

Lemma book_same : forall s0 s s' ents,
  book s0 s ents -> hlog s' = hlog s -> actions s' = actions s -> book s0 s' ents.
Proof. intros s0 s s' ents [H1 H2] H3 H4. split; congruence. Qed.

Lemma call_bindings_book : forall bs s0 s t k bi caught inv s1 r ents,
  call_bindings s t k bs bi caught inv = (s1, r) -> book s0 s ents ->
  exists more, book s0 s1 (ents ++ more) /\ Forall (fun e => hl_key e = k) more.
Proof.
  induction bs as [|b rest IH]; intros s0 s t k bi caught inv s1 r ents Hcb Hb; simpl in Hcb.
  - inversion Hcb; subst. exists []. rewrite app_nil_r. split; [exact Hb | constructor].
  - destruct (existsb (hkey_eqb k) b); [|eapply IH; eassumption].
    destruct (loop_dead s).
    { inversion Hcb; subst. exists []. rewrite app_nil_r. split; [|constructor].
      eapply book_same; [exact Hb | reflexivity | reflexivity]. }
    destruct inv.
    { destruct (is_final_key k); [eapply IH; eassumption|].
      inversion Hcb; subst. exists []. rewrite app_nil_r. split; [exact Hb | constructor]. }
    pose proof (run_calls_core (ha_calls (hd default_action (actions s)))
                  (set_actions s (tl (actions s)))) as Hc.
    destruct (run_calls (set_actions s (tl (actions s)))
                (ha_calls (hd default_action (actions s)))) as [s1' rs].
    simpl fst in Hc. destruct Hc as [C1 [C2 _]].
    match type of Hcb with context [set_hlog s1' (?e0 :: hlog s1')] =>
      set (e := e0) in *; set (s2 := set_hlog s1' (e :: hlog s1')) in * end.
    assert (Hh2 : hlog s2 = e :: hlog s) by (unfold s2; simpl; rewrite C1; reflexivity).
    assert (Ha2 : actions s2 = tl (actions s)) by (unfold s2; simpl; rewrite C2; reflexivity).
    destruct (book_step _ _ _ _ _ Hb Hh2 Ha2) as [Hb2 _].
    assert (Hone : exists more, book s0 s2 (ents ++ more) /\ Forall (fun e => hl_key e = k) more).
    { exists [e]. split; [exact Hb2|]. constructor; [reflexivity | constructor]. }
    assert (Hrec : forall s3 bi' c' i', book s0 s3 (ents ++ [e]) ->
              call_bindings s3 t k rest bi' c' i' = (s1, r) ->
              exists more, book s0 s1 (ents ++ more) /\ Forall (fun e => hl_key e = k) more).
    { intros s3 bi' c' i' Hb3 Hcb3.
      destruct (IH _ _ _ _ _ _ _ _ _ _ Hcb3 Hb3) as [more [Hbm Hfm]].
      exists (e :: more). split.
      - rewrite <- app_assoc in Hbm. exact Hbm.
      - constructor; [reflexivity | exact Hfm]. }
    destruct (recover_to_err_book s2 t k) as [R1 R2].
    destruct (ha_fault (hd default_action (actions s))).
    + destruct (negb (is_final_key k) && negb (ha_ret (hd default_action (actions s)))).
      * inversion Hcb; subst. exact Hone.
      * eapply Hrec; [exact Hb2 | exact Hcb].
    + destruct (is_final_key k).
      * eapply Hrec; [|exact Hcb]. eapply book_same; [exact Hb2 | exact R1 | exact R2].
      * inversion Hcb; subst. exists [e]. split; [|constructor; [reflexivity | constructor]].
        eapply book_same; [exact Hb2 | exact R1 | exact R2].
    + inversion Hcb; subst. exact Hone.
Qed.

Lemma handle_book : forall s0 s t k s1 t1 ok ents,
  handle s t k = (s1, t1, ok) -> book s0 s ents ->
  exists more, book s0 s1 (ents ++ more) /\ Forall (fun e => hl_key e = k) more.
Proof.
  intros s0 s t k s1 t1 ok ents Hh Hb. unfold handle in Hh.
  destruct (call_bindings s t k (bindings s) 0 false (t_invalid t)) as [s' r] eqn:E.
  inversion Hh; subst. eapply call_bindings_book; eassumption.
Qed.

(* every scripted action consumed so far was fault-free *)
Definition clean (s0 s : st) : Prop :=
  exists ents, book s0 s ents /\ forall j, j < length ents -> fault_at (actions s0) j = FNone.

Lemma call_bindings_ok_clean : forall bs s0 s t k bi caught inv s1 r,
  call_bindings s t k bs bi caught inv = (s1, r) -> hr_ok r = true ->
  clean s0 s -> clean s0 s1.
Proof.
  induction bs as [|b rest IH]; intros s0 s t k bi caught inv s1 r Hcb Hok Hcl; simpl in Hcb.
  - inversion Hcb; subst. exact Hcl.
  - destruct (existsb (hkey_eqb k) b); [|eapply IH; eassumption].
    destruct (loop_dead s); [inversion Hcb; subst; discriminate|].
    destruct inv.
    { destruct (is_final_key k); [eapply IH; eassumption|].
      inversion Hcb; subst; discriminate. }
    pose proof (run_calls_core (ha_calls (hd default_action (actions s)))
                  (set_actions s (tl (actions s)))) as Hc.
    destruct (run_calls (set_actions s (tl (actions s)))
                (ha_calls (hd default_action (actions s)))) as [s1' rs].
    simpl fst in Hc. destruct Hc as [C1 [C2 _]].
    match type of Hcb with context [set_hlog s1' (?e0 :: hlog s1')] =>
      set (e := e0) in *; set (s2 := set_hlog s1' (e :: hlog s1')) in * end.
    assert (Hh2 : hlog s2 = e :: hlog s) by (unfold s2; simpl; rewrite C1; reflexivity).
    assert (Ha2 : actions s2 = tl (actions s)) by (unfold s2; simpl; rewrite C2; reflexivity).
    destruct Hcl as [ents [Hb Hfree]].
    destruct (book_step _ _ _ _ _ Hb Hh2 Ha2) as [Hb2 Hfa].
    destruct (ha_fault (hd default_action (actions s))) eqn:Ef.
    + assert (Hcl2 : clean s0 s2).
      { exists (ents ++ [e]). split; [exact Hb2|].
        intros j Hj. rewrite app_length in Hj. simpl in Hj.
        destruct (Nat.eq_dec j (length ents)) as [Heq|Hne].
        - subst j. symmetry. exact Hfa.
        - apply Hfree. lia. }
      destruct (negb (is_final_key k) && negb (ha_ret (hd default_action (actions s)))).
      * inversion Hcb; subst; discriminate.
      * eapply IH; eassumption.
    + destruct (is_final_key k).
      * apply call_bindings_ok in Hcb; [|exact Hok]. destruct Hcb as [Hc _]. discriminate.
      * inversion Hcb; subst; discriminate.
    + inversion Hcb; subst; discriminate.
Qed.

Lemma handle_ok_clean : forall s0 s t k s1 t1,
  handle s t k = (s1, t1, true) -> clean s0 s -> clean s0 s1.
Proof.
  intros s0 s t k s1 t1 Hh Hcl. unfold handle in Hh.
  destruct (call_bindings s t k (bindings s) 0 false (t_invalid t)) as [s' r] eqn:E.
  inversion Hh; subst. eapply call_bindings_ok_clean; eassumption.
Qed.

(* a state predicate kept by every accepted handler event survives a
   negotiation without veto of a non-auto mutation *)
Section EmitOk.
  Variable Q : st -> Prop.
  Hypothesis Q_handle : forall s t k s1 t1, Q s -> handle s t k = (s1, t1, true) -> Q s1.

  Lemma emit_exits_Q : forall l s t s1 t1,
    mu_auto (t_mut t) = false -> Q s -> emit_exits s t l = (s1, t1, NOk) -> Q s1.
  Proof.
    induction l as [|x r IH]; intros s t s1 t1 Hna HQ He; simpl in He.
    - inversion He; subst. exact HQ.
    - destruct (handle s t (HExit x)) as [[s' t'] ok] eqn:Eh.
      destruct (hung s'); [inversion He|].
      destruct ok.
      + pose proof (Q_handle _ _ _ _ _ HQ Eh) as HQ'.
        apply handle_ok_t in Eh. subst t'. eapply IH; eassumption.
      + apply handle_same_tx in Eh. destruct Eh as [[Hm _] _]. rewrite Hm, Hna in He.
        simpl in He. inversion He.
  Qed.

  Lemma emit_enters_Q : forall l s t s1 t1,
    mu_auto (t_mut t) = false -> Q s -> emit_enters s t l = (s1, t1, NOk) -> Q s1.
  Proof.
    induction l as [|x r IH]; intros s t s1 t1 Hna HQ He; simpl in He.
    - inversion He; subst. exact HQ.
    - destruct (handle s t (HEnter x)) as [[s' t'] ok] eqn:Eh.
      destruct (hung s'); [inversion He|].
      destruct ok.
      + pose proof (Q_handle _ _ _ _ _ HQ Eh) as HQ'.
        apply handle_ok_t in Eh. subst t'. eapply IH; eassumption.
      + apply handle_same_tx in Eh. destruct Eh as [[Hm _] _]. rewrite Hm, Hna in He.
        simpl in He. inversion He.
  Qed.

  Lemma emit_selfs_Q : forall fuel s t arr i last s1 t1,
    mu_auto (t_mut t) = false -> Q s -> emit_selfs fuel s t arr i last = (s1, t1, NOk) -> Q s1.
  Proof.
    induction fuel as [|f IH]; intros s t arr i last s1 t1 Hna HQ He; simpl in He.
    - inversion He; subst. exact HQ.
    - destruct (nth_error arr i) as [[x|]|].
      + destruct (negb (is_active s x)); [eapply IH; eassumption|].
        destruct (handle s t (HSelf x)) as [[s' t'] ok] eqn:Eh.
        destruct (hung s'); [inversion He|].
        destruct ok.
        * pose proof (Q_handle _ _ _ _ _ HQ Eh) as HQ'.
          apply handle_ok_t in Eh. subst t'. eapply IH; eassumption.
        * apply handle_same_tx in Eh. destruct Eh as [[Hm _] _]. rewrite Hm, Hna in He.
          simpl in He. inversion He.
      + eapply IH; eassumption.
      + inversion He; subst. exact HQ.
  Qed.

  Lemma emit_trans_inner_Q : forall after s t b s1 t1,
    mu_auto (t_mut t) = false -> Q s -> emit_trans_inner s t b after = (s1, t1, NOk) -> Q s1.
  Proof.
    induction after as [|a r IH]; intros s t b s1 t1 Hna HQ He; simpl in He.
    - inversion He; subst. exact HQ.
    - destruct (Nat.eqb b a); [eapply IH; eassumption|].
      destruct (handle s t (HTrans b a)) as [[s' t'] ok] eqn:Eh.
      destruct (hung s'); [inversion He|].
      destruct ok.
      + pose proof (Q_handle _ _ _ _ _ HQ Eh) as HQ'.
        apply handle_ok_t in Eh. subst t'. eapply IH; eassumption.
      + apply handle_same_tx in Eh. destruct Eh as [[Hm _] _]. rewrite Hm, Hna in He.
        simpl in He. inversion He.
  Qed.

  Lemma emit_trans_Q : forall before s t after s1 t1,
    mu_auto (t_mut t) = false -> Q s -> emit_trans s t before after = (s1, t1, NOk) -> Q s1.
  Proof.
    induction before as [|b r IH]; intros s t after s1 t1 Hna HQ He; simpl in He.
    - inversion He; subst. exact HQ.
    - destruct (emit_trans_inner s t b after) as [[s' t'] nr'] eqn:Ei.
      destruct nr'; [|inversion He|inversion He].
      pose proof (emit_trans_inner_Q _ _ _ _ _ _ Hna HQ Ei) as HQ'.
      apply emit_trans_inner_ok_t in Ei; [|exact Hna]. subst t'. eapply IH; eassumption.
  Qed.

  Lemma negotiate_Q : forall s t s1 t1,
    mu_auto (t_mut t) = false -> Q s -> negotiate s t = (s1, t1, NOk) -> Q s1.
  Proof.
    intros s t s1 t1 Hna HQ Hn. unfold negotiate in Hn.
    destruct (emit_exits s t (t_exits t)) as [[sa ta] nra] eqn:Ea.
    destruct nra; [|inversion Hn|inversion Hn].
    pose proof (emit_exits_Q _ _ _ _ _ Hna HQ Ea) as HQa.
    apply emit_exits_ok_t in Ea; [|exact Hna]. subst ta.
    destruct (emit_enters sa t (t_enters t)) as [[sb tb] nrb] eqn:Eb.
    destruct nrb; [|inversion Hn|inversion Hn].
    pose proof (emit_enters_Q _ _ _ _ _ Hna HQa Eb) as HQb.
    apply emit_enters_ok_t in Eb; [|exact Hna]. subst tb.
    destruct (mu_type (t_mut t)).
    - destruct (emit_selfs (S (length (t_target t))) sb t (map Some (t_target t)) 0 true)
        as [[sc0 tc] nrc] eqn:Ec.
      destruct nrc; [|inversion Hn|inversion Hn].
      pose proof (emit_selfs_Q _ _ _ _ _ _ _ _ Hna HQb Ec) as HQc.
      apply emit_selfs_ok_t in Ec; [|exact Hna]. subst tc.
      eapply emit_trans_Q; eassumption.
    - eapply emit_trans_Q; eassumption.
    - destruct (emit_selfs (S (length (t_target t))) sb t (map Some (t_target t)) 0 true)
        as [[sc0 tc] nrc] eqn:Ec.
      destruct nrc; [|inversion Hn|inversion Hn].
      pose proof (emit_selfs_Q _ _ _ _ _ _ _ _ Hna HQb Ec) as HQc.
      apply emit_selfs_ok_t in Ec; [|exact Hna]. subst tc.
      eapply emit_trans_Q; eassumption.
  Qed.

  Lemma rt_neg_Q : forall s mu s1 t1,
    mu_auto mu = false -> Q (rt_s0 s) -> rt_neg s mu = (s1, t1, NOk) -> Q s1.
  Proof.
    intros s mu s1 t1 Hna HQ H. unfold rt_neg in H.
    destruct (has_handlers (rt_s0 s) && negb (negb (t_accepted (new_transition s mu)))).
    - eapply negotiate_Q; [|exact HQ|exact H].
      destruct (new_transition_fields s mu) as [Hm _]. rewrite Hm. exact Hna.
    - inversion H; subst; exact HQ.
  Qed.

  Lemma rt_anyenter_Q : forall s mu s1 t1 nr s2 t1',
    Q s1 -> rt_anyenter s mu s1 t1 nr = (s2, t1', false) -> Q s2.
  Proof.
    intros s mu s1 t1 nr s2 t1' HQ H. unfold rt_anyenter in H.
    destruct (has_handlers (rt_s0 s) && negb (rt_canceled2 s mu t1 nr)).
    - destruct (handle s1 t1 HAnyEnter) as [[sx tx] ok] eqn:Eh.
      inversion H; subst. destruct ok; [|discriminate].
      eapply Q_handle; eassumption.
    - inversion H; subst; exact HQ.
  Qed.
End EmitOk.

Lemma prepend_auto_book : forall s,
  hlog (prepend_auto s) = hlog s /\ actions (prepend_auto s) = actions s.
Proof.
  intros s. unfold prepend_auto. destruct (auto_candidates (sc s) (active s)); split; reflexivity.
Qed.

(* the log only grows and each entry consumes one scripted action *)
Lemma run_tx_book_gen : forall s mu s' r,
  run_tx s mu = (s', r) ->
  exists ents, hlog s' = rev ents ++ hlog s /\ actions s' = skipn (length ents) (actions s).
Proof.
  intros s mu s' r Hr.
  destruct (run_tx_P (fun s1 _ => exists ents, book (rt_s0 s) s1 ents))
    with (s := s) (mu := mu) (s' := s') (r := r) as [_ [ents [B1 B2]]]; try assumption.
  - intros s1 t k s2 t1 ok _ [ents Hb] Hh.
    destruct (handle_book _ _ _ _ _ _ _ _ Hh Hb) as [more [Hb' _]]. eexists; exact Hb'.
  - intros s1 t k s2 t1 ok _ [ents Hb] Hh.
    destruct (handle_book _ _ _ _ _ _ _ _ Hh Hb) as [more [Hb' _]]. eexists; exact Hb'.
  - intros s1 t tg HP. exact HP.
  - intros s1 t a b c HP. exact HP.
  - intros s1 t e HP. exact HP.
  - intros s1 t r0 HP. exact HP.
  - intros s1 t cl ac HP. exact HP.
  - intros s1 t k HP. exact HP.
  - intros s1 t [ents Hb] _. exists ents. destruct (prepend_auto_book s1) as [A B].
    eapply book_same; eassumption.
  - exists []. apply book_refl.
  - exists ents. split; [exact B1 | exact B2].
Qed.

(* entries logged from the final phase on have final keys *)
Definition fin_book (s2 s : st) : Prop :=
  exists more, book s2 s more /\ Forall (fun e => is_final_key (hl_key e) = true) more.

Lemma handle_fin_book : forall s2 s t k s1 t1 ok,
  is_final_key k = true -> fin_book s2 s -> handle s t k = (s1, t1, ok) -> fin_book s2 s1.
Proof.
  intros s2 s t k s1 t1 ok Hk [more [Hb Hf]] Hh.
  destruct (handle_book _ _ _ _ _ _ _ _ Hh Hb) as [more' [Hb' Hf']].
  exists (more ++ more'). split; [exact Hb'|].
  apply Forall_app. split; [exact Hf|].
  eapply Forall_impl; [|exact Hf']. intros e He. simpl in He. rewrite He. exact Hk.
Qed.

Lemma rev_inj : forall (A : Type) (a b : list A), rev a = rev b -> a = b.
Proof.
  intros A a b H. rewrite <- (rev_involutive a), <- (rev_involutive b), H. reflexivity.
Qed.


(* ================================================================== *)
(* 11. C11 (h)/(i): the auto mutation and the topology are functions   *)
(*     of the state index order only                                   *)
(* ================================================================== *)

(* ------------------------------------------------------------------ *)
(* mem                                                                *)

Lemma c11a_mem_In : forall x l, mem x l = true <-> In x l.
Proof.
  intros x l. unfold mem. rewrite existsb_exists. split.
  - intros [y [Hy He]]. apply Nat.eqb_eq in He. subst y. exact Hy.
  - intros H. exists x. split; [exact H | apply Nat.eqb_refl].
Qed.

Lemma c11a_mem_false : forall x l, mem x l = false <-> ~ In x l.
Proof.
  intros x l. rewrite <- c11a_mem_In. symmetry. apply not_true_iff_false.
Qed.

(* ------------------------------------------------------------------ *)
(* (h) auto_candidates                                                *)

Lemma c11a_seq_ssorted : forall n s, StronglySorted lt (seq s n).
Proof.
  induction n as [|n IH]; intros s; cbn [seq].
  - constructor.
  - constructor; [apply IH|].
    apply Forall_forall. intros y Hy. apply in_seq in Hy. lia.
Qed.

Lemma c11a_filter_ssorted : forall (f : nat -> bool) l,
  StronglySorted lt l -> StronglySorted lt (filter f l).
Proof.
  intros f l H. induction H as [|a l Hl IH Ha]; cbn [filter].
  - constructor.
  - destruct (f a).
    + constructor; [exact IH|].
      apply Forall_forall. intros y Hy. apply filter_In in Hy.
      destruct Hy as [Hy _]. rewrite Forall_forall in Ha. apply Ha. exact Hy.
    + exact IH.
Qed.

Lemma c11a_ssorted_lt_NoDup : forall l, StronglySorted lt l -> NoDup l.
Proof.
  intros l H. induction H as [|a l Hl IH Ha].
  - constructor.
  - constructor; [|exact IH].
    intros Hin. rewrite Forall_forall in Ha. specialize (Ha a Hin). lia.
Qed.

Theorem c11a_auto_candidates_strongly_sorted : forall sc active,
  StronglySorted lt (auto_candidates sc active).
Proof.
  intros sc active. unfold auto_candidates, all_states.
  apply c11a_filter_ssorted. apply c11a_seq_ssorted.
Qed.

Theorem c11a_auto_candidates_sorted : forall sc active,
  Sorted lt (auto_candidates sc active).
Proof.
  intros sc active. apply StronglySorted_Sorted.
  apply c11a_auto_candidates_strongly_sorted.
Qed.

Theorem c11a_auto_candidates_NoDup : forall sc active,
  NoDup (auto_candidates sc active).
Proof.
  intros sc active. apply c11a_ssorted_lt_NoDup.
  apply c11a_auto_candidates_strongly_sorted.
Qed.

Theorem c11a_auto_candidates_In : forall sc active x,
  In x (auto_candidates sc active) <->
  (x < length sc /\ s_auto (sget sc x) = true /\ ~ In x active /\
   (forall a, In a active -> ~ In x (s_remove (sget sc a)))).
Proof.
  intros sc active x. unfold auto_candidates, all_states.
  rewrite filter_In, in_seq.
  rewrite !andb_true_iff, !negb_true_iff, c11a_mem_false.
  split.
  - intros [Hr [[Ha Hn] He]].
    split; [lia|]. split; [exact Ha|]. split; [exact Hn|].
    intros a Hin Hx.
    assert (Ht : existsb (fun a0 => mem x (s_remove (sget sc a0))) active = true).
    { apply existsb_exists. exists a.
      split; [exact Hin | apply c11a_mem_In; exact Hx]. }
    rewrite Ht in He. discriminate He.
  - intros [Hl [Ha [Hn Hr]]].
    split; [lia|]. split; [split; assumption|].
    destruct (existsb (fun a0 => mem x (s_remove (sget sc a0))) active) eqn:E;
      [|reflexivity].
    apply existsb_exists in E. destruct E as [a [Hin Hm]].
    apply c11a_mem_In in Hm. exfalso. exact (Hr a Hin Hm).
Qed.

Example c11a_auto_candidates_nonvacuous :
  let sc := [ {| s_auto := true; s_multi := false; s_require := []; s_add := [];
                 s_remove := []; s_after := [] |};
              {| s_auto := true; s_multi := false; s_require := []; s_add := [];
                 s_remove := [0]; s_after := [] |};
              {| s_auto := true; s_multi := false; s_require := []; s_add := [];
                 s_remove := []; s_after := [] |};
              {| s_auto := false; s_multi := false; s_require := []; s_add := [];
                 s_remove := []; s_after := [] |};
              {| s_auto := true; s_multi := false; s_require := []; s_add := [];
                 s_remove := []; s_after := [] |} ] in
  auto_candidates sc [1] = [2; 4].
Proof. vm_compute. reflexivity. Qed.

(* ------------------------------------------------------------------ *)
(* (i) topo_sort                                                      *)

(* a list built by appending nodes whose Requires are all already there *)
Inductive c11a_wf (sc : schema) : list nat -> Prop :=
| c11a_wf_nil : c11a_wf sc []
| c11a_wf_snoc : forall l n,
    c11a_wf sc l -> ~ In n l ->
    (forall r, In r (s_require (sget sc n)) -> In r l) ->
    c11a_wf sc (l ++ [n]).

Lemma c11a_wf_NoDup : forall sc l, c11a_wf sc l -> NoDup l.
Proof.
  intros sc l H. induction H as [|l n Hwf IH Hnin Hreq].
  - constructor.
  - apply (Permutation_NoDup (Permutation_cons_append l n)).
    constructor; assumption.
Qed.

Lemma c11a_wf_split : forall sc l n,
  c11a_wf sc l -> In n l ->
  exists pre post, l = pre ++ n :: post /\
    forall r, In r (s_require (sget sc n)) -> In r pre.
Proof.
  intros sc l n H. induction H as [|l m Hwf IH Hnin Hreq]; intros Hin.
  - contradiction.
  - apply in_app_or in Hin. destruct Hin as [Hin|Hin].
    + destruct (IH Hin) as [pre [post [Heq Hpre]]].
      exists pre, (post ++ [m]). split; [|exact Hpre].
      rewrite Heq, <- app_assoc. reflexivity.
    + destruct Hin as [Hin|[]]. subst m.
      exists l, []. split; [reflexivity|exact Hreq].
Qed.

Definition c11a_inv (sc : schema) (acc : list nat * list nat) : Prop :=
  c11a_wf sc (snd acc) /\ forall x, In x (fst acc) <-> In x (snd acc).

Definition c11a_ofold
  (visit : nat -> list nat * list nat -> option (list nat * list nat))
  (l : list nat) (a : option (list nat * list nat))
  : option (list nat * list nat) :=
  fold_left (fun a0 n => match a0 with
                         | None => None
                         | Some a' => visit n a'
                         end) l a.

Lemma c11a_ofold_None : forall visit l, c11a_ofold visit l None = None.
Proof.
  intros visit l. induction l as [|r rs IH]; [reflexivity|exact IH].
Qed.

Lemma c11a_ofold_cons : forall visit r rs acc,
  c11a_ofold visit (r :: rs) (Some acc) = c11a_ofold visit rs (visit r acc).
Proof. reflexivity. Qed.

(* s' extends s by elements that are not in temp *)
Definition c11a_ext (temp s s' : list nat) : Prop :=
  exists ext, s' = s ++ ext /\ forall x, In x ext -> ~ In x temp.

Lemma c11a_ext_refl : forall temp s, c11a_ext temp s s.
Proof.
  intros temp s. exists []. split; [symmetry; apply app_nil_r|intros x []].
Qed.

Lemma c11a_ext_trans : forall temp s1 s2 s3,
  c11a_ext temp s1 s2 -> c11a_ext temp s2 s3 -> c11a_ext temp s1 s3.
Proof.
  intros temp s1 s2 s3 [e1 [H1 N1]] [e2 [H2 N2]].
  exists (e1 ++ e2). split.
  - rewrite H2, H1, app_assoc. reflexivity.
  - intros x Hx. apply in_app_or in Hx. destruct Hx as [Hx|Hx];
      [exact (N1 x Hx)|exact (N2 x Hx)].
Qed.

Lemma c11a_ext_In : forall temp s s' x, c11a_ext temp s s' -> In x s -> In x s'.
Proof.
  intros temp s s' x [e [H _]] Hin. rewrite H. apply in_or_app. left. exact Hin.
Qed.

Definition c11a_step_spec (sc : schema) (temp : list nat)
  (visit : nat -> list nat * list nat -> option (list nat * list nat)) : Prop :=
  forall n acc acc', visit n acc = Some acc' -> c11a_inv sc acc ->
    c11a_inv sc acc' /\ In n (snd acc') /\ c11a_ext temp (snd acc) (snd acc').

Lemma c11a_ofold_spec : forall sc temp visit,
  c11a_step_spec sc temp visit ->
  forall l acc acc',
    c11a_ofold visit l (Some acc) = Some acc' -> c11a_inv sc acc ->
    c11a_inv sc acc' /\ (forall n, In n l -> In n (snd acc')) /\
    c11a_ext temp (snd acc) (snd acc').
Proof.
  intros sc temp visit Hspec l.
  induction l as [|r rs IH]; intros acc acc' Hf Hinv.
  - cbn in Hf. injection Hf as Hf. subst acc'.
    split; [exact Hinv|]. split; [intros n []|]. apply c11a_ext_refl.
  - rewrite c11a_ofold_cons in Hf.
    destruct (visit r acc) as [acc1|] eqn:Ev;
      [|rewrite c11a_ofold_None in Hf; discriminate Hf].
    destruct (Hspec r acc acc1 Ev Hinv) as [Hinv1 [Hin1 Hext1]].
    destruct (IH acc1 acc' Hf Hinv1) as [Hinv' [Hall Hext']].
    split; [exact Hinv'|]. split.
    + intros n [Hn|Hn].
      * subst n. exact (c11a_ext_In _ _ _ _ Hext' Hin1).
      * exact (Hall n Hn).
    + exact (c11a_ext_trans _ _ _ _ Hext1 Hext').
Qed.

Lemma c11a_topo_visit_S : forall f sc node temp acc,
  topo_visit (S f) sc node temp acc =
  if mem node temp then None
  else if mem node (fst acc) then Some acc
  else match c11a_ofold (fun nb a' => topo_visit f sc nb (node :: temp) a')
               (s_require (sget sc node)) (Some acc) with
       | None => None
       | Some (vis, stack) => Some (node :: vis, stack ++ [node])
       end.
Proof. reflexivity. Qed.

Lemma c11a_topo_visit_spec : forall fuel sc temp,
  c11a_step_spec sc temp (fun n acc => topo_visit fuel sc n temp acc).
Proof.
  induction fuel as [|f IH]; intros sc temp node acc acc' Hv Hinv.
  - discriminate Hv.
  - rewrite c11a_topo_visit_S in Hv.
    destruct (mem node temp) eqn:Et; [discriminate Hv|].
    destruct (mem node (fst acc)) eqn:Em.
    + injection Hv as Hv. subst acc'.
      split; [exact Hinv|]. split; [|apply c11a_ext_refl].
      apply Hinv. apply c11a_mem_In. exact Em.
    + destruct (c11a_ofold (fun nb a' => topo_visit f sc nb (node :: temp) a')
                  (s_require (sget sc node)) (Some acc))
        as [[vis1 st1]|] eqn:Ef; [|discriminate Hv].
      injection Hv as Hv. subst acc'.
      destruct (c11a_ofold_spec sc (node :: temp) _ (IH sc (node :: temp))
                  _ _ _ Ef Hinv) as [[Hwf1 Hiff1] [Hall Hext]].
      cbn [fst snd] in *.
      apply c11a_mem_false in Et. apply c11a_mem_false in Em.
      destruct Hinv as [Hwf0 Hiff0].
      assert (Hnin : ~ In node st1).
      { destruct Hext as [e [He Hne]]. rewrite He. intros Hin.
        apply in_app_or in Hin. destruct Hin as [Hin|Hin].
        - apply Em. apply Hiff0. exact Hin.
        - apply (Hne node Hin). left. reflexivity. }
      unfold c11a_inv. cbn [fst snd].
      split; [split|split].
      * apply c11a_wf_snoc; assumption.
      * intros x. rewrite in_app_iff. cbn [In]. rewrite Hiff1.
        split.
        -- intros [H|H]; [right; left; exact H|left; exact H].
        -- intros [H|[H|[]]]; [right; exact H|left; exact H].
      * apply in_or_app. right. left. reflexivity.
      * destruct Hext as [e [He Hne]]. exists (e ++ [node]). split.
        -- rewrite He, app_assoc. reflexivity.
        -- intros x Hx. apply in_app_or in Hx. destruct Hx as [Hx|Hx].
           ++ intros Hin. apply (Hne x Hx). right. exact Hin.
           ++ destruct Hx as [Hx|[]]. subst x. exact Et.
Qed.

Lemma c11a_topo_sort_unfold : forall sc order,
  topo_sort sc order =
  match c11a_ofold (fun n a' => topo_visit (S (length sc)) sc n [] a')
          (filter (fun n => match s_require (sget sc n) with
                            | [] => false
                            | _ => true
                            end) order) (Some ([], [])) with
  | None => []
  | Some (_, stack) => stack
  end.
Proof. reflexivity. Qed.

Lemma c11a_inv_init : forall sc, c11a_inv sc ([], []).
Proof.
  intros sc. split; [constructor|]. intros x. reflexivity.
Qed.

Lemma c11a_topo_sort_wf : forall sc order, c11a_wf sc (topo_sort sc order).
Proof.
  intros sc order. rewrite c11a_topo_sort_unfold.
  destruct (c11a_ofold _ _ _) as [[vis st]|] eqn:Ef; [|constructor].
  destruct (c11a_ofold_spec sc [] _ (c11a_topo_visit_spec (S (length sc)) sc [])
              _ _ _ Ef (c11a_inv_init sc)) as [[Hwf _] _].
  exact Hwf.
Qed.

Theorem c11a_topo_sort_NoDup : forall sc order, NoDup (topo_sort sc order).
Proof.
  intros sc order. exact (c11a_wf_NoDup sc _ (c11a_topo_sort_wf sc order)).
Qed.

Theorem c11a_topo_sort_requires_before : forall sc order n r,
  In n (topo_sort sc order) -> In r (s_require (sget sc n)) ->
  exists l1 l2 l3, topo_sort sc order = l1 ++ r :: l2 ++ n :: l3.
Proof.
  intros sc order n r Hn Hr.
  destruct (c11a_wf_split sc _ n (c11a_topo_sort_wf sc order) Hn)
    as [pre [post [Heq Hpre]]].
  destruct (in_split r pre (Hpre r Hr)) as [l1 [l2 Hsp]].
  exists l1, l2, post. rewrite Heq, Hsp, <- app_assoc. reflexivity.
Qed.

Theorem c11a_topo_sort_complete : forall sc order n,
  topo_sort sc order <> [] -> In n order -> s_require (sget sc n) <> [] ->
  In n (topo_sort sc order).
Proof.
  intros sc order n Hne Hin Hreq. rewrite c11a_topo_sort_unfold in Hne |- *.
  destruct (c11a_ofold _ _ _) as [[vis st]|] eqn:Ef;
    [|exfalso; apply Hne; reflexivity].
  destruct (c11a_ofold_spec sc [] _ (c11a_topo_visit_spec (S (length sc)) sc [])
              _ _ _ Ef (c11a_inv_init sc)) as [_ [Hall _]].
  cbn [snd] in Hall. apply Hall. apply filter_In. split; [exact Hin|].
  destruct (s_require (sget sc n)); [exfalso; apply Hreq; reflexivity|reflexivity].
Qed.

(* 0 requires 1, 1 requires 2 and 3, 3 requires 2 *)
Example c11a_topo_nonvacuous :
  let sc := [ {| s_auto := false; s_multi := false; s_require := [1]; s_add := [];
                 s_remove := []; s_after := [] |};
              {| s_auto := false; s_multi := false; s_require := [2; 3]; s_add := [];
                 s_remove := []; s_after := [] |};
              {| s_auto := false; s_multi := false; s_require := []; s_add := [];
                 s_remove := []; s_after := [] |};
              {| s_auto := false; s_multi := false; s_require := [2]; s_add := [];
                 s_remove := []; s_after := [] |} ] in
  topo_sort sc [0; 1; 2; 3] = [2; 3; 1; 0].
Proof. vm_compute. reflexivity. Qed.

(* 0 requires 1, 1 requires 2, 2 requires 0: the topology is empty *)
Example c11a_topo_cycle_empty :
  let sc := [ {| s_auto := false; s_multi := false; s_require := [1]; s_add := [];
                 s_remove := []; s_after := [] |};
              {| s_auto := false; s_multi := false; s_require := [2]; s_add := [];
                 s_remove := []; s_after := [] |};
              {| s_auto := false; s_multi := false; s_require := [0]; s_add := [];
                 s_remove := []; s_after := [] |};
              {| s_auto := false; s_multi := false; s_require := []; s_add := [];
                 s_remove := []; s_after := [] |} ] in
  topo_sort sc [0; 1; 2; 3] = [].
Proof. vm_compute. reflexivity. Qed.


(* ================================================================== *)
(* 12. C08 (e) at the level of one transition                          *)
(* ================================================================== *)

Definition walk (k : hkey) (t : tstate) (act : list nat) : list nat :=
  recover_walk (key_to_state k) (t_enters t) false (t_exits t ++ t_enters t) act.

Lemma call_bindings_inv_mach : forall bs s t k bi caught s1 r,
  call_bindings s t k bs bi caught true = (s1, r) -> same_mach s s1.
Proof.
  induction bs as [|b rest IH]; intros s t k bi caught s1 r Hcb; simpl in Hcb.
  - inversion Hcb; subst. apply same_mach_refl.
  - destruct (existsb (hkey_eqb k) b); [|eapply IH; eassumption].
    destruct (loop_dead s); [inversion Hcb; subst; repeat split|].
    destruct (is_final_key k); [eapply IH; eassumption|].
    inversion Hcb; subst. apply same_mach_refl.
Qed.

Lemma call_bindings_ok_mach : forall bs s t k bi caught inv s1 r,
  call_bindings s t k bs bi caught inv = (s1, r) -> hr_ok r = true -> same_mach s s1.
Proof.
  induction bs as [|b rest IH]; intros s t k bi caught inv s1 r Hcb Hok; simpl in Hcb.
  - inversion Hcb; subst. apply same_mach_refl.
  - destruct (existsb (hkey_eqb k) b); [|eapply IH; eassumption].
    destruct (loop_dead s); [inversion Hcb; subst; discriminate|].
    destruct inv.
    { destruct (is_final_key k); [eapply IH; eassumption|].
      inversion Hcb; subst; discriminate. }
    pose proof (run_calls_core (ha_calls (hd default_action (actions s)))
                  (set_actions s (tl (actions s)))) as Hc.
    destruct (run_calls (set_actions s (tl (actions s)))
                (ha_calls (hd default_action (actions s)))) as [s1' rs].
    simpl fst in Hc. apply same_core_mach in Hc.
    match type of Hcb with context [set_hlog s1' (?e0 :: hlog s1')] =>
      set (s2 := set_hlog s1' (e0 :: hlog s1')) in * end.
    assert (H2 : same_mach s s2).
    { destruct Hc as [A [B C]]. repeat split; simpl; assumption. }
    destruct (ha_fault (hd default_action (actions s))).
    + destruct (negb (is_final_key k) && negb (ha_ret (hd default_action (actions s)))).
      * inversion Hcb; subst; discriminate.
      * eapply same_mach_trans; [exact H2|]. eapply IH; eassumption.
    + destruct (is_final_key k).
      * apply call_bindings_ok in Hcb; [|exact Hok]. destruct Hcb as [Hc' _]. discriminate.
      * inversion Hcb; subst; discriminate.
    + inversion Hcb; subst; discriminate.
Qed.

Lemma handle_ok_mach : forall s t k s1 t1,
  handle s t k = (s1, t1, true) -> same_mach s s1.
Proof.
  intros s t k s1 t1 Hh. unfold handle in Hh.
  destruct (call_bindings s t k (bindings s) 0 false (t_invalid t)) as [s' r] eqn:E.
  inversion Hh; subst. eapply call_bindings_ok_mach; eassumption.
Qed.

Lemma call_bindings_final_active : forall bs s t k bi caught inv s1 r,
  is_final_key k = true ->
  call_bindings s t k bs bi caught inv = (s1, r) ->
  active s1 = active s \/ active s1 = walk k t (active s).
Proof.
  induction bs as [|b rest IH]; intros s t k bi caught inv s1 r Hk Hcb; simpl in Hcb.
  - inversion Hcb; subst. left. reflexivity.
  - destruct (existsb (hkey_eqb k) b); [|eapply IH; eassumption].
    destruct (loop_dead s); [inversion Hcb; subst; left; reflexivity|].
    rewrite Hk in Hcb.
    destruct inv; [eapply IH; eassumption|].
    pose proof (run_calls_core (ha_calls (hd default_action (actions s)))
                  (set_actions s (tl (actions s)))) as Hc.
    destruct (run_calls (set_actions s (tl (actions s)))
                (ha_calls (hd default_action (actions s)))) as [s1' rs].
    simpl fst in Hc. destruct Hc as [_ [_ [C3 [_ [C5 _]]]]].
    match type of Hcb with context [set_hlog s1' (?e0 :: hlog s1')] =>
      set (s2 := set_hlog s1' (e0 :: hlog s1')) in * end.
    assert (H2 : active s2 = active s) by (unfold s2; simpl; exact C5).
    assert (E2 : exc s2 = exc s) by (unfold s2; simpl; exact C3).
    destruct (ha_fault (hd default_action (actions s))).
    + simpl in Hcb. rewrite <- H2. eapply IH; eassumption.
    + unfold exc_called in Hcb. unfold recover_to_err in Hcb. rewrite E2, Hk in Hcb.
      destruct (mem (exc s) (mu_called (t_mut t))).
      * simpl in Hcb. rewrite <- H2. eapply IH; eassumption.
      * simpl negb in Hcb. apply call_bindings_inv_mach in Hcb.
        destruct Hcb as [_ [Ha _]]. right. rewrite Ha. unfold walk, s2. simpl.
        rewrite C5. reflexivity.
    + inversion Hcb; subst. left. exact H2.
Qed.

Lemma handle_final_active : forall s t k s1 t1 ok,
  is_final_key k = true -> handle s t k = (s1, t1, ok) ->
  active s1 = active s \/ active s1 = walk k t (active s).
Proof.
  intros s t k s1 t1 ok Hk Hh. unfold handle in Hh.
  destruct (call_bindings s t k (bindings s) 0 false (t_invalid t)) as [s' r] eqn:E.
  inversion Hh; subst. eapply call_bindings_final_active; eassumption.
Qed.

(* the log when a final handler failed: a fault-free prefix, then entries of
   the failing key *)
Definition fail_book (s0 s : st) (k : hkey) : Prop :=
  exists ents more, book s0 s (ents ++ more) /\
    (forall j, j < length ents -> fault_at (actions s0) j = FNone) /\
    Forall (fun e => hl_key e = k) more.

Lemma handle_fail_book : forall s0 s t k s1 t1 ok,
  clean s0 s -> handle s t k = (s1, t1, ok) -> fail_book s0 s1 k.
Proof.
  intros s0 s t k s1 t1 ok [ents [Hb Hfree]] Hh.
  destruct (handle_book _ _ _ _ _ _ _ _ Hh Hb) as [more [Hb' Hf']].
  exists ents, more. split; [exact Hb'|]. split; [exact Hfree | exact Hf'].
Qed.

Lemma emit_finals_spec : forall s0 l s t s1 t1 fk,
  clean s0 s -> emit_finals s t l = (s1, t1, fk) ->
  match fk with
  | None => same_mach s s1 /\ t1 = t /\ clean s0 s1
  | Some k => same_tx t t1 /\
              (exists x, In x l /\ k = if mem x (t_enters t) then HState x else HEnd x) /\
              (active s1 = active s \/ active s1 = walk k t (active s)) /\
              fail_book s0 s1 k
  end.
Proof.
  intros s0 l. induction l as [|x r IH]; intros s t s1 t1 fk Hcl He; simpl in He.
  - inversion He; subst. split; [apply same_mach_refl|]. split; [reflexivity | exact Hcl].
  - destruct (handle s t (if mem x (t_enters t) then HState x else HEnd x))
      as [[s' t'] ok] eqn:Eh.
    assert (Hk : is_final_key (if mem x (t_enters t) then HState x else HEnd x) = true)
      by (destruct (mem x (t_enters t)); reflexivity).
    destruct ok.
    + pose proof (handle_ok_mach _ _ _ _ _ Eh) as Hm.
      pose proof (handle_ok_clean _ _ _ _ _ _ Eh Hcl) as Hcl'.
      apply handle_ok_t in Eh. subst t'.
      specialize (IH _ _ _ _ _ Hcl' He). destruct fk as [k|].
      * destruct IH as [Hst [[y [Hy Hky]] [Hact Hfb]]].
        split; [exact Hst|]. split; [exists y; split; [right; exact Hy | exact Hky]|].
        destruct Hm as [_ [Ma _]]. rewrite Ma in Hact. split; [exact Hact | exact Hfb].
      * destruct IH as [Hm' [Ht Hc]]. split; [eapply same_mach_trans; eassumption|].
        split; [exact Ht | exact Hc].
    + inversion He; subst.
      split; [apply (handle_same_tx _ _ _ _ _ _ Eh)|].
      split; [exists x; split; [left; reflexivity | reflexivity]|].
      split; [eapply handle_final_active; eassumption|].
      eapply handle_fail_book; eassumption.
Qed.

(* entries logged by the negotiation and AnyEnter have negotiation keys *)
Definition neg_book (s0 s : st) : Prop :=
  exists more, book s0 s more /\ Forall (fun e => is_final_key (hl_key e) = false) more.

Lemma handle_neg_book : forall s0 s t k s1 t1 ok,
  is_final_key k = false -> neg_book s0 s -> handle s t k = (s1, t1, ok) -> neg_book s0 s1.
Proof.
  intros s0 s t k s1 t1 ok Hk [more [Hb Hf]] Hh.
  destruct (handle_book _ _ _ _ _ _ _ _ Hh Hb) as [more' [Hb' Hf']].
  exists (more ++ more'). split; [exact Hb'|].
  apply Forall_app. split; [exact Hf|].
  eapply Forall_impl; [|exact Hf']. intros e He. simpl in He. rewrite He. exact Hk.
Qed.

Lemma new_transition_accepted : forall s mu,
  t_accepted (new_transition s mu) = true ->
  t_enters (new_transition s mu)
  = filter (fun x => negb (mem x (active s))
                     || (s_multi (sget (sc s) x) && mem x (mu_called mu)))
           (t_target (new_transition s mu)) /\
  t_exits (new_transition s mu)
  = sort_states (sc s) (topo s) (diff (active s) (t_target (new_transition s mu))).
Proof.
  intros s mu. unfold new_transition.
  destruct (setup_accepted s mu _) eqn:Ea.
  - intros _. split; reflexivity.
  - cbn [t_accepted]. intros H. congruence.
Qed.

Lemma recover_to_err_txs : forall s t k, txs (recover_to_err s t k) = txs s.
Proof.
  intros s t k. unfold recover_to_err.
  destruct (mem (exc s) _); [reflexivity|]. destruct (is_final_key k); reflexivity.
Qed.

Lemma call_bindings_txs : forall bs s t k bi caught inv s1 r,
  call_bindings s t k bs bi caught inv = (s1, r) -> txs s1 = txs s.
Proof.
  induction bs as [|b rest IH]; intros s t k bi caught inv s1 r Hcb; simpl in Hcb.
  - inversion Hcb; subst. reflexivity.
  - destruct (existsb (hkey_eqb k) b); [|eapply IH; eassumption].
    destruct (loop_dead s); [inversion Hcb; subst; reflexivity|].
    destruct inv.
    { destruct (is_final_key k); [eapply IH; eassumption|].
      inversion Hcb; subst; reflexivity. }
    pose proof (run_calls_core (ha_calls (hd default_action (actions s)))
                  (set_actions s (tl (actions s)))) as Hc.
    destruct (run_calls (set_actions s (tl (actions s)))
                (ha_calls (hd default_action (actions s)))) as [s1' rs].
    simpl fst in Hc. destruct Hc as [_ [_ [_ [_ [_ [C6 _]]]]]].
    match type of Hcb with context [set_hlog s1' (?e0 :: hlog s1')] =>
      set (s2 := set_hlog s1' (e0 :: hlog s1')) in * end.
    assert (H2 : txs s2 = txs s) by (unfold s2; simpl; exact C6).
    destruct (ha_fault (hd default_action (actions s))).
    + destruct (negb (is_final_key k) && negb (ha_ret (hd default_action (actions s)))).
      * inversion Hcb; subst. exact H2.
      * rewrite <- H2. eapply IH; eassumption.
    + destruct (is_final_key k).
      * apply IH in Hcb. rewrite Hcb, recover_to_err_txs. exact H2.
      * inversion Hcb; subst. rewrite recover_to_err_txs. exact H2.
    + inversion Hcb; subst. exact H2.
Qed.

Lemma handle_txs : forall s t k s1 t1 ok,
  handle s t k = (s1, t1, ok) -> txs s1 = txs s.
Proof.
  intros s t k s1 t1 ok Hh. unfold handle in Hh.
  destruct (call_bindings s t k (bindings s) 0 false (t_invalid t)) as [s' r] eqn:E.
  inversion Hh; subst. eapply call_bindings_txs; eassumption.
Qed.

Lemma rt_end_hlog : forall mu s4 t3 s5 fc2 rec,
  hlog (add_ev (add_tx (rt_s6 mu s4 t3 s5 fc2) rec) EvEnd) = hlog s5.
Proof.
  intros mu s4 t3 s5 fc2 rec. simpl. unfold rt_s6.
  destruct (_ && _ && _ && _); [apply prepend_auto_book | reflexivity].
Qed.


(* ================================================================== *)
(* 13. non-vacuity: concrete faulted transitions                       *)
(* ================================================================== *)

(* 0 = Exception (Multi), 1, 2 plain, 3 Auto *)
Definition ex_sch : schema :=
  [ {| s_auto := false; s_multi := true; s_require := []; s_add := []; s_remove := [];
       s_after := [] |};
    empty_sdef; empty_sdef;
    {| s_auto := true; s_multi := false; s_require := []; s_add := []; s_remove := [];
       s_after := [] |} ].
Definition ex_mu (called : list nat) : mutation :=
  {| mu_type := MAdd; mu_called := called; mu_auto := false; mu_check := false;
     mu_args := false; mu_qtick := 1 |}.
Definition ex_act (f : fault) : haction := {| ha_ret := true; ha_calls := []; ha_fault := f |}.
Definition ex_st (bs : list (list hkey)) (acts : list haction) : st :=
  init_st ex_sch [] [] 0 bs 100 acts.

(* a panic in the Enter handler of state 1 *)
Definition ex_s_neg : st := ex_st [[HEnter 1]] [ex_act FPanic].
(* a stall / a panic in the second State handler of an Add[1;2] *)
Definition ex_s_stall : st :=
  ex_st [[HState 1; HState 2]; [HState 2]] [ex_act FNone; ex_act FStall].
Definition ex_s_panic : st :=
  ex_st [[HState 1; HState 2]; [HState 2]] [ex_act FNone; ex_act FPanic].

Lemma faults_never_escape_nonvacuous_lemma :
  crashed ex_s_neg = false /\ loop_dead ex_s_neg = false /\ hung ex_s_neg = false /\
  fault_at (actions ex_s_neg) 0 = FPanic /\
  length (hlog (fst (run_tx ex_s_neg (ex_mu [1])))) = 1 /\
  crashed (fst (run_tx ex_s_neg (ex_mu [1]))) = false.
Proof. vm_compute. repeat split. Qed.

Lemma panic_makes_exception_nonvacuous_lemma :
  let s := ex_s_panic in let mu := ex_mu [1; 2] in let s' := fst (run_tx s mu) in
  crashed s = false /\ loop_dead s = false /\ hung s = false /\
  mem (exc s) (mu_called mu) = false /\
  1 < length (hlog s') - length (hlog s) /\ fault_at (actions s) 1 = FPanic /\
  hd_error (queue s') = Some (exc_mut 0) /\ err_code s' = 2%N.
Proof. vm_compute. repeat split; repeat constructor. Qed.

Lemma negotiation_fault_nonvacuous_lemma :
  let s := ex_s_neg in let mu := ex_mu [1] in let s' := fst (run_tx s mu) in
  mu_auto mu = false /\ mu_check mu = false /\
  exists h, hlog s' = rev [h] ++ hlog s /\ nth_error [h] 0 = Some h /\
            is_fault (fault_at (actions s) 0) = true /\ is_final_key (hl_key h) = false /\
            clock s' = clock s /\ active s' = active s.
Proof. vm_compute. repeat split. eexists. repeat split. Qed.

Lemma final_rollback_nonvacuous_lemma :
  let s := ex_s_stall in let mu := ex_mu [1; 2] in let s' := fst (run_tx s mu) in
  mu_auto mu = false /\ mu_check mu = false /\
  exists h0 h, hlog s' = rev [h0; h] ++ hlog s /\ nth_error [h0; h] 1 = Some h /\
            is_fault (fault_at (actions s) 1) = true /\ hl_key h = HState 2 /\
            t_target (new_transition s mu) = [1; 2] /\ active s' = [1].
Proof. vm_compute. repeat split. eexists. eexists. repeat split. Qed.

Lemma machine_lives_on_nonvacuous_lemma :
  let s := fst (queue_mutation ex_s_panic MAdd [1; 2] false) in
  snd (drain 10 s None) = true /\
  crashed (fst (fst (drain 10 s None))) = false /\ hung (fst (fst (drain 10 s None))) = false /\
  length (queue s) = 1 /\ length (txs (fst (fst (drain 10 s None)))) = 3.
Proof. vm_compute. repeat split. Qed.

Definition ex_t : tstate :=
  {| t_mut := ex_mu [1; 2]; t_before := []; t_clock_before := [0; 0; 0; 0]%N;
     t_target := [1; 2]; t_enters := [1; 2]; t_exits := []; t_accepted := true;
     t_invalid := false |}.

Lemma recover_final_phase_parity_nonvacuous_lemma :
  let s := set_mach (ex_st [] []) [0; 1; 1; 0]%N [1; 2] in
  parity_ok (clock s) (active s) = true /\
  active (recover_final_phase s ex_t (HState 2)) = [1] /\
  clock (recover_final_phase s ex_t (HState 2)) = [0; 1; 2; 0]%N /\
  parity_ok (clock (recover_final_phase s ex_t (HState 2)))
            (active (recover_final_phase s ex_t (HState 2))) = true.
Proof. vm_compute. repeat split. Qed.

Lemma recover_walk_nonvacuous_lemma :
  recover_walk (Some 4) [3; 4] false ([5; 6] ++ [3; 4]) [0; 3; 4] = [0; 3] /\
  recover_walk (Some 6) [3; 4] false ([5; 6; 7] ++ [3; 4]) [0; 3; 4] = [0; 6; 7].
Proof. vm_compute. split; reflexivity. Qed.

(* ================================================================== *)
(* 14. C11 (j): the order of the keys inside a binding is unobservable *)
(* ================================================================== *)

Definition c11b_beq (b b' : list hkey) : Prop :=
  forall k, existsb (hkey_eqb k) b = existsb (hkey_eqb k) b'.

(* the state [s] with its bindings replaced *)
Definition c11b_rb (bs' : list (list hkey)) (s : st) : st :=
  {| sc := sc s; topo := topo s; health := health s; exc := exc s; bindings := bs';
     qlimit := qlimit s; clock := clock s; active := active s; queue := queue s;
     qtick := qtick s; qpending := qpending s; actions := actions s;
     hlog := hlog s; txs := txs s; evs := evs s; crashed := crashed s;
     loop_dead := loop_dead s; hung := hung s; err_code := err_code s |}.

Definition c11b_ok (s : st) (bs' : list (list hkey)) : Prop :=
  Forall2 c11b_beq (bindings s) bs'.

Definition c11b_m2 {A : Type} (bs' : list (list hkey)) (p : st * A) : st * A :=
  (c11b_rb bs' (fst p), snd p).

Definition c11b_m3 {A B : Type} (bs' : list (list hkey)) (p : st * A * B) : st * A * B :=
  (c11b_rb bs' (fst (fst p)), snd (fst p), snd p).

Lemma c11b_beq_refl : forall b, c11b_beq b b.
Proof. intros b k. reflexivity. Qed.

Lemma c11b_Forall2_beq_refl : forall bs, Forall2 c11b_beq bs bs.
Proof.
  induction bs as [|b r IH]; constructor; [apply c11b_beq_refl | exact IH].
Qed.

Lemma c11b_ok_self : forall s, c11b_ok s (bindings s).
Proof. intros s. apply c11b_Forall2_beq_refl. Qed.

Lemma c11b_rb_self : forall s, c11b_rb (bindings s) s = s.
Proof. intros s. destruct s. reflexivity. Qed.

Lemma c11b_ok_frame : forall s s1 bs',
  bindings s1 = bindings s -> c11b_ok s bs' -> c11b_ok s1 bs'.
Proof. intros s s1 bs' HF HO. unfold c11b_ok in *. rewrite HF. exact HO. Qed.

(* frame lemmas are corollaries of the commutation lemmas *)
Lemma c11b_frame1 : forall (f : st -> st) s,
  (forall bs', c11b_ok s bs' -> f (c11b_rb bs' s) = c11b_rb bs' (f s)) ->
  bindings (f s) = bindings s.
Proof.
  intros f s H. specialize (H (bindings s) (c11b_ok_self s)).
  rewrite c11b_rb_self in H. rewrite H. reflexivity.
Qed.

Lemma c11b_frame2 : forall (A : Type) (f : st -> st * A) s,
  (forall bs', c11b_ok s bs' -> f (c11b_rb bs' s) = c11b_m2 bs' (f s)) ->
  bindings (fst (f s)) = bindings s.
Proof.
  intros A f s H. specialize (H (bindings s) (c11b_ok_self s)).
  rewrite c11b_rb_self in H. rewrite H. reflexivity.
Qed.

Lemma c11b_frame3 : forall (A B : Type) (f : st -> st * A * B) s,
  (forall bs', c11b_ok s bs' -> f (c11b_rb bs' s) = c11b_m3 bs' (f s)) ->
  bindings (fst (fst (f s))) = bindings s.
Proof.
  intros A B f s H. specialize (H (bindings s) (c11b_ok_self s)).
  rewrite c11b_rb_self in H. rewrite H. reflexivity.
Qed.

(* ---------------------------------------------------------------- *)
(* projections of a rebound state *)

Lemma c11b_p_sc : forall bs' s, sc (c11b_rb bs' s) = sc s. Proof. reflexivity. Qed.
Lemma c11b_p_topo : forall bs' s, topo (c11b_rb bs' s) = topo s. Proof. reflexivity. Qed.
Lemma c11b_p_health : forall bs' s, health (c11b_rb bs' s) = health s. Proof. reflexivity. Qed.
Lemma c11b_p_exc : forall bs' s, exc (c11b_rb bs' s) = exc s. Proof. reflexivity. Qed.
Lemma c11b_p_bindings : forall bs' s, bindings (c11b_rb bs' s) = bs'. Proof. reflexivity. Qed.
Lemma c11b_p_qlimit : forall bs' s, qlimit (c11b_rb bs' s) = qlimit s. Proof. reflexivity. Qed.
Lemma c11b_p_clock : forall bs' s, clock (c11b_rb bs' s) = clock s. Proof. reflexivity. Qed.
Lemma c11b_p_active : forall bs' s, active (c11b_rb bs' s) = active s. Proof. reflexivity. Qed.
Lemma c11b_p_queue : forall bs' s, queue (c11b_rb bs' s) = queue s. Proof. reflexivity. Qed.
Lemma c11b_p_qtick : forall bs' s, qtick (c11b_rb bs' s) = qtick s. Proof. reflexivity. Qed.
Lemma c11b_p_qpending : forall bs' s, qpending (c11b_rb bs' s) = qpending s. Proof. reflexivity. Qed.
Lemma c11b_p_actions : forall bs' s, actions (c11b_rb bs' s) = actions s. Proof. reflexivity. Qed.
Lemma c11b_p_hlog : forall bs' s, hlog (c11b_rb bs' s) = hlog s. Proof. reflexivity. Qed.
Lemma c11b_p_txs : forall bs' s, txs (c11b_rb bs' s) = txs s. Proof. reflexivity. Qed.
Lemma c11b_p_evs : forall bs' s, evs (c11b_rb bs' s) = evs s. Proof. reflexivity. Qed.
Lemma c11b_p_crashed : forall bs' s, crashed (c11b_rb bs' s) = crashed s. Proof. reflexivity. Qed.
Lemma c11b_p_loop_dead : forall bs' s, loop_dead (c11b_rb bs' s) = loop_dead s. Proof. reflexivity. Qed.
Lemma c11b_p_hung : forall bs' s, hung (c11b_rb bs' s) = hung s. Proof. reflexivity. Qed.
Lemma c11b_p_err_code : forall bs' s, err_code (c11b_rb bs' s) = err_code s. Proof. reflexivity. Qed.

(* derived observers *)
Lemma c11b_p_is_active : forall bs' s, is_active (c11b_rb bs' s) = is_active s.
Proof. reflexivity. Qed.
Lemma c11b_p_mach_is : forall bs' s l, mach_is (c11b_rb bs' s) l = mach_is s l.
Proof. reflexivity. Qed.
Lemma c11b_p_mach_not : forall bs' s l, mach_not (c11b_rb bs' s) l = mach_not s l.
Proof. reflexivity. Qed.
Lemma c11b_p_qlen : forall bs' s, qlen (c11b_rb bs' s) = qlen s.
Proof. reflexivity. Qed.
Lemma c11b_p_limit_hit : forall bs' s, limit_hit (c11b_rb bs' s) = limit_hit s.
Proof. reflexivity. Qed.
Lemma c11b_p_exc_called : forall bs' s t, exc_called (c11b_rb bs' s) t = exc_called s t.
Proof. reflexivity. Qed.
Lemma c11b_p_is_auto_state : forall bs' s x, is_auto_state (c11b_rb bs' s) x = is_auto_state s x.
Proof. reflexivity. Qed.
Lemma c11b_p_rctx_of : forall bs' s t, rctx_of (c11b_rb bs' s) t = rctx_of s t.
Proof. reflexivity. Qed.
Lemma c11b_p_setup_accepted : forall bs' s mu tg,
  setup_accepted (c11b_rb bs' s) mu tg = setup_accepted s mu tg.
Proof. reflexivity. Qed.
Lemma c11b_p_is_health : forall bs' s mu, is_health (c11b_rb bs' s) mu = is_health s mu.
Proof. reflexivity. Qed.
Lemma c11b_p_has_handlers : forall bs' s,
  has_handlers (c11b_rb bs' s) = negb (Nat.eqb (length bs') 0).
Proof. reflexivity. Qed.

Lemma c11b_Forall2_length : forall (A B : Type) (R : A -> B -> Prop) l l',
  Forall2 R l l' -> length l = length l'.
Proof.
  intros A B R l l' H. induction H as [|x y l l' Hxy Hl IH]; [reflexivity|].
  cbn [length]. rewrite IH. reflexivity.
Qed.

Lemma c11b_has_handlers_ok : forall bs' s,
  c11b_ok s bs' -> has_handlers s = negb (Nat.eqb (length bs') 0).
Proof.
  intros bs' s HO. unfold has_handlers, c11b_ok in *.
  rewrite (c11b_Forall2_length _ _ _ _ _ HO). reflexivity.
Qed.

(* setters commute with rebinding (all definitional) *)
Lemma c11b_s_set_queue : forall bs' s q,
  set_queue (c11b_rb bs' s) q = c11b_rb bs' (set_queue s q).
Proof. reflexivity. Qed.
Lemma c11b_s_set_ticks : forall bs' s a b,
  set_ticks (c11b_rb bs' s) a b = c11b_rb bs' (set_ticks s a b).
Proof. reflexivity. Qed.
Lemma c11b_s_set_mach : forall bs' s a b,
  set_mach (c11b_rb bs' s) a b = c11b_rb bs' (set_mach s a b).
Proof. reflexivity. Qed.
Lemma c11b_s_set_actions : forall bs' s a,
  set_actions (c11b_rb bs' s) a = c11b_rb bs' (set_actions s a).
Proof. reflexivity. Qed.
Lemma c11b_s_set_hlog : forall bs' s a,
  set_hlog (c11b_rb bs' s) a = c11b_rb bs' (set_hlog s a).
Proof. reflexivity. Qed.
Lemma c11b_s_add_tx : forall bs' s a,
  add_tx (c11b_rb bs' s) a = c11b_rb bs' (add_tx s a).
Proof. reflexivity. Qed.
Lemma c11b_s_add_ev : forall bs' s a,
  add_ev (c11b_rb bs' s) a = c11b_rb bs' (add_ev s a).
Proof. reflexivity. Qed.
Lemma c11b_s_set_crashed : forall bs' s,
  set_crashed (c11b_rb bs' s) = c11b_rb bs' (set_crashed s).
Proof. reflexivity. Qed.
Lemma c11b_s_set_fault_flags : forall bs' s a b c,
  set_fault_flags (c11b_rb bs' s) a b c = c11b_rb bs' (set_fault_flags s a b c).
Proof. reflexivity. Qed.

(* setters keep the bindings *)
Lemma c11b_b_set_queue : forall s q, bindings (set_queue s q) = bindings s. Proof. reflexivity. Qed.
Lemma c11b_b_set_ticks : forall s a b, bindings (set_ticks s a b) = bindings s. Proof. reflexivity. Qed.
Lemma c11b_b_set_mach : forall s a b, bindings (set_mach s a b) = bindings s. Proof. reflexivity. Qed.
Lemma c11b_b_set_actions : forall s a, bindings (set_actions s a) = bindings s. Proof. reflexivity. Qed.
Lemma c11b_b_set_hlog : forall s a, bindings (set_hlog s a) = bindings s. Proof. reflexivity. Qed.
Lemma c11b_b_add_tx : forall s a, bindings (add_tx s a) = bindings s. Proof. reflexivity. Qed.
Lemma c11b_b_add_ev : forall s a, bindings (add_ev s a) = bindings s. Proof. reflexivity. Qed.
Lemma c11b_b_set_crashed : forall s, bindings (set_crashed s) = bindings s. Proof. reflexivity. Qed.
Lemma c11b_b_set_fault_flags : forall s a b c, bindings (set_fault_flags s a b c) = bindings s.
Proof. reflexivity. Qed.

(* normalisation: projections of rebound states, and rebinding pushed outwards *)
Ltac c11b_norm :=
  repeat progress
    rewrite ?c11b_p_sc, ?c11b_p_topo, ?c11b_p_health, ?c11b_p_exc, ?c11b_p_bindings,
      ?c11b_p_qlimit, ?c11b_p_clock, ?c11b_p_active, ?c11b_p_queue, ?c11b_p_qtick,
      ?c11b_p_qpending, ?c11b_p_actions, ?c11b_p_hlog, ?c11b_p_txs, ?c11b_p_evs,
      ?c11b_p_crashed, ?c11b_p_loop_dead, ?c11b_p_hung, ?c11b_p_err_code,
      ?c11b_p_is_active, ?c11b_p_mach_is, ?c11b_p_mach_not, ?c11b_p_qlen,
      ?c11b_p_limit_hit, ?c11b_p_exc_called, ?c11b_p_is_auto_state, ?c11b_p_rctx_of,
      ?c11b_p_setup_accepted, ?c11b_p_is_health, ?c11b_p_has_handlers,
      ?c11b_s_set_queue, ?c11b_s_set_ticks, ?c11b_s_set_mach, ?c11b_s_set_actions,
      ?c11b_s_set_hlog, ?c11b_s_add_tx, ?c11b_s_add_ev, ?c11b_s_set_crashed,
      ?c11b_s_set_fault_flags.

(* ok is kept by the setters *)
Ltac c11b_ok_tac :=
  unfold c11b_ok in *;
  repeat rewrite ?c11b_b_set_queue, ?c11b_b_set_ticks, ?c11b_b_set_mach, ?c11b_b_set_actions,
    ?c11b_b_set_hlog, ?c11b_b_add_tx, ?c11b_b_add_ev, ?c11b_b_set_crashed,
    ?c11b_b_set_fault_flags;
  try assumption.

(* ---------------------------------------------------------------- *)
(* queue *)

Lemma c11b_queue_mutation : forall bs' s mt states args,
  queue_mutation (c11b_rb bs' s) mt states args = c11b_m2 bs' (queue_mutation s mt states args).
Proof.
  intros bs' s mt states args. unfold queue_mutation. c11b_norm.
  destruct (negb (existsb (fun x => s_multi (sget (sc s) x)) (uniq states)) && negb args
            && is_dup (queue s) mt (uniq states)); reflexivity.
Qed.

Lemma c11b_fr_queue_mutation : forall s mt states args,
  bindings (fst (queue_mutation s mt states args)) = bindings s.
Proof.
  intros s mt states args.
  apply (c11b_frame2 _ (fun s => queue_mutation s mt states args)).
  intros bs' _. apply c11b_queue_mutation.
Qed.

Lemma c11b_prepend_mut : forall bs' s mu,
  prepend_mut (c11b_rb bs' s) mu = c11b_rb bs' (prepend_mut s mu).
Proof. reflexivity. Qed.

Lemma c11b_fr_prepend_mut : forall s mu, bindings (prepend_mut s mu) = bindings s.
Proof. reflexivity. Qed.

Lemma c11b_nested_add : forall bs' s states args,
  nested_add (c11b_rb bs' s) states args = c11b_m2 bs' (nested_add s states args).
Proof.
  intros bs' s states args. unfold nested_add. c11b_norm.
  destruct (limit_hit s && (negb (mem (exc s) states) || is_active s (exc s))); [reflexivity|].
  rewrite c11b_queue_mutation.
  destruct (queue_mutation s MAdd states args) as [s1 tick]. unfold c11b_m2; cbn [fst snd].
  destruct (tick =? 0)%N; reflexivity.
Qed.

Lemma c11b_nested_remove : forall bs' s states args,
  nested_remove (c11b_rb bs' s) states args = c11b_m2 bs' (nested_remove s states args).
Proof.
  intros bs' s states args. unfold nested_remove. c11b_norm.
  destruct (limit_hit s && (negb (mem (exc s) states) || negb (is_active s (exc s))));
    [reflexivity|].
  destruct (Nat.eqb (length (queue s)) 0 && negb (existsb (is_active s) states)).
  - reflexivity.
  - rewrite c11b_queue_mutation.
    destruct (queue_mutation s MRemove states args) as [s1 tick]. unfold c11b_m2; cbn [fst snd].
    destruct (tick =? 0)%N; reflexivity.
Qed.

Lemma c11b_nested_set : forall bs' s states args,
  nested_set (c11b_rb bs' s) states args = c11b_m2 bs' (nested_set s states args).
Proof.
  intros bs' s states args. unfold nested_set. c11b_norm.
  destruct (limit_hit s); [reflexivity|].
  rewrite c11b_queue_mutation.
  destruct (queue_mutation s MSet states args) as [s1 tick]. unfold c11b_m2; cbn [fst snd].
  destruct (tick =? 0)%N; reflexivity.
Qed.

Lemma c11b_nested_api : forall bs' s c,
  nested_api (c11b_rb bs' s) c = c11b_m2 bs' (nested_api s c).
Proof.
  intros bs' s c. unfold nested_api. c11b_norm.
  destruct (ac_kind c).
  - apply c11b_nested_add.
  - apply c11b_nested_remove.
  - apply c11b_nested_set.
  - destruct (mach_is s (ac_states c)); [apply c11b_nested_remove | apply c11b_nested_add].
  - destruct (limit_hit s); [reflexivity|]. apply c11b_nested_add.
  - reflexivity.
  - reflexivity.
Qed.

Lemma c11b_run_calls : forall bs' cs s,
  run_calls (c11b_rb bs' s) cs = c11b_m2 bs' (run_calls s cs).
Proof.
  intros bs'. induction cs as [|c r IH]; intros s.
  - reflexivity.
  - cbn [run_calls]. rewrite c11b_nested_api.
    destruct (nested_api s c) as [s1 res]. unfold c11b_m2 at 1; cbn [fst snd].
    rewrite IH. destruct (run_calls s1 r) as [s2 rs]. reflexivity.
Qed.

Lemma c11b_fr_run_calls : forall s cs, bindings (fst (run_calls s cs)) = bindings s.
Proof.
  intros s cs. apply (c11b_frame2 _ (fun s => run_calls s cs)).
  intros bs' _. apply c11b_run_calls.
Qed.

Lemma c11b_recover_final_phase : forall bs' s t k,
  recover_final_phase (c11b_rb bs' s) t k = c11b_rb bs' (recover_final_phase s t k).
Proof. reflexivity. Qed.

Lemma c11b_fr_recover_final_phase : forall s t k,
  bindings (recover_final_phase s t k) = bindings s.
Proof. reflexivity. Qed.

Lemma c11b_recover_to_err : forall bs' s t k,
  recover_to_err (c11b_rb bs' s) t k = c11b_rb bs' (recover_to_err s t k).
Proof.
  intros bs' s t k. unfold recover_to_err. c11b_norm.
  destruct (mem (exc s) (mu_called (t_mut t))); [reflexivity|].
  destruct (is_final_key k); reflexivity.
Qed.

Lemma c11b_fr_recover_to_err : forall s t k, bindings (recover_to_err s t k) = bindings s.
Proof.
  intros s t k. apply (c11b_frame1 (fun s => recover_to_err s t k)).
  intros bs' _. apply c11b_recover_to_err.
Qed.

(* ---------------------------------------------------------------- *)
(* handlers *)

Lemma c11b_ok_frame' : forall s s1 bs',
  c11b_ok s bs' -> bindings s1 = bindings s -> c11b_ok s1 bs'.
Proof. intros s s1 bs' HO HF. exact (c11b_ok_frame s s1 bs' HF HO). Qed.

Lemma c11b_call_bindings : forall bs' bs1 bs2,
  Forall2 c11b_beq bs1 bs2 ->
  forall s t k bi caught inv,
    call_bindings (c11b_rb bs' s) t k bs2 bi caught inv
    = c11b_m2 bs' (call_bindings s t k bs1 bi caught inv).
Proof.
  intros bs' bs1 bs2 HF.
  induction HF as [|b1 b2 r1 r2 Hb Hr IH]; intros s t k bi caught inv.
  - reflexivity.
  - cbn [call_bindings]. rewrite <- (Hb k).
    destruct (existsb (hkey_eqb k) b1); [|apply IH].
    c11b_norm.
    destruct (loop_dead s); [reflexivity|].
    destruct inv.
    { destruct (is_final_key k); [apply IH | reflexivity]. }
    cbv zeta. c11b_norm. rewrite c11b_run_calls.
    destruct (run_calls (set_actions s (tl (actions s))) (ha_calls (hd default_action (actions s))))
      as [s1 rs].
    unfold c11b_m2 at 1; cbn [fst snd]. c11b_norm.
    destruct (ha_fault (hd default_action (actions s))).
    + destruct (negb (is_final_key k) && negb (ha_ret (hd default_action (actions s))));
        [reflexivity | apply IH].
    + rewrite c11b_recover_to_err.
      destruct (is_final_key k); [apply IH | reflexivity].
    + reflexivity.
Qed.

Lemma c11b_fr_call_bindings : forall s t k bs bi caught inv,
  bindings (fst (call_bindings s t k bs bi caught inv)) = bindings s.
Proof.
  intros s t k bs bi caught inv.
  apply (c11b_frame2 _ (fun s => call_bindings s t k bs bi caught inv)).
  intros bs' _. apply c11b_call_bindings. apply c11b_Forall2_beq_refl.
Qed.

Lemma c11b_handle : forall bs' s t k,
  c11b_ok s bs' -> handle (c11b_rb bs' s) t k = c11b_m3 bs' (handle s t k).
Proof.
  intros bs' s t k HO. unfold handle. c11b_norm.
  rewrite (c11b_call_bindings bs' (bindings s) bs' HO).
  destruct (call_bindings s t k (bindings s) 0 false (t_invalid t)) as [s1 r].
  reflexivity.
Qed.

Lemma c11b_fr_handle : forall s t k, bindings (fst (fst (handle s t k))) = bindings s.
Proof.
  intros s t k. apply (c11b_frame3 _ _ (fun s => handle s t k)).
  intros bs' HO. apply c11b_handle. exact HO.
Qed.

(* rewrite one handle call on a rebound state, name its results *)
Ltac c11b_handle_step HO s1 t1 okb HO1 :=
  rewrite (c11b_handle _ _ _ _ HO);
  match goal with
  | |- context [c11b_m3 _ (handle ?s ?t ?k)] =>
    pose proof (c11b_fr_handle s t k) as HO1;
    destruct (handle s t k) as [[s1 t1] okb]
  end;
  cbn [fst snd] in HO1; apply (c11b_ok_frame' _ _ _ HO) in HO1;
  unfold c11b_m3 at 1; cbn [fst snd]; c11b_norm.

Lemma c11b_emit_exits : forall bs' l s t,
  c11b_ok s bs' -> emit_exits (c11b_rb bs' s) t l = c11b_m3 bs' (emit_exits s t l).
Proof.
  intros bs'. induction l as [|x r IH]; intros s t HO.
  - reflexivity.
  - cbn [emit_exits]. c11b_handle_step HO s1 t1 okb HO1.
    destruct (hung s1); [reflexivity|].
    destruct okb; [apply IH; exact HO1|].
    destruct (mu_auto (t_mut t1) && is_auto_state s x); [|reflexivity].
    destruct (mem x (t_target t1)); [apply IH; exact HO1 | reflexivity].
Qed.

Lemma c11b_fr_emit_exits : forall s t l, bindings (fst (fst (emit_exits s t l))) = bindings s.
Proof.
  intros s t l. apply (c11b_frame3 _ _ (fun s => emit_exits s t l)).
  intros bs' HO. apply c11b_emit_exits. exact HO.
Qed.

Lemma c11b_emit_enters : forall bs' l s t,
  c11b_ok s bs' -> emit_enters (c11b_rb bs' s) t l = c11b_m3 bs' (emit_enters s t l).
Proof.
  intros bs'. induction l as [|x r IH]; intros s t HO.
  - reflexivity.
  - cbn [emit_enters]. c11b_handle_step HO s1 t1 okb HO1.
    destruct (hung s1); [reflexivity|].
    destruct okb; [apply IH; exact HO1|].
    destruct (mu_auto (t_mut t1) && is_auto_state s x); [|reflexivity].
    destruct (mem x (t_target t1)); [apply IH; exact HO1 | reflexivity].
Qed.

Lemma c11b_fr_emit_enters : forall s t l, bindings (fst (fst (emit_enters s t l))) = bindings s.
Proof.
  intros s t l. apply (c11b_frame3 _ _ (fun s => emit_enters s t l)).
  intros bs' HO. apply c11b_emit_enters. exact HO.
Qed.

Lemma c11b_emit_selfs : forall bs' fuel s t arr i last,
  c11b_ok s bs' ->
  emit_selfs fuel (c11b_rb bs' s) t arr i last = c11b_m3 bs' (emit_selfs fuel s t arr i last).
Proof.
  intros bs'. induction fuel as [|f IH]; intros s t arr i last HO.
  - reflexivity.
  - cbn [emit_selfs].
    destruct (nth_error arr i) as [[x|]|]; [| apply IH; exact HO | reflexivity].
    c11b_norm.
    destruct (negb (is_active s x)); [apply IH; exact HO|].
    c11b_handle_step HO s1 t1 okb HO1.
    destruct (hung s1); [reflexivity|].
    destruct okb; [apply IH; exact HO1|].
    destruct (mu_auto (t_mut t1) && is_auto_state s x); [|reflexivity].
    destruct (mem x (t_target t1)); [apply IH; exact HO1 | reflexivity].
Qed.

Lemma c11b_fr_emit_selfs : forall fuel s t arr i last,
  bindings (fst (fst (emit_selfs fuel s t arr i last))) = bindings s.
Proof.
  intros fuel s t arr i last.
  apply (c11b_frame3 _ _ (fun s => emit_selfs fuel s t arr i last)).
  intros bs' HO. apply c11b_emit_selfs. exact HO.
Qed.

Lemma c11b_emit_trans_inner : forall bs' b after s t,
  c11b_ok s bs' ->
  emit_trans_inner (c11b_rb bs' s) t b after = c11b_m3 bs' (emit_trans_inner s t b after).
Proof.
  intros bs' b. induction after as [|a r IH]; intros s t HO.
  - reflexivity.
  - cbn [emit_trans_inner].
    destruct (Nat.eqb b a); [apply IH; exact HO|].
    c11b_handle_step HO s1 t1 okb HO1.
    destruct (hung s1); [reflexivity|].
    destruct okb; [apply IH; exact HO1|].
    destruct (mu_auto (t_mut t1) && is_auto_state s a); [apply IH; exact HO1 | reflexivity].
Qed.

Lemma c11b_fr_emit_trans_inner : forall s t b after,
  bindings (fst (fst (emit_trans_inner s t b after))) = bindings s.
Proof.
  intros s t b after.
  apply (c11b_frame3 _ _ (fun s => emit_trans_inner s t b after)).
  intros bs' HO. apply c11b_emit_trans_inner. exact HO.
Qed.

Lemma c11b_emit_trans : forall bs' after before s t,
  c11b_ok s bs' ->
  emit_trans (c11b_rb bs' s) t before after = c11b_m3 bs' (emit_trans s t before after).
Proof.
  intros bs' after. induction before as [|b r IH]; intros s t HO.
  - reflexivity.
  - cbn [emit_trans]. rewrite (c11b_emit_trans_inner _ _ _ _ _ HO).
    pose proof (c11b_fr_emit_trans_inner s t b after) as HO1.
    destruct (emit_trans_inner s t b after) as [[s1 t1] nr].
    cbn [fst snd] in HO1. apply (c11b_ok_frame' _ _ _ HO) in HO1.
    unfold c11b_m3 at 1; cbn [fst snd].
    destruct nr; [apply IH; exact HO1 | reflexivity | reflexivity].
Qed.

Lemma c11b_fr_emit_trans : forall s t before after,
  bindings (fst (fst (emit_trans s t before after))) = bindings s.
Proof.
  intros s t before after.
  apply (c11b_frame3 _ _ (fun s => emit_trans s t before after)).
  intros bs' HO. apply c11b_emit_trans. exact HO.
Qed.

Lemma c11b_emit_finals : forall bs' l s t,
  c11b_ok s bs' -> emit_finals (c11b_rb bs' s) t l = c11b_m3 bs' (emit_finals s t l).
Proof.
  intros bs'. induction l as [|x r IH]; intros s t HO.
  - reflexivity.
  - cbn [emit_finals]. cbv zeta. c11b_handle_step HO s1 t1 okb HO1.
    destruct okb; [apply IH; exact HO1 | reflexivity].
Qed.

Lemma c11b_fr_emit_finals : forall s t l, bindings (fst (fst (emit_finals s t l))) = bindings s.
Proof.
  intros s t l. apply (c11b_frame3 _ _ (fun s => emit_finals s t l)).
  intros bs' HO. apply c11b_emit_finals. exact HO.
Qed.

Lemma c11b_negotiate : forall bs' s t,
  c11b_ok s bs' -> negotiate (c11b_rb bs' s) t = c11b_m3 bs' (negotiate s t).
Proof.
  intros bs' s t HO. unfold negotiate.
  rewrite (c11b_emit_exits _ _ _ _ HO).
  pose proof (c11b_fr_emit_exits s t (t_exits t)) as HO1.
  destruct (emit_exits s t (t_exits t)) as [[s1 t1] nr1].
  cbn [fst snd] in HO1. apply (c11b_ok_frame' _ _ _ HO) in HO1.
  unfold c11b_m3 at 1; cbn [fst snd].
  destruct nr1; [| reflexivity | reflexivity].
  rewrite (c11b_emit_enters _ _ _ _ HO1).
  pose proof (c11b_fr_emit_enters s1 t1 (t_enters t1)) as HO2.
  destruct (emit_enters s1 t1 (t_enters t1)) as [[s2 t2] nr2].
  cbn [fst snd] in HO2. apply (c11b_ok_frame' _ _ _ HO1) in HO2.
  unfold c11b_m3 at 1; cbn [fst snd].
  destruct nr2; [| reflexivity | reflexivity].
  cbv zeta.
  assert (HS : exists s3 t3 nr3,
     (match mu_type (t_mut t2) with
      | MRemove => (c11b_rb bs' s2, t2, NOk)
      | _ => emit_selfs (S (length (t_target t2))) (c11b_rb bs' s2) t2
                        (map Some (t_target t2)) 0 true
      end) = (c11b_rb bs' s3, t3, nr3) /\
     (match mu_type (t_mut t2) with
      | MRemove => (s2, t2, NOk)
      | _ => emit_selfs (S (length (t_target t2))) s2 t2 (map Some (t_target t2)) 0 true
      end) = (s3, t3, nr3) /\ c11b_ok s3 bs').
  { destruct (mu_type (t_mut t2)).
    - rewrite (c11b_emit_selfs _ _ _ _ _ _ _ HO2).
      pose proof (c11b_fr_emit_selfs (S (length (t_target t2))) s2 t2
                    (map Some (t_target t2)) 0 true) as HO3.
      destruct (emit_selfs (S (length (t_target t2))) s2 t2 (map Some (t_target t2)) 0 true)
        as [[s3 t3] nr3].
      cbn [fst snd] in HO3. apply (c11b_ok_frame' _ _ _ HO2) in HO3.
      exists s3, t3, nr3. repeat split. exact HO3.
    - exists s2, t2, NOk. repeat split. exact HO2.
    - rewrite (c11b_emit_selfs _ _ _ _ _ _ _ HO2).
      pose proof (c11b_fr_emit_selfs (S (length (t_target t2))) s2 t2
                    (map Some (t_target t2)) 0 true) as HO3.
      destruct (emit_selfs (S (length (t_target t2))) s2 t2 (map Some (t_target t2)) 0 true)
        as [[s3 t3] nr3].
      cbn [fst snd] in HO3. apply (c11b_ok_frame' _ _ _ HO2) in HO3.
      exists s3, t3, nr3. repeat split. exact HO3. }
  destruct HS as [s3 [t3 [nr3 [HL [HR HO3]]]]].
  rewrite HL, HR.
  destruct nr3; [| reflexivity | reflexivity].
  apply c11b_emit_trans. exact HO3.
Qed.

Lemma c11b_fr_negotiate : forall s t, bindings (fst (fst (negotiate s t))) = bindings s.
Proof.
  intros s t. apply (c11b_frame3 _ _ (fun s => negotiate s t)).
  intros bs' HO. apply c11b_negotiate. exact HO.
Qed.

Lemma c11b_prepend_auto : forall bs' s,
  prepend_auto (c11b_rb bs' s) = c11b_rb bs' (prepend_auto s).
Proof.
  intros bs' s. unfold prepend_auto. c11b_norm.
  destruct (auto_candidates (sc s) (active s)); reflexivity.
Qed.

Lemma c11b_fr_prepend_auto : forall s, bindings (prepend_auto s) = bindings s.
Proof.
  intros s. apply (c11b_frame1 prepend_auto).
  intros bs' _. apply c11b_prepend_auto.
Qed.

Lemma c11b_new_transition : forall bs' s mu,
  new_transition (c11b_rb bs' s) mu = new_transition s mu.
Proof. reflexivity. Qed.

(* ---------------------------------------------------------------- *)
(* one transition *)

Lemma c11b_m3_pair : forall (A B : Type) bs' (a : st) (b : A) (c : B),
  c11b_m3 bs' (a, b, c) = (c11b_rb bs' a, b, c).
Proof. reflexivity. Qed.

Lemma c11b_m2_pair : forall (A : Type) bs' (a : st) (b : A),
  c11b_m2 bs' (a, b) = (c11b_rb bs' a, b).
Proof. reflexivity. Qed.

Lemma c11b_if_rb : forall bs' (c : bool) a b,
  (if c then c11b_rb bs' a else c11b_rb bs' b) = c11b_rb bs' (if c then a else b).
Proof. intros bs' c a b. destruct c; reflexivity. Qed.


(* rebinding commutes with the phases of run_tx *)
Lemma c11b_rt_neg : forall bs' s mu, c11b_ok s bs' ->
  rt_neg (c11b_rb bs' s) mu = c11b_m3 bs' (rt_neg s mu).
Proof.
  intros bs' s mu HO. unfold rt_neg.
  change (rt_s0 (c11b_rb bs' s)) with (c11b_rb bs' (rt_s0 s)).
  change (new_transition (c11b_rb bs' s) mu) with (new_transition s mu).
  rewrite c11b_p_has_handlers, <- (c11b_has_handlers_ok bs' (rt_s0 s)) by exact HO.
  destruct (has_handlers (rt_s0 s) && negb (negb (t_accepted (new_transition s mu)))).
  - apply c11b_negotiate. exact HO.
  - reflexivity.
Qed.

Lemma c11b_fr_rt_neg : forall s mu, bindings (fst (fst (rt_neg s mu))) = bindings s.
Proof.
  intros s mu. apply (c11b_frame3 _ _ (fun s => rt_neg s mu)).
  intros bs' HO. apply c11b_rt_neg. exact HO.
Qed.

Lemma c11b_rt_canceled2 : forall bs' s mu t1 nr, c11b_ok s bs' ->
  rt_canceled2 (c11b_rb bs' s) mu t1 nr = rt_canceled2 s mu t1 nr.
Proof.
  intros bs' s mu t1 nr HO. unfold rt_canceled2, rt_canceled1.
  change (rt_s0 (c11b_rb bs' s)) with (c11b_rb bs' (rt_s0 s)).
  change (new_transition (c11b_rb bs' s) mu) with (new_transition s mu).
  rewrite c11b_p_has_handlers, <- (c11b_has_handlers_ok bs' (rt_s0 s)) by exact HO.
  reflexivity.
Qed.

Lemma c11b_rt_anyenter : forall bs' s mu s1 t1 nr, c11b_ok s bs' -> c11b_ok s1 bs' ->
  rt_anyenter (c11b_rb bs' s) mu (c11b_rb bs' s1) t1 nr
  = c11b_m3 bs' (rt_anyenter s mu s1 t1 nr).
Proof.
  intros bs' s mu s1 t1 nr HO HO1. unfold rt_anyenter.
  rewrite (c11b_rt_canceled2 _ _ _ _ _ HO).
  change (rt_s0 (c11b_rb bs' s)) with (c11b_rb bs' (rt_s0 s)).
  rewrite c11b_p_has_handlers, <- (c11b_has_handlers_ok bs' (rt_s0 s)) by exact HO.
  destruct (has_handlers (rt_s0 s) && negb (rt_canceled2 s mu t1 nr)).
  - rewrite (c11b_handle _ _ _ _ HO1).
    destruct (handle s1 t1 HAnyEnter) as [[sx tx] ok]. reflexivity.
  - reflexivity.
Qed.

Lemma c11b_fr_rt_anyenter : forall s mu s1 t1 nr,
  bindings (fst (fst (rt_anyenter s mu s1 t1 nr))) = bindings s1.
Proof.
  intros s mu s1 t1 nr. unfold rt_anyenter.
  destruct (has_handlers (rt_s0 s) && negb (rt_canceled2 s mu t1 nr)); [|reflexivity].
  pose proof (c11b_fr_handle s1 t1 HAnyEnter) as H.
  destruct (handle s1 t1 HAnyEnter) as [[sx tx] ok]. exact H.
Qed.

Lemma c11b_rt_finals : forall bs' s3 t2, c11b_ok s3 bs' ->
  rt_finals (c11b_rb bs' s3) t2 = c11b_m3 bs' (rt_finals s3 t2).
Proof.
  intros bs' s3 t2 HO. unfold rt_finals.
  rewrite c11b_p_has_handlers, <- (c11b_has_handlers_ok bs' s3) by exact HO.
  destruct (has_handlers s3); [|reflexivity].
  rewrite (c11b_emit_finals _ _ _ _ HO).
  destruct (emit_finals s3 t2 (t_exits t2 ++ t_enters t2)) as [[sx tx] [k|]]; [|reflexivity].
  unfold c11b_m3. cbn [fst snd]. change (hung (c11b_rb bs' sx)) with (hung sx).
  destruct (hung sx); reflexivity.
Qed.

Lemma c11b_fr_rt_finals : forall s3 t2, bindings (fst (fst (rt_finals s3 t2))) = bindings s3.
Proof.
  intros s3 t2. apply (c11b_frame3 _ _ (fun s => rt_finals s t2)).
  intros bs' HO. apply c11b_rt_finals. exact HO.
Qed.

Lemma c11b_rt_anystate : forall bs' s4 t3 fc, c11b_ok s4 bs' ->
  rt_anystate (c11b_rb bs' s4) t3 fc = c11b_m3 bs' (rt_anystate s4 t3 fc).
Proof.
  intros bs' s4 t3 fc HO. unfold rt_anystate.
  rewrite c11b_p_has_handlers, <- (c11b_has_handlers_ok bs' s4) by exact HO.
  destruct (has_handlers s4 && negb fc); [|reflexivity].
  rewrite (c11b_handle _ _ _ _ HO).
  destruct (handle s4 t3 HAnyState) as [[sx tx] ok]. reflexivity.
Qed.

Lemma c11b_fr_rt_anystate : forall s4 t3 fc,
  bindings (fst (fst (rt_anystate s4 t3 fc))) = bindings s4.
Proof.
  intros s4 t3 fc. apply (c11b_frame3 _ _ (fun s => rt_anystate s t3 fc)).
  intros bs' HO. apply c11b_rt_anystate. exact HO.
Qed.

Lemma c11b_rt_s6 : forall bs' mu s4 t3 s5 fc2,
  rt_s6 mu (c11b_rb bs' s4) t3 (c11b_rb bs' s5) fc2 = c11b_rb bs' (rt_s6 mu s4 t3 s5 fc2).
Proof.
  intros bs' mu s4 t3 s5 fc2. unfold rt_s6.
  change (clock (c11b_rb bs' s4)) with (clock s4).
  change (is_health (c11b_rb bs' s5) mu) with (is_health s5 mu).
  destruct (_ && _ && _ && _); [apply c11b_prepend_auto | reflexivity].
Qed.

Lemma c11b_run_tx : forall bs' s mu,
  c11b_ok s bs' -> run_tx (c11b_rb bs' s) mu = c11b_m2 bs' (run_tx s mu).
Proof.
  intros bs' s mu HO.
  change (run_tx (c11b_rb bs' s) mu) with (run_tx' (c11b_rb bs' s) mu).
  change (run_tx s mu) with (run_tx' s mu). unfold run_tx'.
  rewrite (c11b_rt_neg _ _ _ HO).
  pose proof (c11b_fr_rt_neg s mu) as F1.
  destruct (rt_neg s mu) as [[s1 t1] nr]. cbn [fst snd] in F1.
  assert (HO1 : c11b_ok s1 bs') by (eapply c11b_ok_frame; eassumption).
  unfold c11b_m3 at 1. cbn [fst snd].
  assert (Hmain :
    (if hung (c11b_rb bs' s1) then (c11b_rb bs' s1, Canceled) else
      let '(s2, t1', canceled3) := rt_anyenter (c11b_rb bs' s) mu (c11b_rb bs' s1) t1 nr in
      if hung s2 then (s2, Canceled) else
      if mu_check mu then
        (add_ev (add_tx s2 (rt_check_rec (c11b_rb bs' s) mu s2 t1' canceled3)) EvEnd,
         if canceled3 then Canceled else Executed)
      else
        if negb canceled3 then
          let '(s4, t3, fcancel) := rt_finals (rt_s3 mu s2 (rt_t2 mu s2 t1')) (rt_t2 mu s2 t1') in
          if hung s4 then (s4, Canceled) else
          let '(s5, t4, fcancel2) := rt_anystate s4 t3 fcancel in
          if hung s5 then (s5, Canceled) else
          (add_ev (add_tx (rt_s6 mu s4 t3 s5 fcancel2)
                     (rt_apply_rec (c11b_rb bs' s) mu (rt_cl mu s2 (rt_t2 mu s2 t1')) t4
                        (rt_s6 mu s4 t3 s5 fcancel2) fcancel2)) EvEnd,
           rt_res mu (rt_s6 mu s4 t3 s5 fcancel2) t4 fcancel2)
        else
          (add_ev (add_tx s2 (rt_cancel_rec (c11b_rb bs' s) mu s2 (rt_t2 mu s2 t1'))) EvEnd,
           Canceled))
    = c11b_m2 bs'
    (if hung s1 then (s1, Canceled) else
      let '(s2, t1', canceled3) := rt_anyenter s mu s1 t1 nr in
      if hung s2 then (s2, Canceled) else
      if mu_check mu then
        (add_ev (add_tx s2 (rt_check_rec s mu s2 t1' canceled3)) EvEnd,
         if canceled3 then Canceled else Executed)
      else
        if negb canceled3 then
          let '(s4, t3, fcancel) := rt_finals (rt_s3 mu s2 (rt_t2 mu s2 t1')) (rt_t2 mu s2 t1') in
          if hung s4 then (s4, Canceled) else
          let '(s5, t4, fcancel2) := rt_anystate s4 t3 fcancel in
          if hung s5 then (s5, Canceled) else
          (add_ev (add_tx (rt_s6 mu s4 t3 s5 fcancel2)
                     (rt_apply_rec s mu (rt_cl mu s2 (rt_t2 mu s2 t1')) t4
                        (rt_s6 mu s4 t3 s5 fcancel2) fcancel2)) EvEnd,
           rt_res mu (rt_s6 mu s4 t3 s5 fcancel2) t4 fcancel2)
        else
          (add_ev (add_tx s2 (rt_cancel_rec s mu s2 (rt_t2 mu s2 t1'))) EvEnd, Canceled))).
  { change (hung (c11b_rb bs' s1)) with (hung s1).
    destruct (hung s1); [reflexivity|].
    rewrite (c11b_rt_anyenter _ _ _ _ _ _ HO HO1).
    pose proof (c11b_fr_rt_anyenter s mu s1 t1 nr) as F2.
    destruct (rt_anyenter s mu s1 t1 nr) as [[s2 t1'] c3]. cbn [fst snd] in F2.
    assert (HO2 : c11b_ok s2 bs') by (eapply c11b_ok_frame; eassumption).
    unfold c11b_m3 at 1. cbn [fst snd].
    change (hung (c11b_rb bs' s2)) with (hung s2).
    destruct (hung s2); [reflexivity|].
    destruct (mu_check mu); [reflexivity|].
    destruct c3; [reflexivity|]. cbn [negb].
    change (rt_t2 mu (c11b_rb bs' s2) t1') with (rt_t2 mu s2 t1').
    change (rt_s3 mu (c11b_rb bs' s2) (rt_t2 mu s2 t1'))
      with (c11b_rb bs' (rt_s3 mu s2 (rt_t2 mu s2 t1'))).
    assert (HO3 : c11b_ok (rt_s3 mu s2 (rt_t2 mu s2 t1')) bs') by exact HO2.
    rewrite (c11b_rt_finals _ _ _ HO3).
    pose proof (c11b_fr_rt_finals (rt_s3 mu s2 (rt_t2 mu s2 t1')) (rt_t2 mu s2 t1')) as F4.
    destruct (rt_finals (rt_s3 mu s2 (rt_t2 mu s2 t1')) (rt_t2 mu s2 t1')) as [[s4 t3] fc].
    cbn [fst snd] in F4.
    assert (HO4 : c11b_ok s4 bs') by (eapply c11b_ok_frame; [exact F4 | exact HO3]).
    unfold c11b_m3 at 1. cbn [fst snd].
    change (hung (c11b_rb bs' s4)) with (hung s4).
    destruct (hung s4); [reflexivity|].
    rewrite (c11b_rt_anystate _ _ _ _ HO4).
    destruct (rt_anystate s4 t3 fc) as [[s5 t4] fc2].
    unfold c11b_m3 at 1. cbn [fst snd].
    change (hung (c11b_rb bs' s5)) with (hung s5).
    destruct (hung s5); [reflexivity|].
    rewrite c11b_rt_s6. reflexivity. }
  destruct nr; [exact Hmain | exact Hmain | reflexivity].
Qed.

Lemma c11b_fr_run_tx : forall s mu, bindings (fst (run_tx s mu)) = bindings s.
Proof.
  intros s mu. apply (c11b_frame2 _ (fun s => run_tx s mu)).
  intros bs' HO. apply c11b_run_tx. exact HO.
Qed.

(* ---------------------------------------------------------------- *)
(* the queue *)

Lemma c11b_drain : forall bs' fuel s first,
  c11b_ok s bs' -> drain fuel (c11b_rb bs' s) first = c11b_m3 bs' (drain fuel s first).
Proof.
  intros bs'. induction fuel as [|f IH]; intros s first HO.
  - reflexivity.
  - cbn [drain]. c11b_norm.
    destruct (crashed s || hung s); [reflexivity|].
    destruct (queue s) as [|mu rest]; [reflexivity|].
    cbv zeta. c11b_norm. rewrite c11b_if_rb.
    set (sA := if (0 <? mu_qtick mu)%N
               then set_ticks (set_queue s rest) (qtick (set_queue s rest) + 1)%N
                              (qpending (set_queue s rest) - 1)%N
               else set_queue s rest).
    assert (HOA : c11b_ok sA bs').
    { unfold sA. destruct (0 <? mu_qtick mu)%N; exact HO. }
    rewrite (c11b_run_tx _ _ _ HOA).
    pose proof (c11b_fr_run_tx sA mu) as HO2.
    destruct (run_tx sA mu) as [s2 r].
    cbn [fst snd] in HO2. apply (c11b_ok_frame' _ _ _ HOA) in HO2.
    rewrite c11b_m2_pair. apply IH. exact HO2.
Qed.

Lemma c11b_fr_drain : forall fuel s first,
  bindings (fst (fst (drain fuel s first))) = bindings s.
Proof.
  intros fuel s first. apply (c11b_frame3 _ _ (fun s => drain fuel s first)).
  intros bs' HO. apply c11b_drain. exact HO.
Qed.

Lemma c11b_process_queue : forall bs' fuel s,
  c11b_ok s bs' -> process_queue fuel (c11b_rb bs' s) = c11b_m3 bs' (process_queue fuel s).
Proof.
  intros bs' fuel s HO. unfold process_queue. c11b_norm.
  destruct (queue s) as [|mu rest] eqn:EQ; [reflexivity|].
  rewrite (c11b_drain _ _ _ _ HO).
  destruct (drain fuel s None) as [[s1 first] okb]. reflexivity.
Qed.

Lemma c11b_fr_process_queue : forall fuel s,
  bindings (fst (fst (process_queue fuel s))) = bindings s.
Proof.
  intros fuel s. apply (c11b_frame3 _ _ (fun s => process_queue fuel s)).
  intros bs' HO. apply c11b_process_queue. exact HO.
Qed.

(* ---------------------------------------------------------------- *)
(* top-level API *)

Lemma c11b_top_mutation : forall bs' fuel s mt states args,
  c11b_ok s bs' ->
  top_mutation fuel (c11b_rb bs' s) mt states args
  = c11b_m3 bs' (top_mutation fuel s mt states args).
Proof.
  intros bs' fuel s mt states args HO. unfold top_mutation.
  rewrite c11b_queue_mutation.
  pose proof (c11b_fr_queue_mutation s mt states args) as HO1.
  destruct (queue_mutation s mt states args) as [s1 tick].
  cbn [fst snd] in HO1. apply (c11b_ok_frame' _ _ _ HO) in HO1.
  rewrite c11b_m2_pair.
  destruct (tick =? 0)%N; [reflexivity|].
  rewrite (c11b_process_queue _ _ _ HO1).
  destruct (process_queue fuel s1) as [[s2 r] okb]. reflexivity.
Qed.

Lemma c11b_top_add : forall bs' fuel s states args,
  c11b_ok s bs' ->
  top_add fuel (c11b_rb bs' s) states args = c11b_m3 bs' (top_add fuel s states args).
Proof.
  intros bs' fuel s states args HO. unfold top_add. c11b_norm.
  destruct (limit_hit s && (negb (mem (exc s) states) || is_active s (exc s)));
    [reflexivity|].
  apply c11b_top_mutation. exact HO.
Qed.

Lemma c11b_top_remove : forall bs' fuel s states args,
  c11b_ok s bs' ->
  top_remove fuel (c11b_rb bs' s) states args = c11b_m3 bs' (top_remove fuel s states args).
Proof.
  intros bs' fuel s states args HO. unfold top_remove. c11b_norm.
  destruct (limit_hit s && (negb (mem (exc s) states) || negb (is_active s (exc s))));
    [reflexivity|].
  apply c11b_top_mutation. exact HO.
Qed.

Lemma c11b_top_api : forall bs' fuel s c,
  c11b_ok s bs' -> top_api fuel (c11b_rb bs' s) c = c11b_m3 bs' (top_api fuel s c).
Proof.
  intros bs' fuel s c HO. unfold top_api. c11b_norm.
  destruct (ac_kind c).
  - apply c11b_top_add. exact HO.
  - apply c11b_top_remove. exact HO.
  - destruct (limit_hit s); [reflexivity|]. apply c11b_top_mutation. exact HO.
  - destruct (mach_is s (ac_states c));
      [apply c11b_top_remove | apply c11b_top_add]; exact HO.
  - destruct (limit_hit s); [reflexivity|]. apply c11b_top_add. exact HO.
  - rewrite c11b_prepend_mut. apply c11b_process_queue. exact HO.
  - rewrite c11b_prepend_mut. apply c11b_process_queue. exact HO.
Qed.

Lemma c11b_fr_top_api : forall fuel s c,
  bindings (fst (fst (top_api fuel s c))) = bindings s.
Proof.
  intros fuel s c. apply (c11b_frame3 _ _ (fun s => top_api fuel s c)).
  intros bs' HO. apply c11b_top_api. exact HO.
Qed.

Lemma c11b_run_calls_top : forall bs' fuel cs s acc,
  c11b_ok s bs' ->
  run_calls_top fuel (c11b_rb bs' s) cs acc = c11b_m3 bs' (run_calls_top fuel s cs acc).
Proof.
  intros bs' fuel. induction cs as [|c r IH]; intros s acc HO.
  - reflexivity.
  - cbn [run_calls_top]. c11b_norm.
    destruct (crashed s || hung s); [reflexivity|].
    rewrite (c11b_top_api _ _ _ _ HO).
    pose proof (c11b_fr_top_api fuel s c) as HO1.
    destruct (top_api fuel s c) as [[s1 res] okb].
    cbn [fst snd] in HO1. apply (c11b_ok_frame' _ _ _ HO) in HO1.
    rewrite c11b_m3_pair. cbv zeta. c11b_norm.
    destruct (crashed s1 || hung s1); [reflexivity|].
    destruct okb; [apply IH; exact HO1 | reflexivity].
Qed.

Lemma c11b_run : forall bs' fuel s cs,
  c11b_ok s bs' -> run fuel (c11b_rb bs' s) cs = run fuel s cs.
Proof.
  intros bs' fuel s cs HO. unfold run.
  rewrite (c11b_run_calls_top _ _ _ _ _ HO).
  destruct (run_calls_top fuel s cs []) as [[s1 obs] okb]. reflexivity.
Qed.

(* ---------------------------------------------------------------- *)
(* the theorems *)

Theorem c11b_state_order_only :
  forall fuel sch tp hl ex bs bs' ql acts cs,
    Forall2 c11b_beq bs bs' ->
    run fuel (init_st sch tp hl ex bs ql acts) cs
    = run fuel (init_st sch tp hl ex bs' ql acts) cs.
Proof.
  intros fuel sch tp hl ex bs bs' ql acts cs HF.
  change (init_st sch tp hl ex bs' ql acts)
    with (c11b_rb bs' (init_st sch tp hl ex bs ql acts)).
  symmetry. apply c11b_run. exact HF.
Qed.

Lemma c11b_existsb_perm : forall (f : hkey -> bool) b b',
  Permutation b b' -> existsb f b = existsb f b'.
Proof.
  intros f b b' HP. induction HP as [|x l l' HP IH|x y l|l l' l'' HP1 IH1 HP2 IH2].
  - reflexivity.
  - cbn [existsb]. rewrite IH. reflexivity.
  - cbn [existsb]. destruct (f x), (f y); reflexivity.
  - rewrite IH1. exact IH2.
Qed.

Lemma c11b_perm_beq : forall b b', Permutation b b' -> c11b_beq b b'.
Proof. intros b b' HP k. apply c11b_existsb_perm. exact HP. Qed.

Lemma c11b_Forall2_perm_beq : forall bs bs',
  Forall2 (@Permutation hkey) bs bs' -> Forall2 c11b_beq bs bs'.
Proof.
  intros bs bs' HF. induction HF as [|b b' r r' HP HR IH]; constructor.
  - apply c11b_perm_beq. exact HP.
  - exact IH.
Qed.

Theorem c11b_state_perm_only :
  forall fuel sch tp hl ex bs bs' ql acts cs,
    Forall2 (@Permutation hkey) bs bs' ->
    run fuel (init_st sch tp hl ex bs ql acts) cs
    = run fuel (init_st sch tp hl ex bs' ql acts) cs.
Proof.
  intros fuel sch tp hl ex bs bs' ql acts cs HF.
  apply c11b_state_order_only. apply c11b_Forall2_perm_beq. exact HF.
Qed.

Example c11b_nonvacuous :
  let sch := [empty_sdef; empty_sdef] in
  let bs := [[HEnter 0; HState 0; HAnyState]; [HState 0; HEnter 0]] in
  let bs' := [[HAnyState; HEnter 0; HState 0; HEnter 0]; [HEnter 0; HState 0]] in
  let cs := [ {| ac_kind := KAdd; ac_states := [0]; ac_args := false |};
              {| ac_kind := KRemove; ac_states := [0]; ac_args := false |} ] in
  let acts := [ {| ha_ret := true;
                   ha_calls := [ {| ac_kind := KAdd; ac_states := [1]; ac_args := false |} ];
                   ha_fault := FNone |} ] in
  Forall2 c11b_beq bs bs' /\ bs <> bs' /\
  ~ Forall2 (@Permutation hkey) bs bs' /\
  length (tr_hlog (run 10 (init_st sch [0; 1] [] 1 bs 10 acts) cs)) = 7 /\
  run 10 (init_st sch [0; 1] [] 1 bs 10 acts) cs
  = run 10 (init_st sch [0; 1] [] 1 bs' 10 acts) cs.
Proof.
  cbv zeta. split; [|split; [|split; [|split]]].
  - constructor; [|constructor; [|constructor]].
    + intros k. cbn [existsb].
      destruct (hkey_eqb k (HEnter 0)), (hkey_eqb k (HState 0)), (hkey_eqb k HAnyState);
        reflexivity.
    + intros k. cbn [existsb].
      destruct (hkey_eqb k (HEnter 0)), (hkey_eqb k (HState 0)); reflexivity.
  - discriminate.
  - intros HF. inversion HF as [|b b' r r' HP HR]; subst.
    apply Permutation_length in HP. discriminate HP.
  - vm_compute. reflexivity.
  - vm_compute. reflexivity.
Qed.


(* ================================================================== *)
(* 15. restatements used by the Props files                            *)
(* ================================================================== *)

Lemma negotiation_never_crashes_lemma :
  forall (s : st) (mu : mutation) (s1 : st) (t1 : tstate) (nr : nres),
    t_accepted (new_transition s mu) = true ->
    negotiate (add_ev (add_ev s EvInit) EvStart) (new_transition s mu) = (s1, t1, nr) ->
    nr <> NCrash.
Proof.
  intros s mu s1 t1 nr Ha Hn. eapply negotiate_no_crash; [|exact Hn].
  apply new_transition_shape. exact Ha.
Qed.

(* ================================================================== *)
(* 16. C08 (d) at the level of one transition: parity under any script *)
(* ================================================================== *)

(* ---- the resolver stays inside the schema ---- *)

Lemma uniq_In : forall l x, In x (uniq l) <-> In x l.
Proof. intros l x. unfold uniq. rewrite uniq_acc_In. simpl. tauto. Qed.

Lemma parse_require_fuel_incl : forall fuel sch states x,
  In x (parse_require_fuel fuel sch states) -> In x states.
Proof.
  induction fuel as [|f IH]; intros sch states x; simpl; [tauto|].
  destruct (Nat.eqb _ _); [tauto|].
  intros Hin. apply IH in Hin. apply filter_In in Hin. tauto.
Qed.

Lemma parse_add_loop_In : forall c l visited x,
  In x (parse_add_loop c visited l) ->
  exists name, In name l /\ In x (s_add (sget (rc_schema c) name)).
Proof.
  intros c l. induction l as [|name r IH]; intros visited x Hin; simpl in Hin; [contradiction|].
  assert (Hrec : forall v, In x (parse_add_loop c v r) ->
            exists n0, In n0 (name :: r) /\ In x (s_add (sget (rc_schema c) n0))).
  { intros v Hv. destruct (IH v x Hv) as [n0 [Hn0 Hx]]. exists n0. split; [right; exact Hn0 | exact Hx]. }
  destruct (mem name (rc_before c) && negb (s_multi (sget (rc_schema c) name))); [eapply Hrec; exact Hin|].
  destruct (mem name visited); [eapply Hrec; exact Hin|].
  destruct (add_of c name) as [|a adds] eqn:Ea; [eapply Hrec; exact Hin|].
  change (In x ((a :: adds) ++ parse_add_loop c (name :: visited) r)) in Hin.
  apply in_app_or in Hin. destruct Hin as [Hin|Hin]; [|eapply Hrec; exact Hin].
  exists name. split; [left; reflexivity|].
  rewrite <- Ea in Hin. unfold add_of in Hin. apply filter_In in Hin. tauto.
Qed.

Lemma scan_fold_incl : forall sch all l acc x,
  In x (fst (fold_left (scan_step sch all) l acc)) -> In x (fst acc) \/ In x l.
Proof.
  intros sch all l. induction l as [|name r IH]; intros acc x Hin; simpl in Hin; [left; exact Hin|].
  apply IH in Hin. destruct Hin as [Hin|Hin]; [|right; right; exact Hin].
  destruct acc as [kept ab]. unfold scan_step in Hin.
  destruct (filter (fun b => negb (mem b ab)) (blocked_by sch all name)); simpl in Hin.
  - apply in_app_or in Hin. destruct Hin as [Hin|[Hin|[]]]; [left; exact Hin|].
    right. left. exact Hin.
  - left. exact Hin.
Qed.

Lemma blocked_scan_incl : forall sch all x, In x (blocked_scan sch all) -> In x all.
Proof.
  intros sch all x Hin. unfold blocked_scan in Hin. apply scan_fold_incl in Hin.
  destruct Hin as [[]|Hin]. apply in_rev. exact Hin.
Qed.

Lemma refs_ok_add : forall sch name x,
  refs_ok sch = true -> In x (s_add (sget sch name)) -> x < length sch.
Proof.
  intros sch name x Hr Hin. unfold sget in Hin.
  destruct (Nat.lt_ge_cases name (length sch)) as [Hlt|Hge].
  - unfold refs_ok in Hr. rewrite forallb_forall in Hr.
    specialize (Hr (nth name sch empty_sdef) (nth_In _ _ Hlt)).
    rewrite forallb_forall in Hr. apply Nat.ltb_lt. apply Hr.
    apply in_or_app. right. apply in_or_app. left. exact Hin.
  - rewrite nth_overflow in Hin by exact Hge. contradiction.
Qed.

Lemma parse_add_range : forall c l n,
  refs_ok (rc_schema c) = true -> n = length (rc_schema c) ->
  (forall x, In x l -> x < n) -> forall x, In x (parse_add c l) -> x < n.
Proof.
  intros c l n Hr Hn Hl x Hin. unfold parse_add in Hin. apply in_app_or in Hin.
  destruct Hin as [Hin|Hin]; [apply Hl; exact Hin|].
  apply parse_add_loop_In in Hin. destruct Hin as [name [_ Hx]].
  subst n. eapply refs_ok_add; eassumption.
Qed.

Lemma target_states_in_range : forall c to_set,
  refs_ok (rc_schema c) = true ->
  (forall x, In x to_set -> x < length (rc_schema c)) ->
  forall x, In x (target_states c to_set) -> x < length (rc_schema c).
Proof.
  intros c to_set Hr Hto x Hin. unfold target_states in Hin.
  apply sort_states_In in Hin. unfold target_unsorted in Hin.
  apply parse_require_fuel_incl in Hin. rewrite <- in_rev in Hin. rewrite uniq_In in Hin.
  apply filter_In in Hin. destruct Hin as [Hin _].
  eapply parse_add_range; [exact Hr | reflexivity | | exact Hin].
  intros y Hy. apply blocked_scan_incl in Hy. apply parse_require_fuel_incl in Hy.
  rewrite uniq_In in Hy.
  eapply parse_add_range; [exact Hr | reflexivity | | exact Hy].
  intros z Hz. rewrite uniq_In in Hz. apply Hto. exact Hz.
Qed.

Lemma states_to_set_In : forall mt called active x,
  In x (states_to_set mt called active) -> In x called \/ In x active.
Proof.
  intros mt called active x Hin. destruct mt; simpl in Hin.
  - apply in_app_or in Hin. exact Hin.
  - apply filter_In in Hin. right. tauto.
  - left. exact Hin.
Qed.

(* ---- the invariant ---- *)

Section ParityInv.
  Variable n : nat.
  Variable sch : schema.
  Variable c0 : list N.

  Definition par_inv (s : st) : Prop :=
    parity_ok (clock s) (active s) = true /\ NoDup (active s) /\ length (clock s) = n
    /\ sc s = sch /\ clock_le c0 (clock s) = true.

  Definition t_inv (t : tstate) : Prop :=
    NoDup (t_target t) /\ (forall x, In x (t_target t) -> x < n)
    /\ (forall x, In x (t_exits t) -> x < n).

  Lemma par_inv_same : forall s s',
    par_inv s -> clock s' = clock s -> active s' = active s -> sc s' = sc s -> par_inv s'.
  Proof.
    intros s s' [H1 [H2 [H3 [H4 H5]]]] Hc Ha Hs. unfold par_inv.
    rewrite Hc, Ha, Hs. repeat split; assumption.
  Qed.

  Lemma par_inv_core : forall s s', same_core s s' -> par_inv s -> par_inv s'.
  Proof.
    intros s s' [_ [_ [_ [Hc [Ha [_ [Hs _]]]]]]] HP. eapply par_inv_same; eassumption.
  Qed.

  Lemma par_inv_set_mach : forall s called target,
    par_inv s -> NoDup target -> (forall x, In x target -> x < n) ->
    par_inv (set_mach s (set_active_clock (sc s) (clock s) (active s) called target) target).
  Proof.
    intros s called target [H1 [H2 [H3 [H4 H5]]]] Hnd Hr. unfold par_inv. simpl.
    destruct (set_active_clock_nth (sc s) (clock s) (active s) called target H2 Hnd) as [Hlen _].
    split; [|split; [exact Hnd|split; [congruence|split; [exact H4|]]]].
    - apply set_active_clock_parity; try assumption. rewrite H3. exact Hr.
    - eapply clock_le_trans; [exact H5 | apply set_active_clock_le].
  Qed.

  Lemma recover_final_phase_par : forall s t k,
    par_inv s -> (forall x, In x (t_exits t) -> x < n) -> par_inv (recover_final_phase s t k).
  Proof.
    intros s t k HP Hex. unfold recover_final_phase.
    pose proof HP as [H1 [H2 [H3 _]]].
    apply par_inv_set_mach; [exact HP | apply recover_walk_nodup_lemma; exact H2 |].
    intros x Hx. apply recover_walk_range in Hx; [|exact H2].
    destruct Hx as [Hx|[Hx Hne]].
    - apply parity_ok_iff in H1. destruct H1 as [_ Hr]. rewrite <- H3. apply Hr. exact Hx.
    - apply in_app_or in Hx. destruct Hx as [Hx|Hx]; [apply Hex; exact Hx | contradiction].
  Qed.

  Lemma recover_to_err_par : forall s t k,
    par_inv s -> (forall x, In x (t_exits t) -> x < n) -> par_inv (recover_to_err s t k).
  Proof.
    intros s t k HP Hex. unfold recover_to_err.
    destruct (mem (exc s) _); [exact HP|].
    destruct (is_final_key k).
    - eapply par_inv_same; [apply (recover_final_phase_par
          (set_fault_flags s (loop_dead s) (hung s) 2) t k); [|exact Hex] | | |];
        try reflexivity.
      eapply par_inv_same; [exact HP| | |]; reflexivity.
    - eapply par_inv_same; [exact HP| | |]; reflexivity.
  Qed.

  Lemma call_bindings_par : forall bs s t k bi caught inv s1 r,
    par_inv s -> (forall x, In x (t_exits t) -> x < n) ->
    call_bindings s t k bs bi caught inv = (s1, r) -> par_inv s1.
  Proof.
    induction bs as [|b rest IH]; intros s t k bi caught inv s1 r HP Hex Hcb; simpl in Hcb.
    - inversion Hcb; subst. exact HP.
    - destruct (existsb (hkey_eqb k) b); [|eapply IH; eassumption].
      destruct (loop_dead s).
      { inversion Hcb; subst. eapply par_inv_same; [exact HP| | |]; reflexivity. }
      destruct inv.
      { destruct (is_final_key k); [eapply IH; eassumption|].
        inversion Hcb; subst. exact HP. }
      pose proof (run_calls_core (ha_calls (hd default_action (actions s)))
                    (set_actions s (tl (actions s)))) as Hc.
      destruct (run_calls (set_actions s (tl (actions s)))
                  (ha_calls (hd default_action (actions s)))) as [s1' rs].
      simpl fst in Hc.
      match type of Hcb with context [set_hlog s1' (?e0 :: hlog s1')] =>
        set (s2 := set_hlog s1' (e0 :: hlog s1')) in * end.
      assert (HP2 : par_inv s2).
      { eapply par_inv_same; [apply (par_inv_core _ _ Hc);
          eapply par_inv_same; [exact HP| | |]; reflexivity | | |]; reflexivity. }
      destruct (ha_fault (hd default_action (actions s))).
      + destruct (negb (is_final_key k) && negb (ha_ret (hd default_action (actions s)))).
        * inversion Hcb; subst. exact HP2.
        * eapply IH; eassumption.
      + pose proof (recover_to_err_par s2 t k HP2 Hex) as HP3.
        destruct (is_final_key k).
        * eapply IH; eassumption.
        * inversion Hcb; subst. exact HP3.
      + inversion Hcb; subst. exact HP2.
  Qed.

  Definition PP (s : st) (t : tstate) : Prop := par_inv s /\ t_inv t.

  Lemma handle_PP : forall s t k s1 t1 ok, PP s t -> handle s t k = (s1, t1, ok) -> PP s1 t1.
  Proof.
    intros s t k s1 t1 ok [HP [T1 [T2 T3]]] Hh.
    pose proof (handle_same_tx _ _ _ _ _ _ Hh) as [[_ [_ [_ [_ Hex]]]] Htg].
    split.
    - unfold handle in Hh.
      destruct (call_bindings s t k (bindings s) 0 false (t_invalid t)) as [s' r] eqn:E.
      inversion Hh; subst. eapply call_bindings_par; [exact HP | exact T3 | exact E].
    - unfold t_inv. rewrite Htg, Hex. repeat split; assumption.
  Qed.

  Lemma PP_del : forall s t x, PP s t -> PP s (with_target t (delete_state (t_target t) x)).
  Proof.
    intros s t x [HP [T1 [T2 T3]]]. split; [exact HP|]. unfold t_inv, delete_state. simpl.
    split; [apply without_NoDup; exact T1|]. split; [|exact T3].
    intros y Hy. apply T2. eapply without_incl. exact Hy.
  Qed.
End ParityInv.

Lemma new_transition_target : forall s mu,
  t_target (new_transition s mu)
  = resolve (sc s) (topo s) (active s) (mu_type mu) (mu_called mu).
Proof.
  intros s mu. unfold new_transition, resolve.
  destruct (setup_accepted s mu _); reflexivity.
Qed.

Lemma new_transition_exits_incl : forall s mu x,
  In x (t_exits (new_transition s mu)) -> In x (active s).
Proof.
  intros s mu x. unfold new_transition.
  destruct (setup_accepted s mu _); cbn [t_exits with_exit_enter t_target].
  - intros Hx. apply sort_states_In in Hx. apply diff_In in Hx. tauto.
  - intros [].
Qed.

Lemma fault_parity_step_lemma : forall s mu,
  refs_ok (sc s) = true -> length (clock s) = length (sc s) ->
  (forall x, In x (mu_called mu) -> x < length (sc s)) ->
  parity_ok (clock s) (active s) = true -> NoDup (active s) ->
  parity_ok (clock (fst (run_tx s mu))) (active (fst (run_tx s mu))) = true /\
  NoDup (active (fst (run_tx s mu))) /\
  length (clock (fst (run_tx s mu))) = length (clock s) /\
  sc (fst (run_tx s mu)) = sc s /\
  clock_le (clock s) (clock (fst (run_tx s mu))) = true.
Proof.
  intros s mu Hrefs Hlen Hcalled Hpar Hnd.
  set (n := length (sc s)). set (sch := sc s). set (c0 := clock s).
  assert (Hact : forall x, In x (active s) -> x < n).
  { apply parity_ok_iff in Hpar. destruct Hpar as [_ Hr]. intros x Hx. unfold n.
    rewrite <- Hlen. apply Hr. exact Hx. }
  assert (HP0 : par_inv n sch c0 (rt_s0 s)).
  { unfold par_inv. simpl. repeat split; try assumption; try reflexivity.
    apply clock_le_refl. }
  (* the transition newTransition builds *)
  assert (HT0 : t_inv n (new_transition s mu)).
  { unfold t_inv. rewrite new_transition_target. unfold resolve.
    split; [apply target_states_NoDup|]. split.
    - intros x Hx.
      apply (target_states_in_range
               {| rc_schema := sc s; rc_before := active s; rc_mtype := mu_type mu;
                  rc_called := mu_called mu; rc_topology := topo s |}) in Hx;
        [exact Hx | exact Hrefs |].
      intros y Hy. apply states_to_set_In in Hy. destruct Hy as [Hy|Hy];
        [apply Hcalled; exact Hy | apply Hact; exact Hy].
    - intros x Hx. apply Hact. eapply new_transition_exits_incl. exact Hx. }
  assert (HPh : forall x t k x1 t1 ok, PP n sch c0 x t -> handle x t k = (x1, t1, ok) ->
                  PP n sch c0 x1 t1).
  { intros x t k x1 t1 ok. apply handle_PP. }
  (* phases *)
  assert (Hneg : forall s1 t1 nr, rt_neg s mu = (s1, t1, nr) -> PP n sch c0 s1 t1).
  { intros s1 t1 nr H. unfold rt_neg in H.
    destruct (has_handlers (rt_s0 s) && negb (negb (t_accepted (new_transition s mu)))).
    - eapply (negotiate_P (PP n sch c0)); [| |split; [exact HP0 | exact HT0]|exact H].
      + intros x t k x1 t' ok _. apply HPh.
      + apply PP_del.
    - inversion H; subst. split; [exact HP0 | exact HT0]. }
  assert (Hany : forall s1 t1 nr s2 t1' c3, PP n sch c0 s1 t1 ->
            rt_anyenter s mu s1 t1 nr = (s2, t1', c3) -> PP n sch c0 s2 t1').
  { intros s1 t1 nr s2 t1' c3 HP H.
    eapply (rt_anyenter_P (PP n sch c0)); [|exact HP|exact H].
    intros x t k x1 t' ok _. apply HPh. }
  assert (Ht2 : forall s2 t1', PP n sch c0 s2 t1' -> t_mut t1' = mu ->
            PP n sch c0 (rt_s3 mu s2 (rt_t2 mu s2 t1')) (rt_t2 mu s2 t1')).
  { intros s2 t1' [HP [T1 [T2 T3]]] Hm.
    assert (HT2 : t_inv n (rt_t2 mu s2 t1')).
    { unfold rt_t2. destruct (mu_auto mu); [|repeat split; assumption].
      pose proof HP as [Q1 [Q2 [Q3 [Q4 _]]]].
      assert (Hact2 : forall x, In x (active s2) -> x < n).
      { apply parity_ok_iff in Q1. destruct Q1 as [_ Hr]. intros x Hx.
        rewrite <- Q3. apply Hr. exact Hx. }
      unfold t_inv, with_exit_enter. cbn [t_target t_exits with_target].
      split; [apply target_states_NoDup|]. split.
      - intros x Hx. apply (target_states_in_range (rctx_of s2 t1')) in Hx.
        + simpl in Hx. rewrite Q4 in Hx. exact Hx.
        + simpl. rewrite Q4. exact Hrefs.
        + intros y Hy. simpl. rewrite Q4. apply in_app_or in Hy. destruct Hy as [Hy|Hy].
          * apply diff_In in Hy. apply Hcalled. tauto.
          * apply Hact2. exact Hy.
      - intros x Hx. apply sort_states_In in Hx. apply diff_In in Hx. apply Hact2. tauto. }
    split; [|exact HT2].
    unfold rt_s3, rt_cl. destruct HT2 as [U1 [U2 _]].
    eapply par_inv_same; [apply (par_inv_set_mach n sch c0 s2 (mu_called mu)
                                   (t_target (rt_t2 mu s2 t1')) HP U1 U2)| | |]; reflexivity. }
  assert (Hfin : forall s3 t2 s4 t3 fc, PP n sch c0 s3 t2 ->
            rt_finals s3 t2 = (s4, t3, fc) -> PP n sch c0 s4 t3).
  { intros s3 t2 s4 t3 fc HP H.
    eapply (rt_finals_P (PP n sch c0)); [| |exact HP|exact H].
    - intros x t k x1 t' ok _. apply HPh.
    - intros x t k [HPx [T1 [T2 T3]]]. split; [|repeat split; assumption].
      apply recover_final_phase_par; assumption. }
  assert (Hst : forall s4 t3 fc s5 t4 fc2, PP n sch c0 s4 t3 ->
            rt_anystate s4 t3 fc = (s5, t4, fc2) -> PP n sch c0 s5 t4).
  { intros s4 t3 fc s5 t4 fc2 HP H.
    eapply (rt_anystate_P (PP n sch c0)); [|exact HP|exact H].
    intros x t k x1 t' ok _. apply HPh. }
  (* t_mut is mu all along *)
  assert (Hmut : forall s1 t1 nr s2 t1' c3, rt_neg s mu = (s1, t1, nr) ->
            rt_anyenter s mu s1 t1 nr = (s2, t1', c3) -> t_mut t1' = mu).
  { intros s1 t1 nr s2 t1' c3 Hn Ha.
    assert (Hm1 : t_mut t1 = mu).
    { eapply (rt_neg_P (fun _ t => t_mut t = mu)); [| | |exact Hn].
      - intros x t k x1 t' ok _ HPm Hh. apply handle_same_tx in Hh.
        destruct Hh as [[Hm _] _]. congruence.
      - intros x t tg HPm. exact HPm.
      - destruct (new_transition_fields s mu) as [Hm _]. exact Hm. }
    eapply (rt_anyenter_P (fun _ t => t_mut t = mu)); [|exact Hm1|exact Ha].
    intros x t k x1 t' ok _ HPm Hh. apply handle_same_tx in Hh.
    destruct Hh as [[Hm _] _]. congruence. }
  assert (Hgoal : forall s', par_inv n sch c0 s' ->
            parity_ok (clock s') (active s') = true /\ NoDup (active s') /\
            length (clock s') = length (clock s) /\ sc s' = sc s /\
            clock_le (clock s) (clock s') = true).
  { intros s' [G1 [G2 [G3 [G4 G5]]]]. repeat split; try assumption.
    rewrite G3. symmetry. exact Hlen. }
  destruct (run_tx s mu) as [s' r] eqn:Hr. simpl fst. apply Hgoal.
  apply run_tx_inv in Hr.
  destruct Hr as [s1 t1 Hn
                 |s1 t1 nr Hn Hnc Hh1
                 |s1 t1 nr s2 t1' c3 Hn Hnc Hh1 Ha Hh2
                 |s1 t1 nr s2 t1' c3 Hn Hnc Hh1 Ha Hh2 Hck'
                 |s1 t1 nr s2 t1' Hn Hnc Hh1 Ha Hh2 Hck'
                 |s1 t1 nr s2 t1' s4 t3 fc Hn Hnc Hh1 Ha Hh2 Hck' Hf Hh4
                 |s1 t1 nr s2 t1' s4 t3 fc s5 t4 fc2 Hn Hnc Hh1 Ha Hh2 Hck' Hf Hh4 Hs Hh5
                 |s1 t1 nr s2 t1' s4 t3 fc s5 t4 fc2 Hn Hnc Hh1 Ha Hh2 Hck' Hf Hh4 Hs Hh5].
  - destruct (Hneg _ _ _ Hn) as [HP _].
    eapply par_inv_same; [exact HP| | |]; reflexivity.
  - destruct (Hneg _ _ _ Hn) as [HP _]. exact HP.
  - destruct (Hany _ _ _ _ _ _ (Hneg _ _ _ Hn) Ha) as [HP _]. exact HP.
  - destruct (Hany _ _ _ _ _ _ (Hneg _ _ _ Hn) Ha) as [HP _].
    eapply par_inv_same; [exact HP| | |]; reflexivity.
  - destruct (Hany _ _ _ _ _ _ (Hneg _ _ _ Hn) Ha) as [HP _].
    eapply par_inv_same; [exact HP| | |]; reflexivity.
  - pose proof (Ht2 _ _ (Hany _ _ _ _ _ _ (Hneg _ _ _ Hn) Ha) (Hmut _ _ _ _ _ _ Hn Ha)) as H3.
    destruct (Hfin _ _ _ _ _ H3 Hf) as [HP _]. exact HP.
  - pose proof (Ht2 _ _ (Hany _ _ _ _ _ _ (Hneg _ _ _ Hn) Ha) (Hmut _ _ _ _ _ _ Hn Ha)) as H3.
    destruct (Hst _ _ _ _ _ _ (Hfin _ _ _ _ _ H3 Hf) Hs) as [HP _]. exact HP.
  - pose proof (Ht2 _ _ (Hany _ _ _ _ _ _ (Hneg _ _ _ Hn) Ha) (Hmut _ _ _ _ _ _ Hn Ha)) as H3.
    destruct (Hst _ _ _ _ _ _ (Hfin _ _ _ _ _ H3 Hf) Hs) as [HP _].
    assert (HP6 : par_inv n sch c0 (rt_s6 mu s4 t3 s5 fc2)).
    { unfold rt_s6. destruct (_ && _ && _ && _); [|exact HP].
      unfold prepend_auto. destruct (auto_candidates (sc s5) (active s5)); [exact HP|].
      eapply par_inv_same; [exact HP| | |]; reflexivity. }
    eapply par_inv_same; [exact HP6| | |]; reflexivity.
Qed.

Lemma fault_parity_step_nonvacuous_lemma :
  let s := ex_s_panic in let mu := ex_mu [1; 2] in
  refs_ok (sc s) = true /\ length (clock s) = length (sc s) /\
  forallb (fun x => x <? length (sc s)) (mu_called mu) = true /\
  parity_ok (clock s) (active s) = true /\ active s = [] /\
  fault_at (actions s) 1 = FPanic /\
  clock (fst (run_tx s mu)) = [0; 1; 2; 0]%N /\ active (fst (run_tx s mu)) = [1] /\
  parity_ok (clock (fst (run_tx s mu))) (active (fst (run_tx s mu))) = true.
Proof. vm_compute. repeat split. Qed.

(* ================================================================== *)
(* 17. C08 (c)/(e) for every kind of mutation (auto, check)            *)
(* ================================================================== *)

Lemma recover_to_err_static : forall s t k,
  sc (recover_to_err s t k) = sc s /\ topo (recover_to_err s t k) = topo s.
Proof.
  intros s t k. unfold recover_to_err.
  destruct (mem (exc s) _); [split; reflexivity|]. destruct (is_final_key k); split; reflexivity.
Qed.

Lemma call_bindings_static : forall bs s t k bi caught inv s1 r,
  call_bindings s t k bs bi caught inv = (s1, r) -> sc s1 = sc s /\ topo s1 = topo s.
Proof.
  induction bs as [|b rest IH]; intros s t k bi caught inv s1 r Hcb; simpl in Hcb.
  - inversion Hcb; subst. split; reflexivity.
  - destruct (existsb (hkey_eqb k) b); [|eapply IH; eassumption].
    destruct (loop_dead s); [inversion Hcb; subst; split; reflexivity|].
    destruct inv.
    { destruct (is_final_key k); [eapply IH; eassumption|].
      inversion Hcb; subst; split; reflexivity. }
    pose proof (run_calls_core (ha_calls (hd default_action (actions s)))
                  (set_actions s (tl (actions s)))) as Hc.
    destruct (run_calls (set_actions s (tl (actions s)))
                (ha_calls (hd default_action (actions s)))) as [s1' rs].
    simpl fst in Hc. destruct Hc as [_ [_ [_ [_ [_ [_ [C7 [C8 _]]]]]]]].
    match type of Hcb with context [set_hlog s1' (?e0 :: hlog s1')] =>
      set (s2 := set_hlog s1' (e0 :: hlog s1')) in * end.
    assert (H2 : sc s2 = sc s /\ topo s2 = topo s) by (unfold s2; simpl; split; assumption).
    destruct (recover_to_err_static s2 t k) as [R1 R2].
    destruct (ha_fault (hd default_action (actions s))).
    + destruct (negb (is_final_key k) && negb (ha_ret (hd default_action (actions s)))).
      * inversion Hcb; subst. exact H2.
      * apply IH in Hcb. destruct Hcb as [A B]. destruct H2 as [C D]. split; congruence.
    + destruct (is_final_key k).
      * apply IH in Hcb. destruct Hcb as [A B]. destruct H2 as [C D]. split; congruence.
      * inversion Hcb; subst. destruct H2 as [C D]. split; congruence.
    + inversion Hcb; subst. exact H2.
Qed.

Lemma handle_static : forall s t k s1 t1 ok,
  handle s t k = (s1, t1, ok) -> sc s1 = sc s /\ topo s1 = topo s.
Proof.
  intros s t k s1 t1 ok Hh. unfold handle in Hh.
  destruct (call_bindings s t k (bindings s) 0 false (t_invalid t)) as [s' r] eqn:E.
  inversion Hh; subst. eapply call_bindings_static; eassumption.
Qed.

(* the negotiation phase (negotiate + AnyEnter) as a whole *)
Lemma neg_phase_frame : forall s mu s1 t1 nr s2 t1' c3,
  rt_neg s mu = (s1, t1, nr) -> rt_anyenter s mu s1 t1 nr = (s2, t1', c3) ->
  same_mach (rt_s0 s) s2 /\ neg_book (rt_s0 s) s2 /\ same_tx (new_transition s mu) t1'
  /\ sc s2 = sc s /\ topo s2 = topo s.
Proof.
  intros s mu s1 t1 nr s2 t1' c3 Hn Ha.
  set (P := fun (x : st) (t : tstate) =>
              same_mach (rt_s0 s) x /\ neg_book (rt_s0 s) x /\ same_tx (new_transition s mu) t
              /\ sc x = sc s /\ topo x = topo s).
  assert (HPh : forall x t k x1 t' ok, is_final_key k = false -> P x t ->
                  handle x t k = (x1, t', ok) -> P x1 t').
  { intros x t k x1 t' ok Hk [P1 [P2 [P3 [P4 P5]]]] Hh'.
    pose proof (handle_static _ _ _ _ _ _ Hh') as [S1 S2].
    pose proof (handle_same_tx _ _ _ _ _ _ Hh') as [T1 _].
    split; [eapply same_mach_trans; [exact P1 | eapply handle_neg_mach; eassumption]|].
    split; [eapply handle_neg_book; eassumption|].
    split; [eapply same_tx_trans; eassumption|]. split; congruence. }
  assert (HP1 : P s1 t1).
  { eapply (rt_neg_P P); [exact HPh| | |exact Hn].
    - intros x t tg [P1 [P2 [P3 P4]]]. split; [exact P1|]. split; [exact P2|].
      split; [|exact P4]. eapply same_tx_trans; [exact P3 | apply same_tx_with_target].
    - split; [apply same_mach_refl|]. split; [exists []; split; [apply book_refl|constructor]|].
      split; [apply same_tx_refl | split; reflexivity]. }
  eapply (rt_anyenter_P P); [exact HPh | exact HP1 | exact Ha].
Qed.

Lemma neg_phase_clean : forall s mu s1 t1 nr s2 t1',
  mu_auto mu = false -> rt_neg s mu = (s1, t1, nr) -> nr <> NCrash ->
  rt_anyenter s mu s1 t1 nr = (s2, t1', false) ->
  clean (rt_s0 s) s2 /\ t1' = new_transition s mu /\ t_accepted (new_transition s mu) = true.
Proof.
  intros s mu s1 t1 nr s2 t1' Hna Hn Hnc Ha.
  pose proof Ha as Ha'. apply rt_anyenter_false in Ha'. destruct Ha' as [Ht1 Hc2]. subst t1'.
  apply rt_canceled2_false in Hc2. destruct Hc2 as [Hnr Hacc].
  assert (Hok : nr = NOk) by (destruct nr; congruence). subst nr.
  split; [|split; [eapply rt_neg_ok_t; eassumption | exact Hacc]].
  assert (Hcl0 : clean (rt_s0 s) (rt_s0 s)).
  { exists []. split; [apply book_refl|]. intros j0 Hj0. simpl in Hj0. lia. }
  assert (Hcl1 : clean (rt_s0 s) s1).
  { eapply (rt_neg_Q (clean (rt_s0 s))); [|exact Hna|exact Hcl0|exact Hn].
    intros x t k x1 t' HQ Hh'. eapply handle_ok_clean; eassumption. }
  eapply (rt_anyenter_Q (clean (rt_s0 s))); [|exact Hcl1|exact Ha].
  intros x t k x1 t' HQ Hh'. eapply handle_ok_clean; eassumption.
Qed.

(* (c), also for check transitions *)
Lemma negotiation_fault_no_change_gen_lemma : forall s mu s' r,
  crashed s = false -> loop_dead s = false -> hung s = false ->
  mu_auto mu = false ->
  run_tx s mu = (s', r) ->
  exists ents,
    hlog s' = rev ents ++ hlog s /\ actions s' = skipn (length ents) (actions s) /\
    ((exists j h, nth_error ents j = Some h /\ is_fault (fault_at (actions s) j) = true
                  /\ is_final_key (hl_key h) = false) ->
     clock s' = clock s /\ active s' = active s /\ r = Canceled /\
     exists rec, txs s' = rec :: txs s /\ tx_accepted rec = false /\
                 tx_before rec = clock s /\ tx_mach_after rec = clock s /\
                 tx_check rec = mu_check mu).
Proof.
  intros s mu s' r Hc Hl Hh Hna Hr.
  destruct (run_tx_book_gen s mu s' r Hr) as [ents [B1 B2]].
  exists ents. split; [exact B1|]. split; [exact B2|].
  intros [j [h [Hnth [Hfault Hkey]]]].
  assert (Hfl : flags_ok s') by
    (pose proof (run_tx_flags_lemma s mu (conj Hc (conj Hl Hh))) as X; rewrite Hr in X; exact X).
  destruct Hfl as [Fc [_ Fh]].
  (* no fault in a clean log *)
  assert (Hclean_contra : forall x, clean (rt_s0 s) x -> hlog x = hlog s' -> False).
  { intros x [e1 [[F1 _] Hfree]] Hx. rewrite Hx, B1 in F1. simpl in F1.
    apply app_inv_tail in F1. apply rev_inj in F1. subst e1.
    assert (Hj : j < length ents) by (apply nth_error_Some; congruence).
    simpl in Hfree. rewrite (Hfree j Hj) in Hfault. discriminate. }
  apply run_tx_inv in Hr.
  destruct Hr as [s1 t1 Hn
                 |s1 t1 nr Hn Hnc Hh1
                 |s1 t1 nr s2 t1' c3 Hn Hnc Hh1 Ha Hh2
                 |s1 t1 nr s2 t1' c3 Hn Hnc Hh1 Ha Hh2 Hck'
                 |s1 t1 nr s2 t1' Hn Hnc Hh1 Ha Hh2 Hck'
                 |s1 t1 nr s2 t1' s4 t3 fc Hn Hnc Hh1 Ha Hh2 Hck' Hf Hh4
                 |s1 t1 nr s2 t1' s4 t3 fc s5 t4 fc2 Hn Hnc Hh1 Ha Hh2 Hck' Hf Hh4 Hs Hh5
                 |s1 t1 nr s2 t1' s4 t3 fc s5 t4 fc2 Hn Hnc Hh1 Ha Hh2 Hck' Hf Hh4 Hs Hh5].
  - simpl in Fc. discriminate.
  - congruence.
  - congruence.
  - (* a check transition *)
    destruct c3.
    + destruct (neg_phase_frame _ _ _ _ _ _ _ _ Hn Ha)
        as [[M1 [M2 M3]] [_ [[_ [_ [Hcb _]]] _]]].
      destruct (new_transition_fields s mu) as [_ [_ [_ Hcb0]]].
      simpl in M1, M2, M3. simpl.
      split; [exact M1|]. split; [exact M2|]. split; [reflexivity|].
      eexists. split; [rewrite M3; reflexivity|]. simpl.
      split; [apply andb_false_r|]. split; [congruence|]. split; [exact M1 | congruence].
    + exfalso. destruct (neg_phase_clean _ _ _ _ _ _ _ Hna Hn Hnc Ha) as [Hcl _].
      apply (Hclean_contra s2 Hcl). reflexivity.
  - (* canceled before the apply: nothing moved *)
    destruct (neg_phase_frame _ _ _ _ _ _ _ _ Hn Ha)
      as [[M1 [M2 M3]] [_ [[_ [_ [Hcb _]]] _]]].
    destruct (new_transition_fields s mu) as [_ [_ [_ Hcb0]]].
    simpl in M1, M2, M3. simpl.
    split; [exact M1|]. split; [exact M2|]. split; [reflexivity|].
    eexists. split; [rewrite M3; reflexivity|]. simpl.
    split; [reflexivity|]. unfold rt_t2. rewrite Hna.
    split; [congruence|]. split; [exact M1 | congruence].
  - congruence.
  - congruence.
  - (* applied: the negotiation consumed no fault, so the fault has a final key *)
    exfalso.
    destruct (neg_phase_clean _ _ _ _ _ _ _ Hna Hn Hnc Ha) as [Hcl2 _].
    assert (Hfb4 : fin_book s2 s4).
    { eapply (rt_finals_P (fun x _ => fin_book s2 x)); [| | |exact Hf].
      - intros x t k x1 t' ok Hk HP Hh'. eapply handle_fin_book; eassumption.
      - intros x t k HP. exact HP.
      - exists []. split; [split; reflexivity | constructor]. }
    assert (Hfb5 : fin_book s2 s5).
    { eapply (rt_anystate_P (fun x _ => fin_book s2 x)); [|exact Hfb4|exact Hs].
      intros x t k x1 t' ok Hk HP Hh'. eapply handle_fin_book; eassumption. }
    destruct Hcl2 as [entsn [[N1 N2] Hfree]].
    destruct Hfb5 as [more [[F1 F2] Hfin]].
    rewrite rt_end_hlog in B1. rewrite F1, N1 in B1. simpl in B1.
    rewrite app_assoc, <- rev_app_distr in B1.
    apply app_inv_tail in B1. apply rev_inj in B1. subst ents.
    destruct (Nat.lt_ge_cases j (length entsn)) as [Hlt|Hge].
    + simpl in Hfree. rewrite (Hfree j Hlt) in Hfault. discriminate.
    + rewrite nth_error_app2 in Hnth by exact Hge.
      apply nth_error_In in Hnth. rewrite Forall_forall in Hfin.
      rewrite (Hfin h Hnth) in Hkey. discriminate.
Qed.

(* the final phase of an applied transition whose negotiation consumed no
   fault: any faulted entry carries the failing final key, the transition is
   canceled and exactly the unfinished part is rolled back *)
Lemma final_phase_core : forall s mu s2 t2 s4 t3 fc s5 t4 fc2 ents j h,
  clean (rt_s0 s) s2 ->
  NoDup (t_target t2) ->
  (forall e, In e (t_exits t2) -> ~ In e (t_target t2)) ->
  (forall e, In e (t_enters t2) -> In e (t_target t2)) ->
  rt_finals (rt_s3 mu s2 t2) t2 = (s4, t3, fc) -> hung s4 = false ->
  rt_anystate s4 t3 fc = (s5, t4, fc2) ->
  hlog s5 = rev ents ++ hlog s ->
  nth_error ents j = Some h -> is_fault (fault_at (actions s) j) = true ->
  is_final_key (hl_key h) = true ->
  fc2 = true /\ same_tx t2 t4 /\ t_target t4 = t_target t2 /\
  match hl_key h with
  | HState x => forall z, In z (active s5) <->
                          In z (t_target t2) /\ ~ In z (from_state x (t_enters t2))
  | HEnd x => forall z, In z (active s5) <->
                        (In z (t_target t2) /\ ~ In z (t_enters t2))
                        \/ In z (from_state x (t_exits t2))
  | _ => forall z, In z (active s5) <-> In z (t_target t2)
  end.
Proof.
  intros s mu s2 t2 s4 t3 fc s5 t4 fc2 ents j h Hcl2 Hndt Hdis Hsub Hf Hh4 Hs B1' Hnth Hfault Hkey.
  set (tg := t_target t2) in *.
  assert (Hcl3 : clean (rt_s0 s) (rt_s3 mu s2 t2)).
  { destruct Hcl2 as [e2 [[X1 X2] X3]]. exists e2. split; [split; assumption | exact X3]. }
  assert (Hact3 : active (rt_s3 mu s2 t2) = tg) by reflexivity.
  (* the transition object at the end is still t2, up to the invalid mark *)
  assert (Hst4 : same_tx t2 t4 /\ t_target t4 = t_target t2).
  { assert (Hst3 : same_tx t2 t3 /\ t_target t3 = t_target t2).
    { unfold rt_finals in Hf. destruct (has_handlers (rt_s3 mu s2 t2)).
      - destruct (emit_finals (rt_s3 mu s2 t2) t2 (t_exits t2 ++ t_enters t2))
          as [[sx tx] fk] eqn:Ef.
        assert (Hx : same_tx t2 tx /\ t_target tx = t_target t2).
        { eapply (emit_finals_P (fun _ t => same_tx t2 t /\ t_target t = t_target t2));
            [| |exact Ef].
          - intros x t k x1 t' ok _ [HP1 HP2] Hh'.
            apply handle_same_tx in Hh'. destruct Hh' as [Q1 Q2].
            split; [eapply same_tx_trans; eassumption | congruence].
          - split; [apply same_tx_refl | reflexivity]. }
        destruct fk; inversion Hf; subst; exact Hx.
      - inversion Hf; subst. split; [apply same_tx_refl | reflexivity]. }
    unfold rt_anystate in Hs. destruct (has_handlers s4 && negb fc).
    - destruct (handle s4 t3 HAnyState) as [[sy ty] ok] eqn:Eh.
      inversion Hs; subst. apply handle_same_tx in Eh. destruct Eh as [Q1 Q2].
      destruct Hst3 as [P1 P2]. split; [eapply same_tx_trans; eassumption | congruence].
    - inversion Hs; subst. exact Hst3. }
  (* the faulted entry is past the fault-free prefix [e1] of a log [e1 ++ more] *)
  assert (Hkey_of : forall x k, fail_book (rt_s0 s) x k -> hlog x = hlog s5 -> hl_key h = k).
  { intros x k [e1 [more [[F1 _] [Hfree Hmk]]]] Hx.
    rewrite Hx, B1' in F1. simpl in F1.
    apply app_inv_tail in F1. apply rev_inj in F1. subst ents.
    destruct (Nat.lt_ge_cases j (length e1)) as [Hlt|Hge].
    - simpl in Hfree. rewrite (Hfree j Hlt) in Hfault. discriminate.
    - rewrite nth_error_app2 in Hnth by exact Hge.
      apply nth_error_In in Hnth. rewrite Forall_forall in Hmk. apply Hmk. exact Hnth. }
  assert (Hclean_contra : forall x, clean (rt_s0 s) x -> hlog x = hlog s5 -> False).
  { intros x [e1 [[F1 _] Hfree]] Hx. rewrite Hx, B1' in F1. simpl in F1.
    apply app_inv_tail in F1. apply rev_inj in F1. subst e1.
    assert (Hj : j < length ents) by (apply nth_error_Some; congruence).
    simpl in Hfree. rewrite (Hfree j Hj) in Hfault. discriminate. }
  assert (Hfin : fc2 = true /\
            exists A, NoDup A /\ active s5 = A /\
              (A = walk (hl_key h) t2 tg \/
               A = walk (hl_key h) t2 (walk (hl_key h) t2 tg)) /\
              (match hl_key h with
               | HState x => In x (t_enters t2)
               | HEnd x => In x (t_exits t2)
               | _ => True
               end)).
  { unfold rt_finals in Hf.
    destruct (has_handlers (rt_s3 mu s2 t2)) eqn:Ehh.
    - destruct (emit_finals (rt_s3 mu s2 t2) t2 (t_exits t2 ++ t_enters t2))
        as [[sx tx] fk] eqn:Ef.
      pose proof (emit_finals_spec _ _ _ _ _ _ _ Hcl3 Ef) as Hsp.
      destruct fk as [k|].
      + (* a State/End handler failed *)
        destruct Hsp as [Hst [[x [Hx Hkx]] [Hact Hfb]]].
        inversion Hf; subst s4 t3 fc. clear Hf.
        unfold rt_anystate in Hs. rewrite andb_false_r in Hs. inversion Hs; subst s5 t4 fc2.
        assert (Hhx : hung sx = false).
        { destruct (hung sx) eqn:E; [|reflexivity]. rewrite E in Hh4. exact Hh4. }
        rewrite Hhx in *.
        destruct Hst as [_ [_ [_ [Hten Htex]]]].
        assert (Hw : forall A, recover_walk (key_to_state k) (t_enters tx) false
                                 (t_exits tx ++ t_enters tx) A = walk k t2 A).
        { intros A. unfold walk. rewrite Hten, Htex. reflexivity. }
        assert (Hkh : hl_key h = k) by (apply (Hkey_of sx k Hfb); reflexivity).
        split; [reflexivity|].
        exists (active (recover_final_phase sx tx k)).
        unfold recover_final_phase at 1 2 3. simpl. rewrite Hw, Hkh.
        assert (Hnd1 : NoDup (active sx)).
        { destruct Hact as [Hact|Hact]; rewrite Hact, Hact3;
            [exact Hndt | apply recover_walk_nodup_lemma; exact Hndt]. }
        split; [apply recover_walk_nodup_lemma; exact Hnd1|]. split; [reflexivity|]. split.
        * destruct Hact as [Hact|Hact]; rewrite Hact, Hact3; tauto.
        * rewrite Hkx. apply in_app_or in Hx.
          destruct (mem x (t_enters t2)) eqn:Em.
          -- apply mem_In in Em. exact Em.
          -- apply mem_false in Em. tauto.
      + (* every State/End handler went through; AnyState failed *)
        destruct Hsp as [Hm [Htx Hcl]]. subst tx.
        inversion Hf; subst s4 t3 fc. clear Hf.
        unfold rt_anystate in Hs.
        destruct (has_handlers sx && negb false).
        * destruct (handle sx t2 HAnyState) as [[sy ty] ok] eqn:Eh.
          inversion Hs; subst s5 t4 fc2. clear Hs.
          pose proof (handle_fail_book _ _ _ _ _ _ _ Hcl Eh) as Hfb.
          assert (Hkh : hl_key h = HAnyState) by (apply (Hkey_of sy _ Hfb); reflexivity).
          destruct ok.
          -- exfalso. apply (Hclean_contra sy); [|reflexivity].
             eapply handle_ok_clean; eassumption.
          -- split; [reflexivity|]. rewrite Hkh.
             exists (active sy).
             pose proof (handle_final_active sx t2 HAnyState sy ty false eq_refl Eh) as Hact.
             assert (Hwn : walk HAnyState t2 (active sx) = active sx).
             { unfold walk. simpl. apply recover_walk_none. }
             rewrite Hwn in Hact. destruct Hm as [_ [Ma _]]. rewrite Hact3 in Ma.
             assert (Hsy : active sy = tg) by (destruct Hact; congruence).
             rewrite Hsy. split; [exact Hndt|]. split; [reflexivity|]. split; [|exact I].
             left. unfold walk. simpl. symmetry. apply recover_walk_none.
        * exfalso. inversion Hs; subst s5 t4 fc2. apply (Hclean_contra sx Hcl). reflexivity.
    - exfalso. inversion Hf; subst s4 t3 fc.
      unfold rt_anystate in Hs.
      assert (Hhs : has_handlers (rt_s3 mu s2 t2) && negb false = false)
        by (rewrite Ehh; reflexivity).
      rewrite Hhs in Hs. inversion Hs; subst s5 t4 fc2.
      apply (Hclean_contra _ Hcl3). reflexivity. }
  destruct Hfin as [Hfc2 [A [HndA [HA [Hcases Hxin]]]]].
  split; [exact Hfc2|]. destruct Hst4 as [Hst4 Htg4]. split; [exact Hst4|]. split; [exact Htg4|].
  rewrite HA.
  assert (Hwalk_state : forall x B, hl_key h = HState x -> NoDup B ->
            forall z, In z (walk (hl_key h) t2 B) <->
                      In z B /\ ~ In z (from_state x (t_enters t2))).
  { intros x B Hkx HB z. rewrite Hkx in *. unfold walk. simpl.
    apply recover_walk_state_lemma; [exact HB|].
    intros Hxe. apply (Hdis x Hxe). apply Hsub. exact Hxin. }
  assert (Hwalk_end : forall x B, hl_key h = HEnd x -> NoDup B ->
            forall z, In z (walk (hl_key h) t2 B) <->
                      (In z B /\ ~ In z (t_enters t2)) \/ In z (from_state x (t_exits t2))).
  { intros x B Hkx HB z. rewrite Hkx in *. unfold walk. simpl.
    apply recover_walk_end_lemma; [exact HB | exact Hxin |].
    intros e He Hee. apply (Hdis e He). apply Hsub. exact Hee. }
  assert (Hnd1 : NoDup (walk (hl_key h) t2 tg))
    by (apply recover_walk_nodup_lemma; exact Hndt).
  destruct (hl_key h) as [x|x|x|a b| |x|x|] eqn:Ekh; try discriminate Hkey.
  - intros z.
    pose proof (Hwalk_end x tg eq_refl Hndt z) as W1.
    pose proof (Hwalk_end x _ eq_refl Hnd1 z) as W2.
    destruct Hcases as [HAeq|HAeq]; rewrite HAeq.
    + exact W1.
    + rewrite W2, W1. tauto.
  - intros z.
    pose proof (Hwalk_state x tg eq_refl Hndt z) as W1.
    pose proof (Hwalk_state x _ eq_refl Hnd1 z) as W2.
    destruct Hcases as [HAeq|HAeq]; rewrite HAeq.
    + exact W1.
    + rewrite W2, W1. tauto.
  - intros z. unfold walk in Hcases. simpl in Hcases.
    rewrite !recover_walk_none in Hcases.
    destruct Hcases as [HAeq|HAeq]; rewrite HAeq; tauto.
Qed.

Lemma apply_path_txs : forall s mu s1 t1 nr s2 t1' c3 t2 s4 t3 fc s5 t4 fc2,
  rt_neg s mu = (s1, t1, nr) -> rt_anyenter s mu s1 t1 nr = (s2, t1', c3) ->
  rt_finals (rt_s3 mu s2 t2) t2 = (s4, t3, fc) -> rt_anystate s4 t3 fc = (s5, t4, fc2) ->
  txs s5 = txs s.
Proof.
  intros s mu s1 t1 nr s2 t1' c3 t2 s4 t3 fc s5 t4 fc2 Hn Ha Hf Hs.
  assert (Hhx : forall x t k x1 t' ok, txs x = txs s -> handle x t k = (x1, t', ok) ->
                  txs x1 = txs s).
  { intros x t k x1 t' ok HP Hh'. apply handle_txs in Hh'. congruence. }
  eapply (rt_anystate_P (fun x _ => txs x = txs s)); [| |exact Hs].
  - intros x t k x1 t' ok _. apply Hhx.
  - eapply (rt_finals_P (fun x _ => txs x = txs s)); [| | |exact Hf].
    + intros x t k x1 t' ok _. apply Hhx.
    + intros x t k HP. exact HP.
    + change (txs s2 = txs s).
      eapply (rt_anyenter_P (fun x _ => txs x = txs s)); [| |exact Ha].
      * intros x t k x1 t' ok _. apply Hhx.
      * eapply (rt_neg_P (fun x _ => txs x = txs s)); [| | |exact Hn].
        -- intros x t k x1 t' ok _. apply Hhx.
        -- intros x t tg0 HP. exact HP.
        -- reflexivity.
Qed.

(* (e) for every mutation (auto or not, check or not): the FIRST fault of the
   transition is in a final handler *)
Lemma final_rollback_first_step_lemma : forall s mu s' r,
  crashed s = false -> loop_dead s = false -> hung s = false ->
  run_tx s mu = (s', r) ->
  exists ents,
    hlog s' = rev ents ++ hlog s /\ actions s' = skipn (length ents) (actions s) /\
    forall j h, nth_error ents j = Some h -> is_fault (fault_at (actions s) j) = true ->
      (forall j', j' < j -> fault_at (actions s) j' = FNone) ->
      is_final_key (hl_key h) = true ->
      r = Canceled /\
      exists rec, txs s' = rec :: txs s /\ tx_accepted rec = false /\
        tx_active_before rec = active s /\ tx_called rec = mu_called mu /\
        tx_auto rec = mu_auto mu /\ tx_check rec = false /\
        match hl_key h with
        | HState x => forall z, In z (active s') <->
            In z (tx_target rec) /\
            ~ In z (from_state x
                      (filter (fun x => negb (mem x (active s))
                                 || (s_multi (sget (sc s) x) && mem x (mu_called mu)))
                              (tx_target rec)))
        | HEnd x => forall z, In z (active s') <->
            (In z (tx_target rec) /\
             ~ In z (filter (fun x => negb (mem x (active s))
                               || (s_multi (sget (sc s) x) && mem x (mu_called mu)))
                            (tx_target rec)))
            \/ In z (from_state x (sort_states (sc s) (topo s)
                                     (diff (active s) (tx_target rec))))
        | _ => forall z, In z (active s') <-> In z (tx_target rec)
        end.
Proof.
  intros s mu s' r Hc Hl Hh Hr.
  destruct (run_tx_book_gen s mu s' r Hr) as [ents [B1 B2]].
  exists ents. split; [exact B1|]. split; [exact B2|].
  intros j h Hnth Hfault Hfirst Hkey.
  assert (Hfl : flags_ok s') by
    (pose proof (run_tx_flags_lemma s mu (conj Hc (conj Hl Hh))) as X; rewrite Hr in X; exact X).
  destruct Hfl as [Fc [_ Fh]].
  (* a log of negotiation keys only cannot contain [h] *)
  assert (Hneg_contra : forall x, neg_book (rt_s0 s) x -> hlog x = hlog s' -> False).
  { intros x [more [[N1 _] Hnf]] Hx. rewrite Hx, B1 in N1. simpl in N1.
    apply app_inv_tail in N1. apply rev_inj in N1. subst more.
    apply nth_error_In in Hnth. rewrite Forall_forall in Hnf.
    rewrite (Hnf h Hnth) in Hkey. discriminate. }
  apply run_tx_inv in Hr.
  destruct Hr as [s1 t1 Hn
                 |s1 t1 nr Hn Hnc Hh1
                 |s1 t1 nr s2 t1' c3 Hn Hnc Hh1 Ha Hh2
                 |s1 t1 nr s2 t1' c3 Hn Hnc Hh1 Ha Hh2 Hck'
                 |s1 t1 nr s2 t1' Hn Hnc Hh1 Ha Hh2 Hck'
                 |s1 t1 nr s2 t1' s4 t3 fc Hn Hnc Hh1 Ha Hh2 Hck' Hf Hh4
                 |s1 t1 nr s2 t1' s4 t3 fc s5 t4 fc2 Hn Hnc Hh1 Ha Hh2 Hck' Hf Hh4 Hs Hh5
                 |s1 t1 nr s2 t1' s4 t3 fc s5 t4 fc2 Hn Hnc Hh1 Ha Hh2 Hck' Hf Hh4 Hs Hh5].
  - simpl in Fc. discriminate.
  - congruence.
  - congruence.
  - exfalso. destruct (neg_phase_frame _ _ _ _ _ _ _ _ Hn Ha) as [_ [Hnb _]].
    apply (Hneg_contra s2 Hnb). reflexivity.
  - exfalso. destruct (neg_phase_frame _ _ _ _ _ _ _ _ Hn Ha) as [_ [Hnb _]].
    apply (Hneg_contra s2 Hnb). reflexivity.
  - congruence.
  - congruence.
  - (* applied *)
    assert (B1' : hlog s5 = rev ents ++ hlog s).
    { rewrite <- B1. symmetry. apply rt_end_hlog. }
    destruct (neg_phase_frame _ _ _ _ _ _ _ _ Hn Ha)
      as [[_ [Mact _]] [[entsn [[N1 _] Hnf]] [Htx0 [Hsc Htopo]]]].
    simpl in Mact.
    set (t2 := rt_t2 mu s2 t1') in *.
    (* the log splits: negotiation keys, then final keys *)
    assert (Hfb5 : fin_book s2 s5).
    { eapply (rt_anystate_P (fun x _ => fin_book s2 x)); [| |exact Hs].
      - intros x t k x1 t' ok Hk HP Hh'. eapply handle_fin_book; eassumption.
      - eapply (rt_finals_P (fun x _ => fin_book s2 x)); [| | |exact Hf].
        + intros x t k x1 t' ok Hk HP Hh'. eapply handle_fin_book; eassumption.
        + intros x t k HP. exact HP.
        + exists []. split; [split; reflexivity | constructor]. }
    assert (Hcl2 : clean (rt_s0 s) s2).
    { destruct Hfb5 as [more [[F1 _] _]].
      pose proof B1' as B3. rewrite F1, N1 in B3. simpl in B3.
      rewrite app_assoc, <- rev_app_distr in B3.
      apply app_inv_tail in B3. apply rev_inj in B3.
      exists entsn. split.
      - split; [exact N1|].
        destruct (neg_phase_frame _ _ _ _ _ _ _ _ Hn Ha) as [_ [[e' [[N1' N2'] _]] _]].
        rewrite N1 in N1'. apply app_inv_tail in N1'. apply rev_inj in N1'. subst e'. exact N2'.
      - intros j' Hj'. simpl. apply Hfirst.
        destruct (Nat.lt_ge_cases j (length entsn)) as [Hlt|Hge]; [|lia].
        exfalso. rewrite <- B3 in Hnth. rewrite nth_error_app1 in Hnth by exact Hlt.
        apply nth_error_In in Hnth. rewrite Forall_forall in Hnf.
        rewrite (Hnf h Hnth) in Hkey. discriminate. }
    destruct Htx0 as [Hmut [Hbef _]].
    destruct (new_transition_fields s mu) as [Hmu0 [_ [Hbef0 _]]].
    (* the shape of the applied transition *)
    assert (Hshape : NoDup (t_target t2) /\
              (forall e, In e (t_exits t2) -> ~ In e (t_target t2)) /\
              (forall e, In e (t_enters t2) -> In e (t_target t2)) /\
              t_enters t2 = filter (fun x => negb (mem x (active s))
                                      || (s_multi (sget (sc s) x) && mem x (mu_called mu)))
                                   (t_target t2) /\
              t_exits t2 = sort_states (sc s) (topo s) (diff (active s) (t_target t2)) /\
              t_before t2 = active s).
    { unfold t2, rt_t2. destruct (mu_auto mu) eqn:Eauto.
      - cbn [with_exit_enter t_target t_enters t_exits t_before with_target t_mut].
        rewrite Hsc, Htopo, Mact, Hmut, Hmu0.
        split; [apply target_states_NoDup|].
        split; [intros e He; apply sort_states_In in He; apply diff_In in He; tauto|].
        split; [intros e He; apply filter_In in He; tauto|].
        split; [reflexivity|]. split; [reflexivity | congruence].
      - destruct (neg_phase_clean _ _ _ _ _ _ _ Eauto Hn Hnc Ha) as [_ [Ht1' Hacc]].
        subst t1'.
        destruct (new_transition_accepted s mu Hacc) as [Hen Hex].
        destruct (new_transition_shape s mu Hacc) as [_ [Hsub Hdis]].
        split.
        { unfold new_transition. destruct (setup_accepted s mu _);
            cbn [t_target with_exit_enter]; apply target_states_NoDup. }
        split; [exact Hdis|]. split; [exact Hsub|].
        split; [exact Hen|]. split; [exact Hex | exact Hbef0]. }
    destruct Hshape as [Hndt [Hdis [Hsub [Hen [Hex Hbef2]]]]].
    destruct (final_phase_core s mu s2 t2 s4 t3 fc s5 t4 fc2 ents j h
                Hcl2 Hndt Hdis Hsub Hf Hh4 Hs B1' Hnth Hfault Hkey)
      as [Hfc2 [[Hm4 [Hb4 _]] [Htg4 Hmatch]]].
    subst fc2.
    assert (Hs6 : rt_s6 mu s4 t3 s5 true = s5) by reflexivity.
    rewrite Hs6. split; [reflexivity|].
    pose proof (apply_path_txs _ _ _ _ _ _ _ _ _ _ _ _ _ _ _ Hn Ha Hf Hs) as Htx5.
    eexists. split; [simpl; rewrite Htx5; reflexivity|].
    cbn [rt_apply_rec tx_accepted tx_active_before tx_called tx_auto tx_check tx_target].
    split; [apply andb_false_r|]. split; [congruence|].
    split; [reflexivity|]. split; [reflexivity|]. split; [reflexivity|].
    cbn [active add_ev add_tx]. rewrite Htg4, <- Hen, <- Hex. exact Hmatch.
Qed.

(* non-auto mutations: ANY faulted final entry (not only the first fault) *)
Lemma final_rollback_step_lemma : forall s mu s' r,
  crashed s = false -> loop_dead s = false -> hung s = false ->
  mu_auto mu = false ->
  run_tx s mu = (s', r) ->
  let tg := t_target (new_transition s mu) in
  let exits := sort_states (sc s) (topo s) (diff (active s) tg) in
  let enters := filter (fun x => negb (mem x (active s))
                          || (s_multi (sget (sc s) x) && mem x (mu_called mu))) tg in
  exists ents,
    hlog s' = rev ents ++ hlog s /\ actions s' = skipn (length ents) (actions s) /\
    forall j h, nth_error ents j = Some h -> is_fault (fault_at (actions s) j) = true ->
      is_final_key (hl_key h) = true ->
      r = Canceled /\
      (exists rec, txs s' = rec :: txs s /\ tx_accepted rec = false /\
                   tx_target rec = tg /\ tx_active_before rec = active s /\
                   tx_check rec = false) /\
      match hl_key h with
      | HState x => forall z, In z (active s') <-> In z tg /\ ~ In z (from_state x enters)
      | HEnd x => forall z, In z (active s') <->
                            (In z tg /\ ~ In z enters) \/ In z (from_state x exits)
      | _ => forall z, In z (active s') <-> In z tg
      end.
Proof.
  intros s mu s' r Hc Hl Hh Hna Hr tg exits enters.
  destruct (run_tx_book_gen s mu s' r Hr) as [ents [B1 B2]].
  exists ents. split; [exact B1|]. split; [exact B2|].
  intros j h Hnth Hfault Hkey.
  assert (Hfl : flags_ok s') by
    (pose proof (run_tx_flags_lemma s mu (conj Hc (conj Hl Hh))) as X; rewrite Hr in X; exact X).
  destruct Hfl as [Fc [_ Fh]].
  assert (Hneg_contra : forall x, neg_book (rt_s0 s) x -> hlog x = hlog s' -> False).
  { intros x [more [[N1 _] Hnf]] Hx. rewrite Hx, B1 in N1. simpl in N1.
    apply app_inv_tail in N1. apply rev_inj in N1. subst more.
    apply nth_error_In in Hnth. rewrite Forall_forall in Hnf.
    rewrite (Hnf h Hnth) in Hkey. discriminate. }
  apply run_tx_inv in Hr.
  destruct Hr as [s1 t1 Hn
                 |s1 t1 nr Hn Hnc Hh1
                 |s1 t1 nr s2 t1' c3 Hn Hnc Hh1 Ha Hh2
                 |s1 t1 nr s2 t1' c3 Hn Hnc Hh1 Ha Hh2 Hck'
                 |s1 t1 nr s2 t1' Hn Hnc Hh1 Ha Hh2 Hck'
                 |s1 t1 nr s2 t1' s4 t3 fc Hn Hnc Hh1 Ha Hh2 Hck' Hf Hh4
                 |s1 t1 nr s2 t1' s4 t3 fc s5 t4 fc2 Hn Hnc Hh1 Ha Hh2 Hck' Hf Hh4 Hs Hh5
                 |s1 t1 nr s2 t1' s4 t3 fc s5 t4 fc2 Hn Hnc Hh1 Ha Hh2 Hck' Hf Hh4 Hs Hh5].
  - simpl in Fc. discriminate.
  - congruence.
  - congruence.
  - exfalso. destruct (neg_phase_frame _ _ _ _ _ _ _ _ Hn Ha) as [_ [Hnb _]].
    apply (Hneg_contra s2 Hnb). reflexivity.
  - exfalso. destruct (neg_phase_frame _ _ _ _ _ _ _ _ Hn Ha) as [_ [Hnb _]].
    apply (Hneg_contra s2 Hnb). reflexivity.
  - congruence.
  - congruence.
  - assert (B1' : hlog s5 = rev ents ++ hlog s).
    { rewrite <- B1. symmetry. apply rt_end_hlog. }
    destruct (neg_phase_clean _ _ _ _ _ _ _ Hna Hn Hnc Ha) as [Hcl2 [Ht1' Hacc]]. subst t1'.
    assert (Ht2 : rt_t2 mu s2 (new_transition s mu) = new_transition s mu)
      by (unfold rt_t2; rewrite Hna; reflexivity).
    rewrite Ht2 in *.
    set (t0 := new_transition s mu) in *.
    destruct (new_transition_accepted s mu Hacc) as [Hen Hex].
    fold t0 in Hen, Hex. fold tg in Hen, Hex. fold enters in Hen. fold exits in Hex.
    destruct (new_transition_shape s mu Hacc) as [_ [Hsub Hdis]]. fold t0 in Hsub, Hdis.
    destruct (new_transition_fields s mu) as [_ [_ [Hbef _]]]. fold t0 in Hbef.
    assert (Hndt : NoDup (t_target t0)).
    { unfold t0, new_transition. destruct (setup_accepted s mu _);
        cbn [t_target with_exit_enter]; apply target_states_NoDup. }
    destruct (final_phase_core s mu s2 t0 s4 t3 fc s5 t4 fc2 ents j h
                Hcl2 Hndt Hdis Hsub Hf Hh4 Hs B1' Hnth Hfault Hkey)
      as [Hfc2 [[Hm4 [Hb4 _]] [Htg4 Hmatch]]].
    subst fc2.
    assert (Hs6 : rt_s6 mu s4 t3 s5 true = s5) by reflexivity.
    rewrite Hs6. split; [reflexivity|].
    pose proof (apply_path_txs _ _ _ _ _ _ _ _ _ _ _ _ _ _ _ Hn Ha Hf Hs) as Htx5.
    split.
    { eexists. split; [simpl; rewrite Htx5; reflexivity|].
      cbn [rt_apply_rec tx_accepted tx_active_before tx_target tx_check].
      split; [apply andb_false_r|]. split; [exact Htg4|]. split; [congruence | reflexivity]. }
    cbn [active add_ev add_tx]. rewrite Hen, Hex in Hmatch. exact Hmatch.
Qed.

Lemma negotiation_fault_nonvacuous_check_lemma :
  let s := ex_s_neg in
  let mu := {| mu_type := MAdd; mu_called := [1]; mu_auto := false; mu_check := true;
               mu_args := false; mu_qtick := 0 |} in
  let s' := fst (run_tx s mu) in
  exists h rec, hlog s' = rev [h] ++ hlog s /\ nth_error [h] 0 = Some h /\
            is_fault (fault_at (actions s) 0) = true /\ is_final_key (hl_key h) = false /\
            txs s' = rec :: txs s /\ tx_check rec = true /\ tx_accepted rec = false.
Proof. vm_compute. eexists. eexists. repeat split. Qed.

(* an auto transition whose first fault is in a State handler *)
Definition ex_s_auto : st :=
  ex_st [[HState 3]] [ex_act FStall].
Definition ex_mu_auto : mutation :=
  {| mu_type := MAdd; mu_called := [3]; mu_auto := true; mu_check := false;
     mu_args := false; mu_qtick := 0 |}.

Lemma final_rollback_first_nonvacuous_lemma :
  let s := ex_s_auto in let mu := ex_mu_auto in let s' := fst (run_tx s mu) in
  exists h rec, hlog s' = rev [h] ++ hlog s /\ nth_error [h] 0 = Some h /\
    is_fault (fault_at (actions s) 0) = true /\ hl_key h = HState 3 /\
    txs s' = rec :: txs s /\ tx_auto rec = true /\ tx_target rec = [3] /\ active s' = [].
Proof. vm_compute. eexists. eexists. repeat split. Qed.

(* ================================================================== *)
(* 18. lift: over a whole run the j-th handler-log entry consumes the  *)
(*     j-th scripted action                                            *)
(* ================================================================== *)

Lemma skipn_skipn_add : forall (A : Type) b a (l : list A),
  skipn a (skipn b l) = skipn (b + a) l.
Proof.
  intros A b. induction b as [|b IH]; intros a l; [reflexivity|].
  destruct l as [|x r]; [rewrite !skipn_nil; reflexivity|].
  simpl. apply IH.
Qed.

Definition aligned (acts0 : list haction) (s : st) : Prop :=
  actions s = skipn (length (hlog s)) acts0.

Lemma aligned_core : forall acts0 s s', same_core s s' -> aligned acts0 s -> aligned acts0 s'.
Proof.
  intros acts0 s s' [H1 [H2 _]] Ha. unfold aligned in *. rewrite H1, H2. exact Ha.
Qed.

Lemma run_tx_aligned : forall acts0 s mu,
  aligned acts0 s -> aligned acts0 (fst (run_tx s mu)).
Proof.
  intros acts0 s mu Ha. destruct (run_tx s mu) as [s' r] eqn:Hr. simpl.
  destruct (run_tx_book_gen s mu s' r Hr) as [ents [B1 B2]].
  unfold aligned in *. rewrite B2, Ha, skipn_skipn_add, B1, app_length, rev_length.
  f_equal. lia.
Qed.

Lemma drain_aligned : forall acts0 fuel s first,
  aligned acts0 s -> aligned acts0 (fst (fst (drain fuel s first))).
Proof.
  intros acts0. induction fuel as [|f IH]; intros s first Ha; simpl; [exact Ha|].
  destruct (crashed s || hung s); [exact Ha|].
  destruct (queue s) as [|mu rest]; [exact Ha|].
  match goal with |- context [run_tx ?x mu] => set (s1 := x) end.
  assert (Ha1 : aligned acts0 s1).
  { unfold s1. destruct (0 <? mu_qtick mu)%N; exact Ha. }
  pose proof (run_tx_aligned acts0 s1 mu Ha1) as Ha2.
  destruct (run_tx s1 mu) as [s2 r]. simpl in Ha2.
  apply IH. exact Ha2.
Qed.

Lemma process_queue_aligned : forall acts0 fuel s,
  aligned acts0 s -> aligned acts0 (fst (fst (process_queue fuel s))).
Proof.
  intros acts0 fuel s Ha. unfold process_queue.
  destruct (queue s); [exact Ha|].
  pose proof (drain_aligned acts0 fuel s None Ha) as H.
  destruct (drain fuel s None) as [[s1 first] ok]. exact H.
Qed.

Lemma top_mutation_aligned : forall acts0 fuel s mt states args,
  aligned acts0 s -> aligned acts0 (fst (fst (top_mutation fuel s mt states args))).
Proof.
  intros acts0 fuel s mt states args Ha. unfold top_mutation.
  pose proof (queue_mutation_core s mt states args) as Hq.
  destruct (queue_mutation s mt states args) as [s1 tick]. simpl in Hq.
  pose proof (aligned_core _ _ _ Hq Ha) as Ha1.
  destruct (tick =? 0)%N; [exact Ha1|].
  pose proof (process_queue_aligned acts0 fuel s1 Ha1) as H.
  destruct (process_queue fuel s1) as [[s2 r] ok]. exact H.
Qed.

Lemma top_api_aligned : forall acts0 fuel s c,
  aligned acts0 s -> aligned acts0 (fst (fst (top_api fuel s c))).
Proof.
  intros acts0 fuel s c Ha. unfold top_api, top_add, top_remove. destruct (ac_kind c).
  - destruct (limit_hit s && _); [exact Ha | apply top_mutation_aligned; exact Ha].
  - destruct (limit_hit s && _); [exact Ha | apply top_mutation_aligned; exact Ha].
  - destruct (limit_hit s); [exact Ha | apply top_mutation_aligned; exact Ha].
  - destruct (mach_is s (ac_states c)).
    + destruct (limit_hit s && _); [exact Ha | apply top_mutation_aligned; exact Ha].
    + destruct (limit_hit s && _); [exact Ha | apply top_mutation_aligned; exact Ha].
  - destruct (limit_hit s); [exact Ha|].
    match goal with |- context [if ?b then _ else _] => destruct b end;
      [exact Ha | apply top_mutation_aligned; exact Ha].
  - apply process_queue_aligned. exact Ha.
  - apply process_queue_aligned. exact Ha.
Qed.

Lemma run_calls_top_aligned : forall acts0 fuel cs s acc,
  aligned acts0 s -> aligned acts0 (fst (fst (run_calls_top fuel s cs acc))).
Proof.
  intros acts0 fuel cs. induction cs as [|c r IH]; intros s acc Ha; simpl; [exact Ha|].
  destruct (crashed s || hung s); [exact Ha|].
  pose proof (top_api_aligned acts0 fuel s c Ha) as H1.
  destruct (top_api fuel s c) as [[s1 res] ok]. simpl in H1.
  destruct (crashed s1 || hung s1); [exact H1|].
  destruct ok; [apply IH; exact H1 | exact H1].
Qed.

(* the remaining script after a run is the script minus one action per
   handler-log entry: entry j of tr_hlog consumed action j *)
Lemma run_aligned_lemma : forall fuel sch tp hl ex bs ql acts cs,
  let s1 := fst (fst (run_calls_top fuel (init_st sch tp hl ex bs ql acts) cs [])) in
  actions s1 = skipn (length (tr_hlog (run fuel (init_st sch tp hl ex bs ql acts) cs))) acts.
Proof.
  intros fuel sch tp hl ex bs ql acts cs s1.
  assert (Ha : aligned acts (init_st sch tp hl ex bs ql acts)) by reflexivity.
  pose proof (run_calls_top_aligned acts fuel cs _ [] Ha) as H.
  unfold run. fold s1 in H.
  destruct (run_calls_top fuel (init_st sch tp hl ex bs ql acts) cs []) as [[s1' obs] ok] eqn:E.
  simpl in s1. subst s1. simpl. rewrite rev_length. exact H.
Qed.

(* ================================================================== *)
(* 19. every transition of a live machine is traced exactly once       *)
(* ================================================================== *)

Lemma neg_phase_txs : forall s mu s1 t1 nr s2 t1' c3,
  rt_neg s mu = (s1, t1, nr) -> rt_anyenter s mu s1 t1 nr = (s2, t1', c3) ->
  txs s2 = txs s.
Proof.
  intros s mu s1 t1 nr s2 t1' c3 Hn Ha.
  destruct (neg_phase_frame _ _ _ _ _ _ _ _ Hn Ha) as [[_ [_ M3]] _]. exact M3.
Qed.

Lemma run_tx_record_lemma : forall s mu s' r,
  crashed s = false -> loop_dead s = false -> hung s = false ->
  run_tx s mu = (s', r) ->
  exists rec, txs s' = rec :: txs s /\
    tx_type rec = mu_type mu /\ tx_called rec = mu_called mu /\ tx_auto rec = mu_auto mu /\
    tx_check rec = mu_check mu /\ tx_qtick rec = mu_qtick mu /\
    tx_hfrom rec = length (hlog s) /\ tx_hto rec = length (hlog s') /\
    tx_mach_after rec = clock s'.
Proof.
  intros s mu s' r Hc Hl Hh Hr.
  assert (Hfl : flags_ok s') by
    (pose proof (run_tx_flags_lemma s mu (conj Hc (conj Hl Hh))) as X; rewrite Hr in X; exact X).
  destruct Hfl as [Fc [_ Fh]].
  apply run_tx_inv in Hr.
  destruct Hr as [s1 t1 Hn
                 |s1 t1 nr Hn Hnc Hh1
                 |s1 t1 nr s2 t1' c3 Hn Hnc Hh1 Ha Hh2
                 |s1 t1 nr s2 t1' c3 Hn Hnc Hh1 Ha Hh2 Hck'
                 |s1 t1 nr s2 t1' Hn Hnc Hh1 Ha Hh2 Hck'
                 |s1 t1 nr s2 t1' s4 t3 fc Hn Hnc Hh1 Ha Hh2 Hck' Hf Hh4
                 |s1 t1 nr s2 t1' s4 t3 fc s5 t4 fc2 Hn Hnc Hh1 Ha Hh2 Hck' Hf Hh4 Hs Hh5
                 |s1 t1 nr s2 t1' s4 t3 fc s5 t4 fc2 Hn Hnc Hh1 Ha Hh2 Hck' Hf Hh4 Hs Hh5].
  - simpl in Fc. discriminate.
  - congruence.
  - congruence.
  - pose proof (neg_phase_txs _ _ _ _ _ _ _ _ Hn Ha) as Htx.
    eexists. split; [simpl; rewrite Htx; reflexivity|].
    simpl. rewrite Hck'. repeat split.
  - pose proof (neg_phase_txs _ _ _ _ _ _ _ _ Hn Ha) as Htx.
    eexists. split; [simpl; rewrite Htx; reflexivity|].
    simpl. rewrite Hck'. repeat split.
  - congruence.
  - congruence.
  - pose proof (apply_path_txs _ _ _ _ _ _ _ _ _ _ _ _ _ _ _ Hn Ha Hf Hs) as Htx5.
    assert (Htx6 : txs (rt_s6 mu s4 t3 s5 fc2) = txs s).
    { unfold rt_s6. destruct (_ && _ && _ && _); [|exact Htx5].
      unfold prepend_auto. destruct (auto_candidates (sc s5) (active s5)); exact Htx5. }
    eexists. split; [simpl; rewrite Htx6; reflexivity|].
    simpl. rewrite Hck'. repeat split.
Qed.

(* ================================================================== *)
(* 20. lift (1): the range invariant and parity over whole runs        *)
(* ================================================================== *)

Definition states_in_range (sch : schema) (l : list nat) : bool :=
  forallb (fun x => x <? length sch) l.
Definition calls_in_range (sch : schema) (cs : list api_call) : bool :=
  forallb (fun c => states_in_range sch (ac_states c)) cs.
Definition actions_in_range (sch : schema) (acts : list haction) : bool :=
  forallb (fun a => calls_in_range sch (ha_calls a)) acts.
Definition queue_in_range (sch : schema) (q : list mutation) : bool :=
  forallb (fun mu => states_in_range sch (mu_called mu)) q.

Lemma states_in_range_iff : forall sch l,
  states_in_range sch l = true <-> (forall x, In x l -> x < length sch).
Proof.
  intros sch l. unfold states_in_range. rewrite forallb_forall. split.
  - intros H x Hx. apply Nat.ltb_lt. apply H. exact Hx.
  - intros H x Hx. apply Nat.ltb_lt. apply H. exact Hx.
Qed.

Lemma states_in_range_uniq : forall sch l,
  states_in_range sch l = true -> states_in_range sch (uniq l) = true.
Proof.
  intros sch l H. apply states_in_range_iff. intros x Hx. rewrite uniq_In in Hx.
  rewrite states_in_range_iff in H. apply H. exact Hx.
Qed.

Section RangeInv.
  Variable sch : schema.
  Variable ex : nat.
  Hypothesis ex_in_range : ex < length sch.

  (* static fields and everything that will ever be called is in range *)
  Definition QR (s : st) : Prop :=
    sc s = sch /\ exc s = ex /\ queue_in_range sch (queue s) = true
    /\ actions_in_range sch (actions s) = true.

  Lemma QR_same : forall s s', QR s -> sc s' = sc s -> exc s' = exc s ->
    queue s' = queue s -> actions s' = actions s -> QR s'.
  Proof.
    intros s s' [H1 [H2 [H3 H4]]] A B C D. unfold QR. rewrite A, B, C, D.
    repeat split; assumption.
  Qed.

  Lemma queue_mutation_QR : forall s mt states args,
    QR s -> states_in_range sch states = true ->
    QR (fst (queue_mutation s mt states args)).
  Proof.
    intros s mt states args HQ Hr. unfold queue_mutation.
    destruct (negb _ && negb args && is_dup _ _ _); simpl; [exact HQ|].
    destruct HQ as [H1 [H2 [H3 H4]]]. unfold QR. simpl.
    repeat split; try assumption.
    unfold queue_in_range in *. rewrite forallb_app, H3. simpl.
    rewrite states_in_range_uniq by exact Hr. reflexivity.
  Qed.

  Lemma prepend_mut_QR : forall s mu,
    QR s -> states_in_range sch (mu_called mu) = true -> QR (prepend_mut s mu).
  Proof.
    intros s mu [H1 [H2 [H3 H4]]] Hr. unfold QR, prepend_mut. simpl.
    repeat split; try assumption. rewrite Hr. exact H3.
  Qed.

  Lemma nested_add_QR : forall s states args,
    QR s -> states_in_range sch states = true -> QR (fst (nested_add s states args)).
  Proof.
    intros s states args HQ Hr. unfold nested_add.
    destruct (limit_hit s && _); [exact HQ|].
    pose proof (queue_mutation_QR s MAdd states args HQ Hr) as H.
    destruct (queue_mutation s MAdd states args) as [s1 tick]. simpl in H.
    destruct (tick =? 0)%N; exact H.
  Qed.

  Lemma nested_remove_QR : forall s states args,
    QR s -> states_in_range sch states = true -> QR (fst (nested_remove s states args)).
  Proof.
    intros s states args HQ Hr. unfold nested_remove.
    destruct (limit_hit s && _); [exact HQ|].
    destruct (Nat.eqb _ 0 && _); [exact HQ|].
    pose proof (queue_mutation_QR s MRemove states args HQ Hr) as H.
    destruct (queue_mutation s MRemove states args) as [s1 tick]. simpl in H.
    destruct (tick =? 0)%N; exact H.
  Qed.

  Lemma nested_set_QR : forall s states args,
    QR s -> states_in_range sch states = true -> QR (fst (nested_set s states args)).
  Proof.
    intros s states args HQ Hr. unfold nested_set.
    destruct (limit_hit s); [exact HQ|].
    pose proof (queue_mutation_QR s MSet states args HQ Hr) as H.
    destruct (queue_mutation s MSet states args) as [s1 tick]. simpl in H.
    destruct (tick =? 0)%N; exact H.
  Qed.

  Lemma exc_pair_in_range : forall s, QR s -> states_in_range sch [exc s; exc s] = true.
  Proof.
    intros s [_ [H2 _]]. rewrite H2. apply states_in_range_iff.
    intros x [Hx|[Hx|[]]]; subst x; exact ex_in_range.
  Qed.

  Lemma nested_api_QR : forall s c,
    QR s -> states_in_range sch (ac_states c) = true -> QR (fst (nested_api s c)).
  Proof.
    intros s c HQ Hr. unfold nested_api. destruct (ac_kind c).
    - apply nested_add_QR; assumption.
    - apply nested_remove_QR; assumption.
    - apply nested_set_QR; assumption.
    - destruct (mach_is s (ac_states c)); [apply nested_remove_QR | apply nested_add_QR];
        assumption.
    - destruct (limit_hit s); [exact HQ|].
      apply nested_add_QR.
      + eapply QR_same; [exact HQ| | | |]; reflexivity.
      + apply (exc_pair_in_range s HQ).
    - apply prepend_mut_QR; [exact HQ | exact Hr].
    - apply prepend_mut_QR; [exact HQ | exact Hr].
  Qed.

  Lemma run_calls_QR : forall cs s,
    QR s -> calls_in_range sch cs = true -> QR (fst (run_calls s cs)).
  Proof.
    induction cs as [|c r IH]; intros s HQ Hr; simpl; [exact HQ|].
    simpl in Hr. apply andb_true_iff in Hr. destruct Hr as [Hc Hr].
    pose proof (nested_api_QR s c HQ Hc) as H1.
    destruct (nested_api s c) as [s1 res]. simpl in H1.
    pose proof (IH s1 H1 Hr) as H2.
    destruct (run_calls s1 r) as [s2 rs]. exact H2.
  Qed.

  Lemma recover_to_err_QR : forall s t k, QR s -> QR (recover_to_err s t k).
  Proof.
    intros s t k HQ. unfold recover_to_err.
    destruct (mem (exc s) _); [exact HQ|].
    assert (Hr : states_in_range sch [exc s] = true).
    { destruct HQ as [_ [H2 _]]. rewrite H2. apply states_in_range_iff.
      intros x [Hx|[]]; subst x; exact ex_in_range. }
    destruct (is_final_key k).
    - apply prepend_mut_QR; [|exact Hr].
      eapply QR_same; [exact HQ| | | |]; reflexivity.
    - apply prepend_mut_QR; [|exact Hr].
      eapply QR_same; [exact HQ| | | |]; reflexivity.
  Qed.

  Lemma actions_hd_tl_range : forall acts,
    actions_in_range sch acts = true ->
    calls_in_range sch (ha_calls (hd default_action acts)) = true /\
    actions_in_range sch (tl acts) = true.
  Proof.
    intros acts H. destruct acts as [|a r]; simpl in *; [split; reflexivity|].
    apply andb_true_iff in H. exact H.
  Qed.

  Lemma call_bindings_QR : forall bs s t k bi caught inv s1 r,
    QR s -> call_bindings s t k bs bi caught inv = (s1, r) -> QR s1.
  Proof.
    induction bs as [|b rest IH]; intros s t k bi caught inv s1 r HQ Hcb; simpl in Hcb.
    - inversion Hcb; subst. exact HQ.
    - destruct (existsb (hkey_eqb k) b); [|eapply IH; eassumption].
      destruct (loop_dead s).
      { inversion Hcb; subst. eapply QR_same; [exact HQ| | | |]; reflexivity. }
      destruct inv.
      { destruct (is_final_key k); [eapply IH; eassumption|].
        inversion Hcb; subst. exact HQ. }
      destruct (actions_hd_tl_range (actions s)) as [Hhd Htl];
        [destruct HQ as [_ [_ [_ H4]]]; exact H4|].
      assert (HQ0 : QR (set_actions s (tl (actions s)))).
      { destruct HQ as [H1 [H2 [H3 _]]]. unfold QR. simpl. repeat split; assumption. }
      pose proof (run_calls_QR (ha_calls (hd default_action (actions s))) _ HQ0 Hhd) as Hrc.
      destruct (run_calls (set_actions s (tl (actions s)))
                  (ha_calls (hd default_action (actions s)))) as [s1' rs].
      simpl fst in Hrc.
      match type of Hcb with context [set_hlog s1' (?e0 :: hlog s1')] =>
        set (s2 := set_hlog s1' (e0 :: hlog s1')) in * end.
      assert (HQ2 : QR s2) by (eapply QR_same; [exact Hrc| | | |]; reflexivity).
      destruct (ha_fault (hd default_action (actions s))).
      + destruct (negb (is_final_key k) && negb (ha_ret (hd default_action (actions s)))).
        * inversion Hcb; subst. exact HQ2.
        * eapply IH; eassumption.
      + pose proof (recover_to_err_QR s2 t k HQ2) as HQ3.
        destruct (is_final_key k).
        * eapply IH; eassumption.
        * inversion Hcb; subst. exact HQ3.
      + inversion Hcb; subst. exact HQ2.
  Qed.

  Lemma handle_QR : forall s t k s1 t1 ok, QR s -> handle s t k = (s1, t1, ok) -> QR s1.
  Proof.
    intros s t k s1 t1 ok HQ Hh. unfold handle in Hh.
    destruct (call_bindings s t k (bindings s) 0 false (t_invalid t)) as [s' r] eqn:E.
    inversion Hh; subst. eapply call_bindings_QR; eassumption.
  Qed.

  Lemma prepend_auto_QR : forall s, QR s -> QR (prepend_auto s).
  Proof.
    intros s HQ. unfold prepend_auto.
    destruct (auto_candidates (sc s) (active s)) as [|a l] eqn:Ea; [exact HQ|].
    apply prepend_mut_QR; [exact HQ|]. simpl mu_called. rewrite <- Ea.
    apply states_in_range_iff. intros x Hx. apply c11a_auto_candidates_In in Hx.
    destruct HQ as [H1 _]. rewrite <- H1. tauto.
  Qed.

  Lemma run_tx_QR : forall s mu, QR s -> QR (fst (run_tx s mu)).
  Proof.
    intros s mu HQ. destruct (run_tx s mu) as [s' r] eqn:E. simpl.
    destruct (run_tx_P (fun x _ => QR x)) with (s := s) (mu := mu) (s' := s') (r := r)
      as [_ HP]; try assumption.
    - intros x t k x1 t1 ok _ HP Hh. eapply handle_QR; eassumption.
    - intros x t k x1 t1 ok _ HP Hh. eapply handle_QR; eassumption.
    - intros x t tg HP; exact HP.
    - intros x t a b c HP; exact HP.
    - intros x t e HP. eapply QR_same; [exact HP| | | |]; reflexivity.
    - intros x t r0 HP. eapply QR_same; [exact HP| | | |]; reflexivity.
    - intros x t cl ac HP. eapply QR_same; [exact HP| | | |]; reflexivity.
    - intros x t k HP. eapply QR_same; [exact HP| | | |]; reflexivity.
    - intros x t HP _. apply prepend_auto_QR. exact HP.
  Qed.

  Hypothesis refs : refs_ok sch = true.

  (* the whole well-formedness kept by a run *)
  Definition WF (s : st) : Prop :=
    QR s /\ parity_ok (clock s) (active s) = true /\ NoDup (active s)
    /\ length (clock s) = length sch.

  Lemma WF_same_mach : forall s s', WF s -> QR s' ->
    clock s' = clock s -> active s' = active s -> WF s'.
  Proof.
    intros s s' [_ [H2 [H3 H4]]] HQ A B. unfold WF. rewrite A, B.
    split; [exact HQ|]. split; [exact H2|]. split; [exact H3 | exact H4].
  Qed.

  Lemma run_tx_WF : forall s mu,
    WF s -> states_in_range sch (mu_called mu) = true -> WF (fst (run_tx s mu)).
  Proof.
    intros s mu [HQ [H2 [H3 H4]]] Hr.
    pose proof (run_tx_QR s mu HQ) as HQ'.
    pose proof HQ as [Hsc _].
    destruct (fault_parity_step_lemma s mu) as [P1 [P2 [P3 _]]]; try assumption.
    - rewrite Hsc. exact refs.
    - rewrite Hsc. exact H4.
    - rewrite Hsc. apply states_in_range_iff. exact Hr.
    - split; [exact HQ'|]. split; [exact P1|]. split; [exact P2|]. congruence.
  Qed.

  Lemma drain_WF : forall fuel s first, WF s -> WF (fst (fst (drain fuel s first))).
  Proof.
    induction fuel as [|f IH]; intros s first HW; simpl; [exact HW|].
    destruct (crashed s || hung s); [exact HW|].
    destruct (queue s) as [|mu rest] eqn:Eq.
    { eapply WF_same_mach; [exact HW| | |]; try reflexivity.
      destruct HW as [HQ _]. eapply QR_same; [exact HQ| | | |]; reflexivity. }
    match goal with |- context [run_tx ?x mu] => set (s1 := x) end.
    assert (Hmu : states_in_range sch (mu_called mu) = true /\
                  queue_in_range sch rest = true).
    { destruct HW as [[_ [_ [H3 _]]] _]. rewrite Eq in H3. simpl in H3.
      apply andb_true_iff in H3. exact H3. }
    destruct Hmu as [Hmu Hrest].
    assert (HW1 : WF s1).
    { assert (HQ1 : QR s1).
      { destruct HW as [[A [B [_ D]]] _]. unfold s1.
        destruct (0 <? mu_qtick mu)%N; unfold QR; simpl; repeat split; assumption. }
      eapply WF_same_mach; [exact HW | exact HQ1 | |];
        unfold s1; destruct (0 <? mu_qtick mu)%N; reflexivity. }
    pose proof (run_tx_WF s1 mu HW1 Hmu) as HW2.
    destruct (run_tx s1 mu) as [s2 r]. simpl in HW2.
    apply IH. exact HW2.
  Qed.

  Lemma process_queue_WF : forall fuel s, WF s -> WF (fst (fst (process_queue fuel s))).
  Proof.
    intros fuel s HW. unfold process_queue.
    destruct (queue s); [exact HW|].
    pose proof (drain_WF fuel s None HW) as H.
    destruct (drain fuel s None) as [[s1 first] ok]. exact H.
  Qed.

  Lemma queue_mutation_WF : forall s mt states args,
    WF s -> states_in_range sch states = true -> WF (fst (queue_mutation s mt states args)).
  Proof.
    intros s mt states args HW Hr.
    pose proof (queue_mutation_core s mt states args) as [_ [_ [_ [Hc [Ha _]]]]].
    eapply WF_same_mach; [exact HW | | exact Hc | exact Ha].
    apply queue_mutation_QR; [destruct HW as [HQ _]; exact HQ | exact Hr].
  Qed.

  Lemma top_mutation_WF : forall fuel s mt states args,
    WF s -> states_in_range sch states = true ->
    WF (fst (fst (top_mutation fuel s mt states args))).
  Proof.
    intros fuel s mt states args HW Hr. unfold top_mutation.
    pose proof (queue_mutation_WF s mt states args HW Hr) as H1.
    destruct (queue_mutation s mt states args) as [s1 tick]. simpl in H1.
    destruct (tick =? 0)%N; [exact H1|].
    pose proof (process_queue_WF fuel s1 H1) as H.
    destruct (process_queue fuel s1) as [[s2 r] ok]. exact H.
  Qed.

  Lemma prepend_mut_WF : forall s mu,
    WF s -> states_in_range sch (mu_called mu) = true -> WF (prepend_mut s mu).
  Proof.
    intros s mu HW Hr. eapply WF_same_mach; [exact HW | | reflexivity | reflexivity].
    apply prepend_mut_QR; [destruct HW as [HQ _]; exact HQ | exact Hr].
  Qed.

  Lemma top_api_WF : forall fuel s c,
    WF s -> states_in_range sch (ac_states c) = true -> WF (fst (fst (top_api fuel s c))).
  Proof.
    intros fuel s c HW Hr. unfold top_api, top_add, top_remove. destruct (ac_kind c).
    - destruct (limit_hit s && _); [exact HW | apply top_mutation_WF; assumption].
    - destruct (limit_hit s && _); [exact HW | apply top_mutation_WF; assumption].
    - destruct (limit_hit s); [exact HW | apply top_mutation_WF; assumption].
    - destruct (mach_is s (ac_states c)).
      + destruct (limit_hit s && _); [exact HW | apply top_mutation_WF; assumption].
      + destruct (limit_hit s && _); [exact HW | apply top_mutation_WF; assumption].
    - destruct (limit_hit s); [exact HW|].
      assert (HW1 : WF (set_fault_flags s (loop_dead s) (hung s) 1)).
      { eapply WF_same_mach; [exact HW| | |]; try reflexivity.
        destruct HW as [HQ _]. eapply QR_same; [exact HQ| | | |]; reflexivity. }
      match goal with |- context [if ?b then _ else _] => destruct b end; [exact HW1|].
      apply top_mutation_WF; [exact HW1|].
      destruct HW as [HQ _]. apply (exc_pair_in_range s HQ).
    - apply process_queue_WF. apply prepend_mut_WF; [exact HW | exact Hr].
    - apply process_queue_WF. apply prepend_mut_WF; [exact HW | exact Hr].
  Qed.

  Lemma run_calls_top_WF : forall fuel cs s acc,
    WF s -> calls_in_range sch cs = true ->
    Forall (fun c => parity_ok (co_time c) (co_active c) = true) acc ->
    WF (fst (fst (run_calls_top fuel s cs acc))) /\
    Forall (fun c => parity_ok (co_time c) (co_active c) = true)
           (snd (fst (run_calls_top fuel s cs acc))).
  Proof.
    intros fuel cs. induction cs as [|c r IH]; intros s acc HW Hr Hacc; simpl.
    - split; [exact HW|]. apply Forall_rev. exact Hacc.
    - simpl in Hr. apply andb_true_iff in Hr. destruct Hr as [Hc Hr].
      destruct (crashed s || hung s); [split; [exact HW | apply Forall_rev; exact Hacc]|].
      pose proof (top_api_WF fuel s c HW Hc) as H1.
      destruct (top_api fuel s c) as [[s1 res] ok]. simpl in H1.
      destruct (crashed s1 || hung s1); [split; [exact H1 | apply Forall_rev; exact Hacc]|].
      assert (Hacc' : Forall (fun c0 => parity_ok (co_time c0) (co_active c0) = true)
                ({| co_result := res; co_time := clock s1; co_active := active s1;
                    co_qtick := qtick s1; co_ntx := length (txs s1);
                    co_err := err_code s1 |} :: acc)).
      { constructor; [|exact Hacc]. simpl. destruct H1 as [_ [P _]]. exact P. }
      destruct ok.
      + apply IH; assumption.
      + split; [exact H1 | exact (Forall_rev Hacc')].
  Qed.
End RangeInv.

Lemma init_st_WF : forall sch tp hl ex bs ql acts,
  actions_in_range sch acts = true ->
  WF sch ex (init_st sch tp hl ex bs ql acts).
Proof.
  intros sch tp hl ex bs ql acts Ha. unfold WF, QR. simpl.
  repeat split; try assumption; try constructor.
  - apply parity_ok_iff. rewrite map_length. split; [|intros a []].
    intros j Hj. simpl. 
    assert (Hn : nth j (map (fun _ : sdef => 0%N) sch) 0%N = 0%N).
    { clear. revert j. induction sch as [|d r IH]; intros j; destruct j; simpl; auto. }
    rewrite Hn. reflexivity.
  - apply map_length.
Qed.

(* (1) code 80 never occurs *)
Lemma run_parity_lemma : forall fuel sch tp hl ex bs ql acts cs,
  refs_ok sch = true -> ex < length sch ->
  calls_in_range sch cs = true -> actions_in_range sch acts = true ->
  forallb (fun c => parity_ok (co_time c) (co_active c))
          (tr_calls (run fuel (init_st sch tp hl ex bs ql acts) cs)) = true.
Proof.
  intros fuel sch tp hl ex bs ql acts cs Hrefs Hex Hcs Hacts.
  destruct (run_calls_top_WF sch ex Hex Hrefs fuel cs (init_st sch tp hl ex bs ql acts) [])
    as [_ Hobs]; [apply init_st_WF; exact Hacts | exact Hcs | constructor |].
  unfold run.
  destruct (run_calls_top fuel (init_st sch tp hl ex bs ql acts) cs []) as [[s1 obs] ok].
  simpl in *. apply forallb_forall. rewrite Forall_forall in Hobs. exact Hobs.
Qed.

(* ================================================================== *)
(* 21. lift (2): the per-record clauses of Spec/C08.v over whole runs  *)
(* ================================================================== *)

(* ---- list facts: slices of an indexed log ---- *)

Lemma combine_seq_app : forall (A : Type) (l1 l2 : list A) a,
  combine (seq a (length l1 + length l2)) (l1 ++ l2)
  = combine (seq a (length l1)) l1 ++ combine (seq (a + length l1) (length l2)) l2.
Proof.
  intros A l1. induction l1 as [|x r IH]; intros l2 a; simpl.
  - rewrite Nat.add_0_r. reflexivity.
  - f_equal. rewrite IH. f_equal. f_equal. f_equal. lia.
Qed.

Lemma combine_seq_length : forall (A : Type) (l : list A) a,
  length (combine (seq a (length l)) l) = length l.
Proof. intros A l a. rewrite combine_length, seq_length. apply Nat.min_id. Qed.

Lemma tx_entries_stable : forall hl more t,
  tx_hto t <= length hl -> tx_entries (hl ++ more) t = tx_entries hl t.
Proof.
  intros hl more t Hto. unfold tx_entries, slice.
  rewrite app_length, combine_seq_app.
  set (A := combine (seq 0 (length hl)) hl).
  set (B := combine (seq (0 + length hl) (length more)) more).
  assert (HA : length A = length hl) by apply combine_seq_length.
  rewrite skipn_app, firstn_app.
  replace (tx_hto t - tx_hfrom t - length (skipn (tx_hfrom t) A)) with 0
    by (rewrite skipn_length; lia).
  simpl. apply app_nil_r.
Qed.

Lemma tx_entries_new : forall hl ents t,
  tx_hfrom t = length hl -> tx_hto t = length hl + length ents ->
  tx_entries (hl ++ ents) t = combine (seq (length hl) (length ents)) ents.
Proof.
  intros hl ents t Hf Ht. unfold tx_entries, slice.
  rewrite app_length, combine_seq_app.
  set (A := combine (seq 0 (length hl)) hl).
  assert (HA : length A = length hl) by apply combine_seq_length.
  rewrite Hf, Ht, skipn_app, <- HA, skipn_all, Nat.sub_diag. simpl.
  replace (length A + length ents - length A) with (length ents) by lia.
  rewrite HA. apply firstn_all2. rewrite combine_seq_length. lia.
Qed.

Lemma find_combine_seq : forall (A : Type) (q : nat -> bool) (l : list A) a i h,
  find (fun e => q (fst e)) (combine (seq a (length l)) l) = Some (i, h) ->
  exists j, i = a + j /\ nth_error l j = Some h /\ q (a + j) = true /\
            forall j', j' < j -> q (a + j') = false.
Proof.
  intros A q l. induction l as [|x r IH]; intros a i h Hf; simpl in Hf; [discriminate|].
  destruct (q a) eqn:Eq.
  - inversion Hf; subst. exists 0. rewrite Nat.add_0_r.
    split; [reflexivity|]. split; [reflexivity|]. split; [exact Eq | intros j' Hj'; lia].
  - apply IH in Hf. destruct Hf as [j [Hi [Hn [Hq Hfirst]]]].
    exists (S j). split; [lia|]. split; [exact Hn|].
    split; [replace (a + S j) with (S a + j) by lia; exact Hq|].
    intros j' Hj'. destruct j' as [|j'']; [rewrite Nat.add_0_r; exact Eq|].
    replace (a + S j'') with (S a + j'') by lia. apply Hfirst. lia.
Qed.

Lemma existsb_combine_seq : forall (A : Type) (q : nat -> bool) (l : list A) a,
  existsb (fun e => q (fst e)) (combine (seq a (length l)) l) = true ->
  exists j, j < length l /\ q (a + j) = true.
Proof.
  intros A q l. induction l as [|x r IH]; intros a He; simpl in He; [discriminate|].
  apply orb_true_iff in He. destruct He as [He|He].
  - exists 0. rewrite Nat.add_0_r. split; [simpl; lia | exact He].
  - apply IH in He. destruct He as [j [Hj Hq]]. exists (S j).
    split; [simpl; lia|]. replace (a + S j) with (S a + j) by lia. exact Hq.
Qed.

Lemma nth_skipn_add : forall (A : Type) (d : A) a j (l : list A),
  nth (a + j) l d = nth j (skipn a l) d.
Proof.
  intros A d a. induction a as [|a IH]; intros j l; [reflexivity|].
  destruct l as [|x r]; [destruct j; reflexivity|]. simpl. apply IH.
Qed.

Lemma clock_eqb_refl : forall c, clock_eqb c c = true.
Proof.
  induction c as [|x r IH]; simpl; [reflexivity|]. rewrite N.eqb_refl. exact IH.
Qed.

Lemma set_eqb_ext : forall a b, (forall z, In z a <-> In z b) -> set_eqb a b = true.
Proof.
  intros a b H. unfold set_eqb, every. apply andb_true_iff.
  split; apply forallb_forall; intros x Hx; apply mem_In; apply H; exact Hx.
Qed.

Lemma active_of_clock_In : forall cl act,
  parity_ok cl act = true -> forall z, In z (active_of_clock cl) <-> In z act.
Proof.
  intros cl act Hp z. apply parity_ok_iff in Hp. destruct Hp as [Hodd Hr].
  unfold active_of_clock. rewrite filter_In, in_seq. split.
  - intros [[_ Hz] Ho]. simpl in Hz. rewrite (Hodd z Hz) in Ho. apply mem_In. exact Ho.
  - intros Hz. pose proof (Hr z Hz) as Hlt. split; [simpl; lia|].
    rewrite (Hodd z Hlt). apply mem_In. exact Hz.
Qed.

(* ---- tx_fault_codes, cut in the part that looks at the next record
        (code 84) and the part that does not (86, 89x) ---- *)

Definition is_exc_rec (ex : nat) (n : txrec) : bool :=
  mut_type_eqb (tx_type n) MAdd && list_eqb (tx_called n) [ex]
  && negb (tx_auto n) && N.eqb (tx_qtick n) 0.

Definition is_exc_mut (ex : nat) (m : mutation) : bool :=
  mut_type_eqb (mu_type m) MAdd && list_eqb (mu_called m) [ex]
  && negb (mu_auto m) && N.eqb (mu_qtick m) 0.

Definition needs_exc_es (ex : nat) (acts : list haction) (es : list (nat * hlentry))
  (t : txrec) : bool :=
  match first_fault acts es with
  | None => false
  | Some _ => existsb (fun e => is_panic (fault_at acts (fst e))) es
              && negb (mem ex (tx_called t))
  end.

Definition codesB_es (sc : schema) (topo : list nat) (acts : list haction)
  (es : list (nat * hlentry)) (t : txrec) : list N :=
  match first_fault acts es with
  | None => []
  | Some (j, h) =>
    let k := hl_key h in
    if negb (is_final_key k) then
      if tx_auto t then []
      else if negb (tx_accepted t) && clock_eqb (tx_before t) (tx_mach_after t) then []
           else [86%N]
    else
      let before := tx_active_before t in
      let exits := sort_states sc topo (diff before (tx_target t)) in
      let enters := filter (fun x => negb (mem x before)
                              || (s_multi (sget sc x) && mem x (tx_called t))) (tx_target t) in
      let ambiguous := filter (fun x => mem x before) enters in
      let expected :=
        match k with
        | HState x => diff (tx_target t) (from_state x enters)
        | HEnd x => diff (tx_target t) enters ++ from_state x exits
        | _ => tx_target t
        end in
      if set_eqb (diff expected ambiguous)
                 (diff (active_of_clock (tx_mach_after t)) ambiguous) then []
      else match k with HState _ => [890%N] | HEnd _ => [891%N] | _ => [892%N] end
  end.

Lemma tx_fault_codes_split : forall sc topo ex acts hl t next,
  tx_fault_codes sc topo ex acts hl t next
  = (if needs_exc_es ex acts (tx_entries hl t) t then
       match next with
       | Some n => if is_exc_rec ex n then [] else [84%N]
       | None => [84%N]
       end
     else [])
    ++ codesB_es sc topo acts (tx_entries hl t) t.
Proof.
  intros sc topo ex acts hl t next.
  unfold tx_fault_codes, needs_exc_es, codesB_es, is_exc_rec.
  destruct (first_fault acts (tx_entries hl t)) as [[j h]|]; reflexivity.
Qed.

Lemma list_eqb_refl : forall l, list_eqb l l = true.
Proof. induction l as [|x r IH]; simpl; [reflexivity|]. rewrite Nat.eqb_refl. exact IH. Qed.

Lemma is_exc_mut_exc_mut : forall ex, is_exc_mut ex (exc_mut ex) = true.
Proof. intros ex. unfold is_exc_mut, exc_mut. simpl. rewrite Nat.eqb_refl. reflexivity. Qed.

(* ---- one transition: its record passes the clauses 86 / 89x, and a panic
        that asks for Exception leaves it at the front of the queue ---- *)

Section RecStep.
  Variable sch : schema.
  Variable tp : list nat.
  Variable ex : nat.
  Variable acts0 : list haction.
  Hypothesis ex_in_range : ex < length sch.
  Hypothesis refs : refs_ok sch = true.

  Lemma run_tx_rec_codes : forall s mu s' r,
    flags_ok s -> aligned acts0 s -> topo s = tp -> WF sch ex s ->
    states_in_range sch (mu_called mu) = true ->
    run_tx s mu = (s', r) ->
    exists rec, txs s' = rec :: txs s /\
      (is_exc_mut ex mu = true -> is_exc_rec ex rec = true) /\
      tx_hto rec = length (hlog s') /\
      codesB_es sch tp acts0 (tx_entries (rev (hlog s')) rec) rec = [] /\
      (needs_exc_es ex acts0 (tx_entries (rev (hlog s')) rec) rec = true ->
       hd_error (queue s') = Some (exc_mut ex)).
  Proof.
    intros s mu s' r [F1 [F2 F3]] Hal Htopo HW Hmu Hr.
    destruct HW as [[Hsc [Hexc _]] [Hpar [Hnd Hlen]]].
    destruct (run_tx_record_lemma s mu s' r F1 F2 F3 Hr)
      as [rec [Htx [Rty [Rcalled [Rauto [Rcheck [Rq [Rfrom [Rto Rmach]]]]]]]]].
    destruct (run_tx_book_gen s mu s' r Hr) as [ents [B1 B2]].
    assert (Hchron : rev (hlog s') = rev (hlog s) ++ ents).
    { rewrite B1, rev_app_distr, rev_involutive. reflexivity. }
    set (a := length (hlog s)).
    assert (Hes : tx_entries (rev (hlog s')) rec = combine (seq a (length ents)) ents).
    { rewrite Hchron. unfold a. rewrite <- (rev_length (hlog s)). apply tx_entries_new.
      - rewrite rev_length. exact Rfrom.
      - rewrite Rto, B1, app_length, !rev_length. lia. }
    assert (Hfa : forall j, fault_at acts0 (a + j) = fault_at (actions s) j).
    { intros j. unfold fault_at, a. rewrite nth_skipn_add. unfold aligned in Hal.
      rewrite <- Hal. reflexivity. }
    assert (Hents : forall ents', hlog s' = rev ents' ++ hlog s -> ents' = ents).
    { intros ents' H'. rewrite B1 in H'. apply app_inv_tail in H'. apply rev_inj in H'.
      symmetry. exact H'. }
    assert (Hrec : forall rec', txs s' = rec' :: txs s -> rec' = rec).
    { intros rec' H'. rewrite Htx in H'. inversion H'. reflexivity. }
    exists rec. split; [exact Htx|]. split.
    { unfold is_exc_mut, is_exc_rec. rewrite Rty, Rcalled, Rauto, Rq. intros H; exact H. }
    split; [exact Rto|]. split.
    - (* clauses 86 / 89x *)
      rewrite Hes. unfold codesB_es.
      destruct (first_fault acts0 (combine (seq a (length ents)) ents)) as [[i h]|] eqn:Eff;
        [|reflexivity].
      unfold first_fault in Eff.
      apply (find_combine_seq _ (fun i0 => is_fault (fault_at acts0 i0))) in Eff.
      destruct Eff as [j [Hi [Hnth [Hfault Hfirst]]]].
      rewrite Hfa in Hfault.
      cbv zeta. destruct (is_final_key (hl_key h)) eqn:Ek; cbn [negb].
      + (* the first fault is in a final handler: the rollback *)
        destruct (final_rollback_first_step_lemma s mu s' r F1 F2 F3 Hr)
          as [ents' [B1' [_ Hroll]]].
        apply Hents in B1'. subst ents'.
        assert (Hfirst' : forall j', j' < j -> fault_at (actions s) j' = FNone).
        { intros j' Hj'. specialize (Hfirst j' Hj'). rewrite Hfa in Hfirst.
          destruct (fault_at (actions s) j'); [reflexivity | discriminate | discriminate]. }
        destruct (Hroll j h Hnth Hfault Hfirst' Ek)
          as [_ [rec' [Htx' [_ [Rbef [_ [_ [_ Hm]]]]]]]].
        apply Hrec in Htx'. subst rec'.
        destruct (fault_parity_step_lemma s mu) as [P1 _]; try assumption.
        { rewrite Hsc. exact refs. }
        { rewrite Hsc. exact Hlen. }
        { rewrite Hsc. apply states_in_range_iff. exact Hmu. }
        rewrite Hr in P1. simpl fst in P1.
        rewrite Hsc, Htopo, <- Rbef, <- Rcalled in Hm.
        match goal with |- (if ?b then _ else _) = _ => assert (Hset : b = true) end.
        { apply set_eqb_ext. intros z. rewrite !diff_In, Rmach.
          rewrite (active_of_clock_In _ _ P1 z).
          destruct (hl_key h) as [x|x|x|b1 b2| |x|x|] eqn:Ekh; try discriminate Ek.
          - rewrite in_app_iff, diff_In, (Hm z). tauto.
          - rewrite diff_In, (Hm z). tauto.
          - rewrite (Hm z). tauto. }
        rewrite Hset. reflexivity.
      + (* the first fault is in the negotiation *)
        destruct (tx_auto rec) eqn:Eauto; [reflexivity|].
        assert (Hna : mu_auto mu = false) by congruence.
        destruct (negotiation_fault_no_change_gen_lemma s mu s' r F1 F2 F3 Hna Hr)
          as [ents' [B1' [_ Hneg]]].
        apply Hents in B1'. subst ents'.
        destruct Hneg as [_ [_ [_ [rec' [Htx' [Racc [Rb [Rm _]]]]]]]].
        { exists j, h. split; [exact Hnth|]. split; [exact Hfault | exact Ek]. }
        apply Hrec in Htx'. subst rec'.
        rewrite Racc, Rb, Rm, clock_eqb_refl. reflexivity.
    - (* code 84: the pending Add[Exception] *)
      rewrite Hes. unfold needs_exc_es.
      destruct (first_fault acts0 (combine (seq a (length ents)) ents)); [|discriminate].
      intros Hne. apply andb_true_iff in Hne. destruct Hne as [Hp Hm].
      apply (existsb_combine_seq _ (fun i0 => is_panic (fault_at acts0 i0))) in Hp.
      destruct Hp as [j [Hj Hp]]. rewrite Hfa in Hp.
      apply negb_true_iff in Hm. rewrite Rcalled, <- Hexc in Hm.
      destruct (panic_makes_exception_step_lemma s mu s' r F1 F2 F3 Hr Hm) as [Hq _].
      + exists j. split.
        * rewrite B1, app_length, rev_length. lia.
        * destruct (fault_at (actions s) j); [discriminate | reflexivity | discriminate].
      + rewrite Hq, Hexc. reflexivity.
  Qed.
End RecStep.

Lemma run_tx_topo : forall s mu, topo (fst (run_tx s mu)) = topo s.
Proof.
  intros s mu. destruct (run_tx s mu) as [s' r] eqn:E. simpl.
  destruct (run_tx_P (fun x _ => topo x = topo s)) with (s := s) (mu := mu) (s' := s') (r := r)
    as [_ HP]; try assumption; try reflexivity.
  - intros x t k x1 t1 ok _ HP Hh. apply handle_static in Hh. destruct Hh as [_ Ht]. congruence.
  - intros x t k x1 t1 ok _ HP Hh. apply handle_static in Hh. destruct Hh as [_ Ht]. congruence.
  - intros x t tg HP; exact HP.
  - intros x t a b c HP; exact HP.
  - intros x t e HP; exact HP.
  - intros x t r0 HP; exact HP.
  - intros x t cl ac HP; exact HP.
  - intros x t k HP; exact HP.
  - intros x t HP _. unfold prepend_auto.
    destruct (auto_candidates (sc x) (active x)); exact HP.
Qed.

(* ---- the records of a run, newest first ---- *)

Section RecInv.
  Variable sch : schema.
  Variable tp : list nat.
  Variable ex : nat.
  Variable acts0 : list haction.
  Hypothesis ex_in_range : ex < length sch.
  Hypothesis refs : refs_ok sch = true.

  (* [b]: the transition that follows the newest record is Add[Exception] *)
  Fixpoint recs_ok (hl : list hlentry) (l : list txrec) (b : bool) : Prop :=
    match l with
    | [] => True
    | t :: older =>
      tx_hto t <= length hl /\
      codesB_es sch tp acts0 (tx_entries hl t) t = [] /\
      (needs_exc_es ex acts0 (tx_entries hl t) t = true -> b = true) /\
      recs_ok hl older (is_exc_rec ex t)
    end.

  Lemma recs_ok_mono : forall hl l b b',
    recs_ok hl l b -> (b = true -> b' = true) -> recs_ok hl l b'.
  Proof.
    intros hl l b b' H Hb. destruct l as [|t older]; [exact I|].
    destruct H as [H1 [H2 [H3 H4]]]. simpl.
    split; [exact H1|]. split; [exact H2|]. split; [|exact H4].
    intros Hn. apply Hb. apply H3. exact Hn.
  Qed.

  Lemma recs_ok_grow : forall hl more l b,
    recs_ok hl l b -> recs_ok (hl ++ more) l b.
  Proof.
    intros hl more l. induction l as [|t older IH]; intros b H; [exact I|].
    destruct H as [H1 [H2 [H3 H4]]]. simpl.
    rewrite (tx_entries_stable hl more t H1).
    split; [rewrite app_length; lia|]. split; [exact H2|]. split; [exact H3|].
    apply IH. exact H4.
  Qed.

  Fixpoint codes_with (hl : list hlentry) (l : list txrec) (fn : option txrec) : list N :=
    match l with
    | [] => []
    | t :: r => tx_fault_codes sch tp ex acts0 hl t
                  (match r with [] => fn | n :: _ => Some n end)
                ++ codes_with hl r fn
    end.

  Lemma txs_fault_codes_with : forall hl l,
    txs_fault_codes sch tp ex acts0 hl l = codes_with hl l None.
  Proof.
    intros hl l. induction l as [|t r IH]; [reflexivity|].
    simpl. rewrite IH. destruct r; reflexivity.
  Qed.

  Lemma codes_with_snoc : forall hl l t fn,
    codes_with hl (l ++ [t]) fn
    = codes_with hl l (Some t) ++ tx_fault_codes sch tp ex acts0 hl t fn.
  Proof.
    intros hl l t fn. induction l as [|x r IH].
    - simpl. rewrite app_nil_r. reflexivity.
    - change ((x :: r) ++ [t]) with (x :: (r ++ [t])).
      cbn [codes_with]. rewrite IH, <- app_assoc. f_equal.
      destruct r; reflexivity.
  Qed.

  Lemma recs_codes : forall hl l b fn,
    recs_ok hl l b ->
    (b = true -> exists n, fn = Some n /\ is_exc_rec ex n = true) ->
    codes_with hl (rev l) fn = [].
  Proof.
    intros hl l. induction l as [|t older IH]; intros b fn H Hb; [reflexivity|].
    destruct H as [_ [H2 [H3 H4]]].
    change (rev (t :: older)) with (rev older ++ [t]). rewrite codes_with_snoc.
    rewrite (IH (is_exc_rec ex t) (Some t) H4).
    2:{ intros Ht. exists t. split; [reflexivity | exact Ht]. }
    rewrite tx_fault_codes_split, H2.
    destruct (needs_exc_es ex acts0 (tx_entries hl t) t) eqn:En; [|reflexivity].
    destruct (Hb (H3 eq_refl)) as [n [Hfn Hn]]. subst fn. rewrite Hn. reflexivity.
  Qed.

  Definition front_exc (s : st) : bool :=
    match queue s with m :: _ => is_exc_mut ex m | [] => false end.

  Definition GI (s : st) : Prop :=
    flags_ok s /\ aligned acts0 s /\ topo s = tp /\ WF sch ex s
    /\ recs_ok (rev (hlog s)) (txs s) (front_exc s).

  (* one transition popped from the queue *)
  Lemma run_tx_GI : forall s mu,
    flags_ok s -> aligned acts0 s -> topo s = tp -> WF sch ex s ->
    recs_ok (rev (hlog s)) (txs s) (is_exc_mut ex mu) ->
    states_in_range sch (mu_called mu) = true ->
    GI (fst (run_tx s mu)).
  Proof.
    intros s mu Hf Hal Htp HW Hrecs Hmu.
    pose proof (run_tx_flags_lemma s mu Hf) as Hf'.
    pose proof (run_tx_aligned acts0 s mu Hal) as Hal'.
    pose proof (run_tx_topo s mu) as Htp'.
    pose proof (run_tx_WF sch ex ex_in_range refs s mu HW Hmu) as HW'.
    destruct (run_tx s mu) as [s' r] eqn:Hr. simpl fst in *.
    split; [exact Hf'|]. split; [exact Hal'|]. split; [congruence|]. split; [exact HW'|].
    destruct (run_tx_rec_codes sch tp ex acts0 ex_in_range refs s mu s' r Hf Hal Htp HW Hmu Hr)
      as [rec [Htx [Hexc [Hto [HB HA]]]]].
    destruct (run_tx_book_gen s mu s' r Hr) as [ents [B1 _]].
    rewrite Htx. cbn [recs_ok].
    split; [rewrite rev_length; lia|]. split; [exact HB|]. split.
    - intros Hn. apply HA in Hn. unfold front_exc.
      destruct (queue s') as [|m q]; [discriminate|]. simpl in Hn. inversion Hn.
      apply is_exc_mut_exc_mut.
    - rewrite B1, rev_app_distr, rev_involutive.
      apply recs_ok_grow. eapply recs_ok_mono; [exact Hrecs | exact Hexc].
  Qed.

  Lemma GI_same : forall s s', GI s ->
    same_flags s s' -> hlog s' = hlog s -> actions s' = actions s -> topo s' = topo s ->
    WF sch ex s' -> txs s' = txs s -> (front_exc s = true -> front_exc s' = true) -> GI s'.
  Proof.
    intros s s' [G1 [G2 [G3 [_ G5]]]] Hf Hh Ha Ht HW Htx Hfr. unfold GI.
    split; [eapply flags_ok_same; eassumption|].
    split; [unfold aligned in *; rewrite Hh, Ha; exact G2|].
    split; [congruence|]. split; [exact HW|].
    rewrite Hh, Htx. eapply recs_ok_mono; [exact G5 | exact Hfr].
  Qed.

  Lemma drain_GI : forall fuel s first, GI s -> GI (fst (fst (drain fuel s first))).
  Proof.
    induction fuel as [|f IH]; intros s first HG; simpl; [exact HG|].
    destruct (crashed s || hung s); [exact HG|].
    destruct (queue s) as [|mu rest] eqn:Eq.
    { pose proof HG as [_ [_ [_ [HW _]]]].
      eapply GI_same; [exact HG| | | | | | |]; try reflexivity.
      - repeat split.
      - eapply WF_same_mach; [exact HW| | |]; try reflexivity.
        destruct HW as [HQ _]. eapply QR_same; [exact HQ| | | |]; reflexivity.
      - unfold front_exc. simpl. rewrite Eq. intros H; exact H. }
    match goal with |- context [run_tx ?x mu] => set (s1 := x) end.
    destruct HG as [G1 [G2 [G3 [G4 G5]]]].
    assert (Hmu : states_in_range sch (mu_called mu) = true /\
                  queue_in_range sch rest = true).
    { destruct G4 as [[_ [_ [H3 _]]] _]. rewrite Eq in H3. simpl in H3.
      apply andb_true_iff in H3. exact H3. }
    destruct Hmu as [Hmu Hrest].
    assert (Hs1 : hlog s1 = hlog s /\ actions s1 = actions s /\ topo s1 = topo s /\
                  txs s1 = txs s /\ same_flags s s1 /\ clock s1 = clock s /\
                  active s1 = active s /\ sc s1 = sc s /\ exc s1 = exc s /\ queue s1 = rest).
    { unfold s1. destruct (0 <? mu_qtick mu)%N; repeat split. }
    destruct Hs1 as [A1 [A2 [A3 [A4 [A5 [A6 [A7 [A8 [A9 A10]]]]]]]]].
    assert (HW1 : WF sch ex s1).
    { eapply WF_same_mach; [exact G4 | | exact A6 | exact A7].
      destruct G4 as [[Q1 [Q2 [_ Q4]]] _]. unfold QR. rewrite A8, A9, A10, A2.
      repeat split; assumption. }
    assert (HG2 : GI (fst (run_tx s1 mu))).
    { apply run_tx_GI; try assumption.
      - eapply flags_ok_same; eassumption.
      - unfold aligned in *. rewrite A1, A2. exact G2.
      - congruence.
      - rewrite A1, A4. unfold front_exc in G5. rewrite Eq in G5. exact G5. }
    destruct (run_tx s1 mu) as [s2 r]. simpl in HG2.
    apply IH. exact HG2.
  Qed.

  Lemma drain_queue_empty : forall fuel s first s' r,
    GI s -> drain fuel s first = (s', r, true) -> queue s' = [].
  Proof.
    intros fuel s first s' r HG Hd.
    pose proof (drain_GI fuel s first HG) as HG'. rewrite Hd in HG'. simpl in HG'.
    destruct HG' as [[Fc [_ Fh]] _].
    eapply machine_lives_on_lemma; eassumption.
  Qed.

  Lemma process_queue_GI : forall fuel s,
    GI s -> GI (fst (fst (process_queue fuel s))) /\
    (snd (process_queue fuel s) = true -> queue (fst (fst (process_queue fuel s))) = []).
  Proof.
    intros fuel s HG. unfold process_queue.
    destruct (queue s) as [|m q] eqn:Eq; [split; [exact HG | intros _; exact Eq]|].
    pose proof (drain_GI fuel s None HG) as H.
    pose proof (drain_queue_empty fuel s None) as Hq.
    destruct (drain fuel s None) as [[s1 first] ok]. simpl in *.
    split; [exact H|]. intros Hok. subst ok. eapply Hq; [exact HG | reflexivity].
  Qed.

  Lemma queue_mutation_GI : forall s mt states args,
    GI s -> states_in_range sch states = true -> GI (fst (queue_mutation s mt states args)).
  Proof.
    intros s mt states args HG Hr.
    pose proof HG as [_ [_ [_ [HW _]]]].
    pose proof (queue_mutation_core s mt states args) as [C1 [C2 [_ [_ [_ [C6 [_ [C8 _]]]]]]]].
    eapply GI_same; [exact HG | apply queue_mutation_flags | exact C1 | exact C2 | exact C8
                    | apply (queue_mutation_WF sch ex s mt states args HW Hr) | exact C6 |].
    unfold queue_mutation, front_exc.
    destruct (negb _ && negb args && is_dup _ _ _); simpl; [intros H; exact H|].
    destruct (queue s); simpl; [discriminate | intros H; exact H].
  Qed.

  Lemma queue_mutation_queue : forall s mt states args,
    snd (queue_mutation s mt states args) = 0%N ->
    queue (fst (queue_mutation s mt states args)) = queue s.
  Proof.
    intros s mt states args. unfold queue_mutation.
    destruct (negb _ && negb args && is_dup _ _ _); simpl; [reflexivity|].
    intros H. exfalso. destruct (qpending s); destruct (qtick s); simpl in H; lia.
  Qed.

  Lemma top_mutation_GI : forall fuel s mt states args,
    GI s -> queue s = [] -> states_in_range sch states = true ->
    GI (fst (fst (top_mutation fuel s mt states args))) /\
    (snd (top_mutation fuel s mt states args) = true ->
     queue (fst (fst (top_mutation fuel s mt states args))) = []).
  Proof.
    intros fuel s mt states args HG Hq Hr. unfold top_mutation.
    pose proof (queue_mutation_GI s mt states args HG Hr) as H1.
    pose proof (queue_mutation_queue s mt states args) as Hq1.
    destruct (queue_mutation s mt states args) as [s1 tick]. simpl in H1, Hq1.
    destruct (tick =? 0)%N eqn:Et.
    - apply N.eqb_eq in Et. simpl. split; [exact H1|]. intros _. rewrite Hq1; assumption.
    - pose proof (process_queue_GI fuel s1 H1) as H.
      destruct (process_queue fuel s1) as [[s2 r] ok]. exact H.
  Qed.

  Lemma prepend_mut_GI : forall s mu,
    GI s -> queue s = [] -> states_in_range sch (mu_called mu) = true ->
    GI (prepend_mut s mu).
  Proof.
    intros s mu HG Hq Hr. pose proof HG as [_ [_ [_ [HW _]]]].
    eapply GI_same; [exact HG| | | | | | |]; try reflexivity.
    - repeat split.
    - apply prepend_mut_WF; assumption.
    - unfold front_exc. rewrite Hq. discriminate.
  Qed.

  Lemma top_api_GI : forall fuel s c,
    GI s -> queue s = [] -> states_in_range sch (ac_states c) = true ->
    GI (fst (fst (top_api fuel s c))) /\
    (snd (top_api fuel s c) = true -> queue (fst (fst (top_api fuel s c))) = []).
  Proof.
    intros fuel s c HG Hq Hr.
    assert (Hid : GI s /\ (true = true -> queue s = [])) by (split; [exact HG | intros _; exact Hq]).
    unfold top_api, top_add, top_remove. destruct (ac_kind c).
    - destruct (limit_hit s && _); [exact Hid | apply top_mutation_GI; assumption].
    - destruct (limit_hit s && _); [exact Hid | apply top_mutation_GI; assumption].
    - destruct (limit_hit s); [exact Hid | apply top_mutation_GI; assumption].
    - destruct (mach_is s (ac_states c)).
      + destruct (limit_hit s && _); [exact Hid | apply top_mutation_GI; assumption].
      + destruct (limit_hit s && _); [exact Hid | apply top_mutation_GI; assumption].
    - destruct (limit_hit s); [exact Hid|].
      pose proof HG as [_ [_ [_ [HW _]]]].
      assert (HG1 : GI (set_fault_flags s (loop_dead s) (hung s) 1)).
      { eapply GI_same; [exact HG| | | | | | |]; try reflexivity.
        - repeat split.
        - eapply WF_same_mach; [exact HW| | |]; try reflexivity.
          destruct HW as [HQ _]. eapply QR_same; [exact HQ| | | |]; reflexivity.
        - intros H; exact H. }
      match goal with |- context [if ?b then _ else _] => destruct b end.
      + split; [exact HG1 | intros _; exact Hq].
      + apply top_mutation_GI; [exact HG1 | exact Hq |].
        destruct HW as [HQ _]. apply (exc_pair_in_range sch ex ex_in_range s HQ).
    - apply process_queue_GI. apply prepend_mut_GI; assumption.
    - apply process_queue_GI. apply prepend_mut_GI; assumption.
  Qed.

  Lemma run_calls_top_GI : forall fuel cs s acc s' obs,
    GI s -> queue s = [] -> calls_in_range sch cs = true ->
    run_calls_top fuel s cs acc = (s', obs, true) -> GI s' /\ queue s' = [].
  Proof.
    intros fuel cs. induction cs as [|c r IH]; intros s acc s' obs HG Hq Hr Hrun; simpl in Hrun.
    - inversion Hrun; subst. split; assumption.
    - simpl in Hr. apply andb_true_iff in Hr. destruct Hr as [Hc Hr].
      destruct (crashed s || hung s); [inversion Hrun; subst; split; assumption|].
      pose proof (top_api_GI fuel s c HG Hq Hc) as [H1 H2].
      destruct (top_api fuel s c) as [[s1 res] ok]. simpl in H1, H2.
      destruct (crashed s1 || hung s1).
      { inversion Hrun; subst. split; [exact H1 | apply H2; reflexivity]. }
      destruct ok; [|inversion Hrun].
      eapply IH; [exact H1 | apply H2; reflexivity | exact Hr | exact Hrun].
  Qed.
End RecInv.

(* (2) no per-record code for any script, given the range conditions and fuel *)
Lemma run_txs_fault_codes_lemma : forall fuel sch tp hl ex bs ql acts cs,
  refs_ok sch = true -> ex < length sch ->
  calls_in_range sch cs = true -> actions_in_range sch acts = true ->
  let tr := run fuel (init_st sch tp hl ex bs ql acts) cs in
  tr_fuel_ok tr = true ->
  txs_fault_codes sch tp ex acts (tr_hlog tr) (tr_txs tr) = [].
Proof.
  intros fuel sch tp hl ex bs ql acts cs Hrefs Hex Hcs Hacts tr Hfuel.
  unfold tr, run in *.
  destruct (run_calls_top fuel (init_st sch tp hl ex bs ql acts) cs []) as [[s1 obs] ok] eqn:E.
  simpl in Hfuel. subst ok. simpl.
  assert (HG0 : GI sch tp ex acts (init_st sch tp hl ex bs ql acts)).
  { split; [repeat split|]. split; [reflexivity|]. split; [reflexivity|].
    split; [apply init_st_WF; exact Hacts | exact I]. }
  destruct (run_calls_top_GI sch tp ex acts Hex Hrefs fuel cs _ [] s1 obs HG0 eq_refl Hcs E)
    as [[_ [_ [_ [_ Hrecs]]]] Hq].
  rewrite txs_fault_codes_with.
  eapply recs_codes; [exact Hrecs|].
  unfold front_exc. rewrite Hq. discriminate.
Qed.

(* (3) the whole property *)
Lemma c08_holds_lemma : forall fuel sch tp hl ex bs ql acts cs interr,
  refs_ok sch = true -> ex < length sch ->
  calls_in_range sch cs = true -> actions_in_range sch acts = true ->
  let tr := run fuel (init_st sch tp hl ex bs ql acts) cs in
  tr_fuel_ok tr = true ->
  count_stalls acts (length (tr_hlog tr)) <= interr ->
  c08_codes sch tp ex acts interr tr = [].
Proof.
  intros fuel sch tp hl ex bs ql acts cs interr Hrefs Hex Hcs Hacts tr Hfuel Hst.
  unfold c08_codes.
  destruct (run_never_crashes_lemma fuel sch tp hl ex bs ql acts cs) as [Hc Hh].
  fold tr in Hc, Hh. rewrite Hc, Hh.
  pose proof (run_parity_lemma fuel sch tp hl ex bs ql acts cs Hrefs Hex Hcs Hacts) as Hp.
  fold tr in Hp. rewrite Hp.
  pose proof (run_txs_fault_codes_lemma fuel sch tp hl ex bs ql acts cs Hrefs Hex Hcs Hacts Hfuel)
    as Ht. fold tr in Ht. rewrite Ht.
  apply Nat.leb_le in Hst. rewrite Hst. reflexivity.
Qed.

(* the separate clauses *)
Lemma run_no_record_codes_lemma : forall fuel sch tp hl ex bs ql acts cs c,
  refs_ok sch = true -> ex < length sch ->
  calls_in_range sch cs = true -> actions_in_range sch acts = true ->
  let tr := run fuel (init_st sch tp hl ex bs ql acts) cs in
  tr_fuel_ok tr = true ->
  ~ In c (txs_fault_codes sch tp ex acts (tr_hlog tr) (tr_txs tr)).
Proof.
  intros fuel sch tp hl ex bs ql acts cs c Hrefs Hex Hcs Hacts tr Hfuel.
  unfold tr. rewrite (run_txs_fault_codes_lemma fuel sch tp hl ex bs ql acts cs Hrefs Hex Hcs Hacts Hfuel).
  intros [].
Qed.

(* a panic in the State handler of 1 (first call), a panic in the Enter
   handler of 2 (second call) *)
Definition ex_run_bs : list (list hkey) := [[HState 1; HEnter 2]].
Definition ex_run_acts : list haction := [ex_act FPanic; ex_act FPanic].
Definition ex_run_cs : list api_call :=
  [ {| ac_kind := KAdd; ac_states := [1]; ac_args := false |};
    {| ac_kind := KAdd; ac_states := [2]; ac_args := false |} ].

Lemma c08_holds_nonvacuous_lemma :
  let tr := run 20 (init_st ex_sch [] [] 0 ex_run_bs 100 ex_run_acts) ex_run_cs in
  refs_ok ex_sch = true /\ 0 < length ex_sch /\
  calls_in_range ex_sch ex_run_cs = true /\ actions_in_range ex_sch ex_run_acts = true /\
  tr_fuel_ok tr = true /\ count_stalls ex_run_acts (length (tr_hlog tr)) <= 0 /\
  map hl_key (tr_hlog tr) = [HState 1; HEnter 2] /\
  fault_at ex_run_acts 0 = FPanic /\ fault_at ex_run_acts 1 = FPanic /\
  map tx_called (tr_txs tr) = [[1]; [0]; [3]; [2]; [0]] /\
  map tx_accepted (tr_txs tr) = [false; true; true; false; true] /\
  c08_codes ex_sch [] 0 ex_run_acts 0 tr = [].
Proof. vm_compute. repeat split; repeat constructor. Qed.

(* without the range condition the rollback clause fails in the model: a
   called state outside the schema is "active" without a clock slot *)
Lemma c08_rollback_needs_range_refuted_lemma :
  exists fuel sch tp hl ex bs ql acts cs,
    refs_ok sch = true /\ ex < length sch /\ actions_in_range sch acts = true /\
    calls_in_range sch cs = false /\
    tr_fuel_ok (run fuel (init_st sch tp hl ex bs ql acts) cs) = true /\
    let tr := run fuel (init_st sch tp hl ex bs ql acts) cs in
    In 890%N (txs_fault_codes sch tp ex acts (tr_hlog tr) (tr_txs tr)).
Proof.
  exists 20, [empty_sdef; empty_sdef], [], [], 1, [[HState 0]], 100%N, [ex_act FStall],
    [ {| ac_kind := KAdd; ac_states := [5; 0]; ac_args := false |} ].
  vm_compute. split; [reflexivity|]. split; [repeat constructor|].
  split; [reflexivity|]. split; [reflexivity|]. split; [reflexivity|]. left. reflexivity.
Qed.
