(* C16 — proofs about Model/DbgIndex.v against Spec/C16.v. *)

From Coq Require Import List NArith ZArith Bool Arith Lia.
From Coq Require Import ZifyN ZifyNat ZifyBool.
From AMV Require Import Model.DbgIndex Spec.C16.
Import ListNotations.

(* ------------------------------------------------------------------ binary search *)

Section Search.
  Variable n : nat.
  Variable f : nat -> bool.
  (* f is monotone on [0, n): once true, always true *)
  Hypothesis mono : forall a b, a <= b -> b < n -> f a = true -> f b = true.

  Lemma go_search_spec : forall fuel i j,
    i <= j -> j <= n -> j - i < fuel ->
    (forall k, k < i -> f k = false) ->
    (forall k, j <= k -> k < n -> f k = true) ->
    let r := go_search fuel f i j in
    i <= r /\ r <= j /\ (forall k, k < r -> f k = false) /\ (forall k, r <= k -> k < n -> f k = true).
  Proof.
    induction fuel as [|fu IH]; intros i j Hij Hjn Hf Hlo Hhi; [lia|].
    cbn [go_search]. destruct (Nat.ltb i j) eqn:Elt.
    - apply Nat.ltb_lt in Elt.
      assert (Hh : i <= Nat.div2 (i + j) /\ Nat.div2 (i + j) < j).
      { rewrite Nat.div2_div. split.
        - apply Nat.div_le_lower_bound; lia.
        - apply Nat.div_lt_upper_bound; lia. }
      destruct Hh as [Hh1 Hh2].
      destruct (f (Nat.div2 (i + j))) eqn:Efh.
      + specialize (IH i (Nat.div2 (i + j))).
        cbv zeta in IH.
        destruct IH as (A & B & C & D); try lia; try assumption.
        { intros k Hk1 Hk2. apply (mono (Nat.div2 (i + j)) k); auto. }
        repeat split; try lia; assumption.
      + specialize (IH (S (Nat.div2 (i + j))) j).
        cbv zeta in IH.
        destruct IH as (A & B & C & D); try lia; try assumption.
        { intros k Hk. destruct (f k) eqn:Efk; [|reflexivity].
          assert (f (Nat.div2 (i + j)) = true); [|congruence].
          apply (mono k); auto; lia. }
        repeat split; try lia; assumption.
    - apply Nat.ltb_ge in Elt. cbv zeta.
      assert (i = j) by lia. subst j.
      repeat split; try lia; assumption.
  Qed.

  Lemma sort_search_spec :
    let r := sort_search n f in
    r <= n /\ (forall k, k < r -> f k = false) /\ (forall k, r <= k -> k < n -> f k = true).
  Proof.
    unfold sort_search.
    pose proof (go_search_spec (S n) 0 n) as H. cbv zeta in H.
    destruct H as (A & B & C & D); try lia.
    cbv zeta. repeat split; auto.
  Qed.
End Search.

(* first_idx: characterisation *)
Lemma first_idx_le : forall {A} (p : A -> bool) l, first_idx p l <= length l.
Proof. induction l as [|x l IH]; cbn; [lia|]. destruct (p x); lia. Qed.

Lemma first_idx_before : forall {A} (p : A -> bool) l d k,
  k < first_idx p l -> p (nth k l d) = false.
Proof.
  induction l as [|x l IH]; cbn; intros d k Hk; [lia|].
  destruct (p x) eqn:E; [lia|]. destruct k; [assumption|]. apply IH. lia.
Qed.

Lemma first_idx_at : forall {A} (p : A -> bool) l d,
  first_idx p l < length l -> p (nth (first_idx p l) l d) = true.
Proof.
  induction l as [|x l IH]; cbn; intros d H; [lia|].
  destruct (p x) eqn:E; [assumption|]. apply IH. lia.
Qed.

Lemma first_idx_unique : forall {A} (p : A -> bool) l d r,
  r <= length l ->
  (forall k, k < r -> p (nth k l d) = false) ->
  (r < length l -> p (nth r l d) = true) ->
  first_idx p l = r.
Proof.
  intros A p l d r Hr Hlo Hat.
  pose proof (first_idx_le p l) as Hle.
  destruct (Nat.lt_trichotomy (first_idx p l) r) as [H|[H|H]].
  - assert (Hlt : first_idx p l < length l) by lia.
    pose proof (first_idx_at p l d Hlt) as E.
    rewrite (Hlo _ H) in E. discriminate.
  - assumption.
  - pose proof (first_idx_before p l d r H) as E.
    assert (Hlt : r < length l) by lia.
    rewrite (Hat Hlt) in E. discriminate.
Qed.

(* a binary search over a list whose predicate is monotone = the linear scan *)
Lemma sort_search_first_idx : forall {A} (p : A -> bool) (l : list A) (d : A),
  (forall a b, a <= b -> b < length l -> p (nth a l d) = true -> p (nth b l d) = true) ->
  sort_search (length l) (fun i => p (nth i l d)) = first_idx p l.
Proof.
  intros A p l d Hmono.
  pose proof (sort_search_spec (length l) (fun i => p (nth i l d)) Hmono) as H.
  cbv zeta in H. destruct H as (A1 & B1 & C1).
  symmetry. apply first_idx_unique with (d := d); [assumption|assumption|].
  intros Hlt. apply C1; lia.
Qed.

(* ------------------------------------------------------------------ sortedness from the boolean checks *)

Section Mono.
  Variable A : Type.
  Variable key : A -> N.

  Fixpoint keys_mono_from (prev : N) (l : list A) : bool :=
    match l with
    | [] => true
    | x :: r => N.leb prev (key x) && keys_mono_from (key x) r
    end.

  Lemma keys_mono_from_weaken : forall l a b,
    (a <= b)%N -> keys_mono_from b l = true -> keys_mono_from a l = true.
  Proof.
    destruct l as [|x l]; cbn; intros a b Hab H; [reflexivity|].
    apply andb_true_iff in H. destruct H as [H1 H2]. apply N.leb_le in H1.
    apply andb_true_iff. split; [apply N.leb_le; lia|assumption].
  Qed.

  Lemma keys_mono_from_nth : forall l prev d i j,
    keys_mono_from prev l = true -> i <= j -> j < length l ->
    (prev <= key (nth i l d) /\ key (nth i l d) <= key (nth j l d))%N.
  Proof.
    induction l as [|x l IH]; cbn [length]; intros prev d i j H Hij Hj; [lia|].
    cbn [keys_mono_from] in H. apply andb_true_iff in H. destruct H as [H1 H2].
    apply N.leb_le in H1.
    destruct i, j; cbn [nth]; try lia.
    - destruct (IH (key x) d 0 j H2 ltac:(lia) ltac:(lia)) as [P Q]. lia.
    - destruct (IH (key x) d i j H2 ltac:(lia) ltac:(lia)) as [P Q]. lia.
  Qed.
End Mono.

Lemma qticks_monotone_from_keys : forall ms prev,
  qticks_monotone_from prev ms = keys_mono_from msg m_qtick prev ms.
Proof. induction ms as [|m r IH]; intros; cbn; [reflexivity|]. now rewrite IH. Qed.

Lemma htimes_monotone_from_keys : forall ms prev,
  htimes_monotone_from prev ms = keys_mono_from msg m_htime prev ms.
Proof. induction ms as [|m r IH]; intros; cbn; [reflexivity|]. now rewrite IH. Qed.

Lemma psums_monotone_from_keys : forall ps prev,
  psums_monotone_from prev ps = keys_mono_from parsed p_sum prev ps.
Proof. induction ps as [|m r IH]; intros; cbn; [reflexivity|]. now rewrite IH. Qed.

(* ------------------------------------------------------------------ "at or after" lookups *)

Lemma at_or_after_generic : forall {A} (key : A -> N) (l : list A) (d : A) (q : N),
  keys_mono_from A key 0 l = true ->
  (let n := length l in
   if Nat.eqb n 0 then (-1)%Z else
   let i := sort_search n (fun i => N.leb q (key (nth i l d))) in
   Z.of_nat (if Nat.eqb i n then n - 1 else i))
  = scan_at_or_after (fun m => N.leb q (key m)) l.
Proof.
  intros A key l d q Hm. cbv zeta.
  destruct l as [|x l]; [reflexivity|].
  remember (x :: l) as L eqn:EL.
  assert (Hlen : Nat.eqb (length L) 0 = false) by (subst L; reflexivity).
  rewrite Hlen. unfold scan_at_or_after.
  assert (Hss : sort_search (length L) (fun i => N.leb q (key (nth i L d)))
                = first_idx (fun m => N.leb q (key m)) L).
  { apply (sort_search_first_idx (fun m => N.leb q (key m)) L d).
    intros a b Hab Hb Ha. apply N.leb_le in Ha. apply N.leb_le.
    destruct (keys_mono_from_nth A key L 0%N d a b Hm Hab Hb) as [_ Q]. lia. }
  rewrite Hss. subst L. reflexivity.
Qed.

Lemma tx_at_queue_tick_spec_lemma : forall (msgs : list msg) (q : N),
  qticks_monotone msgs = true ->
  tx_at_queue_tick msgs q = queue_tick_scan msgs q.
Proof.
  intros msgs q H. unfold qticks_monotone in H. rewrite qticks_monotone_from_keys in H.
  unfold tx_at_queue_tick, queue_tick_scan.
  exact (at_or_after_generic m_qtick msgs dmsg q H).
Qed.

Lemma tx_at_htime_spec_lemma : forall (msgs : list msg) (t : N),
  htimes_monotone msgs = true ->
  tx_at_htime msgs t = htime_scan msgs t.
Proof.
  intros msgs q H. unfold htimes_monotone in H. rewrite htimes_monotone_from_keys in H.
  unfold tx_at_htime, htime_scan.
  exact (at_or_after_generic m_htime msgs dmsg q H).
Qed.

(* ------------------------------------------------------------------ TxAtMachTime *)

(* no element before the first "sum <= s" can carry exactly sum; if the
   element there is not exact, none is *)
Lemma tx_at_mach_time_partial_lemma : forall (ps : list parsed) (sum : N),
  psums_monotone ps = true ->
  tx_at_mach_time ps sum =
    (let s := mach_time_scan ps sum in if Z.eqb s (-1) then 0%Z else s).
Proof.
  intros ps sum H. unfold psums_monotone in H. rewrite psums_monotone_from_keys in H.
  unfold tx_at_mach_time, mach_time_scan, scan_exact. cbv zeta.
  set (ge := fun p : parsed => negb (N.ltb (p_sum p) sum)).
  assert (Hss : sort_search (length ps) (fun h => negb (N.ltb (p_sum (nth h ps dparsed)) sum))
                = first_idx ge ps).
  { apply (sort_search_first_idx ge ps dparsed).
    intros a b Hab Hb Ha. unfold ge in *.
    destruct (keys_mono_from_nth parsed p_sum ps 0%N dparsed a b H Hab Hb) as [_ Q].
    apply negb_true_iff in Ha. apply N.ltb_ge in Ha.
    apply negb_true_iff. apply N.ltb_ge. lia. }
  rewrite Hss. clear Hss.
  set (i := first_idx ge ps).
  set (ex := fun p : parsed => N.eqb (p_sum p) sum).
  pose proof (first_idx_le ge ps) as Hile. fold i in Hile.
  destruct (Nat.ltb i (length ps)) eqn:Elt; cbn [andb].
  - apply Nat.ltb_lt in Elt.
    destruct (N.eqb (p_sum (nth i ps dparsed)) sum) eqn:Eeq.
    + (* exact at i: i is the first exact one *)
      assert (Hfi : first_idx ex ps = i).
      { apply first_idx_unique with (d := dparsed); [lia| |].
        - intros k Hk. pose proof (first_idx_before ge ps dparsed k Hk) as E.
          unfold ge in E. apply negb_false_iff in E. apply N.ltb_lt in E.
          unfold ex. apply N.eqb_neq. lia.
        - intros _. exact Eeq. }
      rewrite Hfi. assert (Hl : Nat.ltb i (length ps) = true) by (apply Nat.ltb_lt; lia).
      rewrite Hl. destruct (Z.eqb (Z.of_nat i) (-1)) eqn:Ez; [lia|reflexivity].
    + (* not exact at i: nothing is exact *)
      assert (Hfi : first_idx ex ps = length ps).
      { apply first_idx_unique with (d := dparsed); [lia| |lia].
        intros k Hk. unfold ex. apply N.eqb_neq.
        destruct (Nat.lt_ge_cases k i) as [Hki|Hki].
        - pose proof (first_idx_before ge ps dparsed k Hki) as E.
          unfold ge in E. apply negb_false_iff in E. apply N.ltb_lt in E. lia.
        - pose proof (first_idx_at ge ps dparsed Elt) as E. fold i in E.
          unfold ge in E. apply negb_true_iff in E. apply N.ltb_ge in E.
          apply N.eqb_neq in Eeq.
          destruct (keys_mono_from_nth parsed p_sum ps 0%N dparsed i k H Hki Hk) as [_ Q]. lia. }
      rewrite Hfi. rewrite Nat.ltb_irrefl. reflexivity.
  - apply Nat.ltb_ge in Elt. assert (i = length ps) by lia.
    assert (Hfi : first_idx ex ps = length ps).
    { apply first_idx_unique with (d := dparsed); [lia| |lia].
      intros k Hk. unfold ex. apply N.eqb_neq.
      assert (Hki : k < first_idx ge ps) by (fold i; lia).
      pose proof (first_idx_before ge ps dparsed k Hki) as E.
      unfold ge in E. apply negb_false_iff in E. apply N.ltb_lt in E. lia. }
    rewrite Hfi. rewrite Nat.ltb_irrefl. reflexivity.
Qed.

(* the full statement "= the linear scan, -1 when absent" is false *)
Lemma tx_at_mach_time_spec_refuted_lemma :
  exists (ps : list parsed) (sum : N),
    psums_monotone ps = true /\ tx_at_mach_time ps sum <> mach_time_scan ps sum.
Proof.
  exists [mkParsed 1 1 [] [] []; mkParsed 3 2 [] [] []], 2%N.
  split; [reflexivity|]. vm_compute. discriminate.
Qed.

(* ------------------------------------------------------------------ TxIndex *)

Lemma tx_index_from_spec : forall msgs id k,
  tx_index_from k msgs id =
    (let i := first_idx (fun m => Nat.eqb (m_id m) id) msgs in
     if Nat.ltb i (length msgs) then Z.of_nat (k + i) else (-1)%Z).
Proof.
  induction msgs as [|m r IH]; intros id k; cbn [tx_index_from first_idx length]; [reflexivity|].
  destruct (Nat.eqb (m_id m) id) eqn:E.
  - cbv zeta. cbn. f_equal. lia.
  - rewrite IH. cbv zeta.
    change (Nat.ltb (S (first_idx (fun m0 : msg => Nat.eqb (m_id m0) id) r)) (S (length r)))
      with (Nat.ltb (first_idx (fun m0 : msg => Nat.eqb (m_id m0) id) r) (length r)).
    destruct (Nat.ltb _ (length r)); [f_equal; lia|reflexivity].
Qed.

Lemma tx_index_spec_lemma : forall msgs id, tx_index msgs id = tx_index_scan msgs id.
Proof.
  intros. unfold tx_index, tx_index_scan, scan_exact. rewrite tx_index_from_spec. reflexivity.
Qed.

(* ------------------------------------------------------------------ FilterIndexByCursor1 *)

Lemma index_of_from_spec : forall l x k,
  index_of_from k x l =
    (let i := first_idx (fun y => Z.eqb (Z.of_nat y) x) l in
     if Nat.ltb i (length l) then Z.of_nat (k + i) else (-1)%Z).
Proof.
  induction l as [|y r IH]; intros x k; cbn [index_of_from first_idx length]; [reflexivity|].
  rewrite (Z.eqb_sym x). destruct (Z.eqb (Z.of_nat y) x) eqn:E.
  - cbv zeta. cbn. f_equal. lia.
  - rewrite IH. cbv zeta.
    change (Nat.ltb (S (first_idx (fun y0 : nat => Z.eqb (Z.of_nat y0) x) r)) (S (length r)))
      with (Nat.ltb (first_idx (fun y0 : nat => Z.eqb (Z.of_nat y0) x) r) (length r)).
    destruct (Nat.ltb _ (length r)); [f_equal; lia|reflexivity].
Qed.

Lemma filter_index_spec_lemma : forall filtered c,
  filter_index_by_cursor1 filtered c = filter_index_scan filtered c.
Proof.
  intros. unfold filter_index_by_cursor1, filter_index_scan, scan_exact, index_of.
  destruct (Z.eqb c 0); [reflexivity|]. rewrite index_of_from_spec. reflexivity.
Qed.

(* ------------------------------------------------------------------ HadErrSinceTx *)

Lemma desc_sorted_nth : forall l i j,
  desc_sorted l = true -> i < j -> j < length l -> nth j l 0 < nth i l 0.
Proof.
  induction l as [|x l IH]; cbn [length]; intros i j H Hij Hj; [lia|].
  cbn [desc_sorted] in H. apply andb_true_iff in H. destruct H as [H1 H2].
  destruct j; [lia|]. destruct i.
  - cbn [nth]. destruct l as [|y l]; [cbn in Hj; lia|].
    apply Nat.ltb_lt in H1.
    destruct j; [cbn; lia|].
    pose proof (IH 0 (S j) H2 ltac:(lia) ltac:(cbn in *; lia)) as Q. cbn [nth] in Q. cbn [nth]. lia.
  - cbn [nth]. apply IH; [assumption|lia|lia].
Qed.

Lemma had_err_since_spec_lemma : forall (errors : list nat) (tx distance : Z),
  desc_sorted errors = true ->
  had_err_since errors tx distance = had_err_scan errors tx distance.
Proof.
  intros errors tx d Hs. unfold had_err_since, had_err_scan.
  destruct (existsb (fun e => Z.eqb (Z.of_nat e) tx) errors) eqn:Ec.
  - symmetry. apply existsb_exists in Ec. destruct Ec as (e & Hin & He).
    apply existsb_exists. exists e. split; [assumption|]. cbv zeta. rewrite He. reflexivity.
  - set (lt := fun e : nat => Z.ltb (Z.of_nat e) tx).
    assert (Hss : sort_search (length errors) (fun i => Z.ltb (Z.of_nat (nth i errors 0)) tx)
                  = first_idx lt errors).
    { apply (sort_search_first_idx lt errors 0).
      intros a b Hab Hb Ha. unfold lt in *. apply Z.ltb_lt in Ha. apply Z.ltb_lt.
      destruct (Nat.eq_dec a b) as [->|Hne]; [assumption|].
      pose proof (desc_sorted_nth errors a b Hs ltac:(lia) Hb). lia. }
    rewrite Hss. clear Hss. set (idx := first_idx lt errors).
    pose proof (first_idx_le lt errors) as Hle. fold idx in Hle.
    assert (Hne : forall e, In e errors -> Z.of_nat e <> tx).
    { intros e Hin Heq.
      assert (existsb (fun e => Z.eqb (Z.of_nat e) tx) errors = true); [|congruence].
      apply existsb_exists. exists e. split; [assumption|]. apply Z.eqb_eq. assumption. }
    destruct (Nat.leb (length errors) idx) eqn:El.
    + apply Nat.leb_le in El. symmetry.
      match goal with |- ?x = false => destruct x eqn:Es end; [|reflexivity]. exfalso.
      apply existsb_exists in Es. destruct Es as (e & Hin & He). cbv zeta in He.
      apply orb_true_iff in He. destruct He as [He|He].
      * apply Z.eqb_eq in He. exact (Hne e Hin He).
      * apply andb_true_iff in He. destruct He as [He _].
        destruct (In_nth errors e 0 Hin) as (k & Hk & Hnth).
        assert (Hk' : k < first_idx lt errors) by (fold idx; lia).
        pose proof (first_idx_before lt errors 0 k Hk') as E. rewrite Hnth in E.
        unfold lt in E. congruence.
    + apply Nat.leb_gt in El.
      pose proof (first_idx_at lt errors 0 El) as Eat. fold idx in Eat. unfold lt in Eat.
      apply Z.ltb_lt in Eat.
      destruct (Z.ltb (tx - Z.of_nat (nth idx errors 0)) d) eqn:Ed.
      * symmetry. apply existsb_exists. exists (nth idx errors 0).
        split; [apply nth_In; exact El|]. cbv zeta.
        apply orb_true_iff. right. apply andb_true_iff. split; [apply Z.ltb_lt; lia|exact Ed].
      * symmetry. match goal with |- ?x = false => destruct x eqn:Es end; [|reflexivity]. exfalso.
        apply existsb_exists in Es. destruct Es as (e & Hin & He). cbv zeta in He.
        apply orb_true_iff in He. destruct He as [He|He].
        -- apply Z.eqb_eq in He. exact (Hne e Hin He).
        -- apply andb_true_iff in He. destruct He as [He1 He2].
           apply Z.ltb_lt in He1. apply Z.ltb_lt in He2. apply Z.ltb_ge in Ed.
           destruct (In_nth errors e 0 Hin) as (k & Hk & Hnth).
           destruct (Nat.lt_ge_cases k idx) as [Hki|Hki].
           ++ pose proof (first_idx_before lt errors 0 k Hki) as E. rewrite Hnth in E.
              unfold lt in E. apply Z.ltb_ge in E. lia.
           ++ destruct (Nat.eq_dec k idx) as [->|Hneq]; [lia|].
              pose proof (desc_sorted_nth errors idx k Hs ltac:(lia) Hk). lia.
Qed.

(* ------------------------------------------------------------------ hParseMsg *)

Lemma mem_z_In : forall x l, mem_z x l = true <-> In x l.
Proof.
  induction l as [|y l IH]; cbn; [split; [discriminate|tauto]|].
  rewrite orb_true_iff, IH, Z.eqb_eq. split; intros [H|H]; auto.
Qed.

Lemma nodupb_NoDup : forall l, nodupb l = true <-> NoDup l.
Proof.
  induction l as [|x l IH]; cbn; [split; [constructor|reflexivity]|].
  rewrite andb_true_iff, negb_true_iff, IH. split.
  - intros [H1 H2]. constructor; [|assumption]. intro Hin. apply mem_z_In in Hin. congruence.
  - intros H. inversion H; subst. split; [|assumption].
    destruct (mem_z x l) eqn:E; [|reflexivity]. apply mem_z_In in E. contradiction.
Qed.

Lemma uniq_acc_spec : forall l acc,
  NoDup acc ->
  NoDup (uniq_acc acc l) /\ (forall x, In x (uniq_acc acc l) <-> In x acc \/ In x l).
Proof.
  induction l as [|y l IH]; intros acc Hnd; cbn [uniq_acc].
  - split; [apply NoDup_rev; assumption|]. intros x. rewrite <- in_rev. cbn. tauto.
  - destruct (mem_z y acc) eqn:E.
    + destruct (IH acc Hnd) as [A B]. split; [assumption|].
      intros x. rewrite B. cbn. apply mem_z_In in E. split; [tauto|].
      intros [H|[H|H]]; subst; auto.
    + assert (Hnd' : NoDup (y :: acc)).
      { constructor; [|assumption]. intro Hin. apply mem_z_In in Hin. congruence. }
      destruct (IH (y :: acc) Hnd') as [A B]. split; [assumption|].
      intros x. rewrite B. cbn. tauto.
Qed.

Lemma uniq_ok : forall l p,
  nodupb (uniq l) = true /\ same_set (filter p (uniq l)) (filter p l) = true.
Proof.
  intros l p. unfold uniq. destruct (uniq_acc_spec l [] (NoDup_nil _)) as [A B].
  split; [apply nodupb_NoDup; assumption|].
  unfold same_set. apply andb_true_iff.
  split; apply forallb_forall; intros x Hx; apply mem_z_In; apply filter_In in Hx;
    destruct Hx as [Hx Hp]; apply filter_In; (split; [|exact Hp]).
  - apply B in Hx. cbn in Hx. tauto.
  - apply B. right. assumption.
Qed.

Lemma nth_nil_N : forall i, nth i (@nil N) 0%N = 0%N.
Proof. destruct i; reflexivity. Qed.

Lemma lnat_eqb_refl : forall l, lnat_eqb l l = true.
Proof. induction l as [|x l IH]; cbn; [reflexivity|]. rewrite Nat.eqb_refl. exact IH. Qed.

Lemma added_ok : forall n pc cur,
  filter (fun i => N.eqb (state_class (nil_time pc) cur i) 1) (seq 0 n) = exp_added n pc cur.
Proof.
  intros. unfold exp_added. apply filter_ext. intros i.
  unfold state_class, act, tick, active_tick.
  destruct pc as [|c0 pc']; cbn [nil_time].
  - rewrite nth_nil_N. cbn. destruct (N.odd (nth i cur 0%N)); reflexivity.
  - generalize (nth i (c0 :: pc') 0%N) as tp. generalize (nth i cur 0%N) as tc. intros tc tp.
    destruct (N.odd tp), (N.odd tc), (N.eqb tp tc); reflexivity.
Qed.

Lemma removed_ok : forall n pc cur,
  filter (fun i => N.eqb (state_class (nil_time pc) cur i) 2) (seq 0 n) = exp_removed n pc cur.
Proof.
  intros. unfold exp_removed. apply filter_ext. intros i.
  unfold state_class, act, tick, active_tick.
  destruct pc as [|c0 pc']; cbn [nil_time].
  - rewrite nth_nil_N. cbn. destruct (N.odd (nth i cur 0%N)); reflexivity.
  - generalize (nth i (c0 :: pc') 0%N) as tp. generalize (nth i cur 0%N) as tc. intros tc tp.
    destruct (N.odd tp), (N.odd tc), (N.eqb tp tc); reflexivity.
Qed.

(* one record, outside the "time after < time before" branch *)
Lemma parse_one_ok : forall n errst prev cur,
  (match prev with Some (pm, pp) => p_sum pp = sumN (m_clocks pm) | None => True end) ->
  (sumN (match prev with Some (pm, _) => m_clocks pm | None => [] end) <= sumN (m_clocks cur))%N ->
  let pe := parse_one n errst prev cur in
  derived_codes n (option_map fst prev) cur (fst pe) = [] /\
  p_sum (fst pe) = sumN (m_clocks cur) /\
  snd pe = is_err errst cur.
Proof.
  intros n errst prev cur Hinv Hle. unfold parse_one.
  set (bt := match prev with Some (pm, _) => m_clocks pm | None => [] end) in *.
  assert (Hlt : N.ltb (sumN (m_clocks cur)) (sumN bt) = false) by (apply N.ltb_ge; exact Hle).
  rewrite Hlt. unfold get_transition_states. cbv zeta. cbn [fst snd].
  split; [|split; reflexivity].
  unfold derived_codes. cbn [p_sum p_diff p_added p_removed p_touched].
  assert (Hpc : match option_map fst prev with Some pm => m_clocks pm | None => [] end = bt).
  { unfold bt. destruct prev as [[pm pp]|]; reflexivity. }
  rewrite Hpc.
  assert (Hps : match prev with Some (_, pp) => p_sum pp | None => 0%N end = sumN bt).
  { unfold bt. destruct prev as [[pm pp]|]; [exact Hinv|reflexivity]. }
  rewrite Hps, !N.eqb_refl. cbn [andb app].
  rewrite added_ok, removed_ok, !lnat_eqb_refl. cbn [andb app].
  destruct (uniq_ok (flat_map step_states (m_steps cur)) is_state) as [U1 U2].
  unfold endpoints. rewrite U1, U2. reflexivity.
Qed.

(* indexes of the error records, oldest first, numbered from idx *)
Fixpoint err_idxs (errst : list nat) (idx : nat) (ms : list msg) : list nat :=
  match ms with
  | [] => []
  | m :: r => (if is_err errst m then [idx] else []) ++ err_idxs errst (S idx) r
  end.

Lemma parse_go_ok : forall n errst msgs idx prev errs,
  (match prev with Some (pm, pp) => p_sum pp = sumN (m_clocks pm) | None => True end) ->
  sums_monotone_from (sumN (match prev with Some (pm, _) => m_clocks pm | None => [] end)) msgs = true ->
  let r := parse_go n errst idx prev errs msgs in
  all_derived_codes n (option_map fst prev) msgs (fst r) = [] /\
  snd r = rev (err_idxs errst idx msgs) ++ errs.
Proof.
  induction msgs as [|m r IH]; intros idx prev errs Hinv Hm; cbn [parse_go].
  - cbv zeta. cbn. split; reflexivity.
  - cbn [sums_monotone_from] in Hm. apply andb_true_iff in Hm. destruct Hm as [Hm1 Hm2].
    apply N.leb_le in Hm1.
    destruct (parse_one_ok n errst prev m Hinv Hm1) as (D1 & D2 & D3).
    cbv zeta in D1, D2, D3.
    specialize (IH (S idx) (Some (m, fst (parse_one n errst prev m)))
                   (if snd (parse_one n errst prev m) then idx :: errs else errs) D2 Hm2).
    cbv zeta in IH. destruct IH as [I1 I2].
    cbv zeta. cbn [fst snd all_derived_codes err_idxs].
    split.
    + rewrite D1. cbn [app]. exact I1.
    + rewrite I2, D3. destruct (is_err errst m); cbn [app].
      * cbn [rev]. rewrite <- app_assoc. reflexivity.
      * reflexivity.
Qed.

Lemma filter_seq_shift : forall (g : nat -> bool) len s,
  filter g (seq (S s) len) = map S (filter (fun i => g (S i)) (seq s len)).
Proof.
  induction len as [|len IH]; intros s; cbn [seq filter map]; [reflexivity|].
  rewrite IH. destruct (g (S s)); reflexivity.
Qed.

Lemma err_idxs_filter : forall errst ms idx,
  err_idxs errst idx ms =
  map (Nat.add idx) (filter (fun i => is_err errst (nth i ms dmsg)) (seq 0 (length ms))).
Proof.
  induction ms as [|m r IH]; intros idx; [reflexivity|].
  cbn [err_idxs length seq filter nth].
  rewrite filter_seq_shift. cbn [nth]. rewrite IH.
  destruct (is_err errst m); cbn [app map]; rewrite !map_map.
  - rewrite Nat.add_0_r. f_equal. apply map_ext. intros; lia.
  - apply map_ext. intros; lia.
Qed.

Lemma parse_derives_lemma : forall (n : nat) (errst : list nat) (msgs : list msg),
  sums_monotone msgs = true ->
  let '(ps, errs, mt) := parse_all n errst msgs in
  all_derived_codes n None msgs ps = [] /\
  errs = exp_errors errst msgs /\
  mt = sumN (m_clocks (last msgs dmsg)).
Proof.
  intros n errst msgs Hm. unfold parse_all.
  destruct (parse_go_ok n errst msgs 0 None [] I Hm) as [A B]. cbv zeta in A, B.
  split; [exact A|]. split; [|reflexivity].
  rewrite B, app_nil_r. unfold exp_errors. f_equal.
  rewrite err_idxs_filter. rewrite map_ext with (g := fun x => x); [apply map_id|reflexivity].
Qed.

(* the error index is strictly descending, whatever the records are *)
Lemma parse_go_errors_desc : forall n errst msgs idx prev errs,
  desc_sorted errs = true ->
  (forall e, In e errs -> e < idx) ->
  desc_sorted (snd (parse_go n errst idx prev errs msgs)) = true.
Proof.
  induction msgs as [|m r IH]; intros idx prev errs Hs Hlt; cbn [parse_go snd]; [assumption|].
  apply IH.
  - destruct (snd (parse_one n errst prev m)); [|assumption].
    cbn [desc_sorted]. rewrite Hs, andb_true_r.
    destruct errs as [|y errs']; [reflexivity|]. apply Nat.ltb_lt. apply Hlt. left; reflexivity.
  - intros e Hin. destruct (snd (parse_one n errst prev m)).
    + destruct Hin as [<-|Hin]; [lia|]. specialize (Hlt e Hin). lia.
    + specialize (Hlt e Hin). lia.
Qed.

Lemma errors_desc_sorted_lemma : forall n errst msgs,
  desc_sorted (snd (fst (parse_all n errst msgs))) = true.
Proof.
  intros. unfold parse_all. cbn [fst snd].
  apply parse_go_errors_desc; [reflexivity|]. intros e [].
Qed.

(* ------------------------------------------------------------------ touched states *)

Lemma uniq_incl : forall l x, In x (uniq l) -> In x l.
Proof.
  intros l x H. unfold uniq in H.
  destruct (uniq_acc_spec l [] (NoDup_nil _)) as [_ B]. apply B in H. cbn in H. tauto.
Qed.

Lemma parse_one_touched : forall n errst prev cur x,
  In x (p_touched (fst (parse_one n errst prev cur))) -> In x (flat_map step_states (m_steps cur)).
Proof.
  intros n errst prev cur x. unfold parse_one.
  destruct (N.ltb _ _); cbn [fst p_touched]; [intros []|].
  unfold get_transition_states. cbn [fst p_touched]. apply uniq_incl.
Qed.

Lemma parse_go_touched : forall n errst msgs idx prev errs,
  forallb (fun m => touched_in_index n (flat_map step_states (m_steps m))) msgs = true ->
  forallb (fun p => touched_in_index n (p_touched p)) (fst (parse_go n errst idx prev errs msgs)) = true.
Proof.
  induction msgs as [|m r IH]; intros idx prev errs H; cbn [parse_go fst forallb]; [reflexivity|].
  cbn [forallb] in H. apply andb_true_iff in H. destruct H as [H1 H2].
  apply andb_true_iff. split; [|apply IH; exact H2].
  unfold touched_in_index in *. apply forallb_forall. intros x Hx.
  apply parse_one_touched in Hx. rewrite forallb_forall in H1. apply H1. exact Hx.
Qed.

Lemma touched_in_index_partial_lemma : forall n errst msgs,
  forallb (fun m => touched_in_index n (flat_map step_states (m_steps m))) msgs = true ->
  touched_codes n (fst (fst (parse_all n errst msgs))) = [].
Proof.
  intros n errst msgs H. unfold touched_codes, parse_all. cbn [fst].
  rewrite (parse_go_touched n errst msgs 0 None [] H). reflexivity.
Qed.

Lemma touched_in_index_refuted_lemma :
  exists n errst msgs,
    sums_monotone msgs = true /\ touched_codes n (fst (fst (parse_all n errst msgs))) <> [].
Proof.
  exists 2, [1],
    [mkMsg 0 [1%N; 0%N] 1 0 0 1 true false false false [0] [(Some (-1)%Z, Some 0%Z)]].
  split; [reflexivity|]. vm_compute. discriminate.
Qed.

(* ------------------------------------------------------------------ filters *)

Lemma filter_tx_matches : forall f health ms ps i,
  filter_tx f health ms ps i = tx_matches f health ms ps i.
Proof.
  intros. unfold filter_tx, tx_matches. cbv zeta.
  generalize (match tx_executed_by ms i with Some ex => negb (m_accepted ex) | None => false end).
  generalize (match m_called (nth i ms dmsg) with [c] => mem_nat c health | _ => false end).
  generalize (N.eqb (p_diff (nth i ps dparsed)) 0).
  intros e0 hc xc.
  destruct (f_auto f), (m_auto (nth i ms dmsg)); cbn [andb orb negb]; try reflexivity;
  destruct (f_autocanceled f); cbn [andb orb negb];
  destruct (m_accepted (nth i ms dmsg)); cbn [andb orb negb]; try reflexivity;
  destruct (m_queued (nth i ms dmsg)); cbn [andb orb negb];
  destruct xc; cbn [andb orb negb]; try reflexivity;
  destruct (f_canceled f); cbn [andb orb negb]; try reflexivity;
  destruct (f_queued f); cbn [andb orb negb]; try reflexivity;
  destruct (f_checks f), (m_check (nth i ms dmsg)); cbn [andb orb negb]; try reflexivity;
  destruct (f_empty f), e0; cbn [andb orb negb]; try reflexivity;
  destruct (f_health f), hc; reflexivity.
Qed.

Lemma filter_client_sound_lemma : forall f health ms ps,
  filtered_sound f health ms ps (filter_client_txs f health ms ps) = true.
Proof.
  intros. unfold filtered_sound, filter_client_txs. apply forallb_forall. intros i Hi.
  apply filter_In in Hi. destruct Hi as [Hs Hf]. apply in_seq in Hs.
  apply andb_true_iff. split; [apply Nat.ltb_lt; lia|]. rewrite <- filter_tx_matches. exact Hf.
Qed.

(* the list built message by message (live session) may keep a record that
   no longer matches *)
Lemma filter_live_sound_refuted_lemma :
  exists f health ms ps,
    ps = fst (fst (parse_all 2 [1] ms)) /\
    filtered_sound f health ms ps (filter_live f health ms ps) = false.
Proof.
  exists (mkFilters false false true false false false false), [],
    [mkMsg 0 [0%N; 0%N] 1 2 0 1 true false true true [0] [];
     mkMsg 1 [0%N; 0%N] 2 0 0 2 false false true false [0] []].
  eexists. split; [reflexivity|]. vm_compute. reflexivity.
Qed.

Lemma nth_firstn_lt : forall {A} (l : list A) d k i, i < k -> nth i (firstn k l) d = nth i l d.
Proof.
  induction l as [|x l IH]; intros d k i H.
  - rewrite firstn_nil. reflexivity.
  - destruct k; [lia|]. cbn [firstn]. destruct i; [reflexivity|]. cbn [nth]. apply IH. lia.
Qed.

Lemma filter_live_partial_lemma : forall f health ms ps,
  f_autocanceled f = false ->
  filter_live f health ms ps = filter_client_txs f health ms ps.
Proof.
  intros f health ms ps Hf. unfold filter_live, filter_client_txs.
  apply filter_ext. intros i. unfold filter_tx. cbv zeta.
  rewrite nth_firstn_lt by lia. rewrite Hf. cbn [andb]. reflexivity.
Qed.

(* ------------------------------------------------------------------ navigation *)

Lemma index_of_from_neg : forall l x k, (x < 0)%Z -> index_of_from k x l = (-1)%Z.
Proof.
  induction l as [|y l IH]; intros x k H; cbn [index_of_from]; [reflexivity|].
  destruct (Z.eqb x (Z.of_nat y)) eqn:E; [apply Z.eqb_eq in E; lia|]. apply IH. exact H.
Qed.

Section Nav.
  Variable filtered : list nat.
  Variable len : Z.
  Variable cur : Z.

  (* the 1-based cursor k is hidden *)
  Definition sk (k : Z) : bool := is_skipped true filtered (k - 1).

  Lemma sk_zero : forall k, (k <= 0)%Z -> sk k = true.
  Proof.
    intros k H. unfold sk, is_skipped, index_of. cbn [andb].
    rewrite index_of_from_neg by lia. reflexivity.
  Qed.

  Lemma fc_fwd : forall fuel new,
    (1 <= new)%Z -> (len + 1 - new < Z.of_nat fuel)%Z -> (0 < fuel)%nat ->
    let r := filter_cursor_go fuel filtered len cur new false in
    (r = (if negb (sk cur) then cur else 0%Z) /\ (forall k, (new <= k <= len)%Z -> sk k = true)) \/
    ((new <= r <= len)%Z /\ sk r = false /\ (forall k, (new <= k < r)%Z -> sk k = true)).
  Proof.
    induction fuel as [|fu IH]; intros new H1 Hf Hpos; cbv zeta; [lia|].
    - cbn [filter_cursor_go].
      destruct (Z.ltb new 1) eqn:E1; [apply Z.ltb_lt in E1; lia|].
      destruct (Z.ltb len new) eqn:E2.
      + apply Z.ltb_lt in E2. left. split; [reflexivity|]. intros k Hk. lia.
      + apply Z.ltb_ge in E2. fold (sk new).
        destruct (sk new) eqn:Es.
        * specialize (IH (new + 1)%Z ltac:(lia) ltac:(lia) ltac:(lia)). cbv zeta in IH.
          destruct IH as [[A B]|(A & B & C)].
          -- left. split; [exact A|]. intros k Hk.
             destruct (Z.eq_dec k new) as [->|Hne]; [exact Es|]. apply B. lia.
          -- right. split; [lia|]. split; [exact B|]. intros k Hk.
             destruct (Z.eq_dec k new) as [->|Hne]; [exact Es|]. apply C. lia.
        * right. split; [lia|]. split; [exact Es|]. intros k Hk. lia.
  Qed.

  Lemma fc_back : forall fuel new,
    (new <= len)%Z -> (new < Z.of_nat fuel)%Z -> (0 < fuel)%nat ->
    let r := filter_cursor_go fuel filtered len cur new true in
    (r = 0%Z /\ (forall k, (1 <= k <= new)%Z -> sk k = true)) \/
    ((1 <= r <= new)%Z /\ sk r = false /\ (forall k, (r < k <= new)%Z -> sk k = true)).
  Proof.
    induction fuel as [|fu IH]; intros new H1 Hf Hpos; cbv zeta; [lia|].
    cbn [filter_cursor_go].
    destruct (Z.ltb new 1) eqn:E1.
    - apply Z.ltb_lt in E1. left. split; [reflexivity|]. intros k Hk. lia.
    - apply Z.ltb_ge in E1.
      destruct (Z.ltb len new) eqn:E2; [apply Z.ltb_lt in E2; lia|].
      fold (sk new). destruct (sk new) eqn:Es.
      + specialize (IH (new - 1)%Z ltac:(lia) ltac:(lia) ltac:(lia)). cbv zeta in IH.
        destruct IH as [[A B]|(A & B & C)].
        * left. split; [exact A|]. intros k Hk.
          destruct (Z.eq_dec k new) as [->|Hne]; [exact Es|]. apply B. lia.
        * right. split; [lia|]. split; [exact B|]. intros k Hk.
          destruct (Z.eq_dec k new) as [->|Hne]; [exact Es|]. apply C. lia.
      + right. split; [lia|]. split; [exact Es|]. intros k Hk. lia.
  Qed.
End Nav.

Lemma cursor_ok_iff : forall active filtered len c,
  cursor_ok active filtered len c = true <->
  (0 <= c <= Z.of_nat len)%Z /\ (active = false \/ c = 0%Z \/ sk filtered c = false).
Proof.
  intros. unfold cursor_ok, cursor_in_range, sk, is_skipped. cbn [andb].
  rewrite !andb_true_iff, !orb_true_iff, !Z.leb_le, negb_true_iff, Z.eqb_eq, negb_true_iff.
  tauto.
Qed.

(* hFilterTxCursor1 lands on no record or on a listed one *)
Lemma filter_cursor_ok : forall filtered len cur new (back : bool),
  (0 <= cur <= Z.of_nat len)%Z ->
  (if back return Prop then (new <= Z.of_nat len)%Z else (1 <= new)%Z) ->
  cursor_ok true filtered len (filter_cursor true filtered len cur new back) = true.
Proof.
  intros filtered len cur new back Hc Hn. unfold filter_cursor. cbn [negb].
  apply cursor_ok_iff. destruct back.
  - pose proof (fc_back filtered (Z.of_nat len) cur (len + 2) new Hn ltac:(lia) ltac:(lia)) as H.
    cbv zeta in H. destruct H as [[A _]|(A & B & _)].
    + rewrite A. split; [lia|]. right. left. reflexivity.
    + split; [lia|]. right. right. exact B.
  - pose proof (fc_fwd filtered (Z.of_nat len) cur (len + 2) new Hn ltac:(lia) ltac:(lia)) as H.
    cbv zeta in H. destruct H as [[A _]|(A & B & _)].
    + rewrite A. destruct (sk filtered cur) eqn:Es; cbn [negb].
      * split; [lia|]. right. left. reflexivity.
      * split; [lia|]. right. right. exact Es.
    + split; [lia|]. right. right. exact B.
Qed.

Lemma tx_index_range : forall msgs id, (-1 <= tx_index msgs id < Z.of_nat (length msgs))%Z.
Proof.
  intros. rewrite tx_index_spec_lemma. unfold tx_index_scan, scan_exact.
  destruct (Nat.ltb _ _) eqn:E; [apply Nat.ltb_lt in E; lia|lia].
Qed.

Lemma nav_cursor_shown_lemma : forall fprev f active health msgs ps filtered cur c,
  cursor_ok active filtered (length msgs) cur = true ->
  let '(fl, cu) := nav_step fprev f active health msgs ps filtered cur c in
  cursor_ok active fl (length msgs) cu = true.
Proof.
  intros fprev f active health msgs ps filtered cur c Hok.
  pose proof Hok as Hok'. apply cursor_ok_iff in Hok'. destruct Hok' as [Hr Hs].
  assert (Hinact : forall fl new, active = false -> (0 <= new <= Z.of_nat (length msgs))%Z ->
            cursor_ok active fl (length msgs) new = true).
  { intros fl new -> Hn. apply cursor_ok_iff. split; [lia|]. left. reflexivity. }
  destruct c as [a|a|c1|id|]; cbn [nav_step]; cbv zeta.
  - destruct (Z.leb (cur + Z.max a 1) (Z.of_nat (length msgs))) eqn:E; [|exact Hok].
    apply Z.leb_le in E. destruct active.
    + apply filter_cursor_ok; cbn; lia.
    + unfold filter_cursor. cbn [negb]. apply Hinact; [reflexivity|lia].
  - destruct (Z.leb 0 (cur - Z.max a 1)) eqn:E; [|exact Hok].
    apply Z.leb_le in E. destruct active.
    + apply filter_cursor_ok; cbn; lia.
    + unfold filter_cursor. cbn [negb]. apply Hinact; [reflexivity|lia].
  - destruct (Z.ltb 0 c1 && Z.leb c1 (Z.of_nat (length msgs))) eqn:E; [|exact Hok].
    apply andb_true_iff in E. destruct E as [E1 E2]. apply Z.ltb_lt in E1. apply Z.leb_le in E2.
    destruct active.
    + apply filter_cursor_ok; cbn; lia.
    + unfold filter_cursor. cbn [negb]. apply Hinact; [reflexivity|lia].
  - destruct (Z.ltb (-1) (tx_index msgs id)) eqn:E; [|exact Hok].
    apply Z.ltb_lt in E. pose proof (tx_index_range msgs id) as Hti. destruct active.
    + apply filter_cursor_ok; cbn; lia.
    + unfold filter_cursor. cbn [negb]. apply Hinact; [reflexivity|lia].
  - destruct active; cbn [orb].
    + apply filter_cursor_ok; cbn; lia.
    + destruct (group_any (refilter_flags fprev f)).
      * pose proof (filter_cursor_ok (filter_client_txs (refilter_flags fprev f) health msgs ps)
                      (length msgs) cur cur true ltac:(lia) ltac:(lia)) as H.
        apply cursor_ok_iff in H. apply cursor_ok_iff. split; [tauto|]. left. reflexivity.
      * unfold filter_cursor. cbn [negb]. exact Hok.
Qed.

(* forward, then back: the cursor returns (when forward moved it at all) *)
Lemma fwd_back_id_lemma : forall fprev f active health msgs ps filtered c0 a b,
  (a <= 1)%Z -> (b <= 1)%Z ->
  cursor_ok active filtered (length msgs) c0 = true ->
  let c1 := snd (nav_step fprev f active health msgs ps filtered c0 (NFwd a)) in
  let c2 := snd (nav_step fprev f active health msgs ps filtered c1 (NBack b)) in
  fwd_back_ok c0 c1 c2 = true.
Proof.
  intros fprev f active health msgs ps filtered c0 a b Ha Hb Hok. cbv zeta.
  apply cursor_ok_iff in Hok. destruct Hok as [Hr Hs].
  unfold fwd_back_ok. apply orb_true_iff.
  cbn [nav_step]. cbv zeta.
  replace (Z.max a 1) with 1%Z by lia. replace (Z.max b 1) with 1%Z by lia.
  destruct (Z.leb (c0 + 1) (Z.of_nat (length msgs))) eqn:E; cbn [snd];
    [|left; apply Z.eqb_eq; reflexivity].
  apply Z.leb_le in E.
  destruct active.
  - set (c1 := filter_cursor true filtered (length msgs) c0 (c0 + 1) false).
    assert (Ec1 : c1 = filter_cursor_go (length msgs + 2) filtered (Z.of_nat (length msgs)) c0
                         (c0 + 1) false) by reflexivity.
    pose proof (fc_fwd filtered (Z.of_nat (length msgs)) c0 (length msgs + 2) (c0 + 1)
                  ltac:(lia) ltac:(lia) ltac:(lia)) as H.
    cbv zeta in H. rewrite <- Ec1 in H. destruct H as [[A _]|(A & B & C)].
    + (* nothing listed ahead: forward stays (or c0 was 0) *)
      left. apply Z.eqb_eq. rewrite A.
      destruct Hs as [Hs|[Hs|Hs]]; [discriminate| |].
      * subst c0. rewrite sk_zero by lia. reflexivity.
      * rewrite Hs. reflexivity.
    + right. apply Z.eqb_eq.
      assert (Hg : Z.leb 0 (c1 - 1) = true) by (apply Z.leb_le; lia).
      rewrite Hg. cbn [snd].
      set (c2 := filter_cursor true filtered (length msgs) c1 (c1 - 1) true).
      assert (Ec2 : c2 = filter_cursor_go (length msgs + 2) filtered (Z.of_nat (length msgs)) c1
                           (c1 - 1) true) by reflexivity.
      pose proof (fc_back filtered (Z.of_nat (length msgs)) c1 (length msgs + 2) (c1 - 1)
                    ltac:(lia) ltac:(lia) ltac:(lia)) as H.
      cbv zeta in H. rewrite <- Ec2 in H. destruct H as [[P Q]|(P & Q & R)].
      * (* everything below c1 is hidden: then c0 must be 0 *)
        rewrite P. destruct (Z.eq_dec c0 0) as [->|Hne]; [reflexivity|].
        destruct Hs as [Hs|[Hs|Hs]]; [discriminate|contradiction|].
        rewrite (Q c0) in Hs by lia. discriminate.
      * (* lands on the first listed record below c1: that is c0 *)
        destruct (Z.lt_trichotomy c2 c0) as [Hlt|[Heq|Hgt]]; [|exact Heq|].
        -- destruct Hs as [Hs|[Hs|Hs]]; [discriminate|lia|].
           rewrite (R c0) in Hs by lia. discriminate.
        -- rewrite (C c2) in Q by lia. discriminate.
  - (* nothing is ever skipped *)
    unfold filter_cursor. cbn [negb].
    replace (Z.leb 0 (c0 + 1 - 1)) with true by (symmetry; apply Z.leb_le; lia).
    cbn [snd]. right. apply Z.eqb_eq. lia.
Qed.

(* a listed index is a member *)
Lemma index_of_In : forall l x, index_of x l <> (-1)%Z -> (0 <= x)%Z /\ In (Z.to_nat x) l.
Proof.
  intros l x H. unfold index_of in H. rewrite index_of_from_spec in H. cbv zeta in H.
  destruct (Nat.ltb _ (length l)) eqn:E; [|contradiction].
  apply Nat.ltb_lt in E.
  pose proof (first_idx_at (fun y => Z.eqb (Z.of_nat y) x) l 0 E) as A. cbv beta in A.
  apply Z.eqb_eq in A. split; [lia|].
  rewrite <- A, Nat2Z.id. apply nth_In. exact E.
Qed.

(* after a recomputation of the list the shown record matches the flags the
   list was computed with *)
Lemma refilter_shown_lemma : forall fprev f active health msgs ps filtered cur,
  cursor_in_range (length msgs) cur = true ->
  (active || group_any (refilter_flags fprev f)) = true ->
  let '(fl, cu) := nav_step fprev f active health msgs ps filtered cur NRefilter in
  filtered_sound (refilter_flags fprev f) health msgs ps fl = true /\
  shown_matches (refilter_flags fprev f) health msgs ps cu = true.
Proof.
  intros fprev f active health msgs ps filtered cur Hr Ha. cbn [nav_step]. cbv zeta.
  rewrite Ha. split; [apply filter_client_sound_lemma|].
  unfold cursor_in_range in Hr. apply andb_true_iff in Hr. destruct Hr as [H1 H2].
  apply Z.leb_le in H1. apply Z.leb_le in H2.
  set (fl := filter_client_txs (refilter_flags fprev f) health msgs ps).
  pose proof (filter_cursor_ok fl (length msgs) cur cur true ltac:(lia) ltac:(cbn; lia)) as H.
  apply cursor_ok_iff in H. destruct H as [Hrange [H|[H|H]]]; [discriminate| |].
  - rewrite H. reflexivity.
  - unfold shown_matches. apply orb_true_iff.
    set (cu := filter_cursor true fl (length msgs) cur cur true) in *.
    destruct (Z.leb cu 0) eqn:E; [left; reflexivity|right].
    unfold sk, is_skipped in H. cbn [andb] in H. apply Z.eqb_neq in H.
    apply index_of_In in H. destruct H as [_ Hin]. unfold fl, filter_client_txs in Hin.
    apply filter_In in Hin. destruct Hin as [_ Hf]. rewrite <- filter_tx_matches. exact Hf.
Qed.

(* FilterChecks is not a member of the Filters state group: alone it never
   hides anything *)
Lemma filter_checks_only_refuted_lemma :
  exists f health msgs ps,
    f_checks f = true /\ ps = fst (fst (parse_all 2 [1] msgs)) /\
    let active := group_any f in
    let '(fl, cu) := nav_step f f active health msgs ps [] 0%Z NRefilter in
    let '(fl2, cu2) := nav_step f f active health msgs ps fl cu (NFwd 1) in
    shown_matches f health msgs ps cu2 = false.
Proof.
  exists (mkFilters false false false false false false true), [],
    [mkMsg 0 [0%N; 0%N] 1 0 0 1 true true false false [0] []].
  eexists. split; [reflexivity|]. split; [reflexivity|]. vm_compute. reflexivity.
Qed.

Lemma had_err_since_parsed_lemma : forall n errst msgs (tx distance : Z),
  let errors := snd (fst (parse_all n errst msgs)) in
  had_err_since errors tx distance = had_err_scan errors tx distance.
Proof.
  intros. apply had_err_since_spec_lemma. apply errors_desc_sorted_lemma.
Qed.

(* ================================================================== several clients *)

Lemma go_search_bounds : forall fuel f i j,
  i <= j -> i <= go_search fuel f i j /\ go_search fuel f i j <= j.
Proof.
  induction fuel as [|fu IH]; intros f i j H; cbn [go_search]; [lia|].
  destruct (Nat.ltb i j) eqn:E; [|lia].
  apply Nat.ltb_lt in E.
  assert (Hh : i <= Nat.div2 (i + j) /\ Nat.div2 (i + j) < j).
  { rewrite Nat.div2_div. split.
    - apply Nat.div_le_lower_bound; lia.
    - apply Nat.div_lt_upper_bound; lia. }
  destruct (f (Nat.div2 (i + j))).
  - destruct (IH f i (Nat.div2 (i + j))); lia.
  - destruct (IH f (S (Nat.div2 (i + j))) j); lia.
Qed.

Lemma tx_at_htime_range : forall msgs t,
  (msgs = [] /\ tx_at_htime msgs t = (-1)%Z) \/
  (msgs <> [] /\ (0 <= tx_at_htime msgs t < Z.of_nat (length msgs))%Z).
Proof.
  intros msgs t. destruct msgs as [|m r]; [left; split; reflexivity|right].
  split; [discriminate|]. unfold tx_at_htime. cbv zeta.
  remember (m :: r) as L eqn:EL.
  assert (Hl : length L <> 0) by (subst L; cbn [length]; lia).
  destruct (Nat.eqb (length L) 0) eqn:E0; [apply Nat.eqb_eq in E0; contradiction|].
  set (i := sort_search (length L) (fun i => N.leb t (m_htime (nth i L dmsg)))).
  assert (Hi : i <= length L).
  { unfold i, sort_search. destruct (go_search_bounds (S (length L))
      (fun i => N.leb t (m_htime (nth i L dmsg))) 0 (length L)); lia. }
  destruct (Nat.eqb i (length L)) eqn:E1.
  - apply Nat.eqb_eq in E1. lia.
  - apply Nat.eqb_neq in E1. lia.
Qed.

(* the cursor a client switch leaves: no record, or (when listing is in
   force) a listed one *)
Lemma select_cursor_ok_lemma : forall active filtered msgs cur last,
  cursor_in_range (length msgs) cur = true ->
  cursor_ok active filtered (length msgs) (select_cursor active filtered msgs cur last) = true.
Proof.
  intros active filtered msgs cur last Hr.
  unfold cursor_in_range in Hr. apply andb_true_iff in Hr. destruct Hr as [H1 H2].
  apply Z.leb_le in H1. apply Z.leb_le in H2.
  unfold select_cursor. cbv zeta.
  destruct (tx_at_htime_range msgs last) as [[He Hi]|[Hne Hi]].
  - rewrite Hi. cbn [Z.eqb]. subst msgs. cbn [length] in *. destruct active.
    + apply filter_cursor_ok; cbn; lia.
    + unfold filter_cursor. cbn [negb]. apply cursor_ok_iff. split; [cbn; lia|left; reflexivity].
  - destruct (Z.eqb (tx_at_htime msgs last) (-1)) eqn:E; [apply Z.eqb_eq in E; lia|].
    destruct active.
    + pose proof (filter_cursor_ok filtered (length msgs) cur (tx_at_htime msgs last) true
                    ltac:(lia) ltac:(cbn; lia)) as A.
      apply cursor_ok_iff in A. destruct A as [A _].
      set (c1 := filter_cursor true filtered (length msgs) cur (tx_at_htime msgs last) true) in *.
      apply filter_cursor_ok; [lia|]. cbv iota. lia.
    + unfold filter_cursor. cbn [negb]. apply cursor_ok_iff. split; [lia|left; reflexivity].
Qed.

(* a cursor that rests on a listed record of a recomputed list shows a
   matching record *)
Lemma listed_matches : forall f health ms ps c,
  cursor_ok true (filter_client_txs f health ms ps) (length ms) c = true ->
  shown_matches f health ms ps c = true.
Proof.
  intros f health ms ps c H. apply cursor_ok_iff in H. destruct H as [Hrange [H|[H|H]]]; [discriminate| |].
  - rewrite H. reflexivity.
  - unfold shown_matches. apply orb_true_iff.
    destruct (Z.leb c 0) eqn:E; [left; reflexivity|right].
    unfold sk, is_skipped in H. cbn [andb] in H. apply Z.eqb_neq in H.
    apply index_of_In in H. destruct H as [_ Hin]. unfold filter_client_txs in Hin.
    apply filter_In in Hin. destruct Hin as [_ Hf]. rewrite <- filter_tx_matches. exact Hf.
Qed.

Lemma select_cursor_shown_lemma : forall f health msgs ps cur last,
  cursor_in_range (length msgs) cur = true ->
  let fl := filter_client_txs f health msgs ps in
  let cu := select_cursor true fl msgs cur last in
  cursor_ok true fl (length msgs) cu = true /\ shown_matches f health msgs ps cu = true.
Proof.
  intros f health msgs ps cur last Hr. cbv zeta.
  pose proof (select_cursor_ok_lemma true (filter_client_txs f health msgs ps) msgs cur last Hr) as H.
  split; [exact H|]. apply listed_matches. exact H.
Qed.

(* ---- the state of two clients along a history *)

Lemma get_set_same : forall d w c, get_client (set_client d w c) w = c.
Proof. intros d w c. destruct w; reflexivity. Qed.

Lemma get_set_other : forall d w c, get_client (set_client d w c) (negb w) = get_client d (negb w).
Proof. intros d w c. destruct w; reflexivity. Qed.

Lemma on_selected_spec : forall h d f' c moved,
  let cl := sel_client d in
  let r := nav_step (d_flags d) f' (group_any f') h (c_msgs cl) (c_parsed cl) (c_filtered cl)
                    (c_cursor cl) c in
  let d' := on_selected h d f' c moved in
  d_sel d' = d_sel d /\ d_flags d' = f' /\
  sel_client d' = mkClient (c_msgs cl) (c_parsed cl) (fst r) (snd r) /\
  get_client d' (negb (d_sel d)) = get_client d (negb (d_sel d)).
Proof.
  intros h d f' c moved. cbv zeta. unfold on_selected.
  destruct (nav_step (d_flags d) f' (group_any f') h (c_msgs (sel_client d)) (c_parsed (sel_client d))
              (c_filtered (sel_client d)) (c_cursor (sel_client d)) c) as [fl cu].
  destruct d as [s a b f l]. destruct s; cbn; repeat split; reflexivity.
Qed.

Lemma nav_step_filtered : forall fprev f active h msgs ps fl cur c,
  fst (nav_step fprev f active h msgs ps fl cur c) =
  match c with
  | NRefilter => if active || group_any (refilter_flags fprev f)
                 then filter_client_txs (refilter_flags fprev f) h msgs ps else fl
  | _ => fl
  end.
Proof.
  intros. destruct c; cbn [nav_step]; cbv zeta.
  - destruct (Z.leb _ _); reflexivity.
  - destruct (Z.leb _ _); reflexivity.
  - destruct (_ && _); reflexivity.
  - destruct (Z.ltb _ _); reflexivity.
  - reflexivity.
Qed.

Lemma refilter_flags_same : forall f, refilter_flags f f = f.
Proof.
  intros f. unfold refilter_flags.
  destruct (f_canceled f), (f_queued f); cbn [andb orb negb]; reflexivity.
Qed.

Lemma plain_refilter : forall a b, plain_toggle a b = true -> refilter_flags a b = b.
Proof.
  intros a b H. unfold plain_toggle in H. unfold refilter_flags.
  destruct (f_canceled a && negb (f_canceled b)); [discriminate|].
  destruct (f_queued a && negb (f_queued b)); [discriminate|]. reflexivity.
Qed.

(* one event: what it does to a client's records and to the flags *)
Definition ev_arrived (w : bool) (e : event) : list (msg * parsed) :=
  match e with
  | EArrive w' m p => if Bool.eqb w' w then [(m, p)] else []
  | _ => []
  end.

Definition ev_flags (f : filters) (e : event) : filters :=
  match e with EToggle f' => f' | _ => f end.

Lemma step_flags : forall h d e, d_flags (dbg_step h d e) = ev_flags (d_flags d) e.
Proof.
  intros h d e. destruct e as [w m p|f'|w|c]; cbn [dbg_step ev_flags].
  - destruct d as [s a b f l]. destruct w; reflexivity.
  - apply (on_selected_spec h d f' NRefilter true).
  - destruct (Bool.eqb w (d_sel d)); reflexivity.
  - apply (on_selected_spec h d (d_flags d) c).
Qed.

Lemma step_records : forall h d e w,
  c_msgs (get_client (dbg_step h d e) w) = c_msgs (get_client d w) ++ map fst (ev_arrived w e) /\
  c_parsed (get_client (dbg_step h d e) w) = c_parsed (get_client d w) ++ map snd (ev_arrived w e).
Proof.
  intros h d e w.
  assert (Hsel : forall f' c moved,
            c_msgs (get_client (on_selected h d f' c moved) w) = c_msgs (get_client d w) /\
            c_parsed (get_client (on_selected h d f' c moved) w) = c_parsed (get_client d w)).
  { intros f' c moved. pose proof (on_selected_spec h d f' c moved) as S. cbv zeta in S.
    destruct S as (S1 & _ & S3 & S4).
    destruct (Bool.eqb w (d_sel d)) eqn:E.
    - apply eqb_prop in E. subst w. unfold sel_client in S3. rewrite S1 in S3. rewrite S3.
      cbn [c_msgs c_parsed]. split; reflexivity.
    - assert (w = negb (d_sel d)) by (destruct w, (d_sel d); cbn in E; try discriminate; reflexivity).
      subst w. rewrite S4. split; reflexivity. }
  destruct e as [w' m p|f'|w'|c]; cbn [dbg_step ev_arrived map]; rewrite ?app_nil_r.
  - destruct (Bool.eqb w' w) eqn:E.
    + apply eqb_prop in E. subst w'. rewrite get_set_same. cbn [arrive c_msgs c_parsed map fst snd].
      split; reflexivity.
    + assert (w = negb w') by (destruct w, w'; cbn in E; try discriminate; reflexivity).
      subst w. rewrite get_set_other. cbn [map]. rewrite !app_nil_r. split; reflexivity.
  - apply Hsel.
  - destruct (Bool.eqb w' (d_sel d)) eqn:E; [split; reflexivity|].
    destruct d as [s a b f l]. cbn [d_sel d_a d_b d_flags d_last get_client] in *.
    destruct w', s; cbn in E; try discriminate; destruct w; cbn; split; reflexivity.
  - apply Hsel.
Qed.

Lemma arrived_cons : forall w e r, arrived w (e :: r) = ev_arrived w e ++ arrived w r.
Proof. intros. unfold arrived. cbn [flat_map]. destruct e; reflexivity. Qed.

Lemma flags_after_cons : forall f e r, flags_after f (e :: r) = flags_after (ev_flags f e) r.
Proof. intros. unfold flags_after. cbn [fold_left]. destruct e; reflexivity. Qed.

Lemma run_flags : forall h evs d, d_flags (run_events h d evs) = flags_after (d_flags d) evs.
Proof.
  intros h. induction evs as [|e r IH]; intros d; [reflexivity|].
  unfold run_events in *. cbn [fold_left]. rewrite IH, step_flags, flags_after_cons. reflexivity.
Qed.

Lemma run_records : forall h evs d w,
  c_msgs (get_client (run_events h d evs) w) = c_msgs (get_client d w) ++ map fst (arrived w evs) /\
  c_parsed (get_client (run_events h d evs) w) = c_parsed (get_client d w) ++ map snd (arrived w evs).
Proof.
  intros h. induction evs as [|e r IH]; intros d w.
  - cbn. rewrite !app_nil_r. split; reflexivity.
  - unfold run_events in *. cbn [fold_left]. destruct (IH (dbg_step h d e) w) as [A B].
    destruct (step_records h d e w) as [C D].
    rewrite A, B, C, D, arrived_cons, !map_app, !app_assoc. split; reflexivity.
Qed.

(* after ANY history, selecting the other client leaves exactly the records
   of that client that pass the flags of that moment *)
Lemma select_view_lemma : forall health f0 evs who,
  let d := run_events health (dbg_init f0) evs in
  d_sel d <> who ->
  group_any (flags_after f0 evs) = true ->
  let d' := dbg_step health d (ESelect who) in
  d_sel d' = who /\
  d_flags d' = flags_after f0 evs /\
  c_filtered (sel_client d') =
    filter_client_txs (flags_after f0 evs) health (map fst (arrived who evs)) (map snd (arrived who evs)).
Proof.
  intros health f0 evs who. cbv zeta. intros Hsel Hact.
  pose proof (run_flags health evs (dbg_init f0)) as Hf. cbn [dbg_init d_flags] in Hf.
  destruct (run_records health evs (dbg_init f0) who) as [Hm Hp].
  replace (c_msgs (get_client (dbg_init f0) who)) with (@nil msg) in Hm by (destruct who; reflexivity).
  replace (c_parsed (get_client (dbg_init f0) who)) with (@nil parsed) in Hp by (destruct who; reflexivity).
  cbn [app] in Hm, Hp.
  set (d := run_events health (dbg_init f0) evs) in *.
  cbn [dbg_step].
  destruct (Bool.eqb who (d_sel d)) eqn:E; [apply eqb_prop in E; congruence|].
  rewrite Hf, Hact.
  split; [reflexivity|]. split; [reflexivity|].
  unfold sel_client. cbn [d_sel]. rewrite <- Hm, <- Hp.
  destruct who; cbn [get_client set_client d_a d_b d_sel c_filtered]; destruct (d_sel d); reflexivity.
Qed.

(* ---- the view along a tame history *)

Lemma filter_tx_snoc : forall f h ms ps m p i,
  f_autocanceled f = false -> length ps = length ms -> i < length ms ->
  filter_tx f h (ms ++ [m]) (ps ++ [p]) i = filter_tx f h ms ps i.
Proof.
  intros f h ms ps m p i Hf Hl Hi. unfold filter_tx. cbv zeta.
  rewrite Hf. cbn [andb]. rewrite !app_nth1 by lia. reflexivity.
Qed.

Lemma filter_client_snoc : forall f h ms ps m p,
  f_autocanceled f = false -> length ps = length ms ->
  filter_client_txs f h (ms ++ [m]) (ps ++ [p]) =
  filter_client_txs f h ms ps ++
  (if filter_tx f h (ms ++ [m]) (ps ++ [p]) (length ms) then [length ms] else []).
Proof.
  intros f h ms ps m p Hf Hl. unfold filter_client_txs.
  rewrite app_length. cbn [length]. rewrite Nat.add_1_r, seq_S. cbn [plus].
  rewrite filter_app. f_equal; try (cbn [filter]; reflexivity).
  apply filter_ext_in. intros i Hi. apply in_seq in Hi. apply filter_tx_snoc; [assumption|assumption|lia].
Qed.

Definition view_inv (h : list nat) (d : dbg) : Prop :=
  length (c_parsed (d_a d)) = length (c_msgs (d_a d)) /\
  length (c_parsed (d_b d)) = length (c_msgs (d_b d)) /\
  (group_any (d_flags d) = true ->
   c_filtered (sel_client d) =
     filter_client_txs (d_flags d) h (c_msgs (sel_client d)) (c_parsed (sel_client d))).

Definition tame_step (f : filters) (e : event) : bool :=
  match e with
  | EArrive _ _ _ => negb (f_autocanceled f)
  | EToggle f' => plain_toggle f f'
  | _ => true
  end.

Lemma tame_events_cons : forall f e r,
  tame_events f (e :: r) = tame_step f e && tame_events (ev_flags f e) r.
Proof. intros f e r. destruct e; reflexivity. Qed.

Lemma lengths_of : forall d,
  length (c_parsed (d_a d)) = length (c_msgs (d_a d)) ->
  length (c_parsed (d_b d)) = length (c_msgs (d_b d)) ->
  forall w, length (c_parsed (get_client d w)) = length (c_msgs (get_client d w)).
Proof. intros d A B w. destruct w; assumption. Qed.

Lemma lengths_from : forall d,
  (forall w, length (c_parsed (get_client d w)) = length (c_msgs (get_client d w))) ->
  length (c_parsed (d_a d)) = length (c_msgs (d_a d)) /\
  length (c_parsed (d_b d)) = length (c_msgs (d_b d)).
Proof. intros d H. split; [apply (H false)|apply (H true)]. Qed.

Lemma on_selected_inv : forall h d f' c moved,
  view_inv h d ->
  (c = NRefilter -> refilter_flags (d_flags d) f' = f') ->
  (c <> NRefilter -> f' = d_flags d) ->
  view_inv h (on_selected h d f' c moved).
Proof.
  intros h d f' c moved (La & Lb & Hv) Hre Hnav.
  pose proof (on_selected_spec h d f' c moved) as S. cbv zeta in S.
  destruct S as (S1 & S2 & S3 & S4).
  pose proof (lengths_of d La Lb) as L.
  set (d' := on_selected h d f' c moved) in *.
  assert (L' : forall w, length (c_parsed (get_client d' w)) = length (c_msgs (get_client d' w))).
  { intros w. destruct (Bool.eqb w (d_sel d)) eqn:E.
    - apply eqb_prop in E. subst w. unfold sel_client in S3. rewrite S1 in S3. rewrite S3.
      cbn [c_msgs c_parsed]. apply L.
    - assert (w = negb (d_sel d)) by (destruct w, (d_sel d); cbn in E; try discriminate; reflexivity).
      subst w. rewrite S4. apply L. }
  destruct (lengths_from d' L') as [La' Lb'].
  split; [exact La'|]. split; [exact Lb'|].
  intros Hact. rewrite S3. cbn [c_filtered c_msgs c_parsed]. rewrite S2 in *.
  rewrite nav_step_filtered.
  destruct c as [a|a|c1|id|].
  1-4: (rewrite (Hnav ltac:(discriminate)) in *; apply Hv; exact Hact).
  rewrite (Hre eq_refl). rewrite Hact. rewrite orb_true_r. reflexivity.
Qed.

Lemma step_inv : forall h d e,
  view_inv h d -> tame_step (d_flags d) e = true -> view_inv h (dbg_step h d e).
Proof.
  intros h d e Hinv Ht. destruct e as [w m p|f'|w|c]; cbn [dbg_step tame_step] in *.
  - (* a message arrives *)
    destruct Hinv as (La & Lb & Hv). apply negb_true_iff in Ht.
    pose proof (lengths_of d La Lb) as L.
    set (cl' := arrive (d_flags d) h (get_client d w) m p).
    assert (Lc : length (c_parsed cl') = length (c_msgs cl')).
    { unfold cl', arrive. cbn [c_parsed c_msgs]. rewrite !app_length, (L w). reflexivity. }
    assert (L' : forall w', length (c_parsed (get_client (set_client d w cl') w')) =
                            length (c_msgs (get_client (set_client d w cl') w'))).
    { intros w'. destruct (Bool.eqb w' w) eqn:E.
      - apply eqb_prop in E. subst w'. rewrite get_set_same. exact Lc.
      - assert (w' = negb w) by (destruct w, w'; cbn in E; try discriminate; reflexivity).
        subst w'. rewrite get_set_other. apply L. }
    destruct (lengths_from _ L') as [La' Lb'].
    split; [exact La'|]. split; [exact Lb'|].
    assert (Hfl : d_flags (set_client d w cl') = d_flags d) by (destruct d, w; reflexivity).
    assert (Hs : d_sel (set_client d w cl') = d_sel d) by (destruct d, w; reflexivity).
    rewrite Hfl. intros Hact. unfold sel_client. rewrite Hs.
    destruct (Bool.eqb (d_sel d) w) eqn:E.
    + apply eqb_prop in E. rewrite E. rewrite get_set_same.
      unfold cl', arrive. cbn [c_filtered c_msgs c_parsed].
      rewrite filter_client_snoc by (try assumption; apply L).
      specialize (Hv Hact). unfold sel_client in Hv. rewrite E in Hv. rewrite <- Hv.
      destruct (filter_tx _ _ _ _ _); [reflexivity|rewrite app_nil_r; reflexivity].
    + assert (d_sel d = negb w) by (destruct w, (d_sel d); cbn in E; try discriminate; reflexivity).
      rewrite H. rewrite get_set_other. rewrite <- H. apply Hv. exact Hact.
  - (* a plain toggle *)
    apply on_selected_inv; [exact Hinv| |].
    + intros _. apply plain_refilter. exact Ht.
    + intros H. contradiction H. reflexivity.
  - (* a client switch *)
    destruct (Bool.eqb w (d_sel d)) eqn:E; [exact Hinv|].
    destruct Hinv as (La & Lb & Hv).
    pose proof (lengths_of d La Lb) as L.
    destruct d as [s a b f l]. cbn [d_sel d_a d_b d_flags d_last get_client set_client] in *.
    unfold view_inv, sel_client.
    destruct w, s; cbn in E; try discriminate;
      cbn [d_sel d_a d_b d_flags get_client set_client c_msgs c_parsed c_filtered];
      (split; [assumption|]); (split; [assumption|]); intros Hact; rewrite Hact; reflexivity.
  - (* a cursor command *)
    apply on_selected_inv; [exact Hinv| |].
    + intros _. apply refilter_flags_same.
    + intros _. reflexivity.
Qed.

Lemma run_inv : forall h evs d,
  view_inv h d -> tame_events (d_flags d) evs = true -> view_inv h (run_events h d evs).
Proof.
  intros h. induction evs as [|e r IH]; intros d Hinv Ht; [exact Hinv|].
  rewrite tame_events_cons in Ht. apply andb_true_iff in Ht. destruct Ht as [T1 T2].
  unfold run_events in *. cbn [fold_left]. apply IH.
  - apply step_inv; assumption.
  - rewrite step_flags. exact T2.
Qed.

(* on a tame history the view of the selected client is, at every moment,
   the records it received so far that pass the flags of that moment *)
Lemma view_partial_lemma : forall health f0 evs,
  tame_events f0 evs = true ->
  let d := run_events health (dbg_init f0) evs in
  group_any (flags_after f0 evs) = true ->
  d_flags d = flags_after f0 evs /\
  c_filtered (sel_client d) =
    filter_client_txs (flags_after f0 evs) health
      (map fst (arrived (d_sel d) evs)) (map snd (arrived (d_sel d) evs)).
Proof.
  intros health f0 evs Ht. cbv zeta. intros Hact.
  pose proof (run_flags health evs (dbg_init f0)) as Hf. cbn [dbg_init d_flags] in Hf.
  assert (Hi : view_inv health (dbg_init f0)).
  { unfold view_inv, dbg_init, sel_client. cbn. repeat split; reflexivity. }
  pose proof (run_inv health evs (dbg_init f0) Hi Ht) as (_ & _ & Hv).
  set (d := run_events health (dbg_init f0) evs) in *.
  destruct (run_records health evs (dbg_init f0) (d_sel d)) as [Hm Hp].
  replace (c_msgs (get_client (dbg_init f0) (d_sel d))) with (@nil msg) in Hm
    by (destruct (d_sel d); reflexivity).
  replace (c_parsed (get_client (dbg_init f0) (d_sel d))) with (@nil parsed) in Hp
    by (destruct (d_sel d); reflexivity).
  cbn [app] in Hm, Hp. fold d in Hm, Hp.
  split; [exact Hf|]. rewrite Hf in Hv. rewrite (Hv Hact). unfold sel_client.
  rewrite Hm, Hp. reflexivity.
Qed.

(* ... not on every history: a toggle that switches FilterCanceledTx off is
   re-filtered with the FilterEmptyTx of before (FilterCanceledTxEnd takes it
   off only behind ToolToggled): the empty transition stays hidden although
   no flag hides it any more *)
Lemma view_history_refuted_lemma :
  exists health f0 evs,
    let d := run_events health (dbg_init f0) evs in
    group_any (flags_after f0 evs) = true /\
    c_filtered (sel_client d) <>
      filter_client_txs (flags_after f0 evs) health
        (map fst (arrived (d_sel d) evs)) (map snd (arrived (d_sel d) evs)).
Proof.
  exists [], (mkFilters true false false true true false false),
    [EArrive false (mkMsg 0 [1%N; 0%N] 1 0 0 1 true false false false [0] []) (mkParsed 1 1 [0] [] []);
     EArrive false (mkMsg 1 [1%N; 0%N] 2 0 0 2 true false false false [0] []) (mkParsed 1 0 [] [] []);
     EToggle (mkFilters false false false false true false false)].
  cbv zeta. split; [reflexivity|]. vm_compute. discriminate.
Qed.

(* ---- cursor commands over a recomputed view *)

Lemma index_of_from_In : forall l x k, In x l -> index_of_from k (Z.of_nat x) l <> (-1)%Z.
Proof.
  induction l as [|y r IH]; intros x k Hin; [contradiction|].
  cbn [index_of_from]. destruct (Z.eqb (Z.of_nat x) (Z.of_nat y)) eqn:E; [lia|].
  apply Z.eqb_neq in E. destruct Hin as [->|Hin]; [contradiction E; reflexivity|]. apply IH. exact Hin.
Qed.

(* in a recomputed view, "hidden" is "does not match" *)
Lemma match_iff_listed : forall f h ms ps k,
  (Z.ltb 0 k && Z.leb k (Z.of_nat (length ms)) && tx_matches f h ms ps (Z.to_nat (k - 1)))
  = negb (sk (filter_client_txs f h ms ps) k).
Proof.
  intros f h ms ps k. unfold sk, is_skipped. cbn [andb].
  destruct (Z.eqb (index_of (k - 1) (filter_client_txs f h ms ps)) (-1)) eqn:E; cbn [negb].
  - destruct (Z.ltb 0 k) eqn:A; [|reflexivity].
    destruct (Z.leb k (Z.of_nat (length ms))) eqn:B; [|reflexivity]. cbn [andb].
    destruct (tx_matches f h ms ps (Z.to_nat (k - 1))) eqn:M; [exfalso|reflexivity].
    apply Z.ltb_lt in A. apply Z.leb_le in B. apply Z.eqb_eq in E.
    assert (Hin : In (Z.to_nat (k - 1)) (filter_client_txs f h ms ps)).
    { unfold filter_client_txs. apply filter_In. split; [apply in_seq; lia|].
      rewrite filter_tx_matches. exact M. }
    apply (index_of_from_In _ _ 0) in Hin. rewrite Z2Nat.id in Hin by lia.
    unfold index_of in E. contradiction.
  - apply Z.eqb_neq in E. apply index_of_In in E. destruct E as [H0 Hin].
    unfold filter_client_txs in Hin. apply filter_In in Hin. destruct Hin as [Hs Hf].
    apply in_seq in Hs. rewrite filter_tx_matches in Hf. rewrite Hf.
    replace (Z.ltb 0 k) with true by (symmetry; apply Z.ltb_lt; lia).
    replace (Z.leb k (Z.of_nat (length ms))) with true by (symmetry; apply Z.leb_le; lia).
    reflexivity.
Qed.

Lemma existsb_cursors_none : forall (m : Z -> bool) a b,
  (forall k, (a <= k < b)%Z -> m k = false) -> existsb m (cursors_from a b) = false.
Proof.
  intros m a b H. destruct (existsb m (cursors_from a b)) eqn:E; [|reflexivity].
  apply existsb_exists in E. destruct E as [k [Hin Hm]]. unfold cursors_from in Hin.
  apply in_map_iff in Hin. destruct Hin as [i [<- Hi]]. apply in_seq in Hi.
  rewrite H in Hm by lia. discriminate.
Qed.

(* hFilterTxCursor1 over a recomputed view lands on the FIRST matching
   record in its direction: nothing hidden is shown, nothing matching is
   passed over *)
Lemma scan_exact_lemma : forall f h ms ps cur new (back : bool),
  cursor_ok true (filter_client_txs f h ms ps) (length ms) cur = true ->
  (if back return Prop then (new <= Z.of_nat (length ms))%Z else (1 <= new)%Z) ->
  scan_codes f h ms ps new
    (filter_cursor true (filter_client_txs f h ms ps) (length ms) cur new back) back = [].
Proof.
  intros f h ms ps cur new back Hok Hn.
  apply cursor_ok_iff in Hok. destruct Hok as [Hr Hs].
  set (fl := filter_client_txs f h ms ps) in *.
  assert (Hfc : forall b, filter_cursor true fl (length ms) cur new b =
                          filter_cursor_go (length ms + 2) fl (Z.of_nat (length ms)) cur new b)
    by reflexivity.
  rewrite Hfc.
  unfold scan_codes. cbv zeta.
  set (m := fun k : Z => Z.ltb 0 k && Z.leb k (Z.of_nat (length ms))
                         && tx_matches f h ms ps (Z.to_nat (k - 1))).
  assert (Hm : forall k, m k = negb (sk fl k)) by (intros k; apply match_iff_listed).
  assert (HmU : forall k, (Z.ltb 0 k && Z.leb k (Z.of_nat (length ms))
                           && tx_matches f h ms ps (Z.to_nat (k - 1))) = negb (sk fl k))
    by (intros k; apply match_iff_listed).
  destruct back.
  - pose proof (fc_back fl (Z.of_nat (length ms)) cur (length ms + 2) new Hn ltac:(lia) ltac:(lia)) as H.
    cbv zeta in H.
    set (r := filter_cursor_go (length ms + 2) fl (Z.of_nat (length ms)) cur new true) in *.
    destruct H as [[A B]|(A & B & C)].
    + rewrite A. cbn [Z.ltb Z.leb andb app].
      replace (Z.leb 1 0) with false by reflexivity. cbn [andb].
      rewrite existsb_cursors_none; [reflexivity|].
      intros k Hk. rewrite Hm, B by lia. reflexivity.
    + rewrite (HmU r), B. cbn [negb].
      rewrite andb_false_r. cbn [app].
      replace (Z.leb 1 r && Z.leb r new) with true
        by (symmetry; apply andb_true_iff; split; apply Z.leb_le; lia).
      rewrite existsb_cursors_none; [reflexivity|].
      intros k Hk. rewrite Hm, C by lia. reflexivity.
  - pose proof (fc_fwd fl (Z.of_nat (length ms)) cur (length ms + 2) new Hn ltac:(lia) ltac:(lia)) as H.
    cbv zeta in H.
    set (r := filter_cursor_go (length ms + 2) fl (Z.of_nat (length ms)) cur new false) in *.
    destruct H as [[A B]|(A & B & C)].
    + rewrite (HmU r).
      assert (Hr1 : (Z.ltb 0 r && negb (negb (sk fl r))) = false).
      { rewrite A. destruct (sk fl cur) eqn:Es; cbn [negb]; [reflexivity|].
        rewrite Es. cbn [negb]. apply andb_false_r. }
      rewrite Hr1. cbn [app].
      rewrite existsb_cursors_none; [reflexivity|].
      intros k Hk. rewrite Hm, B; [reflexivity|].
      destruct (Z.leb new r && Z.leb r (Z.of_nat (length ms))) eqn:E; [|lia].
      apply andb_true_iff in E. destruct E as [E1 E2]. apply Z.leb_le in E2. lia.
    + rewrite (HmU r), B. cbn [negb]. rewrite andb_false_r. cbn [app].
      replace (Z.leb new r && Z.leb r (Z.of_nat (length ms))) with true
        by (symmetry; apply andb_true_iff; split; apply Z.leb_le; lia).
      rewrite existsb_cursors_none; [reflexivity|].
      intros k Hk. rewrite Hm, C by lia. reflexivity.
Qed.

Lemma nav_step_target : forall f h ms ps cur c,
  snd (nav_step f f true h ms ps (filter_client_txs f h ms ps) cur c) =
  match nav_target ms cur c with
  | Some (new, back) => filter_cursor true (filter_client_txs f h ms ps) (length ms) cur new back
  | None => cur
  end.
Proof.
  intros f h ms ps cur c. destruct c as [a|a|c1|id|]; cbn [nav_step nav_target]; cbv zeta.
  - destruct (Z.leb _ _); reflexivity.
  - destruct (Z.leb _ _); reflexivity.
  - destruct (_ && _); reflexivity.
  - destruct (Z.ltb _ _); reflexivity.
  - rewrite refilter_flags_same. cbn [orb snd]. reflexivity.
Qed.

Lemma fresh_view_steps_lemma : forall f h ms ps cur c,
  let fl := filter_client_txs f h ms ps in
  cursor_ok true fl (length ms) cur = true ->
  let cu := snd (nav_step f f true h ms ps fl cur c) in
  match nav_target ms cur c with
  | Some (new, back) => scan_codes f h ms ps new cu back = []
  | None => cu = cur
  end.
Proof.
  intros f h ms ps cur c. cbv zeta. intros Hok. rewrite nav_step_target.
  pose proof Hok as Hok'. apply cursor_ok_iff in Hok'. destruct Hok' as [Hr _].
  destruct c as [a|a|c1|id|]; cbn [nav_target]; cbv zeta.
  - destruct (Z.leb _ _) eqn:E; [|reflexivity]. apply scan_exact_lemma; [exact Hok|lia].
  - destruct (Z.leb _ _) eqn:E; [|reflexivity]. apply scan_exact_lemma; [exact Hok|cbv iota; lia].
  - destruct (_ && _) eqn:E; [|reflexivity]. apply andb_true_iff in E. destruct E as [E1 _].
    apply Z.ltb_lt in E1. apply scan_exact_lemma; [exact Hok|lia].
  - destruct (Z.ltb _ _) eqn:E; [|reflexivity]. apply Z.ltb_lt in E.
    apply scan_exact_lemma; [exact Hok|cbv iota; lia].
  - apply scan_exact_lemma; [exact Hok|cbv iota; lia].
Qed.

(* ================================================================== TxIndex and its memo *)

Lemma tx_index_from_snoc : forall msgs k id m,
  tx_index_from k msgs id <> (-1)%Z ->
  tx_index_from k (msgs ++ [m]) id = tx_index_from k msgs id.
Proof.
  induction msgs as [|x r IH]; intros k id m H; cbn [tx_index_from app] in *; [contradiction|].
  destruct (Nat.eqb (m_id x) id); [reflexivity|]. apply IH. exact H.
Qed.

(* every remembered answer is the answer of a scan over the current records,
   and a found one *)
Definition cache_ok (msgs : list msg) (cache : tx_cache) : Prop :=
  forall id i, cache_get cache id = Some i -> i = tx_index msgs id /\ (0 <= i)%Z.

Lemma cache_ok_snoc : forall msgs cache m, cache_ok msgs cache -> cache_ok (msgs ++ [m]) cache.
Proof.
  intros msgs cache m H id i Hg. destruct (H id i Hg) as [E P]. split; [|exact P].
  unfold tx_index in *. rewrite tx_index_from_snoc; [exact E|]. rewrite <- E. lia.
Qed.

Lemma memo_correct : forall msgs cache id,
  cache_ok msgs cache ->
  fst (tx_index_memo cache msgs id) = tx_index msgs id /\
  cache_ok msgs (snd (tx_index_memo cache msgs id)).
Proof.
  intros msgs cache id H. unfold tx_index_memo.
  destruct (cache_get cache id) as [i|] eqn:G.
  - cbn [fst snd]. split; [apply (H id i G)|exact H].
  - cbv zeta. destruct (Z.ltb (-1) (tx_index msgs id)) eqn:E; cbn [fst snd]; (split; [reflexivity|]);
      [|exact H].
    apply Z.ltb_lt in E. intros id' i' Hg. cbn [cache_get] in Hg.
    destruct (Nat.eqb id id') eqn:Eid.
    + apply Nat.eqb_eq in Eid. subst id'. injection Hg as <-. split; [reflexivity|lia].
    + apply (H id' i' Hg).
Qed.

Lemma store_arrived_cons : forall e r,
  store_arrived (e :: r) = (match e with SArrive m => [m] | SLookup _ => [] end) ++ store_arrived r.
Proof. intros. reflexivity. Qed.

Lemma store_run_ok : forall evs s,
  cache_ok (fst s) (snd s) ->
  let s' := store_run tx_index_memo s evs in
  fst s' = fst s ++ store_arrived evs /\ cache_ok (fst s') (snd s').
Proof.
  induction evs as [|e r IH]; intros s H; cbv zeta.
  - cbn. rewrite app_nil_r. split; [reflexivity|exact H].
  - unfold store_run in *. cbn [fold_left]. rewrite store_arrived_cons.
    destruct e as [m|id]; cbn [store_step].
    + specialize (IH (fst s ++ [m], snd s)). cbv zeta in IH. cbn [fst snd] in IH.
      destruct (IH (cache_ok_snoc _ _ m H)) as [A B].
      split; [rewrite A, <- app_assoc; reflexivity|exact B].
    + destruct (memo_correct (fst s) (snd s) id H) as [_ C].
      specialize (IH (fst s, snd (tx_index_memo (snd s) (fst s) id))). cbv zeta in IH.
      cbn [fst snd] in IH. destruct (IH C) as [A B].
      split; [rewrite A; reflexivity|exact B].
Qed.

(* whatever was looked up before, and when: TxIndex answers what a linear
   scan over the records received so far answers *)
Lemma tx_index_history_lemma : forall (evs : list store_event) (id : nat),
  let s := store_run tx_index_memo ([], []) evs in
  fst s = store_arrived evs /\
  fst (tx_index_memo (snd s) (fst s) id) = tx_index_scan (store_arrived evs) id.
Proof.
  intros evs id. cbv zeta.
  assert (H0 : cache_ok (fst (@nil msg, @nil (nat * Z))) (snd (@nil msg, @nil (nat * Z)))).
  { intros i j Hg. discriminate. }
  destruct (store_run_ok evs ([], []) H0) as [A B]. cbn [fst app] in A.
  split; [exact A|].
  destruct (memo_correct _ _ id B) as [C _]. rewrite C, A. apply tx_index_spec_lemma.
Qed.

(* a memo that remembers misses as well is NOT: the id asked for before its
   record arrived stays "not found" *)
Lemma tx_index_memo_of_misses_refuted_lemma :
  exists (evs : list store_event) (id : nat),
    let s := store_run tx_index_memo_all ([], []) evs in
    fst (tx_index_memo_all (snd s) (fst s) id) <> tx_index_scan (store_arrived evs) id.
Proof.
  exists [SLookup 0; SArrive (mkMsg 0 [1%N] 1 0 0 1 true false false false [0] [])], 0.
  vm_compute. discriminate.
Qed.
