(* C06 - WhenTime / WhenTicks / WhenNextActive: invariant of the WhenTime index
   and the no-lost-wake-up theorem on plain runs with coherent clocks.
   Lemmas only. *)

From Coq Require Import List Bool Arith NArith ZArith Lia.
From Coq Require Import ZifyN ZifyNat ZifyBool.
From AMV Require Import Base.ListSet Model.Subs Spec.C06.
From AMV Require Import Proofs.C06When Proofs.C06Keep.
Import ListNotations.

(* ------------------------------------------------------------ the WhenTime heap *)

Lemma tb_set_idx_same : forall b, tb_set_idx b (tb_idx b) = b.
Proof. intros []. reflexivity. Qed.

Lemma find_tb_split : forall h id b, NoDup (map tb_id h) -> find_tb h id = Some b ->
  exists h1 h2, h = h1 ++ b :: h2 /\ tb_id b = id /\
    (forall x, In x h1 -> tb_id x <> id) /\ (forall x, In x h2 -> tb_id x <> id).
Proof.
  induction h as [|y r IH]; intros id b Hnd H; simpl in H; [discriminate|].
  inversion Hnd as [|? ? Hy Hr]. subst.
  destruct (Nat.eqb (tb_id y) id) eqn:E.
  - inversion H. subst y. apply Nat.eqb_eq in E. exists [], r.
    split; [reflexivity|]. split; [exact E|]. split.
    + intros x Hx. destruct Hx.
    + intros x Hx Hc. apply Hy. rewrite E, <- Hc. apply in_map. exact Hx.
  - destruct (IH id b Hr H) as [h1 [h2 [Hh [Hid [H1 H2]]]]].
    exists (y :: h1), h2. subst r.
    split; [reflexivity|]. split; [exact Hid|]. split; [|exact H2].
    intros x [Hx|Hx]; [subst; apply Nat.eqb_neq; exact E | apply H1; exact Hx].
Qed.

Lemma tmap_ne_id : forall (f : tbind -> tbind) id l,
  (forall x, In x l -> tb_id x <> id) ->
  map (fun b => if Nat.eqb (tb_id b) id then f b else b) l = l.
Proof.
  intros f id l H. induction l as [|y r IH]; simpl; [reflexivity|].
  rewrite IH by (intros x Hx; apply H; right; exact Hx).
  destruct (Nat.eqb (tb_id y) id) eqn:E; [|reflexivity].
  apply Nat.eqb_eq in E. exfalso. apply (H y); [left; reflexivity | exact E].
Qed.

Lemma put_tb_split : forall h1 h2 b b', tb_id b' = tb_id b ->
  (forall x, In x h1 -> tb_id x <> tb_id b) -> (forall x, In x h2 -> tb_id x <> tb_id b) ->
  put_tb (h1 ++ b :: h2) b' = h1 ++ b' :: h2.
Proof.
  intros h1 h2 b b' Hid H1 H2. unfold put_tb. rewrite map_app. simpl. rewrite Hid.
  rewrite Nat.eqb_refl.
  rewrite (tmap_ne_id (fun _ => b') (tb_id b) h1 H1), (tmap_ne_id (fun _ => b') (tb_id b) h2 H2).
  reflexivity.
Qed.

Lemma find_tb_mid : forall h1 h2 b,
  (forall x, In x h1 -> tb_id x <> tb_id b) -> find_tb (h1 ++ b :: h2) (tb_id b) = Some b.
Proof.
  induction h1 as [|y r IH]; intros h2 b H; simpl.
  - rewrite Nat.eqb_refl. reflexivity.
  - destruct (Nat.eqb (tb_id y) (tb_id b)) eqn:E.
    + apply Nat.eqb_eq in E. exfalso. apply (H y); [left; reflexivity | exact E].
    + apply IH. intros x Hx. apply H. right. exact Hx.
Qed.

Lemma find_tb_None : forall h id, find_tb h id = None -> forall b, In b h -> tb_id b <> id.
Proof.
  induction h as [|y r IH]; intros id H b Hb; simpl in *; [contradiction|].
  destruct (Nat.eqb (tb_id y) id) eqn:E; [discriminate|].
  destruct Hb as [Hb|Hb]; [subst; apply Nat.eqb_neq; exact E | apply IH; assumption].
Qed.

Lemma time_len_app : forall h1 h2 z, time_len (h1 ++ h2) z = time_len h1 z + time_len h2 z.
Proof.
  intros h1 h2 z. unfold time_len. induction h1 as [|y r IH]; simpl; [reflexivity|]. rewrite IH. lia.
Qed.

Lemma time_len_0_map : forall l z, time_len l z = 0 ->
  map (fun b => tb_set_idx b (remove_all z (tb_idx b))) l = l.
Proof.
  induction l as [|y r IH]; intros z H; simpl; [reflexivity|].
  unfold time_len in H. simpl in H. fold (time_len r z) in H.
  rewrite IH by lia. rewrite remove_all_notin by (apply count_in_0; lia).
  rewrite tb_set_idx_same. reflexivity.
Qed.

Lemma gc_time_state_split : forall h1 h2 bc z,
  (forall x, In x h1 -> tb_id x <> tb_id bc) -> (forall x, In x h2 -> tb_id x <> tb_id bc) ->
  NoDup (tb_idx bc) -> In z (tb_idx bc) ->
  gc_time_state (h1 ++ bc :: h2) (tb_id bc) z
  = h1 ++ tb_set_idx bc (remove_all z (tb_idx bc)) :: h2.
Proof.
  intros h1 h2 bc z H1 H2 Hnd Hin. unfold gc_time_state.
  assert (Hlen : time_len (h1 ++ bc :: h2) z = time_len h1 z + 1 + time_len h2 z).
  { rewrite time_len_app. unfold time_len at 2. simpl. fold (time_len h2 z).
    rewrite (count_in_NoDup z (tb_idx bc) Hnd Hin). lia. }
  destruct (Nat.eqb (time_len (h1 ++ bc :: h2) z) 1) eqn:E.
  - apply Nat.eqb_eq in E. rewrite map_app. simpl.
    rewrite (time_len_0_map h1 z) by lia. rewrite (time_len_0_map h2 z) by lia. reflexivity.
  - rewrite map_app. simpl. rewrite Nat.eqb_refl.
    rewrite (tmap_ne_id (fun b => tb_set_idx b (without (tb_idx b) z)) (tb_id bc) h1 H1).
    rewrite (tmap_ne_id (fun b => tb_set_idx b (without (tb_idx b) z)) (tb_id bc) h2 H2).
    rewrite (without_NoDup_eq _ _ Hnd). reflexivity.
Qed.

Lemma gc_time_fold_split : forall sts h1 h2 bc,
  (forall x, In x h1 -> tb_id x <> tb_id bc) -> (forall x, In x h2 -> tb_id x <> tb_id bc) ->
  NoDup (tb_idx bc) -> NoDup sts -> incl sts (tb_idx bc) ->
  fold_left (fun h st => gc_time_state h (tb_id bc) st) sts (h1 ++ bc :: h2)
  = h1 ++ tb_set_idx bc (fold_left (fun acc x => remove_all x acc) sts (tb_idx bc)) :: h2.
Proof.
  induction sts as [|z r IH]; intros h1 h2 bc H1 H2 Hnd Hs Hin; simpl.
  - rewrite tb_set_idx_same. reflexivity.
  - inversion Hs as [|? ? Hz Hr]. subst.
    rewrite (gc_time_state_split h1 h2 bc z H1 H2 Hnd (Hin z (or_introl eq_refl))).
    set (bc' := tb_set_idx bc (remove_all z (tb_idx bc))).
    change (tb_id bc) with (tb_id bc').
    rewrite (IH h1 h2 bc'); try assumption.
    + destruct bc. reflexivity.
    + subst bc'. cbn. apply remove_all_NoDup. exact Hnd.
    + subst bc'. cbn. intros y Hy. apply remove_all_In. split; [apply Hin; right; exact Hy|].
      intros E. subst. contradiction.
Qed.

Lemma uniq_NoDup_id : forall l, NoDup l -> uniq l = l.
Proof.
  intros l H. unfold uniq.
  assert (G : forall l seen, NoDup l -> (forall x, In x l -> ~ In x seen) -> uniq_acc seen l = l).
  { induction l0 as [|y r IH]; intros seen Hn Hs; simpl; [reflexivity|].
    inversion Hn as [|? ? Hy Hr]. subst.
    assert (E : mem y seen = false) by (apply mem_false; apply Hs; left; reflexivity).
    rewrite E. f_equal. apply IH; [exact Hr|].
    intros x Hx [Hc|Hc]; [subst; contradiction | apply (Hs x); [right; exact Hx | exact Hc]]. }
  apply G; [exact H | intros x _ []].
Qed.

Lemma gc_time_split : forall h1 h2 bc tctx g,
  (forall x, In x h1 -> tb_id x <> tb_id bc) -> (forall x, In x h2 -> tb_id x <> tb_id bc) ->
  NoDup (tb_states bc) -> tb_idx bc = tb_states bc ->
  fst (gc_time (h1 ++ bc :: h2) tctx bc g) = h1 ++ tb_set_idx bc [] :: h2.
Proof.
  intros h1 h2 bc tctx g H1 H2 Hnd Hidx. unfold gc_time. cbn [fst].
  rewrite (uniq_NoDup_id _ Hnd).
  rewrite (gc_time_fold_split (tb_states bc) h1 h2 bc H1 H2); try assumption.
  - rewrite fold_remove_all_nil; [reflexivity|]. rewrite Hidx. apply incl_refl.
  - rewrite Hidx. exact Hnd.
  - rewrite Hidx. apply incl_refl.
Qed.

(* ------------------------------------------------------------ bindings *)

(* the threshold of state x of binding b is reached on the tick function t *)
Definition tfun (b : tbind) (t : nat -> N) (x : nat) : bool := (tb_time b x <=? t x)%N.

Definition updN (t : nat -> N) (x : nat) (n : N) : nat -> N := fun y => if Nat.eqb y x then n else t y.

Definition tpre (t : nat -> N) (b : tbind) : Prop :=
  tb_idx b = tb_states b /\ NoDup (tb_states b) /\ tb_states b <> [] /\
  tb_total b = length (tb_states b) /\
  (forall x, In x (tb_states b) -> aget (tb_done b) x = tfun b t x) /\
  tb_matched b = cnt false (tfun b t) (tb_states b) /\ tb_matched b < tb_total b.

Definition tdead (cl : list nat) (b : tbind) : Prop := tb_idx b = [] /\ mem (tb_id b) cl = true.
Definition tok (cl : list nat) (t : nat -> N) (b : tbind) : Prop := tdead cl b \/ tpre t b.

Definition tshape (b b' : tbind) : Prop :=
  tb_id b' = tb_id b /\ tb_states b' = tb_states b /\ tb_times b' = tb_times b.

Lemma tshape_refl : forall b, tshape b b.
Proof. intros b. unfold tshape. tauto. Qed.

Lemma tfun_shape : forall b b' t x, tshape b b' -> tfun b' t x = tfun b t x.
Proof. intros b b' t x [_ [A B]]. unfold tfun, tb_time. rewrite A, B. reflexivity. Qed.

Lemma tpre_ext : forall t t' b, (forall x, In x (tb_states b) -> t x = t' x) -> tpre t b -> tpre t' b.
Proof.
  intros t t' b H [A [B [C [D [E [F G]]]]]]. unfold tpre.
  assert (Hf : forall x, In x (tb_states b) -> tfun b t x = tfun b t' x).
  { intros x Hx. unfold tfun. rewrite (H x Hx). reflexivity. }
  repeat split; auto.
  - intros x Hx. rewrite <- (Hf x Hx). apply E. exact Hx.
  - rewrite F. apply cnt_ext. exact Hf.
Qed.

Lemma tok_ext : forall cl t t' b, (forall x, In x (tb_states b) -> t x = t' x) -> tok cl t b -> tok cl t' b.
Proof. intros cl t t' b H [Hd|Hp]; [left; exact Hd | right; eapply tpre_ext; eassumption]. Qed.

Lemma tok_cl : forall cl cl' t b, tok cl t b -> (forall i, mem i cl = true -> mem i cl' = true) -> tok cl' t b.
Proof. intros cl cl' t b [[A B]|H] Hm; [left; split; auto | right; exact H]. Qed.

Lemma tok_NoDup_idx : forall cl t b, tok cl t b -> NoDup (tb_idx b).
Proof. intros cl t b [[A _]|[A [B _]]]; [rewrite A; constructor | rewrite A; exact B]. Qed.

Lemma tsame_set_time_fields : forall s tb tc cl,
  ss_done (set_time s tb tc cl) = ss_done s /\ ss_frozen (set_time s tb tc cl) = ss_frozen s /\
  ss_next (set_time s tb tc cl) = ss_next s.
Proof. intros. psimpl. repeat split. Qed.

(* one visit of ProcessWhenTime's inner loop to an indexed binding, for one of
   its states, with a clock that did not go back *)
Lemma visit_tb_pre : forall s live h1 h2 b x t,
  ss_done s = [] -> ss_tb s = h1 ++ b :: h2 ->
  (forall y, In y h1 -> tb_id y <> tb_id b) -> (forall y, In y h2 -> tb_id y <> tb_id b) ->
  tpre t b -> In x (tb_states b) -> (t x <= tick_of live x)%N ->
  exists b' tc cl', tshape b b' /\
    visit_tb s live (tb_id b) x = set_time s (h1 ++ b' :: h2) tc cl' /\
    (forall i, mem i (ss_closed s) = true -> mem i cl' = true) /\
    (forall i, mem i cl' = true -> mem i (ss_closed s) = true \/ i = tb_id b) /\
    tok cl' (updN t x (tick_of live x)) b'.
Proof.
  intros s live h1 h2 b x t Hdone Htb H1 H2 Hpre Hx Hmono.
  pose proof Hpre as [A [B [C [D [E [F G]]]]]].
  unfold visit_tb. rewrite Htb, (find_tb_mid h1 h2 b H1).
  set (t' := updN t x (tick_of live x)).
  set (v := tfun b t' x).
  assert (Hv : v = (tb_time b x <=? tick_of live x)%N).
  { unfold v, tfun, t', updN. rewrite Nat.eqb_refl. reflexivity. }
  assert (Hold : aget (tb_done b) x = tfun b t x) by (apply E; exact Hx).
  assert (Himp : tfun b t x = true -> v = true).
  { unfold tfun. rewrite Hv. intros H. apply N.leb_le in H. apply N.leb_le. lia. }
  assert (Hupd : forall y, tfun b t' y = upd (tfun b t) x v y).
  { intros y. unfold tfun, t', updN, upd, v, tfun, t', updN. rewrite Nat.eqb_refl.
    destruct (Nat.eqb y x) eqn:Ey; [apply Nat.eqb_eq in Ey; subst y|]; reflexivity. }
  set (hit := negb (aget (tb_done b) x) && (tb_time b x <=? tick_of live x)%N).
  set (b1 := if hit then tb_set_match b (aset (tb_done b) x true) (S (tb_matched b)) else b).
  assert (Hsh1 : tshape b b1) by (unfold b1; destruct hit; unfold tshape; cbn; tauto).
  assert (Hb1 : tb_idx b1 = tb_states b /\ tb_total b1 = length (tb_states b) /\ tb_ctx b1 = tb_ctx b /\
                (forall y, In y (tb_states b) -> aget (tb_done b1) y = tfun b t' y) /\
                tb_matched b1 = cnt false (tfun b t') (tb_states b)).
  { assert (Hc := cnt_upd false (tfun b t) x v (tb_states b) B Hx).
    rewrite (cnt_ext false (tfun b t') (upd (tfun b t) x v) (tb_states b) (fun y _ => Hupd y)).
    unfold P in Hc. unfold upd at 2 in Hc. rewrite Nat.eqb_refl in Hc.
    unfold b1, hit. rewrite Hold, <- Hv.
    destruct (tfun b t x) eqn:Eo; cbn [negb andb].
    - assert (Hvt : v = true) by (apply Himp; reflexivity). rewrite Hvt in *. repeat split; auto; try lia.
      intros y Hy. rewrite Hupd. unfold upd. destruct (Nat.eqb y x) eqn:Ey; [|apply E; exact Hy].
      apply Nat.eqb_eq in Ey. subst y. congruence.
    - destruct v eqn:Ev.
      + cbn. repeat split; auto; try lia.
        intros y Hy. rewrite Hupd. unfold upd. destruct (Nat.eqb y x) eqn:Ey.
        * apply Nat.eqb_eq in Ey. subst y. apply aget_aset_same.
        * apply Nat.eqb_neq in Ey. rewrite aget_aset_other by exact Ey. apply E. exact Hy.
      + repeat split; auto; try lia.
        intros y Hy. rewrite Hupd. unfold upd. destruct (Nat.eqb y x) eqn:Ey; [|apply E; exact Hy].
        apply Nat.eqb_eq in Ey. subst y. congruence. }
  destruct Hb1 as [Hi1 [Ht1 [Hc1 [Hf1 Hm1]]]].
  assert (Hid1 : tb_id b1 = tb_id b) by apply Hsh1.
  assert (Hexp : ctx_done s (tb_ctx b) = false).
  { unfold ctx_done. destruct (tb_ctx b); [|reflexivity]. rewrite Hdone. reflexivity. }
  fold hit. fold b1. rewrite Hexp. cbn [negb]. rewrite andb_true_r.
  assert (Hput : put_tb (h1 ++ b :: h2) b1 = h1 ++ b1 :: h2).
  { apply put_tb_split; [exact Hid1 | exact H1 | exact H2]. }
  rewrite Hput.
  destruct (tb_matched b1 <? tb_total b) eqn:Elt.
  - exists b1, (ss_tctx s), (ss_closed s). split; [exact Hsh1|]. split; [reflexivity|].
    split; [tauto|]. split; [tauto|]. right. apply Nat.ltb_lt in Elt.
    assert (Hst1 : tb_states b1 = tb_states b) by apply Hsh1.
    unfold tpre. rewrite Hst1, Hi1, Ht1, Hm1.
    repeat split; auto.
    + intros y Hy. rewrite (tfun_shape b b1 t' y Hsh1). apply Hf1. exact Hy.
    + apply cnt_ext. intros y _. symmetry. apply tfun_shape. exact Hsh1.
    + rewrite <- Hm1, <- D. exact Elt.
  - pose proof (gc_time_split h1 h2 b1 (ss_tctx s) true) as Hgc. rewrite Hid1 in Hgc.
    assert (Hst1 : tb_states b1 = tb_states b) by apply Hsh1.
    specialize (Hgc H1 H2). rewrite Hst1, Hi1 in Hgc. specialize (Hgc B eq_refl).
    destruct (gc_time (h1 ++ b1 :: h2) (ss_tctx s) b1 true) as [hh tc]. cbn [fst] in Hgc. subst hh.
    exists (tb_set_idx b1 []), tc, (close (ss_closed s) (tb_id b)).
    split; [destruct Hsh1 as [X [Y Z]]; unfold tshape; cbn; tauto|].
    split; [reflexivity|]. split; [intros i Hi; apply close_mono; exact Hi|].
    split; [intros i Hi; apply close_mem in Hi; tauto|].
    left. unfold tdead. cbn. rewrite Hid1. split; [reflexivity | apply close_self].
Qed.

(* ------------------------------------------------------------ ProcessWhenTime *)

(* what the WhenTime functions keep *)
Definition tkeep (s s' : sst) : Prop :=
  ss_done s' = ss_done s /\ ss_frozen s' = ss_frozen s /\ ss_next s' = ss_next s /\
  ss_disposed s' = ss_disposed s /\ ss_crashed s' = ss_crashed s /\
  (forall i, mem i (ss_closed s) = true -> mem i (ss_closed s') = true).

Lemma tkeep_refl : forall s, tkeep s s.
Proof. intros s. unfold tkeep. repeat split; auto. Qed.

Lemma tkeep_trans : forall s1 s2 s3, tkeep s1 s2 -> tkeep s2 s3 -> tkeep s1 s3.
Proof.
  unfold tkeep. intros s1 s2 s3 [A1 [A2 [A3 [A4 [A5 A6]]]]] [B1 [B2 [B3 [B4 [B5 B6]]]]].
  repeat split; try congruence. intros i Hi. apply B6. apply A6. exact Hi.
Qed.

Lemma tkeep_set_time : forall s tb tc cl,
  (forall i, mem i (ss_closed s) = true -> mem i cl = true) -> tkeep s (set_time s tb tc cl).
Proof. intros. unfold tkeep. psimpl. repeat split; auto. Qed.

Lemma F2_mid : forall (R : tbind -> tbind -> Prop) h1 h2 b b',
  (forall x, R x x) -> R b b' -> Forall2 R (h1 ++ b :: h2) (h1 ++ b' :: h2).
Proof.
  intros R h1 h2 b b' Hr Hb. apply Forall2_app.
  - induction h1; constructor; auto.
  - constructor; [exact Hb|]. induction h2; constructor; auto.
Qed.

Lemma F2_refl : forall (R : tbind -> tbind -> Prop) l, (forall x, R x x) -> Forall2 R l l.
Proof. intros R l H. induction l; constructor; auto. Qed.

Lemma F2_trans : forall (R : tbind -> tbind -> Prop) l1 l2 l3,
  (forall x y z, R x y -> R y z -> R x z) -> Forall2 R l1 l2 -> Forall2 R l2 l3 -> Forall2 R l1 l3.
Proof.
  intros R l1 l2 l3 H A. revert l3. induction A; intros l3 B; inversion B; subst; constructor; eauto.
Qed.

Lemma tshape_trans : forall x y z, tshape x y -> tshape y z -> tshape x z.
Proof. unfold tshape. intros x y z [A [B C]] [D [E F]]. repeat split; congruence. Qed.

Lemma F2_ids : forall l1 l2, Forall2 tshape l1 l2 -> map tb_id l2 = map tb_id l1.
Proof. intros l1 l2 A. induction A; simpl; [reflexivity|]. destruct H as [H _]. congruence. Qed.

Lemma F2_In_l : forall (R : tbind -> tbind -> Prop) l1 l2 x,
  Forall2 R l1 l2 -> In x l1 -> exists y, In y l2 /\ R x y.
Proof.
  intros R l1 l2 x A. induction A; intros Hin; [contradiction|].
  destruct Hin as [Hin|Hin]; [subst; eexists; split; [left; reflexivity | assumption]|].
  destruct (IHA Hin) as [z [Hz Hr]]. exists z. split; [right; exact Hz | exact Hr].
Qed.

Section TInner.
  Variables (x : nat) (live : list N) (tp : nat -> N).
  Hypothesis Hmono : (tp x <= tick_of live x)%N.
  Let tq := updN tp x (tick_of live x).

  Lemma tinner : forall ids s,
    ss_done s = [] -> NoDup ids -> NoDup (map tb_id (ss_tb s)) ->
    (forall b, In b (ss_tb s) ->
       if mem (tb_id b) ids then tpre tp b /\ In x (tb_states b) else tok (ss_closed s) tq b) ->
    let s' := fold_left (fun st id => visit_tb st live id x) ids s in
    tkeep s s' /\ (forall b', In b' (ss_tb s') -> tok (ss_closed s') tq b') /\
    Forall2 tshape (ss_tb s) (ss_tb s').
  Proof.
    induction ids as [|id rest IH]; intros s Hdone Hnd Hids Hall; cbn zeta; simpl fold_left.
    - split; [apply tkeep_refl|]. split; [exact Hall|]. apply F2_refl. apply tshape_refl.
    - inversion Hnd as [|? ? Hid Hrest]. subst.
      destruct (find_tb (ss_tb s) id) as [b0|] eqn:Ef.
      + destruct (find_tb_split _ _ _ Hids Ef) as [h1 [h2 [Hh [Hb0 [H1 H2]]]]]. subst id.
        assert (Hin0 : In b0 (ss_tb s)) by (rewrite Hh; apply in_or_app; right; left; reflexivity).
        pose proof (Hall b0 Hin0) as Hl. cbn [mem existsb] in Hl. rewrite Nat.eqb_refl in Hl.
        cbn [orb] in Hl. destruct Hl as [Hpre Hx].
        destruct (visit_tb_pre s live h1 h2 b0 x tp Hdone Hh H1 H2 Hpre Hx Hmono)
          as [b1 [tc [cl' [Hsh [Heq [Hm1 [Hc1 Hok1]]]]]]].
        rewrite Heq. set (s1 := set_time s (h1 ++ b1 :: h2) tc cl').
        assert (Hb1 : tb_id b1 = tb_id b0) by apply Hsh.
        destruct (IH s1) as [Hk [Hok Hrel]].
        * unfold s1. psimpl. exact Hdone.
        * exact Hrest.
        * unfold s1. psimpl. rewrite Hh in Hids. repeat rewrite map_app in *. simpl in *. rewrite Hb1. exact Hids.
        * unfold s1. psimpl. intros b Hb. apply in_app_or in Hb.
          assert (Hother : forall b2, In b2 (ss_tb s) -> tb_id b2 <> tb_id b0 ->
                    if mem (tb_id b2) rest then tpre tp b2 /\ In x (tb_states b2) else tok cl' tq b2).
          { intros b2 Hb2 Hne. pose proof (Hall b2 Hb2) as Hx2. rewrite (mem_cons_ne _ _ _ Hne) in Hx2.
            destruct (mem (tb_id b2) rest); [exact Hx2|]. eapply tok_cl; [exact Hx2 | exact Hm1]. }
          destruct Hb as [Hb|[Hb|Hb]].
          -- apply Hother; [rewrite Hh; apply in_or_app; left; exact Hb | apply H1; exact Hb].
          -- subst b. rewrite Hb1. apply mem_false in Hid. rewrite Hid. exact Hok1.
          -- apply Hother; [rewrite Hh; apply in_or_app; right; right; exact Hb | apply H2; exact Hb].
        * split; [eapply tkeep_trans; [apply tkeep_set_time; exact Hm1 | exact Hk]|].
          split; [exact Hok|].
          eapply F2_trans; [apply tshape_trans | | exact Hrel].
          unfold s1. psimpl. rewrite Hh. apply F2_mid; [apply tshape_refl | exact Hsh].
      + assert (Hv : visit_tb s live id x = s) by (unfold visit_tb; rewrite Ef; reflexivity).
        rewrite Hv. apply IH; try assumption.
        intros b Hb. pose proof (Hall b Hb) as Hx2.
        rewrite (mem_cons_ne _ _ _ (find_tb_None _ _ Ef b Hb)) in Hx2. exact Hx2.
  Qed.
End TInner.

Lemma tsnapshot_eq : forall y h, (forall b, In b h -> NoDup (tb_idx b)) ->
  flat_map (fun b => repeat (tb_id b) (count_in y (tb_idx b))) h
  = map tb_id (filter (fun b => mem y (tb_idx b)) h).
Proof.
  intros y. induction h as [|b r IH]; intros H; simpl; [reflexivity|].
  rewrite IH by (intros b' Hb'; apply H; right; exact Hb').
  destruct (mem y (tb_idx b)) eqn:E.
  - apply mem_In in E. rewrite (count_in_NoDup y _ (H b (or_introl eq_refl)) E). reflexivity.
  - apply mem_false in E. apply count_in_0 in E. rewrite E. reflexivity.
Qed.

Lemma tNoDup_map_filter : forall (g : tbind -> bool) h,
  NoDup (map tb_id h) -> NoDup (map tb_id (filter g h)).
Proof.
  intros g. induction h as [|b r IH]; intros H; simpl; [constructor|].
  inversion H as [|? ? Hb Hr]. subst. destruct (g b); simpl; [|apply IH; exact Hr].
  constructor; [|apply IH; exact Hr]. intros Hin. apply Hb.
  apply in_map_iff in Hin. destruct Hin as [x [Hx Hi]]. apply filter_In in Hi.
  apply in_map_iff. exists x. tauto.
Qed.

Lemma tmem_map_filter : forall (g : tbind -> bool) h b,
  NoDup (map tb_id h) -> In b h -> mem (tb_id b) (map tb_id (filter g h)) = g b.
Proof.
  intros g h b Hnd Hb. destruct (g b) eqn:E.
  - apply mem_In. apply in_map. apply filter_In. tauto.
  - apply mem_false. intros Hin. apply in_map_iff in Hin. destruct Hin as [x [Hx Hi]].
    apply filter_In in Hi. destruct Hi as [Hi Hg].
    assert (x = b); [|congruence].
    clear E Hg. induction h as [|z r IH]; [contradiction|].
    inversion Hnd as [|? ? Hz Hr]. subst.
    destruct Hi as [Hi|Hi], Hb as [Hb|Hb]; try congruence.
    + subst. exfalso. apply Hz. rewrite Hx. apply in_map. exact Hb.
    + subst. exfalso. apply Hz. rewrite <- Hx. apply in_map. exact Hi.
    + apply IH; assumption.
Qed.

(* the tick function during the walk over the ticked states *)
Definition thyb (c live : list N) (p : list nat) (y : nat) : N :=
  if mem y p then tick_of live y else tick_of c y.

Lemma thyb_snoc : forall c live p x y,
  thyb c live (p ++ [x]) y = updN (thyb c live p) x (tick_of live x) y.
Proof.
  intros c live p x y. unfold thyb, updN. rewrite C06When.mem_app. cbn [mem existsb].
  destruct (Nat.eqb y x) eqn:E.
  - apply Nat.eqb_eq in E. subst y. rewrite orb_true_r. reflexivity.
  - rewrite orb_false_r. reflexivity.
Qed.

Definition tstep (live : list N) (st : sst) (x : nat) : sst :=
  let ids := flat_map (fun b => repeat (tb_id b) (count_in x (tb_idx b))) (ss_tb st) in
  fold_left (fun st id => visit_tb st live id x) ids st.

Lemma touter : forall c live rest p s,
  (forall y, (tick_of c y <= tick_of live y)%N) ->
  ss_done s = [] -> NoDup (map tb_id (ss_tb s)) ->
  (forall b, In b (ss_tb s) -> tok (ss_closed s) (thyb c live p) b) ->
  let s' := fold_left (tstep live) rest s in
  tkeep s s' /\ (forall b', In b' (ss_tb s') -> tok (ss_closed s') (thyb c live (p ++ rest)) b') /\
  Forall2 tshape (ss_tb s) (ss_tb s').
Proof.
  intros c live. induction rest as [|x rest IH]; intros p s Hmono Hdone Hnd Hok; cbn zeta; simpl fold_left.
  - rewrite app_nil_r. split; [apply tkeep_refl|]. split; [exact Hok|]. apply F2_refl. apply tshape_refl.
  - set (ids := map tb_id (filter (fun b => mem x (tb_idx b)) (ss_tb s))).
    assert (Hsnap : tstep live s x = fold_left (fun st id => visit_tb st live id x) ids s).
    { unfold tstep. rewrite tsnapshot_eq; [reflexivity|].
      intros b Hb. eapply tok_NoDup_idx. apply Hok. exact Hb. }
    rewrite Hsnap.
    assert (Hm : (thyb c live p x <= tick_of live x)%N).
    { unfold thyb. destruct (mem x p); [lia | apply Hmono]. }
    destruct (tinner x live (thyb c live p) Hm ids s Hdone (tNoDup_map_filter _ _ Hnd) Hnd) as [Hk1 [Hok1 Hrel1]].
    { intros b Hb. unfold ids. rewrite (tmem_map_filter _ _ _ Hnd Hb).
      destruct (Hok b Hb) as [Hd|Hp].
      - destruct Hd as [Hd1 Hd2]. rewrite Hd1. cbn. left. split; assumption.
      - pose proof Hp as [A _]. rewrite A. destruct (mem x (tb_states b)) eqn:E.
        + apply mem_In in E. split; [exact Hp | exact E].
        + right. eapply tpre_ext; [|exact Hp]. intros y Hy. unfold updN.
          destruct (Nat.eqb y x) eqn:Eyx; [|reflexivity].
          apply Nat.eqb_eq in Eyx. subst y. apply mem_false in E. contradiction. }
    set (s1 := fold_left (fun st id => visit_tb st live id x) ids s) in *.
    destruct (IH (p ++ [x]) s1 Hmono) as [Hk [Hok' Hrel']].
    + destruct Hk1 as [Hd _]. congruence.
    + rewrite (F2_ids _ _ Hrel1). exact Hnd.
    + intros b Hb. eapply tok_ext; [|apply Hok1; exact Hb]. intros y _. symmetry. apply thyb_snoc.
    + split; [eapply tkeep_trans; eassumption|]. split.
      * rewrite <- app_assoc in Hok'. exact Hok'.
      * eapply F2_trans; [apply tshape_trans | exact Hrel1 | exact Hrel'].
Qed.

Lemma thyb_final : forall c live y,
  length live = length c ->
  thyb c live (filter (fun x => negb (N.eqb (tick_of live x) (tick_of c x))) (seq 0 (length c))) y
  = tick_of live y.
Proof.
  intros c live y Hlen. unfold thyb.
  match goal with |- (if mem y ?l then _ else _) = _ => destruct (mem y l) eqn:E end; [reflexivity|].
  destruct (Nat.lt_ge_cases y (length c)) as [Hlt|Hge].
  - apply mem_false in E. destruct (N.eqb (tick_of live y) (tick_of c y)) eqn:Eq.
    + apply N.eqb_eq in Eq. congruence.
    + exfalso. apply E. apply filter_In. split; [apply in_seq; lia|]. rewrite Eq. reflexivity.
  - unfold tick_of. rewrite nth_overflow by lia. rewrite nth_overflow by lia. reflexivity.
Qed.

(* ProcessWhenTime with coherent clocks *)
Lemma process_when_time_tinv : forall c s live,
  ss_done s = [] -> ss_frozen s = None -> NoDup (map tb_id (ss_tb s)) ->
  length live = length c -> (forall y, (tick_of c y <= tick_of live y)%N) ->
  (forall b, In b (ss_tb s) -> tok (ss_closed s) (tick_of c) b) ->
  let s' := process_when_time s c live in
  tkeep s s' /\ (forall b', In b' (ss_tb s') -> tok (ss_closed s') (tick_of live) b') /\
  Forall2 tshape (ss_tb s) (ss_tb s').
Proof.
  intros c s live Hdone Hfz Hnd Hlen Hmono Hok. cbv zeta. unfold process_when_time.
  rewrite (C06When.process_time_ctx_id s Hdone). unfold sclock. rewrite Hfz.
  set (ticked := filter (fun x => negb (N.eqb (tick_of live x) (tick_of c x))) (seq 0 (length c))).
  destruct (touter c live ticked [] s Hmono Hdone Hnd) as [Hk [Hok' Hrel]].
  { intros b Hb. eapply tok_ext; [|apply Hok; exact Hb]. intros y _. reflexivity. }
  split; [exact Hk|]. split; [|exact Hrel].
  intros b' Hb'. eapply tok_ext; [|apply Hok'; exact Hb']. intros y _. cbn [app].
  apply thyb_final. exact Hlen.
Qed.

(* ------------------------------------------------------------ the other functions *)

(* what the functions outside the WhenTime index keep *)
Definition tfr (s s' : sst) : Prop :=
  ss_tb s' = ss_tb s /\ ss_done s' = ss_done s /\ ss_frozen s' = ss_frozen s /\
  ss_disposed s' = ss_disposed s /\ ss_crashed s' = ss_crashed s /\ ss_next s <= ss_next s' /\
  (forall i, mem i (ss_closed s) = true -> mem i (ss_closed s') = true).

Lemma tfr_refl : forall s, tfr s s.
Proof. intros s. unfold tfr. repeat split; auto. Qed.

Lemma tfr_trans : forall s1 s2 s3, tfr s1 s2 -> tfr s2 s3 -> tfr s1 s3.
Proof.
  unfold tfr. intros s1 s2 s3 [A1 [A2 [A3 [A4 [A5 [A6 A7]]]]]] [B1 [B2 [B3 [B4 [B5 [B6 B7]]]]]].
  repeat split; try congruence; try lia; auto.
Qed.

Lemma tfr_fold : forall (A : Type) (f : sst -> A -> sst),
  (forall s x, tfr s (f s x)) -> forall l s, tfr s (fold_left f l s).
Proof.
  intros A f Hf. induction l as [|x r IH]; intros s; simpl; [apply tfr_refl|].
  eapply tfr_trans; [apply Hf | apply IH].
Qed.

Lemma tfr_set_when : forall s wb wctx cl,
  (forall i, mem i (ss_closed s) = true -> mem i cl = true) -> tfr s (set_when s wb wctx cl).
Proof. intros. unfold tfr. psimpl. repeat split; auto. Qed.

Lemma tfr_set_misc' : forall s qb wq qe sctx cl cr, cr = ss_crashed s ->
  (forall i, mem i (ss_closed s) = true -> mem i cl = true) ->
  tfr s (set_misc s qb wq qe sctx cl cr).
Proof. intros. unfold tfr. psimpl. repeat split; auto. Qed.

Lemma tfr_set_misc : forall s qb wq qe sctx cl,
  (forall i, mem i (ss_closed s) = true -> mem i cl = true) ->
  tfr s (set_misc s qb wq qe sctx cl (ss_crashed s)).
Proof. intros. apply tfr_set_misc'; auto. Qed.

Lemma tfr_set_alloc : forall s n ac, ss_next s <= n -> tfr s (set_alloc s n ac).
Proof. intros. unfold tfr. psimpl. repeat split; auto. Qed.

Lemma process_when_ctx_tfr : forall s, tfr s (process_when_ctx s).
Proof.
  intros s. unfold process_when_ctx. apply tfr_fold. intros st [c ids]. cbv beta iota.
  destruct (negb (mem c (ss_done st))); [apply tfr_refl|].
  apply (tfr_trans _ (set_when st (ss_wb st) (cdel (ss_wctx st) c) (ss_closed st))); [apply tfr_set_when; auto|].
  apply tfr_fold. intros st' id. cbv beta. destruct (find_wb (ss_wb st') id) as [b|]; [|apply tfr_refl].
  destruct (gc_when (ss_wb st') (ss_wctx st') b false) as [h wc].
  apply tfr_set_when. intros i Hi. apply close_mono. exact Hi.
Qed.

Lemma process_when_tfr : forall s act deact, tfr s (process_when s act deact).
Proof.
  intros s act deact. unfold process_when. cbv zeta.
  apply (tfr_trans _ (process_when_ctx s)); [apply process_when_ctx_tfr|].
  apply (tfr_trans _ (fold_left (touch_state act) (act ++ deact) (process_when_ctx s))).
  - apply tfr_fold. intros st x. unfold touch_state. apply tfr_fold. intros st' id.
    unfold touch_wb. destruct (find_wb (ss_wb st') id); [apply tfr_set_when; auto | apply tfr_refl].
  - apply tfr_fold. intros st id. unfold complete_wb.
    destruct (find_wb (ss_wb st) id) as [b|]; [|apply tfr_refl].
    match goal with |- context [if ?c then _ else _] => destruct c end; [apply tfr_refl|].
    match goal with |- context [gc_when ?h ?w ?bb ?g] => destruct (gc_when h w bb g) as [h2 wc] end.
    apply tfr_set_when. intros i Hi. apply close_mono. exact Hi.
Qed.

Lemma process_when_queue_tfr : forall s qt, tfr s (process_when_queue s qt).
Proof.
  intros s qt. unfold process_when_queue. apply tfr_set_misc.
  intros i Hi. apply fold_close_hits_mono. exact Hi.
Qed.

Lemma process_when_query_tfr : forall s live, tfr s (process_when_query s live).
Proof.
  intros s live. change (process_when_query s live)
    with (fold_left (pwq_step (sclock s live)) (ss_qb s) s).
  apply tfr_fold. intros st b. unfold pwq_step.
  destruct (ss_crashed st) eqn:Ec; [apply tfr_refl|].
  destruct (negb (qfn_eval (qb_fn b) (sclock s live)) && negb (ctx_done st (qb_ctx b))); [apply tfr_refl|].
  apply tfr_set_misc'; [congruence|]. intros i Hi. apply close_mono. exact Hi.
Qed.

Lemma process_queue_ends_tfr : forall s, tfr s (process_queue_ends s).
Proof.
  intros s. unfold process_queue_ends. apply tfr_set_misc. intros i Hi. apply fold_close_mem. tauto.
Qed.

Lemma process_state_ctx_tfr : forall s act deact, tfr s (process_state_ctx s act deact).
Proof.
  intros s act deact. change (process_state_ctx s act deact) with (fold_left psc_step (act ++ deact) s).
  apply tfr_fold. intros st x. unfold psc_step.
  destruct (sctx_get (ss_sctx st) x) as [[id t]|]; [|apply tfr_refl].
  apply tfr_set_misc. intros i Hi. apply close_mono. exact Hi.
Qed.

(* API calls outside the WhenTime family, on a plain run *)
Definition not_time_op (o : sop) : bool :=
  match o with
  | OWhenTime _ _ _ | OWhenTicks _ _ _ | OWhenNextActive _ _ | OCancel _ | ODispose => false
  | _ => true
  end.

Lemma do_op_tfr : forall s v o, not_time_op o = true -> tfr s (fst (do_op s v o)).
Proof.
  intros s v o Ho. destruct o; try discriminate; unfold do_op.
  - destruct (ss_disposed s); [apply tfr_refl|]. destruct (negb (known v sts)); [apply tfr_refl|].
    unfold sub_when. cbv zeta.
    match goal with |- context [if ?c then _ else _] => destruct c end; [apply tfr_refl|].
    destruct (reuse_when s false (uniq sts) ctx); [apply tfr_refl|]. cbn [fst].
    match goal with |- tfr s (set_alloc ?m ?n ?a) => apply (tfr_trans _ m) end;
      [apply tfr_set_when; auto | apply tfr_set_alloc; psimpl; lia].
  - destruct (ss_disposed s); [apply tfr_refl|]. destruct (negb (known v sts)); [apply tfr_refl|].
    unfold sub_when. cbv zeta.
    match goal with |- context [if ?c then _ else _] => destruct c end; [apply tfr_refl|].
    destruct (reuse_when s true (uniq sts) ctx); [apply tfr_refl|]. cbn [fst].
    match goal with |- tfr s (set_alloc ?m ?n ?a) => apply (tfr_trans _ m) end;
      [apply tfr_set_when; auto | apply tfr_set_alloc; psimpl; lia].
  - destruct (ss_disposed s || ctx_done s ctx); [apply tfr_refl|]. cbn [fst].
    match goal with |- tfr s (set_alloc ?m ?n ?a) => apply (tfr_trans _ m) end;
      [apply tfr_set_misc; auto | apply tfr_set_alloc; psimpl; lia].
  - destruct (ss_disposed s || (tick <=? v_qtick v)%N); [apply tfr_refl|]. cbn [fst].
    match goal with |- tfr s (set_alloc ?m ?n ?a) => apply (tfr_trans _ m) end;
      [apply tfr_set_misc; auto | apply tfr_set_alloc; psimpl; lia].
  - destruct (ss_disposed s || negb (v_running v)); [apply tfr_refl|]. cbn [fst].
    match goal with |- tfr s (set_alloc ?m ?n ?a) => apply (tfr_trans _ m) end;
      [apply tfr_set_misc; auto | apply tfr_set_alloc; psimpl; lia].
  - destruct (negb (known v [s0])); [apply tfr_refl|].
    destruct (sctx_get (ss_sctx s) s0) as [[id t0]|]; [apply tfr_refl|]. cbn [fst].
    match goal with |- tfr s (set_alloc ?m ?n ?a) => apply (tfr_trans _ m) end;
      [apply tfr_set_misc; auto | apply tfr_set_alloc; psimpl; lia].
  - apply tfr_refl.
  - apply tfr_refl.
Qed.

(* ------------------------------------------------------------ registration *)

Definition thr (sts : list nat) (times : list N) (x : nat) : N := nth (last_index sts x) times 0%N.

Lemma lif_shift : forall l k x a, last_index_from (S k) l x (S a) = S (last_index_from k l x a).
Proof.
  induction l as [|y r IH]; intros k x a; simpl; [reflexivity|].
  destruct (Nat.eqb x y); apply IH.
Qed.

Lemma lif_acc : forall l k x a a', In x l -> last_index_from k l x a = last_index_from k l x a'.
Proof.
  induction l as [|y r IH]; intros k x a a' Hin; simpl; [contradiction|].
  destruct (Nat.eqb x y) eqn:E; [reflexivity|].
  destruct Hin as [Hin|Hin]; [subst; rewrite Nat.eqb_refl in E; discriminate | apply IH; exact Hin].
Qed.

Lemma lif_notin : forall l k x a, ~ In x l -> last_index_from k l x a = a.
Proof.
  induction l as [|y r IH]; intros k x a Hn; simpl; [reflexivity|].
  destruct (Nat.eqb x y) eqn:E.
  - apply Nat.eqb_eq in E. subst. exfalso. apply Hn. left. reflexivity.
  - apply IH. intros H. apply Hn. right. exact H.
Qed.

Lemma thr_head : forall y r t ts, ~ In y r -> thr (y :: r) (t :: ts) y = t.
Proof.
  intros y r t ts Hn. unfold thr, last_index. simpl. rewrite Nat.eqb_refl.
  rewrite lif_notin by exact Hn. reflexivity.
Qed.

Lemma thr_tail : forall y r t ts x, ~ In y r -> In x r -> thr (y :: r) (t :: ts) x = thr r ts x.
Proof.
  intros y r t ts x Hn Hin. unfold thr, last_index. simpl.
  assert (E : Nat.eqb x y = false) by (apply Nat.eqb_neq; intros H; subst; contradiction).
  rewrite E. rewrite (lif_acc r 1 x 0 1 Hin), lif_shift. reflexivity.
Qed.

Definition ge_pair (c : list N) (p : nat * N) : bool := (snd p <=? tick_of c (fst p))%N.

Lemma fold_aset_notin : forall (c : list N) pairs init x, ~ In x (map fst pairs) ->
  aget (fold_left (fun d p => aset d (fst p) (ge_pair c p)) pairs init) x = aget init x.
Proof.
  intros c. induction pairs as [|[y t] r IH]; intros init x Hn; simpl; [reflexivity|].
  rewrite IH by (intros H; apply Hn; right; exact H).
  apply aget_aset_other. intros H. apply Hn. left. simpl. congruence.
Qed.

Lemma combine_fst_incl : forall (sts : list nat) (times : list N) x,
  In x (map fst (combine sts times)) -> In x sts.
Proof.
  induction sts as [|y r IH]; intros times x H; destruct times; simpl in *; try contradiction.
  destruct H as [H|H]; [left; exact H | right; eapply IH; exact H].
Qed.

Lemma reg_flags : forall c sts times init x, NoDup sts -> length times = length sts -> In x sts ->
  aget (fold_left (fun d p => aset d (fst p) (ge_pair c p)) (combine sts times) init) x
  = (thr sts times x <=? tick_of c x)%N.
Proof.
  intros c. induction sts as [|y r IH]; intros times init x Hnd Hlen Hin; [contradiction|].
  destruct times as [|t ts]; [discriminate|]. inversion Hnd as [|? ? Hy Hr]. subst. simpl in Hlen.
  cbn [combine fold_left fst]. destruct Hin as [Hin|Hin].
  - subst x. rewrite fold_aset_notin by (intros H; apply Hy; eapply combine_fst_incl; exact H).
    rewrite aget_aset_same, (thr_head y r t ts Hy). reflexivity.
  - rewrite (IH ts _ x Hr ltac:(lia) Hin), (thr_tail y r t ts x Hy Hin). reflexivity.
Qed.

Lemma reg_count : forall c sts times, NoDup sts -> length times = length sts ->
  length (filter (ge_pair c) (combine sts times))
  = cnt false (fun x => (thr sts times x <=? tick_of c x)%N) sts.
Proof.
  intros c. induction sts as [|y r IH]; intros times Hnd Hlen; [reflexivity|].
  destruct times as [|t ts]; [discriminate|]. inversion Hnd as [|? ? Hy Hr]. subst. simpl in Hlen.
  cbn [combine filter]. unfold cnt. cbn [filter]. unfold P at 1. rewrite (thr_head y r t ts Hy).
  unfold ge_pair at 1. cbn [fst snd].
  assert (E : length (filter (ge_pair c) (combine r ts))
              = length (filter (P false (fun x => (thr (y :: r) (t :: ts) x <=? tick_of c x)%N)) r)).
  { rewrite (IH ts Hr ltac:(lia)). unfold cnt. f_equal. apply filter_ext_in. intros x Hx. unfold P.
    rewrite (thr_tail y r t ts x Hy Hx). reflexivity. }
  destruct (t <=? tick_of c y)%N; cbn [length]; rewrite E; reflexivity.
Qed.

Lemma forallb_false_filter : forall (A : Type) (f : A -> bool) l,
  forallb f l = false -> length (filter f l) < length l.
Proof.
  intros A f l. induction l as [|x r IH]; simpl; [discriminate|].
  destruct (f x) eqn:E; simpl.
  - intros H. apply IH in H. lia.
  - intros _. pose proof (filter_len_le _ f r). lia.
Qed.

Definition tcond (sts : list nat) (times : list N) (cl : list N) : bool :=
  forallb (ge_pair cl) (combine sts times).

Lemma combine_len : forall (sts : list nat) (times : list N), length times = length sts ->
  length (combine sts times) = length sts.
Proof. intros. rewrite combine_length. lia. Qed.

Lemma reg_cond : forall cl sts times, NoDup sts -> length times = length sts ->
  tcond sts times cl = full false (fun x => (thr sts times x <=? tick_of cl x)%N) sts.
Proof.
  intros cl sts times Hnd Hlen. unfold tcond.
  pose proof (reg_count cl sts times Hnd Hlen) as Hc.
  destruct (forallb (ge_pair cl) (combine sts times)) eqn:E.
  - symmetry. apply cnt_full. rewrite <- Hc, <- (combine_len sts times Hlen).
    clear Hc. induction (combine sts times) as [|p r IH]; simpl in *; [reflexivity|].
    apply andb_true_iff in E. destruct E as [E1 E2]. rewrite E1. simpl. f_equal. apply IH. exact E2.
  - symmetry. apply cnt_lt_full. rewrite <- Hc, <- (combine_len sts times Hlen).
    apply forallb_false_filter. exact E.
Qed.

Definition TInv (c : list N) (s : sst) : Prop :=
  ss_done s = [] /\ ss_frozen s = None /\ ss_disposed s = false /\ ss_crashed s = false /\
  NoDup (map tb_id (ss_tb s)) /\ (forall b, In b (ss_tb s) -> tb_id b < ss_next s) /\
  (forall b, In b (ss_tb s) -> tok (ss_closed s) (tick_of c) b).

Lemma TInv_tfr : forall c s s', TInv c s -> tfr s s' -> TInv c s'.
Proof.
  intros c s s' [A [B [C [D [E [F G]]]]]] [T1 [T2 [T3 [T4 [T5 [T6 T7]]]]]].
  unfold TInv. rewrite T1, T2, T3, T4, T5. repeat split; auto.
  - intros b Hb. apply F in Hb. lia.
  - intros b Hb. eapply tok_cl; [apply G; exact Hb | exact T7].
Qed.

(* the condition of a binding on a tick function *)
Definition bcond (b : tbind) (t : nat -> N) : bool := full false (tfun b t) (tb_states b).

Lemma tpre_not_cond : forall t b, tpre t b -> bcond b t = false.
Proof.
  intros t b [_ [_ [_ [D [_ [F G]]]]]]. unfold bcond. apply cnt_lt_full. rewrite <- F, <- D. exact G.
Qed.

Lemma index_eqb_thr : forall a b times x, index_eqb a b = true -> In x a ->
  thr a times x = thr b times x.
Proof.
  intros a b times x H Hx. unfold index_eqb in H. apply andb_true_iff in H. destruct H as [_ H].
  rewrite forallb_forall in H. specialize (H x Hx). apply Nat.eqb_eq in H. unfold thr. rewrite H. reflexivity.
Qed.

Lemma nl_eqb_eq : forall a b, nl_eqb a b = true -> a = b.
Proof.
  induction a as [|x r IH]; intros [|y t] H; simpl in H; try discriminate; [reflexivity|].
  apply andb_true_iff in H. destruct H as [H1 H2]. apply N.eqb_eq in H1. f_equal; auto.
Qed.

Lemma forallb_ext' : forall (f g : nat -> bool) l, (forall x, In x l -> f x = g x) ->
  forallb f l = forallb g l.
Proof.
  intros f g l H. induction l as [|x r IH]; simpl; [reflexivity|].
  rewrite (H x (or_introl eq_refl)), IH; [reflexivity|]. intros y Hy. apply H. right. exact Hy.
Qed.

(* Subscriptions.WhenTime with duplicate-free states and as many times *)
Lemma sub_time_spec : forall c s sts times ctx,
  TInv c s -> NoDup sts -> length times = length sts ->
  let s' := fst (sub_time s c sts times ctx) in
  let r := snd (sub_time s c sts times ctx) in
  TInv c s' /\ ss_rets s' = ss_rets s /\ incl (ss_tb s) (ss_tb s') /\
  (forall i, is_closed s i = true -> is_closed s' i = true) /\
  ((tcond sts times c = true /\ r = RChan 0) \/
   (tcond sts times c = false /\ exists b, In b (ss_tb s') /\ r = RChan (tb_id b) /\
      tpre (tick_of c) b /\ forall t, bcond b t = full false (fun x => (thr sts times x <=? t x)%N) sts)).
Proof.
  intros c s sts times ctx HI Hnd Hlen. pose proof HI as [A [B [C [D [E [F G]]]]]].
  unfold sub_time.
  destruct (reuse_time s sts times ctx) as [id|] eqn:Er.
  - (* reuse *)
    cbn [fst snd]. split; [exact HI|]. split; [reflexivity|]. split; [apply incl_refl|]. split; [tauto|].
    unfold reuse_time in Er. destruct sts as [|s0 rest] eqn:Es; [discriminate|]. rewrite <- Es in *.
    match type of Er with context [filter ?f ?l] => destruct (filter f l) as [|b r0] eqn:Efl end; [discriminate|].
    inversion Er. subst id. apply filter_hd in Efl. destruct Efl as [Hin Hf].
    repeat rewrite andb_true_iff in Hf. destruct Hf as [[[Hm Ht] Hix] Hx].
    assert (Hpre : tpre (tick_of c) b).
    { destruct (G b Hin) as [[Hd _]|Hp]; [|exact Hp]. rewrite Hd in Hm. subst sts. discriminate. }
    apply nl_eqb_eq in Ht.
    assert (Hset : forall x, In x (tb_states b) <-> In x sts).
    { unfold index_eqb in Hix. apply andb_true_iff in Hix. destruct Hix as [Hs _].
      intros x. split; intros H; [apply (set_eqb_In _ _ Hs); exact H | apply (set_eqb_In _ _ Hs); exact H]. }
    assert (Hbc : forall t, bcond b t = full false (fun x => (thr sts times x <=? t x)%N) sts).
    { intros t. unfold bcond, full. rewrite (forallb_seteq _ (tb_states b) sts Hset).
      apply forallb_ext'. intros x Hx0. unfold P, tfun, tb_time. rewrite Ht.
      change (nth (last_index (tb_states b) x) times 0%N) with (thr (tb_states b) times x).
      rewrite <- (index_eqb_thr sts (tb_states b) times x Hix Hx0). reflexivity. }
    right. split.
    + rewrite (reg_cond c sts times Hnd Hlen). rewrite <- (Hbc (tick_of c)). apply tpre_not_cond. exact Hpre.
    + exists b. tauto.
  - change (forallb (fun p : nat * N => (snd p <=? tick_of c (fst p))%N) (combine sts times))
      with (tcond sts times c).
    assert (Hcd : ctx_done s ctx = false).
    { unfold ctx_done. destruct ctx; [|reflexivity]. rewrite A. reflexivity. }
    rewrite Hcd, orb_false_r.
    destruct (tcond sts times c) eqn:Ec.
    + cbn [fst snd]. split; [exact HI|]. split; [reflexivity|]. split; [apply incl_refl|]. split; [tauto|]. left. tauto.
    + cbn [fst snd].
      match goal with |- context [set_time s (ss_tb s ++ [?bb]) _ _] => set (b := bb) end.
      assert (Hpre : tpre (tick_of c) b).
      { unfold tpre, b. cbn [tb_idx tb_states tb_total tb_done tb_matched].
        split; [reflexivity|]. split; [exact Hnd|]. split.
        { intros E0. subst sts. discriminate. }
        split; [reflexivity|]. split.
        { intros x Hx. apply (reg_flags c sts times [] x Hnd Hlen Hx). }
        split.
        { apply (reg_count c sts times Hnd Hlen). }
        { rewrite <- (combine_len sts times Hlen). apply forallb_false_filter. exact Ec. } }
      split; [|split; [psimpl; reflexivity|split; [psimpl; intros z Hz; apply in_or_app; left; exact Hz|split; [unfold is_closed; psimpl; tauto|]]]].
      * unfold TInv. psimpl. rewrite map_app. cbn [map]. repeat split; auto.
        -- apply NoDup_snoc; [exact E|]. intros H. apply in_map_iff in H. destruct H as [x [Hx1 Hx2]].
           apply F in Hx2. unfold b in Hx1. cbn in Hx1. lia.
        -- intros b0 Hb0. apply in_app_or in Hb0. destruct Hb0 as [Hb0|[Hb0|[]]]; [apply F in Hb0; lia|].
           subst b0. cbn. lia.
        -- intros b0 Hb0. apply in_app_or in Hb0. destruct Hb0 as [Hb0|[Hb0|[]]]; [apply G; exact Hb0|].
           subst b0. right. exact Hpre.
      * right. split; [reflexivity|]. exists b. psimpl.
        split; [apply in_or_app; right; left; reflexivity|]. split; [reflexivity|]. split; [exact Hpre|].
        intros t. reflexivity.
Qed.

(* ------------------------------------------------------------ steps *)

Definition clk_upd (c : list N) (e : sevent) : list N :=
  match e with EProcess _ _ _ live _ => live | _ => c end.

(* the clocks the manager sees are coherent: WhenTime calls read the clock of
   the last processSubscriptions, whose ClockBefore is that clock again, and
   ticks never go back; WhenTime gets duplicate-free states and as many times *)
Definition tev_coh (c : list N) (e : sevent) : Prop :=
  match e with
  | EOp _ v (OWhenTime sts times _) => v_clock v = c /\ NoDup sts /\ length times = length sts
  | EOp _ v (OWhenTicks _ _ _) | EOp _ v (OWhenNextActive _ _) => v_clock v = c
  | EProcess _ _ before live _ =>
    before = c /\ length live = length c /\ forall y, (tick_of c y <= tick_of live y)%N
  | _ => True
  end.

Fixpoint tcoherent (c : list N) (es : list sevent) : Prop :=
  match es with
  | [] => True
  | e :: r => tev_coh c e /\ tcoherent (clk_upd c e) r
  end.

Lemma TInv_add_ret : forall c s k r, TInv c s -> TInv c (add_ret s k r).
Proof. intros c s k r H. unfold TInv in *. psimpl. exact H. Qed.

Lemma bcond_shape : forall b b' t, tshape b b' -> bcond b' t = bcond b t.
Proof.
  intros b b' t H. unfold bcond. destruct H as [H1 [H2 H3]]. rewrite H2.
  apply full_ext. intros x _. apply tfun_shape. unfold tshape. tauto.
Qed.

Lemma tstep_inv : forall c s e,
  TInv c s -> plain_ev e = true -> tev_coh c e ->
  TInv (clk_upd c e) (step s e) /\
  match e with
  | EProcess _ _ _ _ _ => forall b, In b (ss_tb s) -> exists b', In b' (ss_tb (step s e)) /\ tshape b b'
  | _ => incl (ss_tb s) (ss_tb (step s e))
  end.
Proof.
  intros c s e HI Hp Hc. pose proof HI as [A [B [C [D [E [F G]]]]]].
  destruct e as [k v o|act deact|act deact before live qt| |v p| |qt0]; cbn [clk_upd].
  - rewrite (step_op s k v o D).
    assert (Hsc : sclock s (v_clock v) = v_clock v) by (unfold sclock; rewrite B; reflexivity).
    destruct (not_time_op o) eqn:Eo.
    + pose proof (do_op_tfr s v o Eo) as T. split; [apply TInv_add_ret; eapply TInv_tfr; eassumption|].
      psimpl. destruct T as [T1 _]. rewrite T1. apply incl_refl.
    + destruct o; try discriminate; cbn in Hp; try discriminate; unfold do_op; rewrite C, Hsc.
      * destruct Hc as [Hv [Hnd Hlen]]. rewrite Hv.
        destruct (sub_time_spec c s sts times ctx HI Hnd Hlen) as [I1 [_ [I2 _]]].
        split; [apply TInv_add_ret; exact I1 | psimpl; exact I2].
      * cbn in Hc. rewrite Hc.
        destruct (sub_time_spec c s [s0] [(n + tick_of c s0)%N] ctx HI) as [I1 [_ [I2 _]]];
          [constructor; [intros []|constructor] | reflexivity|].
        split; [apply TInv_add_ret; exact I1 | psimpl; exact I2].
      * cbn in Hc. rewrite Hc.
        destruct (sub_time_spec c s [s0] [((if N.odd (tick_of c s0) then 2 else 1) + tick_of c s0)%N] ctx HI)
          as [I1 [_ [I2 _]]]; [constructor; [intros []|constructor] | reflexivity|].
        split; [apply TInv_add_ret; exact I1 | psimpl; exact I2].
  - unfold step. rewrite D. pose proof (process_state_ctx_tfr s act deact) as T.
    split; [eapply TInv_tfr; eassumption|]. destruct T as [T1 _]. rewrite T1. apply incl_refl.
  - unfold step. rewrite D. unfold process_subs. destruct Hc as [Hb [Hlen Hmono]]. subst before.
    pose proof (process_when_tfr s act deact) as T1.
    pose proof (TInv_tfr c s _ HI T1) as [A1 [B1 [C1 [D1 [E1 [F1 G1]]]]]].
    set (s1 := process_when s act deact) in *.
    destruct (process_when_time_tinv c s1 live A1 B1 E1 Hlen Hmono G1) as [K [Hok Hrel]].
    set (s2 := process_when_time s1 c live) in *.
    assert (I2 : TInv live s2).
    { destruct K as [K1 [K2 [K3 [K4 [K5 K6]]]]]. unfold TInv. rewrite K1, K2, K4, K5.
      split; [exact A1|]. split; [exact B1|]. split; [exact C1|]. split; [exact D1|].
      split; [rewrite (F2_ids _ _ Hrel); exact E1|]. split; [|exact Hok].
      intros b' Hb'. rewrite K3.
      assert (Hin : In (tb_id b') (map tb_id (ss_tb s1))).
      { rewrite <- (F2_ids _ _ Hrel). apply in_map. exact Hb'. }
      apply in_map_iff in Hin. destruct Hin as [b0 [Hb0 Hin0]]. rewrite <- Hb0. apply F1. exact Hin0. }
    pose proof (process_when_queue_tfr s2 qt) as T3.
    pose proof (process_when_query_tfr (process_when_queue s2 qt) live) as T4.
    pose proof (tfr_trans _ _ _ T3 T4) as T34.
    split; [eapply TInv_tfr; eassumption|].
    intros b Hb. destruct T34 as [T34 _]. rewrite T34.
    destruct T1 as [T1 _]. rewrite <- T1 in Hb. fold s1 in Hb.
    destruct (F2_In_l _ _ _ _ Hrel Hb) as [b' [Hb' Hs]]. exists b'. tauto.
  - unfold step. rewrite D. pose proof (process_queue_ends_tfr s) as T.
    split; [eapply TInv_tfr; eassumption|]. destruct T as [T1 _]. rewrite T1. apply incl_refl.
  - unfold step. rewrite D. split; [exact HI | apply incl_refl].
  - unfold step. rewrite D. split; [exact HI | apply incl_refl].
  - unfold step. rewrite D. pose proof (process_when_queue_tfr s qt0) as T.
    split; [eapply TInv_tfr; eassumption|]. destruct T as [T1 _]. rewrite T1. apply incl_refl.
Qed.

(* the condition of binding b held at the end of a later processed transition *)
Fixpoint theld (c : (nat -> N) -> bool) (es : list sevent) : bool :=
  match es with
  | [] => false
  | EProcess _ _ _ live _ :: r => c (tick_of live) || theld c r
  | _ :: r => theld c r
  end.

Lemma theld_ext : forall (c c' : (nat -> N) -> bool) es, (forall t, c t = c' t) -> theld c es = theld c' es.
Proof.
  intros c c' es H. induction es as [|e r IH]; [reflexivity|]. destruct e; simpl; try exact IH.
  rewrite H, IH. reflexivity.
Qed.

Lemma closed_run_mono : forall es s i, is_closed s i = true -> is_closed (run s es) i = true.
Proof. intros es s i H. destruct (run_keeps' es s) as [_ [Hm _]]. apply Hm. exact H. Qed.

Lemma ttrack : forall post c s b,
  TInv c s -> In b (ss_tb s) -> tok (ss_closed s) (tick_of c) b ->
  forallb plain_ev post = true -> tcoherent c post ->
  theld (bcond b) post = true -> is_closed (run s post) (tb_id b) = true.
Proof.
  induction post as [|e r IH]; intros c s b HI Hin Hok Hp Hc Hh; [discriminate|].
  cbn [forallb] in Hp. apply andb_true_iff in Hp. destruct Hp as [Hp1 Hp2].
  destruct Hc as [Hc1 Hc2].
  destruct (tstep_inv c s e HI Hp1 Hc1) as [I' Hrel].
  rewrite run_cons.
  destruct Hok as [[_ Hd]|Hpre].
  { apply closed_run_mono. destruct (step_keeps' s e) as [_ [Hm _]]. apply Hm. exact Hd. }
  assert (Hnext : forall b', In b' (ss_tb (step s e)) -> tshape b b' ->
            theld (bcond b) r = true -> is_closed (run (step s e) r) (tb_id b) = true).
  { intros b' Hb' Hs Hr. destruct Hs as [S1 [S2 S3]]. rewrite <- S1.
    apply (IH (clk_upd c e) (step s e) b' I' Hb'); try assumption.
    - apply I'. exact Hb'.
    - rewrite (theld_ext (bcond b') (bcond b)); [exact Hr|].
      intros t. apply bcond_shape. unfold tshape. tauto. }
  destruct e as [k v o|act deact|act deact before live qt| |v p| |qt0];
    try (cbn [theld] in Hh; apply (Hnext b); [apply Hrel; exact Hin | apply tshape_refl | exact Hh]).
  cbn [theld] in Hh. destruct (Hrel b Hin) as [b' [Hb' Hs]].
  destruct (bcond b (tick_of live)) eqn:Eb; cbn [orb] in Hh; [|apply (Hnext b' Hb' Hs Hh)].
  (* the condition holds at the end of this transition *)
  destruct I' as [_ [_ [_ [_ [_ [_ G']]]]]]. cbn [clk_upd] in G'.
  destruct (G' b' Hb') as [[_ Hd]|Hp'].
  - apply closed_run_mono. destruct Hs as [S1 _]. rewrite <- S1. exact Hd.
  - exfalso. apply tpre_not_cond in Hp'. rewrite (bcond_shape b b' _ Hs) in Hp'. congruence.
Qed.

(* ------------------------------------------------------------ the theorem *)

Definition clks (c : list N) (es : list sevent) : list N := fold_left clk_upd es c.

Lemma tcoherent_app : forall l1 l2 c,
  tcoherent c (l1 ++ l2) <-> tcoherent c l1 /\ tcoherent (clks c l1) l2.
Proof.
  induction l1 as [|e r IH]; intros l2 c.
  - cbn. tauto.
  - rewrite <- app_comm_cons. cbn [tcoherent]. unfold clks. cbn [fold_left].
    fold (clks (clk_upd c e) r). rewrite IH. tauto.
Qed.

Lemma TInv_init : forall c, TInv c init_sst.
Proof.
  intros c. unfold TInv, init_sst. cbn. repeat split; try constructor; intros; contradiction.
Qed.

Lemma trun_Inv : forall es c s,
  TInv c s -> forallb plain_ev es = true -> tcoherent c es -> TInv (clks c es) (run s es).
Proof.
  induction es as [|e r IH]; intros c s HI Hp Hc; [exact HI|].
  cbn [forallb] in Hp. apply andb_true_iff in Hp. destruct Hp as [Hp1 Hp2]. destruct Hc as [Hc1 Hc2].
  rewrite run_cons. unfold clks. cbn [fold_left]. apply IH; try assumption.
  apply (tstep_inv c s e HI Hp1 Hc1).
Qed.

(* the condition of WhenTime(sts, times) held at the end of a later processed transition *)
Fixpoint time_held (sts : list nat) (times : list N) (es : list sevent) : bool :=
  match es with
  | [] => false
  | EProcess _ _ _ live _ :: r => tcond sts times live || time_held sts times r
  | _ :: r => time_held sts times r
  end.

(* WhenTime: no lost wake-up on plain runs with coherent clocks *)
Theorem whentime_no_lost_lemma : forall c0 pre k v sts times ctx post,
  let es := pre ++ EOp k v (OWhenTime sts times ctx) :: post in
  forallb plain_ev es = true -> tcoherent c0 es -> fresh_k k post ->
  let c1 := clks c0 pre in
  tcond sts times c1 || time_held sts times post = true ->
  closed_of (run init_sst es) k = true.
Proof.
  intros c0 pre k v sts times ctx post es Hp Hc Hf c1 Hcond. subst es.
  pose proof (run_not_crashed (pre ++ EOp k v (OWhenTime sts times ctx) :: post)) as Hnc.
  destruct (closed_of_after pre k v (OWhenTime sts times ctx) post Hf Hnc) as [Hc1 Hcl]. rewrite Hcl. clear Hcl.
  pose proof (closed_zero (pre ++ EOp k v (OWhenTime sts times ctx) :: post)) as Hz.
  rewrite split_run in Hz.
  rewrite forallb_app in Hp. apply andb_true_iff in Hp. destruct Hp as [Hp1 Hp2].
  cbn [forallb] in Hp2. apply andb_true_iff in Hp2. destruct Hp2 as [Hpe Hp2].
  apply tcoherent_app in Hc. destruct Hc as [Hco1 Hco2]. fold c1 in Hco2.
  destruct Hco2 as [[Hv [Hnd Hlen]] Hco2]. cbn [clk_upd] in Hco2.
  pose proof (trun_Inv pre c0 init_sst (TInv_init c0) Hp1 Hco1) as HI1. fold c1 in HI1.
  set (s1 := run init_sst pre) in *.
  pose proof HI1 as [A [B [C [D _]]]].
  assert (Hstep : step s1 (EOp k v (OWhenTime sts times ctx))
                  = add_ret (fst (do_op s1 v (OWhenTime sts times ctx))) k
                            (snd (do_op s1 v (OWhenTime sts times ctx))))
    by (apply step_op; exact D).
  assert (Hdo : do_op s1 v (OWhenTime sts times ctx) = sub_time s1 c1 sts times ctx).
  { unfold do_op. rewrite C. unfold sclock. rewrite B, Hv. reflexivity. }
  rewrite Hdo in *.
  destruct (sub_time_spec c1 s1 sts times ctx HI1 Hnd Hlen) as [I2 [_ [_ [_ Hr]]]].
  destruct Hr as [[Ht Hr]|[Ht [b [Hb [Hr [Hpre Hbc]]]]]]; rewrite Hr.
  - exact Hz.
  - rewrite Ht in Hcond. cbn [orb] in Hcond.
    set (s2 := step s1 (EOp k v (OWhenTime sts times ctx))) in *.
    assert (I2' : TInv c1 s2) by (rewrite Hstep; apply TInv_add_ret; exact I2).
    apply (ttrack post c1 s2 b I2').
    + rewrite Hstep. psimpl. exact Hb.
    + right. exact Hpre.
    + exact Hp2.
    + exact Hco2.
    + rewrite <- Hcond. clear -Hbc Hnd Hlen. induction post as [|e r IH]; [reflexivity|].
      destruct e; simpl; try exact IH. rewrite IH. f_equal.
      rewrite Hbc. symmetry. apply reg_cond; assumption.
Qed.

(* ---- duplicate states: the binding can never complete *)
Lemma whentime_dup_refuted_lemma :
  exists (sts : list nat) (times : list N) (v : view) (post : list sevent),
    let es := EOp 0 v (OWhenTime sts times None) :: post in
    forallb plain_ev es = true /\ length times = length sts /\
    time_held sts times post = true /\ closed_of (run init_sst es) 0 = false.
Proof.
  exists [0; 0], [1%N; 1%N],
    {| v_active := []; v_clock := [0%N]; v_qtick := 1; v_running := false; v_window := false;
       v_applied := false |},
    [EProcess [0] [] [0%N] [1%N] 2%N].
  cbv zeta. repeat split; vm_compute; reflexivity.
Qed.

Lemma whentime_nonvacuous_lemma :
  let v := {| v_active := []; v_clock := [0; 0]%N; v_qtick := 1; v_running := false;
              v_window := false; v_applied := false |} in
  let post := [EProcess [0] [] [0; 0]%N [1; 0]%N 2%N; EProcess [1] [] [1; 0]%N [1; 3]%N 3%N] in
  let es := [] ++ EOp 0 v (OWhenTime [0; 1] [1; 2]%N None) :: post in
  forallb plain_ev es = true /\ tcoherent [0; 0]%N es /\ fresh_k 0 post /\
  tcond [0; 1] [1; 2]%N (clks [0; 0]%N []) = false /\ time_held [0; 1] [1; 2]%N post = true /\
  closed_of (run init_sst (EOp 0 v (OWhenTime [0; 1] [1; 2]%N None) :: [hd EPoll post])) 0 = false /\
  closed_of (run init_sst es) 0 = true.
Proof.
  cbv zeta. split; [reflexivity|]. split.
  { cbn [tcoherent tev_coh clk_upd app v_clock].
    assert (Hm1 : forall y, (tick_of [0; 0] y <= tick_of [1; 0] y)%N).
    { intros [|[|[|y]]]; cbn; lia. }
    assert (Hm2 : forall y, (tick_of [1; 0] y <= tick_of [1; 3] y)%N).
    { intros [|[|[|y]]]; cbn; lia. }
    assert (Hnd : NoDup [0; 1]).
    { constructor; [intros [H|[]]; discriminate | constructor; [intros [] | constructor]]. }
    repeat split; auto. }
  split. { intros e [H|[H|[]]]; subst e; discriminate. }
  repeat split; vm_compute; reflexivity.
Qed.
