(* Interleaving model of the mutation queue protocol of pkg/machine
   (queueMutation + processQueue): any number of goroutines, each issuing one
   mutation, at the granularity of the code's own critical sections / atomic
   operations. One atomic action per schedule point of the real code
   (verifPoint names in brackets):

     PEnq     [q:enq]       queueMutation: append under queueMx, assign tick
     PEntry   [pq:entry]    processQueue: queueLen == 0 -> Canceled
     PCas     [pq:cas]      CompareAndSwap(queueProcessing): lost -> Queued tick
     PLoop    [pq:loop]     drain loop condition queueLen > 0
     PPop     [pq:pop]      pop under queueMx, ticks; then the transition runs
                            (handlers of the transition are serialised with it:
                            [nested] mutations it issues are appended here)
     PRelease [pq:release]  queueProcessing := false
     PRecheck [pq:released] after the release: re-check queueLen (fix)
     PDone

   A mutation is an id; running its transition is opaque (always executes).
   [recheck] selects the behaviour after the release: false = the code as it
   was (return), true = re-enter processQueue when the queue is non-empty.
   Proof-free. *)

From Coq Require Import List Bool Arith.
Import ListNotations.

Inductive pc := PEnq | PEntry | PCas | PLoop | PPop | PRelease | PRecheck | PDone.

Inductive tres := RNone | RExecuted | RCanceled | RQueued (tick : nat).

Record thread := {
  t_pc : pc;
  t_mut : nat;            (* id of the mutation this goroutine issues *)
  t_nested : list nat;    (* mutations the handlers of t_mut's transition issue *)
  t_tick : nat;           (* queue tick assigned at PEnq *)
  t_first : bool;         (* ret is non-empty: at least one transition ran in this drain *)
  t_res : tres
}.

Record shared := {
  queue : list (nat * nat);     (* (mutation id, queue tick) *)
  processing : bool;            (* queueProcessing *)
  qtick : nat;
  pending : nat;                (* queueTicksPending *)
  executed : list (nat * nat);  (* (mutation id, executing thread), newest first *)
  nested_of : list (nat * list nat)  (* mutation id -> nested mutations of its handlers *)
}.

Record cfg := { sh : shared; ths : list thread }.

Definition qlen (s : shared) : nat := length (queue s).

Definition set_pc (t : thread) (p : pc) : thread :=
  {| t_pc := p; t_mut := t_mut t; t_nested := t_nested t; t_tick := t_tick t;
     t_first := t_first t; t_res := t_res t |}.

Definition finish (t : thread) (r : tres) : thread :=
  {| t_pc := PDone; t_mut := t_mut t; t_nested := t_nested t; t_tick := t_tick t;
     t_first := t_first t; t_res := r |}.

(* append one mutation: queueMutation's critical section *)
Definition enqueue (s : shared) (m : nat) : shared * nat :=
  let p := S (pending s) in
  let tick := p + qtick s in
  ({| queue := queue s ++ [(m, tick)]; processing := processing s; qtick := qtick s;
      pending := p; executed := executed s; nested_of := nested_of s |}, tick).

Fixpoint enqueue_all (s : shared) (ms : list nat) : shared :=
  match ms with
  | [] => s
  | m :: r => enqueue_all (fst (enqueue s m)) r
  end.

Definition nested_for (s : shared) (m : nat) : list nat :=
  match find (fun p => Nat.eqb (fst p) m) (nested_of s) with
  | Some p => snd p
  | None => []
  end.

(* one atomic action of thread [t] (index [i]) *)
Definition step_thread (recheck : bool) (s : shared) (i : nat) (t : thread) : shared * thread :=
  match t_pc t with
  | PEnq =>
    let '(s', tick) := enqueue s (t_mut t) in
    (s', {| t_pc := PEntry; t_mut := t_mut t; t_nested := t_nested t; t_tick := tick;
            t_first := false; t_res := RNone |})
  | PEntry =>
    if Nat.eqb (qlen s) 0
    then (s, finish t (match t_res t with RNone => RCanceled | r => r end))
    else (s, set_pc t PCas)
  | PCas =>
    if processing s then
      (* lost the race: Queued; in a re-check round the result of the first
         round stands *)
      (s, finish t (match t_res t with RNone => RQueued (t_tick t) | r => r end))
    else ({| queue := queue s; processing := true; qtick := qtick s; pending := pending s;
             executed := executed s; nested_of := nested_of s |}, set_pc t PLoop)
  | PLoop =>
    if Nat.eqb (qlen s) 0 then (s, set_pc t PRelease) else (s, set_pc t PPop)
  | PPop =>
    match queue s with
    | [] => (s, finish t RCanceled)       (* "missing queue item" *)
    | (m, tick) :: rest =>
      let s1 := {| queue := rest; processing := processing s;
                   qtick := if Nat.eqb tick 0 then qtick s else S (qtick s);
                   pending := if Nat.eqb tick 0 then pending s else pending s - 1;
                   executed := (m, i) :: executed s; nested_of := nested_of s |} in
      (* the transition runs; its handlers' mutations are queued meanwhile *)
      let s2 := enqueue_all s1 (nested_for s m) in
      (s2, {| t_pc := PLoop; t_mut := t_mut t; t_nested := t_nested t; t_tick := t_tick t;
              t_first := true; t_res := t_res t |})
    end
  | PRelease =>
    (* the Result of this processQueue call is decided here: ret[0] if any
       transition ran, Canceled otherwise (a re-check round does not change it) *)
    let r := match t_res t with
             | RNone => if t_first t then RExecuted else RCanceled
             | r => r
             end in
    ({| queue := queue s; processing := false; qtick := qtick s; pending := pending s;
        executed := executed s; nested_of := nested_of s |},
     {| t_pc := PRecheck; t_mut := t_mut t; t_nested := t_nested t; t_tick := t_tick t;
        t_first := t_first t; t_res := r |})
  | PRecheck =>
    if recheck && negb (Nat.eqb (qlen s) 0)
    then (s, set_pc t PEntry)    (* processQueue again *)
    else (s, finish t (t_res t))
  | PDone => (s, t)
  end.

Fixpoint replace_nth {A} (l : list A) (i : nat) (x : A) : list A :=
  match l, i with
  | [], _ => []
  | _ :: r, O => x :: r
  | y :: r, S j => y :: replace_nth r j x
  end.

Definition step (recheck : bool) (c : cfg) (i : nat) : cfg :=
  match nth_error (ths c) i with
  | None => c
  | Some t =>
    let '(s', t') := step_thread recheck (sh c) i t in
    {| sh := s'; ths := replace_nth (ths c) i t' |}
  end.

(* run a schedule (list of thread indexes) *)
Definition exec_sched (recheck : bool) (c : cfg) (sched : list nat) : cfg :=
  fold_left (step recheck) sched c.

Definition init_cfg (muts : list (nat * list nat)) : cfg :=
  {| sh := {| queue := []; processing := false; qtick := 1; pending := 0; executed := [];
              nested_of := muts |};
     ths := map (fun p => {| t_pc := PEnq; t_mut := fst p; t_nested := snd p; t_tick := 0;
                             t_first := false; t_res := RNone |}) muts |}.

Definition all_done (c : cfg) : bool :=
  forallb (fun t => match t_pc t with PDone => true | _ => false end) (ths c).

(* a thread is inside the drain (holds queueProcessing) *)
Definition holding (t : thread) : bool :=
  match t_pc t with PLoop | PPop | PRelease => true | _ => false end.

Definition holders (c : cfg) : nat := length (filter holding (ths c)).
