(* Lock-discipline model for C12 ("no data races").

   Threads are straight-line sequences of actions on reader/writer locks and
   on fields:

     Acq l m    acquire lock l in mode m (Sh = RLock, Ex = Lock); blocks while
                another thread holds l in a conflicting mode
     Rel l m    release one holding (l, m)
     Read f     plain (non-atomic) read of field f
     Write f    plain (non-atomic) write of field f
     Atomic f   atomic access of f (never part of a race)

   A configuration is the list of threads, each with the locks it holds and
   the actions it still has to run. [step c i] fires thread i (a blocked or
   finished thread stutters); [exec c sched] runs a schedule (any list of
   thread indices). The lock state is the union of the threads' holdings:
   [can_acq] is the RW-lock admission rule.

   A *race on f* is a configuration in which two different threads both have a
   plain access to f as their next action and at least one of them is a Write
   ([race_on], boolean; [race_spec] is the same thing stated with indices).

   Static side: [summ] lists the accesses of a program with the locks held at
   each; [pair_protected f p q] = every two conflicting accesses to f of p and
   of q hold a common lock, at least one of the two exclusively;
   [well_locked G f p] = the classic guard discipline for a guard map G
   (every Read of f holds some lock of G f, every Write of f holds all of
   G f exclusively, G f non-empty).

   Acquiring a lock the thread itself already holds is admitted (Go would
   deadlock or allow it depending on the modes): the model has MORE behaviours
   than the code, which is the sound direction for a safety theorem.

   Proof-free; the theorems are in Proofs/C12Proofs.v. *)

From Coq Require Import List Bool Arith.
Import ListNotations.

Definition lock := nat.
Definition field := nat.

Inductive mode := Sh | Ex.

Definition is_ex (m : mode) : bool := match m with Ex => true | Sh => false end.

Definition mode_eqb (a b : mode) : bool :=
  match a, b with Sh, Sh => true | Ex, Ex => true | _, _ => false end.

Inductive action :=
| Acq (l : lock) (m : mode)
| Rel (l : lock) (m : mode)
| Read (f : field)
| Write (f : field)
| Atomic (f : field).

Definition prog := list action.

Definition held := list (lock * mode).

Record thread := { th_held : held; th_rest : list action }.

Definition config := list thread.

(* ------------------------------------------------------------ lock state *)

Definition holds_any (h : held) (l : lock) : bool :=
  existsb (fun x => Nat.eqb (fst x) l) h.

Definition holds_ex (h : held) (l : lock) : bool :=
  existsb (fun x => Nat.eqb (fst x) l && is_ex (snd x)) h.

Fixpoint remove_one (x : lock * mode) (h : held) : held :=
  match h with
  | [] => []
  | y :: r =>
      if Nat.eqb (fst x) (fst y) && mode_eqb (snd x) (snd y) then r
      else y :: remove_one x r
  end.

(* may a thread acquire (l, m) given the other threads? *)
Definition compat (l : lock) (m : mode) (u : thread) : bool :=
  match m with
  | Ex => negb (holds_any (th_held u) l)
  | Sh => negb (holds_ex (th_held u) l)
  end.

Definition can_acq (others : list thread) (l : lock) (m : mode) : bool :=
  forallb (compat l m) others.

(* ------------------------------------------------------------ semantics *)

Definition step_thread (others : list thread) (t : thread) : option thread :=
  match th_rest t with
  | [] => None
  | Acq l m :: r =>
      if can_acq others l m
      then Some {| th_held := (l, m) :: th_held t; th_rest := r |}
      else None
  | Rel l m :: r =>
      Some {| th_held := remove_one (l, m) (th_held t); th_rest := r |}
  | Read _ :: r => Some {| th_held := th_held t; th_rest := r |}
  | Write _ :: r => Some {| th_held := th_held t; th_rest := r |}
  | Atomic _ :: r => Some {| th_held := th_held t; th_rest := r |}
  end.

Definition step (c : config) (i : nat) : config :=
  match nth_error c i with
  | None => c
  | Some t =>
      match step_thread (firstn i c ++ skipn (S i) c) t with
      | None => c
      | Some t' => firstn i c ++ t' :: skipn (S i) c
      end
  end.

Definition exec (c : config) (sched : list nat) : config :=
  fold_left step sched c.

Definition init (ps : list prog) : config :=
  map (fun p => {| th_held := []; th_rest := p |}) ps.

(* ------------------------------------------------------------ races *)

(* the plain access a thread is about to perform: (field, is_write) *)
Definition next_access (t : thread) : option (field * bool) :=
  match th_rest t with
  | Read f :: _ => Some (f, false)
  | Write f :: _ => Some (f, true)
  | _ => None
  end.

Definition conflict_next (f : field) (t u : thread) : bool :=
  match next_access t, next_access u with
  | Some (g, w), Some (g', w') => Nat.eqb g f && Nat.eqb g' f && (w || w')
  | _, _ => false
  end.

Fixpoint race_on (f : field) (c : config) : bool :=
  match c with
  | [] => false
  | t :: r => existsb (conflict_next f t) r || race_on f r
  end.

Definition race_spec (f : field) (c : config) : Prop :=
  exists i j ti tj,
    i <> j /\ nth_error c i = Some ti /\ nth_error c j = Some tj /\
    conflict_next f ti tj = true.

(* ------------------------------------------------------------ static side *)

Record acc := { a_field : field; a_write : bool; a_held : held }.

Fixpoint summ (h : held) (p : list action) : list acc :=
  match p with
  | [] => []
  | Acq l m :: r => summ ((l, m) :: h) r
  | Rel l m :: r => summ (remove_one (l, m) h) r
  | Read f :: r => {| a_field := f; a_write := false; a_held := h |} :: summ h r
  | Write f :: r => {| a_field := f; a_write := true; a_held := h |} :: summ h r
  | Atomic _ :: r => summ h r
  end.

(* a lock held by both, by at least one of them exclusively *)
Definition common_excl (h1 h2 : held) : bool :=
  existsb (fun x =>
    existsb (fun y => Nat.eqb (fst x) (fst y) && (is_ex (snd x) || is_ex (snd y))) h2) h1.

Definition acc_ok (f : field) (a b : acc) : bool :=
  if Nat.eqb (a_field a) f && Nat.eqb (a_field b) f && (a_write a || a_write b)
  then common_excl (a_held a) (a_held b)
  else true.

Definition accs_protected (f : field) (xs ys : list acc) : bool :=
  forallb (fun a => forallb (fun b => acc_ok f a b && acc_ok f b a) ys) xs.

Definition pair_protected (f : field) (p q : prog) : bool :=
  accs_protected f (summ [] p) (summ [] q).

(* every two DIFFERENT threads of the program are pairwise protected on f *)
Fixpoint all_protected (f : field) (ps : list prog) : bool :=
  match ps with
  | [] => true
  | p :: r => forallb (pair_protected f p) r && all_protected f r
  end.

(* the same for every field at once (the field is read off the accesses) *)
Definition acc_ok_any (a b : acc) : bool :=
  if Nat.eqb (a_field a) (a_field b) && (a_write a || a_write b)
  then common_excl (a_held a) (a_held b) && common_excl (a_held b) (a_held a)
  else true.

Definition pair_protected_any (p q : prog) : bool :=
  forallb (fun a => forallb (fun b => acc_ok_any a b) (summ [] q)) (summ [] p).

(* ------------------------------------------------------------ guard maps *)

Definition guard_map := field -> list lock.

Definition read_ok (G : guard_map) (h : held) (f : field) : bool :=
  existsb (holds_any h) (G f).

Definition write_ok (G : guard_map) (h : held) (f : field) : bool :=
  match G f with
  | [] => false
  | gs => forallb (holds_ex h) gs
  end.

Definition acc_guarded (G : guard_map) (f : field) (a : acc) : bool :=
  if Nat.eqb (a_field a) f
  then (if a_write a then write_ok G (a_held a) f else read_ok G (a_held a) f)
  else true.

Definition well_locked (G : guard_map) (f : field) (p : prog) : bool :=
  forallb (acc_guarded G f) (summ [] p).

(* fields a program touches with a plain access *)
Definition fields_of (p : prog) : list field := map a_field (summ [] p).

Definition well_locked_all (G : guard_map) (p : prog) : bool :=
  forallb (fun f => well_locked G f p) (fields_of p).

(* ------------------------------------------------------------ compressed checks *)
(* the same checks over duplicate-free summaries (for evaluation speed) *)

Fixpoint dedupb {A : Type} (eqb : A -> A -> bool) (l : list A) : list A :=
  match l with
  | [] => []
  | x :: r => if existsb (eqb x) r then dedupb eqb r else x :: dedupb eqb r
  end.

Fixpoint held_eqb (a b : held) : bool :=
  match a, b with
  | [], [] => true
  | x :: r, y :: r' => Nat.eqb (fst x) (fst y) && mode_eqb (snd x) (snd y) && held_eqb r r'
  | _, _ => false
  end.

Definition acc_eqb (a b : acc) : bool :=
  Nat.eqb (a_field a) (a_field b) && Bool.eqb (a_write a) (a_write b) &&
  held_eqb (a_held a) (a_held b).

Definition csumm (p : prog) : list acc := dedupb acc_eqb (summ [] p).

Definition accs_ok_any (xs ys : list acc) : bool :=
  forallb (fun a => forallb (fun b => acc_ok_any a b) ys) xs.

Definition action_eqb (a b : action) : bool :=
  match a, b with
  | Acq l m, Acq l' m' => Nat.eqb l l' && mode_eqb m m'
  | Rel l m, Rel l' m' => Nat.eqb l l' && mode_eqb m m'
  | Read f, Read f' => Nat.eqb f f'
  | Write f, Write f' => Nat.eqb f f'
  | Atomic f, Atomic f' => Nat.eqb f f'
  | _, _ => false
  end.

Fixpoint prog_eqb (p q : prog) : bool :=
  match p, q with
  | [], [] => true
  | a :: r, b :: r' => action_eqb a b && prog_eqb r r'
  | _, _ => false
  end.

Definition set_protected_c (S : list prog) : bool :=
  let D := map csumm (dedupb prog_eqb S) in
  forallb (fun xs => forallb (accs_ok_any xs) D) D.
