(* Protocol model of the RPC clock synchronisation of pkg/rpc (C09).

   The codec (tracerData, calcUpdate, clockFromUpdate, checksum, the Hello
   mirror) is the one of Model/RpcCodec.v (C10). This file adds the protocol
   around it, at the granularity of the code's own critical sections:

     sourceTracer.TransitionEnd                      -> ev Src
     Server.pushClient (+ pushUpdateLatest /
       pushUpdateMutations / storeLastPush)          -> ev Push
     Remote{Add,Remove,Set} -> newMsgMutation        -> ev Reply   (computed under lockExport)
     rpc2 writing the response after the handler     -> ev Write   (a later point)
     the client's read loop / the caller goroutine   -> ev Deliver (one ordered wire)
     Client.Sync() request / RemoteSync              -> ev SyncReq / SyncServe
     connection drop + RemoteHello + HandshakeDone   -> ev Hello

   The model follows /repo after the repairs 86fb806 (RemoteUpdate requests a
   Sync when a pushed diff is rejected), 4b9897e (RemoteUpdateMutations does
   the same from a goroutine instead of inside the blocking read loop),
   ca3c269 (pushClient skips NewServer's placeholder dataLatest), 8ad26fe
   (pushUpdateLatest also sends diffs without indexes), e5ad5bb (DataQueue
   flushes dataQueue) and aabeecb (RemoteHello empties dataQueue). One-line notes "old code:" say how the
   unrepaired behaviour was modelled.

   Quirks kept on purpose (each is visible to the correspondence check):
     - RemoteSync returns the unfiltered Source.Time and does not touch
       lastPushData; Client.Sync refuses a time slice whose length differs
       from the client's state count ("wrong clock len");
     - Sync() takes the client's callLock: a Sync requested while a mutation
       call is in flight is served only after that call returned;
     - RemoteHello overwrites mTime / queueTick / machTick / sum of the
       existing lastPushData object and keeps its checksum; the switches
       [p_hello_m] / [p_sync_m] say whether the client takes the machine tick
       from the Hello / from the Sync response (probed on the real code).

   A Go panic (nil tracerData, index out of range in a handler goroutine)
   is the sticky flag [st_err]. Proof-free on purpose. *)

From Coq Require Import List NArith Bool Arith.
From AMV Require Import Model.RpcCodec.
Import ListNotations.
Open Scope N_scope.

Record pcfg := {
  p_codec : cfg;          (* schema / tracked / shallow, as in C10 *)
  p_mut : bool;           (* per-mutation sync (SyncMutations) *)
  (* one switch per candidate repair of the client side; the harness probes
     which ones /repo contains *)
  p_hello_m : bool;       (* HandshakeDone takes MachineTick from the Hello *)
  p_sync_m : bool         (* RemoteSync fills MsgSrvSync.MachTick *)
}.

Inductive reply :=
| RUpd (u : upd)
| RMuts (us : list upd).

Inductive wmsg :=
| WPush (u : upd)                 (* ClientUpdate notification *)
| WMuts (us : list upd)           (* ClientUpdateMutations notification *)
| WReply (r : reply)              (* response of Remote{Add,Remove,Set} *)
| WSync (t : list N) (q m : N).   (* response of RemoteSync *)

Record server := {
  sv_last : tdata;                (* lastPushData *)
  sv_latest : option tdata;       (* tracer.dataLatest (nil after DataQueue) *)
  sv_queue : list tdata           (* tracer.dataQueue, never flushed *)
}.

Record client := {
  cl_t : list N;
  cl_q : N;
  cl_m : N;
  cl_stuck : bool;                (* read loop blocked forever (never set since 4b9897e) *)
  cl_need : bool;                 (* a Sync request is outstanding *)
  cl_errs : nat                   (* "wrong clock len" errors *)
}.

Record st := {
  st_sv : server;
  st_cl : client;
  st_wire : list wmsg;            (* server -> client, FIFO *)
  st_pend : option reply;         (* reply computed, not yet written *)
  st_cur : snap;                  (* the source now *)
  st_err : bool;                  (* a panic *)
  (* bookkeeping for the evaluation (no influence on the run) *)
  st_silent : bool;               (* old code only: a push consumed a snapshot without sending *)
  st_rejpush : bool;              (* a pushed diff was rejected (a Sync was requested) *)
  st_synced : bool;               (* a full Sync response was applied or refused *)
  st_npush : nat;                 (* pushClient runs that reached storeLastPush *)
  st_conn : bool;                 (* the server has a handshaken client *)
  st_initpush : bool              (* old code only: the placeholder dataLatest was pushed *)
}.

Inductive ev :=
| Src (s : snap)
| Push
| Reply
| Write
| Deliver
| SyncReq
| SyncServe
| Hello
| Settle.                          (* SyncServe/Deliver until the wire is empty *)

(* ---------------------------------------------------------------- updates *)

Definition set_sv (s : st) (v : server) : st :=
  {| st_sv := v; st_cl := st_cl s; st_wire := st_wire s; st_pend := st_pend s;
     st_cur := st_cur s; st_err := st_err s; st_silent := st_silent s;
     st_rejpush := st_rejpush s; st_synced := st_synced s; st_npush := st_npush s;
     st_conn := st_conn s; st_initpush := st_initpush s |}.

Definition set_cl (s : st) (c : client) : st :=
  {| st_sv := st_sv s; st_cl := c; st_wire := st_wire s; st_pend := st_pend s;
     st_cur := st_cur s; st_err := st_err s; st_silent := st_silent s;
     st_rejpush := st_rejpush s; st_synced := st_synced s; st_npush := st_npush s;
     st_conn := st_conn s; st_initpush := st_initpush s |}.

Definition set_wire (s : st) (w : list wmsg) : st :=
  {| st_sv := st_sv s; st_cl := st_cl s; st_wire := w; st_pend := st_pend s;
     st_cur := st_cur s; st_err := st_err s; st_silent := st_silent s;
     st_rejpush := st_rejpush s; st_synced := st_synced s; st_npush := st_npush s;
     st_conn := st_conn s; st_initpush := st_initpush s |}.

Definition set_pend (s : st) (p : option reply) : st :=
  {| st_sv := st_sv s; st_cl := st_cl s; st_wire := st_wire s; st_pend := p;
     st_cur := st_cur s; st_err := st_err s; st_silent := st_silent s;
     st_rejpush := st_rejpush s; st_synced := st_synced s; st_npush := st_npush s;
     st_conn := st_conn s; st_initpush := st_initpush s |}.

Definition set_cur (s : st) (x : snap) : st :=
  {| st_sv := st_sv s; st_cl := st_cl s; st_wire := st_wire s; st_pend := st_pend s;
     st_cur := x; st_err := st_err s; st_silent := st_silent s;
     st_rejpush := st_rejpush s; st_synced := st_synced s; st_npush := st_npush s;
     st_conn := st_conn s; st_initpush := st_initpush s |}.

Definition set_err (s : st) : st :=
  {| st_sv := st_sv s; st_cl := st_cl s; st_wire := st_wire s; st_pend := st_pend s;
     st_cur := st_cur s; st_err := true; st_silent := st_silent s;
     st_rejpush := st_rejpush s; st_synced := st_synced s; st_npush := st_npush s;
     st_conn := st_conn s; st_initpush := st_initpush s |}.

Definition set_flags (s : st) (silent rej synced : bool) (np : nat) : st :=
  {| st_sv := st_sv s; st_cl := st_cl s; st_wire := st_wire s; st_pend := st_pend s;
     st_cur := st_cur s; st_err := st_err s; st_silent := silent;
     st_rejpush := rej; st_synced := synced; st_npush := np;
     st_conn := st_conn s; st_initpush := st_initpush s |}.

Definition set_conn (s : st) (b : bool) : st :=
  {| st_sv := st_sv s; st_cl := st_cl s; st_wire := st_wire s; st_pend := st_pend s;
     st_cur := st_cur s; st_err := st_err s; st_silent := st_silent s;
     st_rejpush := st_rejpush s; st_synced := st_synced s; st_npush := st_npush s;
     st_conn := b; st_initpush := st_initpush s |}.

Definition set_initpush (s : st) : st :=
  {| st_sv := st_sv s; st_cl := st_cl s; st_wire := st_wire s; st_pend := st_pend s;
     st_cur := st_cur s; st_err := st_err s; st_silent := st_silent s;
     st_rejpush := st_rejpush s; st_synced := st_synced s; st_npush := st_npush s;
     st_conn := st_conn s; st_initpush := true |}.

Definition mk_server (l : tdata) (la : option tdata) (q : list tdata) : server :=
  {| sv_last := l; sv_latest := la; sv_queue := q |}.

Definition mk_client (t : list N) (q m : N) (stuck need : bool) (e : nat) : client :=
  {| cl_t := t; cl_q := q; cl_m := m; cl_stuck := stuck; cl_need := need; cl_errs := e |}.

(* ---------------------------------------------------------------- server *)

(* NewServer: dataLatest = &tracerData{queueTick: 1} (no mTime, no tracked
   list) until the first TransitionEnd after the Hello *)
Definition init_data : tdata :=
  {| d_mtime := None; d_sum := 0; d_q := 1; d_m := 0; d_check := 0 |}.

(* calcUpdate on the tracer's data: the placeholder has an empty tracked
   list, so the generator loops run zero times (no panic, no indexes) *)
Definition calc_upd (p : pcfg) (data last : tdata) : option upd :=
  match d_mtime data with
  | None =>
    Some {| u_idx := []; u_ticks := [];
            u_q := (sub64 (d_q data) (d_q last)) mod w16;
            u_m := ((d_m data + w32 - (d_m last) mod w32) mod w32) mod w8;
            u_check := d_check data |}
  | Some _ => calc_update (p_codec p) (shallow (p_codec p)) data last
  end.

(* sourceTracer.TransitionEnd *)
Definition do_src (p : pcfg) (s : st) (x : snap) : st :=
  let d := mk_data (p_codec p) x in
  let v := st_sv s in
  set_cur
    (set_sv s (mk_server (sv_last v) (Some d)
                 (if p_mut p then sv_queue v ++ [d] else sv_queue v)))
    x.

(* Server.pushClient with the push window open and the handshake done *)
Definition do_push (p : pcfg) (s : st) : st :=
  let v := st_sv s in
  if negb (st_conn s) then s else
  match sv_latest v with
  | None => s
  | Some data =>
    match d_mtime data with
    | None => s    (* the placeholder is never exported. old code: exported, set_initpush *)
    | Some _ =>
    if (d_sum (sv_last v) =? d_sum data) && (d_q (sv_last v) =? d_q data) then s
    else
      let s1 := set_flags s (st_silent s) (st_rejpush s) (st_synced s) (S (st_npush s)) in
      if p_mut p then
        (* pushUpdateMutations(tracer.DataQueue()): dataLatest := nil, dataQueue
           := nil. old code: the queue was kept *)
        let v' := mk_server data None [] in
        match calc_update_muts (p_codec p) (sv_queue v) (sv_last v) with
        | None => set_sv s1 v'                       (* panic recovered by PanicToErr *)
        | Some [] => set_sv s1 v'
        | Some us => set_wire (set_sv s1 v') (st_wire s ++ [WMuts us])
        end
      else
        let v' := mk_server data (sv_latest v) (sv_queue v) in
        match calc_upd p data (sv_last v) with
        | None => set_sv s1 v'                       (* panic recovered by PanicToErr *)
        | Some u =>
          (* sent even without indexes. old code: u_idx u = [] => nothing sent,
             lastPushData still stored (st_silent) *)
          set_wire (set_sv s1 v') (st_wire s ++ [WPush u])
        end
    end
  end.

(* Remote{Add,Remove,Set} after the source mutation: newMsgMutation *)
Definition do_reply (p : pcfg) (s : st) : st :=
  let v := st_sv s in
  if p_mut p then
    match calc_update_muts (p_codec p) (sv_queue v) (sv_last v) with
    | None => set_err s
    | Some us =>
      match sv_latest v with
      | None => set_err s             (* lastPushData := nil; next export panics *)
      | Some data =>
        (* DataQueue(): flushed. old code: mk_server data None (sv_queue v) *)
        set_pend (set_sv s (mk_server data None [])) (Some (RMuts us))
      end
    end
  else
    match sv_latest v with
    | None => set_err s
    | Some data =>
      match calc_upd p data (sv_last v) with
      | None => set_err s
      | Some u => set_pend (set_sv s (mk_server data (sv_latest v) (sv_queue v))) (Some (RUpd u))
      end
    end.

Definition do_write (s : st) : st :=
  match st_pend s with
  | None => s
  | Some r => set_pend (set_wire s (st_wire s ++ [WReply r])) None
  end.

(* a client-issued mutation holds the client's callLock from the request to
   the processing of its reply *)
Definition call_in_flight (s : st) : bool :=
  match st_pend s with
  | Some _ => true
  | None => existsb (fun m => match m with WReply _ => true | _ => false end) (st_wire s)
  end.

(* Client.Sync (behind callLock) + RemoteSync *)
Definition do_sync_serve (p : pcfg) (s : st) : st :=
  let c := st_cl s in
  if cl_need c && negb (cl_stuck c) && negb (call_in_flight s)
  then set_cl (set_wire s (st_wire s ++ [WSync (s_time (st_cur s)) (s_q (st_cur s))
                                           (if p_sync_m p then s_m (st_cur s) else 0)]))
              (mk_client (cl_t c) (cl_q c) (cl_m c) (cl_stuck c) false (cl_errs c))
  else s.

(* ---------------------------------------------------------------- client *)

(* Client.clockUpdate: Some (client', accepted); None = panic *)
Definition cl_update (p : pcfg) (c : client) (u : upd) : option (client * bool) :=
  match client_apply (p_codec p) u (cl_t c) (cl_q c) (cl_m c) with
  | None => None
  | Some (t', q', m', acc) =>
    if acc && negb (Nat.eqb (length t') 0)
    then Some (mk_client t' q' m' (cl_stuck c) (cl_need c) (cl_errs c), true)
    else Some (c, false)
  end.

(* Client.clockUpdateMutations: stops at the first rejected update, the
   earlier ones stay applied *)
Fixpoint cl_update_muts (p : pcfg) (c : client) (us : list upd) : option (client * bool) :=
  match us with
  | [] => Some (c, true)
  | u :: r =>
    match cl_update p c u with
    | None => None
    | Some (c', true) => cl_update_muts p c' r
    | Some (c', false) => Some (c', false)
    end
  end.

Definition cl_set_need (c : client) (b : bool) : client :=
  mk_client (cl_t c) (cl_q c) (cl_m c) (cl_stuck c) b (cl_errs c).

Definition cl_set_stuck (c : client) : client :=
  mk_client (cl_t c) (cl_q c) (cl_m c) true (cl_need c) (cl_errs c).

(* Client.Sync's handling of the response + clockSet *)
Definition cl_sync (c : client) (t : list N) (q m : N) : client :=
  match t with
  | [] => cl_set_need c false
  | _ =>
    if Nat.eqb (length t) (length (cl_t c))
    then mk_client t q m (cl_stuck c) false (cl_errs c)
    else mk_client (cl_t c) (cl_q c) (cl_m c) (cl_stuck c) false (S (cl_errs c))
  end.

(* the head of the wire is consumed *)
Definition do_deliver (p : pcfg) (s : st) : st :=
  let c := st_cl s in
  if cl_stuck c then s else
  match st_wire s with
  | [] => s
  | m :: w =>
    let s' := set_wire s w in
    match m with
    | WPush u =>
      match cl_update p c u with
      | None => set_err s'
      | Some (c', true) => set_cl s' c'
      | Some (c', false) =>
        (* go c.Sync(). old code: the result was ignored (no cl_set_need) *)
        set_flags (set_cl s' (cl_set_need c' true)) (st_silent s) true (st_synced s) (st_npush s)
      end
    | WMuts us =>
      match cl_update_muts p c us with
      | None => set_err s'
      | Some (c', true) => set_cl s' c'
      | Some (c', false) =>
        (* go c.Sync(). old code: Sync() inside the blocking read loop, the
           read loop was dead from then on (cl_set_stuck c') *)
        set_flags (set_cl s' (cl_set_need c' true)) (st_silent s) true (st_synced s) (st_npush s)
      end
    | WReply (RUpd u) =>
      match cl_update p c u with
      | None => set_err s'
      | Some (c', true) => set_cl s' c'
      | Some (c', false) => set_cl s' (cl_set_need c' true)
      end
    | WReply (RMuts us) =>
      match cl_update_muts p c us with
      | None => set_err s'
      | Some (c', true) => set_cl s' c'
      | Some (c', false) => set_cl s' (cl_set_need c' true)
      end
    | WSync t q m =>
      set_flags (set_cl s' (cl_sync c t q m)) (st_silent s) (st_rejpush s) true (st_npush s)
    end
  end.

Definition do_sync_req (s : st) : st :=
  if cl_stuck (st_cl s) then s else set_cl s (cl_set_need (st_cl s) true).

(* connection drop, reconnect, RemoteHello, HandshakeDone. A client whose
   read loop is stuck never notices the drop. *)
Definition do_hello (p : pcfg) (s : st) : st :=
  if cl_stuck (st_cl s) then set_conn s false else
  let c := p_codec p in
  let x := st_cur s in
  let v := st_sv s in
  let last' := {| d_mtime := Some (hello_time c x);
                  d_sum := sum64 (filter_time (s_time x) (tracked c));
                  d_q := s_q x; d_m := s_m x; d_check := d_check (sv_last v) |} in
  set_pend
    (set_wire
       (* aabeecb: the session starts with an empty dataQueue.
          old code: mk_server last' (sv_latest v) (sv_queue v) *)
       (set_cl (set_sv s (mk_server last' (sv_latest v) []))
               (mk_client (hello_time c x) (s_q x) (if p_hello_m p then s_m x else 0)
                          false false (cl_errs (st_cl s))))
       [])
    None.

(* SyncServe / Deliver until nothing is left to do *)
Fixpoint settle (p : pcfg) (fuel : nat) (s : st) : st :=
  match fuel with
  | O => s
  | S f =>
    let s2 := do_sync_serve p s in
    match st_wire s2 with
    | [] => s2
    | _ => if cl_stuck (st_cl s2) then s2 else settle p f (do_deliver p s2)
    end
  end.

Definition step (p : pcfg) (s : st) (e : ev) : st :=
  if st_err s then s else
  match e with
  | Src x => do_src p s x
  | Push => do_push p s
  | Reply => do_reply p s
  | Write => do_write s
  | Deliver => do_deliver p s
  | SyncReq => do_sync_req s
  | SyncServe => do_sync_serve p s
  | Hello => do_hello p s
  | Settle => settle p (2 * length (st_wire s) + 4) s
  end.

Definition exec (p : pcfg) (s : st) (es : list ev) : st := fold_left (step p) es s.

(* the state right after the first handshake at source snapshot [x] *)
Definition init (p : pcfg) (x : snap) : st :=
  {| st_sv := mk_server (hello_data (p_codec p) x) (Some init_data) [];
     st_cl := mk_client (hello_time (p_codec p) x) (s_q x) (if p_hello_m p then s_m x else 0)
                        false false 0;
     st_wire := []; st_pend := None; st_cur := x; st_err := false;
     st_silent := false; st_rejpush := false; st_synced := false; st_npush := 0;
     st_conn := true; st_initpush := false |}.
