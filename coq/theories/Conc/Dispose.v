(* Interleaving model of disposal in pkg/machine (Dispose / DisposeForce /
   doDispose, the `disposing` / `disposed` guards of the public methods, the
   subscription manager's registration and dispose()), for any number of
   goroutines, at the granularity of the code's schedule points. One atomic
   action per verifPoint of the real code (names in brackets):

   disposer (doDispose)
     PStart  -> [dispose:disposing]  Dispose(): `if disposing return`;
                                     doDispose: `if disposed return`,
                                     CompareAndSwap(disposing)
     PD1     -> [dispose:disposed]   (not forced: wait for the queue, bounded)
                                     CompareAndSwap(disposed)
     PD2     -> [dispose:subs]       tracers, (not forced: take the five locks,
                                     held until return), handlers := nil,
                                     close(errInternal)
     PD3     -> [dispose:end]        subs.dispose(): cancel state contexts,
                                     close when / whenTime / whenArgs /
                                     whenQueueEnds / whenQueue (NOT whenQuery);
                                     run the dispose handlers
     PD4     -> return               cancel() (cancels every context derived
                                     from Machine.Context()), close(whenDisposed),
                                     release the locks
   When / WhenErr / WhenQuery
     PStart  -> [when:checked]       `if disposed return Closed`
     PChecked-> return               lock; mustParseStates (nil while
                                     disposing => states[0] panics in
                                     Subscriptions.When); register
   every other call is one action: its guard on disposing / disposed, then
   its effect (register a binding / read).
   Add1 (the workload goroutine): the points of queueMutation / processQueue /
   emitEvents (q:enq pq:entry pq:cas pq:loop pq:pop tx:applied tx:subs
   pq:release pq:released), reduced to what disposal interacts with: the
   guards on `disposing`, queueRunning (WhenQueueEnds registers only while the
   queue runs), ProcessWhenQueueEnds at the tail. The re-check of the queue
   after the release (C04) is not modelled: one workload goroutine.
   Eval(fn) (the other workload): PrependMut + the same processQueue points
   (no q:enq, no tx:*; after the eval the loop `continue`s, so pq:pop is
   followed by pq:release), then Eval's select on done / EvalTimeout / the
   machine context.
   KAddP / KEvalP: the same goroutines additionally scheduled at [pq:popped],
   between the queue shift and newTransition (needs that point in /repo).

   [fixes]: one switch per candidate repair of /repo; [no_fixes] is the code
   as found. Proof-free. *)

From Coq Require Import List Bool Arith.
Import ListNotations.

Record fixes := {
  fx_close_query : bool;  (* Subscriptions.dispose also closes whenQuery bindings *)
  fx_recheck : bool;      (* When / WhenQuery test `disposed` again under the lock and return Closed *)
  fx_nil_guard : bool;    (* When / WhenArgs return Closed when mustParseStates returns nil *)
  fx_ctx_closed : bool;   (* NewStateCtx returns a cancelled context while disposing (not context.TODO()) *)
  fx_ctx_watch : bool;    (* the parent context is watched even without a handler binding *)
  fx_err_guard : bool;    (* nothing is sent on errInternal after doDispose closed it (or it is not closed) *)
  fx_tx_guard : bool      (* newTransition does not index the nil Time of a disposed machine *)
}.

Definition no_fixes : fixes :=
  {| fx_close_query := false; fx_recheck := false; fx_nil_guard := false;
     fx_ctx_closed := false; fx_ctx_watch := false; fx_err_guard := false;
     fx_tx_guard := false |}.
Definition all_fixes : fixes :=
  {| fx_close_query := true; fx_recheck := true; fx_nil_guard := true;
     fx_ctx_closed := true; fx_ctx_watch := true; fx_err_guard := true;
     fx_tx_guard := true |}.

(* kinds of threads / calls *)
Inductive kind :=
  | KDispose      (* DisposeForce: doDispose(true) on the caller *)
  | KDisposeNF    (* Dispose(): doDispose(false) on a forked goroutine *)
  | KWhen         (* When1(A) / WhenErr: inactive state *)
  | KWhenQuery
  | KWhenNot      (* WhenNot1(B): active state *)
  | KWhenTime     (* WhenTime1(A, far) *)
  | KWhenTicks    (* WhenTicks(B, 1) *)
  | KWhenArgs
  | KWhenQueue    (* WhenQueue(far tick) *)
  | KWhenQueueEnds
  | KStateCtx     (* NewStateCtx(B) *)
  | KAdd          (* Add1(C) *)
  | KFlag         (* Is1(B) Not1(A) Any1(B) Has1(B): true on a live machine *)
  | KFalse        (* IsErr: false either way *)
  | KNum          (* Tick(B) Clock(nil) ActiveStates([B]) Index1(B): non-zero on a live machine *)
  | KTime         (* Time(nil): guarded by disposed *)
  | KEval         (* Eval(fn): the workload goroutine running an eval through the queue *)
  | KAddP         (* Add1(C), also scheduled at [pq:popped] (between the queue shift and newTransition) *)
  | KEvalP        (* Eval(fn), also scheduled at [pq:popped] *)
  | KMut          (* Remove Set Toggle CanAdd CanRemove AddErr: guarded by disposing *)
  | KOther.

(* kinds of waiters (subscription bindings / contexts handed out) *)
Inductive wkind := WWhen | WQuery | WNot | WTime | WArgs | WQueue | WQueueEnds | WCtx | WTodo.

Inductive res :=
  | RNone | RPanic | RClosed | ROpen (w : nat) | RCanceled | RExecuted | RQueued
  | RBool (b : bool) | RZero | RNonzero | RVoid
  | REither.  (* Eval whose function ran and whose machine context is cancelled: select picks either case *)

Record waiter := { w_kind : wkind; w_closed : bool; w_stage : nat }.

(* the disposal state proper: only doDispose writes it *)
Record dcore := {
  disposing : bool;
  disposed : bool;
  n_prep : nat;         (* times tracers / locks / handlers:=nil / close(errInternal) ran *)
  n_subs : nat;         (* times subs.dispose() ran *)
  hcounts : list nat;   (* calls per registered dispose handler *)
  n_end : nat;          (* times cancel() + close(whenDisposed) ran *)
  locked : bool         (* a non-forced doDispose holds activeStatesMx subs.Mx tracersMx handlersMx queueMx *)
}.

Record rest := {
  waiters : list waiter;
  qlen : nat;
  processing : bool;    (* queueProcessing *)
  qrunning : bool;      (* queueRunning *)
  has_handlers : bool   (* a handler binding exists *)
}.

Record shared := { dc : dcore; rs : rest }.

Inductive pc :=
  | PStart | PD1 | PD2 | PD3 | PD4 | PChecked
  | PAEnq | PAEntry | PACas | PALoop | PAPop | PAPopped | PAApplied | PASubs | PARelease | PAReleased
  | PDone.

Record thread := { th_kind : kind; th_pc : pc; th_res : res }.

Record cfg := { sh : shared; ths : list thread }.

(* stage of the disposal: 0 idle, 1 disposing, 2 disposed, 3 prepared,
   4 subscriptions disposed + handlers run, 5 complete *)
Definition phase (d : dcore) : nat :=
  if 0 <? n_end d then 5
  else if 0 <? n_subs d then 4
  else if 0 <? n_prep d then 3
  else if disposed d then 2
  else if disposing d then 1
  else 0.

Definition complete (s : shared) : bool := 0 <? n_end (dc s).

(* ------------------------------------------------------------------ *)
(* waiters                                                            *)
(* ------------------------------------------------------------------ *)

Definition set_waiters (r : rest) (ws : list waiter) : rest :=
  {| waiters := ws; qlen := qlen r; processing := processing r; qrunning := qrunning r;
     has_handlers := has_handlers r |}.

Definition set_queue (r : rest) (n : nat) (p q : bool) : rest :=
  {| waiters := waiters r; qlen := n; processing := p; qrunning := q;
     has_handlers := has_handlers r |}.

(* register a binding: a new open waiter, stamped with the current stage *)
Definition reg (d : dcore) (r : rest) (k : wkind) : rest * res :=
  (set_waiters r (waiters r ++ [{| w_kind := k; w_closed := false; w_stage := phase d |}]),
   ROpen (length (waiters r))).

Definition close_w (w : waiter) : waiter :=
  {| w_kind := w_kind w; w_closed := true; w_stage := w_stage w |}.

Definition close_if (p : wkind -> bool) (ws : list waiter) : list waiter :=
  map (fun w => if p (w_kind w) then close_w w else w) ws.

(* what Subscriptions.dispose() closes *)
Definition closable (fx : fixes) (k : wkind) : bool :=
  match k with
  | WQuery => fx_close_query fx
  | WTodo => false
  | _ => true
  end.

Definition is_ctx (k : wkind) : bool := match k with WCtx => true | _ => false end.
Definition is_qe (k : wkind) : bool := match k with WQueueEnds => true | _ => false end.

(* ------------------------------------------------------------------ *)
(* calls                                                              *)
(* ------------------------------------------------------------------ *)

Definition finish (t : thread) (r : res) : thread :=
  {| th_kind := th_kind t; th_pc := PDone; th_res := r |}.

Definition goto (t : thread) (p : pc) : thread :=
  {| th_kind := th_kind t; th_pc := p; th_res := th_res t |}.

Definition keep (t : thread) (r : res) : res :=
  match th_res t with RNone => r | x => x end.

(* what Eval returns once PrependMut is back: true if its function ran
   (either answer if the machine context is cancelled as well: select picks a
   ready case at random); otherwise it waits for EvalTimeout or the machine
   context; on the timeout it reports on errInternal, which doDispose has
   closed from dispose:subs on: send on closed channel *)
Definition eval_res (fx : fixes) (d : dcore) (y : res) : res :=
  match y with
  | RExecuted => if 0 <? n_end d then REither else RBool true
  | _ =>
    if (0 <? n_prep d) && Nat.eqb (n_end d) 0 && negb (fx_err_guard fx) then RPanic else RBool false
  end.

(* the result of the workload goroutine's call, from the Result of its
   processQueue *)
Definition wl_res (fx : fixes) (d : dcore) (t : thread) (x : res) : res :=
  match th_kind t with
  | KEval | KEvalP => eval_res fx d (keep t x)
  | _ => keep t x
  end.

(* the single action of a one-action call *)
Definition simple_call (fx : fixes) (d : dcore) (r : rest) (k : kind) : rest * res :=
  let d1 := disposing d in
  let d2 := disposed d in
  match k with
  | KWhenNot =>
    (* not(nil) is true while disposing: Closed *)
    if d2 then (r, RClosed) else if d1 then (r, RClosed) else reg d r WNot
  | KWhenTime => if d2 then (r, RClosed) else reg d r WTime
  | KWhenTicks =>
    (* Tick() is 0 while disposing: the requested time has passed already *)
    if d2 then (r, RClosed) else if d1 then (r, RClosed) else reg d r WTime
  | KWhenArgs =>
    if d2 then (r, RClosed)
    else if d1 then (r, if fx_nil_guard fx then RClosed else RPanic)
    else reg d r WArgs
  | KWhenQueue => if d2 then (r, RClosed) else reg d r WQueue
  | KWhenQueueEnds => if d2 || negb (qrunning r) then (r, RClosed) else reg d r WQueueEnds
  | KStateCtx =>
    if d1 then (if fx_ctx_closed fx then (r, RClosed) else reg d r WTodo) else reg d r WCtx
  | KFlag => (r, RBool (negb d1))
  | KFalse => (r, RBool false)
  | KNum => (r, if d1 then RZero else RNonzero)
  | KTime => (r, if d2 then RZero else RNonzero)
  | KMut => (r, if d1 then RCanceled else RExecuted)
  | _ => (r, RVoid)
  end.

(* one action of a non-disposer thread *)
Definition api_step (fx : fixes) (d : dcore) (r : rest) (t : thread) : rest * thread :=
  let d1 := disposing d in
  let d2 := disposed d in
  match th_pc t with
  | PStart =>
    match th_kind t with
    | KWhen | KWhenQuery => if d2 then (r, finish t RClosed) else (r, goto t PChecked)
    | KAdd | KAddP => if d1 then (r, finish t RCanceled) else (r, goto t PAEnq)
    | KEval | KEvalP =>
      (* Eval's and PrependMut's guards, then the eval mutation is prepended *)
      if d1 then (r, finish t (RBool false))
      else (set_queue r (S (qlen r)) (processing r) (qrunning r), goto t PAEntry)
    | k => let '(r', x) := simple_call fx d r k in (r', finish t x)
    end
  | PChecked =>
    if locked d then (r, t)
    else if fx_recheck fx && d2 then (r, finish t RClosed)
    else match th_kind t with
         | KWhenQuery => let '(r', x) := reg d r WQuery in (r', finish t x)
         | _ =>
           if d1 then (r, finish t (if fx_nil_guard fx then RClosed else RPanic))
           else let '(r', x) := reg d r WWhen in (r', finish t x)
         end
  | PAEnq =>
    if locked d then (r, t)
    else (set_queue r (S (qlen r)) (processing r) (qrunning r), goto t PAEntry)
  | PAEntry =>
    if Nat.eqb (qlen r) 0 || d1 then (r, finish t (wl_res fx d t RCanceled)) else (r, goto t PACas)
  | PACas =>
    if processing r then (if locked d then (r, t) else (r, finish t (wl_res fx d t RQueued)))
    else (set_queue r (qlen r) true false, goto t PALoop)
  | PALoop =>
    if Nat.eqb (qlen r) 0 then (r, goto t PARelease)
    else (set_queue r (qlen r) (processing r) true, goto t PAPop)
  | PAPop =>
    if d1 then (r, finish t (wl_res fx d t RCanceled))
    else match th_kind t with
         | KEval =>
           (* the eval runs; `continue`: the loop condition is part of this action *)
           (set_queue r (qlen r - 1) (processing r) (qrunning r),
            {| th_kind := th_kind t;
               th_pc := if Nat.eqb (qlen r - 1) 0 then PARelease else PAPop;
               th_res := keep t RExecuted |})
         | KAddP | KEvalP => (set_queue r (qlen r - 1) (processing r) (qrunning r), goto t PAPopped)
         | _ => (set_queue r (qlen r - 1) (processing r) (qrunning r), goto t PAApplied)
         end
  | PAPopped =>
    (* [pq:popped]: the mutation is off the queue, the `disposing` guard of the
       loop is behind *)
    match th_kind t with
    | KEvalP =>
      (r, {| th_kind := th_kind t;
             th_pc := if Nat.eqb (qlen r) 0 then PARelease else PAPop;
             th_res := keep t RExecuted |})
    | _ =>
      (* newTransition: Time(nil) of a disposed machine is nil and is indexed
         per target state: index out of range in the mutating goroutine
         (queueProcessing stays set); while only disposing the transition is
         built but not accepted: no tx:applied, no tx:subs *)
      if d2 && negb (fx_tx_guard fx) then (r, finish t RPanic)
      else if d2 || d1 then (r, {| th_kind := th_kind t; th_pc := PALoop; th_res := keep t RCanceled |})
      else (r, goto t PAApplied)
    end
  | PAApplied =>
    (* the rest of emitEvents: the transition's result is Is(target), false
       while disposing; with a handler binding the final handlers report
       Canceled while disposing and the transition is not accepted *)
    let x := keep t (if d1 then RCanceled else RExecuted) in
    (r, {| th_kind := th_kind t;
           th_pc := if has_handlers r && d1 then PALoop else PASubs;
           th_res := x |})
  | PASubs => if locked d then (r, t) else (r, goto t PALoop)
  | PARelease => (set_queue r (qlen r) false false, goto t PAReleased)
  | PAReleased =>
    if locked d then (r, t)
    else (set_waiters r (close_if is_qe (waiters r)), finish t (wl_res fx d t RCanceled))
  | _ => (r, t)
  end.

(* ------------------------------------------------------------------ *)
(* doDispose                                                          *)
(* ------------------------------------------------------------------ *)

Definition d_set (d : dcore) (a b : bool) (p s : nat) (h : list nat) (e : nat) (l : bool) : dcore :=
  {| disposing := a; disposed := b; n_prep := p; n_subs := s; hcounts := h; n_end := e; locked := l |}.

Definition is_nf (k : kind) : bool := match k with KDisposeNF => true | _ => false end.

Definition disposer_step (fx : fixes) (s : shared) (t : thread) : shared * thread :=
  let d := dc s in
  let r := rs s in
  match th_pc t with
  | PStart =>
    if disposed d || disposing d then (s, finish t RVoid)
    else
      ({| dc := d_set d true (disposed d) (n_prep d) (n_subs d) (hcounts d) (n_end d) (locked d);
          (* Dispose() resets queueProcessing before doDispose *)
          rs := if is_nf (th_kind t) then set_queue r (qlen r) false (qrunning r) else r |},
       goto t PD1)
  | PD1 =>
    if disposed d then (s, finish t RVoid)
    else ({| dc := d_set d (disposing d) true (n_prep d) (n_subs d) (hcounts d) (n_end d) (locked d);
             rs := r |}, goto t PD2)
  | PD2 =>
    ({| dc := d_set d (disposing d) (disposed d) (S (n_prep d)) (n_subs d) (hcounts d) (n_end d)
                    (is_nf (th_kind t));
        rs := r |}, goto t PD3)
  | PD3 =>
    ({| dc := d_set d (disposing d) (disposed d) (n_prep d) (S (n_subs d)) (map S (hcounts d)) (n_end d)
                    (locked d);
        rs := set_waiters r (close_if (closable fx) (waiters r)) |}, goto t PD4)
  | PD4 =>
    ({| dc := d_set d (disposing d) (disposed d) (n_prep d) (n_subs d) (hcounts d) (S (n_end d)) false;
        rs := set_waiters r (close_if is_ctx (waiters r)) |}, finish t RVoid)
  | _ => (s, t)
  end.

Definition is_disposer (k : kind) : bool :=
  match k with KDispose | KDisposeNF => true | _ => false end.

Definition lift (s : shared) (p : rest * thread) : shared * thread :=
  ({| dc := dc s; rs := fst p |}, snd p).

Definition step_thread (fx : fixes) (s : shared) (t : thread) : shared * thread :=
  if is_disposer (th_kind t) then disposer_step fx s t
  else match th_pc t with
       | PD1 | PD2 | PD3 | PD4 | PDone => (s, t)
       | _ => lift s (api_step fx (dc s) (rs s) t)
       end.

Fixpoint upd_nth {A} (l : list A) (i : nat) (x : A) : list A :=
  match l, i with
  | [], _ => []
  | _ :: r, O => x :: r
  | y :: r, S j => y :: upd_nth r j x
  end.

Definition step (fx : fixes) (c : cfg) (i : nat) : cfg :=
  match nth_error (ths c) i with
  | None => c
  | Some t =>
    let '(s', t') := step_thread fx (sh c) t in
    {| sh := s'; ths := upd_nth (ths c) i t' |}
  end.

Definition exec_sched (fx : fixes) (c : cfg) (sched : list nat) : cfg :=
  fold_left (step fx) sched c.

Definition init_thread (k : kind) : thread := {| th_kind := k; th_pc := PStart; th_res := RNone |}.

Definition init_cfg (handlers : bool) (ndisp : nat) (kinds : list kind) : cfg :=
  {| sh := {| dc := {| disposing := false; disposed := false; n_prep := 0; n_subs := 0;
                       hcounts := repeat 0 ndisp; n_end := 0; locked := false |};
              rs := {| waiters := []; qlen := 0; processing := false; qrunning := false;
                       has_handlers := handlers |} |};
     ths := map init_thread kinds |}.

(* ------------------------------------------------------------------ *)
(* triggers of the whole-run cases                                    *)
(* ------------------------------------------------------------------ *)

(* mode 1 Dispose, 2 Dispose twice, 3 two concurrent Dispose, 4 parent
   context cancelled (handlerLoop, which exists only after the first handler
   binding, calls Dispose), 5 Dispose from inside a handler, 6 amhelp.Dispose
   over DisposedHandlers (DisposedState calls Dispose), 7 DisposeForce *)
Definition trigger_threads (fx : fixes) (mode : nat) (handlers : bool) : list kind :=
  match mode with
  | 1 | 5 | 6 => [KDisposeNF]
  | 2 | 3 => [KDisposeNF; KDisposeNF]
  | 4 => if handlers || fx_ctx_watch fx then [KDisposeNF] else []
  | 7 => [KDispose]
  | _ => []
  end.

(* ------------------------------------------------------------------ *)
(* what a call returns on a disposed machine                          *)
(* ------------------------------------------------------------------ *)

Definition neutral (k : kind) (x : res) : bool :=
  match k, x with
  | (KWhen | KWhenQuery | KWhenNot | KWhenTime | KWhenTicks | KWhenArgs | KWhenQueue
     | KWhenQueueEnds | KStateCtx), RClosed => true
  | (KAdd | KAddP | KMut), RCanceled => true
  | (KFlag | KFalse | KEval | KEvalP), RBool false => true
  | (KNum | KTime), RZero => true
  | (KDispose | KDisposeNF | KOther), RVoid => true
  | _, _ => false
  end.
