(* Event model of the node supervisor's pool bookkeeping (pkg/node/supervisor.go).

   The supervisor's worker map is written only inside handlers of its state
   machine, so every change is one queued mutation = one EVENT here. Events
   reach the queue from goroutines (fork seams / exec, bootstrap RPC, worker
   RPC clients, Heartbeat and NormalizingPool rounds, timers) in ANY order:
   the theorems quantify over all event lists.

     EForkReq        Add ForkWorker      gate ForkWorkerEnter:  len(workers) < Max
     EForking k      Add ForkingWorker   gate ForkingWorkerEnter: len(workers) < Max;
                                         ForkingWorkerState starts the fork (TestFork seam
                                         or exec) for bootstrap address k: "fork started"
     ESetIns k       Add SetWorker{addr k, info}   SetWorkerState: workers[k] = info.
                                         NO gate: the completion of a fork started earlier
     ESetDel k       Add SetWorker{addr k, nil}    delete(workers, k)
     EForkFail k     the started fork k failed: ErrWorker carrying the bootstrap, no address
     ERekey b a      Add WorkerForked    workers[b] moves to key a, rpc client attached;
                                         b missing: nothing changes (ErrWorkerMissing raised,
                                         an EErr a that finds no entry). This is what happens
                                         when the worker connects BEFORE its fork completes
                                         (the TestFork seam returns late): ERekey b a, EErr a,
                                         and only then ESetIns b - a boot entry that is never
                                         re-keyed
     EKilled k       Add WorkerKilled    delete(workers, k)
     EKilling k      Add KillingWorker   the kill itself (seam / proc.Kill): no bookkeeping
     EErr k counted  Add ErrWorker{LocalAddr k}   ErrWorkerState: unless the error is
                                         ErrWorkerKill (counted = false) and if k is tracked:
                                         errs++, errsRecent++; errs > WorkerErrKill => Add
                                         KillingWorker{k} (a kill REQUEST)
     EErrAnon        ErrWorker without a tracked address
     EErrClear       Remove [ErrWorker, Exception] (queued by ErrWorkerState unless another
                     Exception is already queued)

   ErrWorker is NOT a Multi state: while it is active, adding it again does not call
   ErrWorkerState. An EErr that arrives while [s_errworker] is set is therefore not
   counted (it only bumps the ghost [w_delivered]); [s_lost] remembers that this
   happened.
     EFlip k b       the worker's Ready state as mirrored by the RPC NetMach changes
     EExpire k       the recent-error cache of k is purged (TTL + janitor)
     EErrsExpire k   the error cache of k is purged
     ETryReady       any transition that would activate PoolReady   gate PoolReadyEnter:
                                         len(readyWorkers()) >= min()
     ETryUnready     any transition that would deactivate PoolReady gate PoolReadyExit:
                                         len(readyWorkers()) < min()
     ENormalize      Add ListWorkers{state ""}: the LISTING of one round of the normalizer
                     (NormalizingPoolState's goroutine, up to 5 rounds per activation,
                     WorkerCheckInterval / PoolPause apart). ListWorkersState's default
                     branch hands out EVERY tracked worker - initing or with an rpc client,
                     with or without (recent) errors. The round then requests
                       for ii := len(existing); ii < min()+Warm && ii < Max; ii++
                     ForkWorker mutations: [norm_forks] of them, each an EForkReq that is
                     gated, started and completed like any other.
     EOther          anything else

   readyWorkers(): tracked, rpc client attached, no recent error, mirrored
   Ready state active. min() = Min capped by Max.

   [fixes] switches candidate repairs of /repo on; [no_fixes] is the code as
   found. Proof-free. *)

From Coq Require Import List NArith Bool Arith.
Import ListNotations.

Record cfg := { c_min : N; c_max : N; c_errkill : N; c_warm : N }.

Record fixes := {
  fx_insert_gate : bool;  (* SetWorkerEnter refuses a NEW address when len(workers) >= Max *)
  fx_err_multi : bool     (* ErrWorker is declared Multi: ErrWorkerState runs for every error *)
}.
Definition no_fixes : fixes := {| fx_insert_gate := false; fx_err_multi := false |}.
Definition insert_gate_fix : fixes := {| fx_insert_gate := true; fx_err_multi := false |}.
Definition err_multi_fix : fixes := {| fx_insert_gate := false; fx_err_multi := true |}.

(* Supervisor.min() *)
Definition min_eff (c : cfg) : N := if (c_max c <? c_min c)%N then c_max c else c_min c.

Record winfo := {
  w_conn : bool;      (* info.rpc != nil (set by WorkerForked) *)
  w_ready : bool;     (* mirrored Ready state of the worker *)
  w_errs : N;         (* errs.ItemCount(): errors ErrWorkerState has counted *)
  w_recent : N;       (* errsRecent.ItemCount() *)
  w_killreq : bool;   (* ghost: a kill was requested for this entry *)
  w_delivered : N;    (* ghost: countable errors raised for this entry, counted or not *)
  w_fork : nat        (* ghost: bootstrap key of the fork whose completion created the entry *)
}.

Definition fresh_info_of (k : nat) : winfo :=
  {| w_conn := false; w_ready := false; w_errs := 0; w_recent := 0; w_killreq := false;
     w_delivered := 0; w_fork := k |}.
Definition fresh_info : winfo := fresh_info_of 0.

Inductive event :=
| EForkReq
| EForking (k : nat)
| ESetIns (k : nat)
| ESetDel (k : nat)
| EForkFail (k : nat)
| ERekey (b a : nat)
| EKilled (k : nat)
| EKilling (k : nat)
| EErr (k : nat) (counted : bool)
| EErrAnon
| EErrClear
| EFlip (k : nat) (b : bool)
| EExpire (k : nat)
| EErrsExpire (k : nat)
| ETryReady
| ETryUnready
| ENormalize
| EOther.

Record st := {
  s_workers : list (nat * winfo);  (* Supervisor.workers *)
  s_inflight : list nat;           (* ghost: forks started and not yet completed (bootstrap keys) *)
  s_peak : nat;                    (* ghost: largest number of forks in flight so far *)
  s_foreign : bool;                (* ghost: an entry was inserted that no started fork accounts for *)
  s_poolready : bool;              (* PoolReady active *)
  s_errworker : bool;              (* ErrWorker active *)
  s_lost : bool;                   (* ghost: a countable error of a tracked worker was not counted *)
  s_killlog : list nat             (* ghost: keys of the kill requests, newest first *)
}.

Definition init_st : st :=
  {| s_workers := []; s_inflight := []; s_peak := 0; s_foreign := false;
     s_poolready := false; s_errworker := false; s_lost := false; s_killlog := [] |}.

(* ---- field updates *)

Definition upd (s : st) (w : list (nat * winfo)) : st :=
  {| s_workers := w; s_inflight := s_inflight s; s_peak := s_peak s; s_foreign := s_foreign s;
     s_poolready := s_poolready s; s_errworker := s_errworker s; s_lost := s_lost s;
     s_killlog := s_killlog s |}.

Definition set_inflight (s : st) (l : list nat) (peak : nat) (foreign : bool) : st :=
  {| s_workers := s_workers s; s_inflight := l; s_peak := peak; s_foreign := foreign;
     s_poolready := s_poolready s; s_errworker := s_errworker s; s_lost := s_lost s;
     s_killlog := s_killlog s |}.

Definition set_poolready (s : st) (b : bool) : st :=
  {| s_workers := s_workers s; s_inflight := s_inflight s; s_peak := s_peak s;
     s_foreign := s_foreign s; s_poolready := b; s_errworker := s_errworker s;
     s_lost := s_lost s; s_killlog := s_killlog s |}.

Definition set_errworker (s : st) (b : bool) : st :=
  {| s_workers := s_workers s; s_inflight := s_inflight s; s_peak := s_peak s;
     s_foreign := s_foreign s; s_poolready := s_poolready s; s_errworker := b;
     s_lost := s_lost s; s_killlog := s_killlog s |}.

Definition set_lost (s : st) : st :=
  {| s_workers := s_workers s; s_inflight := s_inflight s; s_peak := s_peak s;
     s_foreign := s_foreign s; s_poolready := s_poolready s; s_errworker := s_errworker s;
     s_lost := true; s_killlog := s_killlog s |}.

Definition log_kill (s : st) (k : nat) : st :=
  {| s_workers := s_workers s; s_inflight := s_inflight s; s_peak := s_peak s;
     s_foreign := s_foreign s; s_poolready := s_poolready s; s_errworker := s_errworker s;
     s_lost := s_lost s; s_killlog := k :: s_killlog s |}.

(* ---- the map *)

Fixpoint wfind (k : nat) (l : list (nat * winfo)) : option winfo :=
  match l with
  | [] => None
  | (k', i) :: r => if Nat.eqb k k' then Some i else wfind k r
  end.

Fixpoint wset (k : nat) (v : winfo) (l : list (nat * winfo)) : list (nat * winfo) :=
  match l with
  | [] => [(k, v)]
  | (k', i) :: r => if Nat.eqb k k' then (k, v) :: r else (k', i) :: wset k v r
  end.

Fixpoint wdel (k : nat) (l : list (nat * winfo)) : list (nat * winfo) :=
  match l with
  | [] => []
  | (k', i) :: r => if Nat.eqb k k' then wdel k r else (k', i) :: wdel k r
  end.

Definition tracked (s : st) : N := N.of_nat (length (s_workers s)).

Definition is_ready (i : winfo) : bool := w_conn i && w_ready i && (w_recent i =? 0)%N.
Definition is_clean (i : winfo) : bool := w_conn i && (w_recent i =? 0)%N.

(* len(readyWorkers()) *)
Definition ready (s : st) : N :=
  N.of_nat (length (filter (fun p => is_ready (snd p)) (s_workers s))).
(* what ready can be at most, whatever the mirrors say *)
Definition ready_bound (s : st) : N :=
  N.of_nat (length (filter (fun p => is_clean (snd p)) (s_workers s))).

(* ---- the normalizer *)

(* the size a round brings the pool up to: min()+Warm capped by Max *)
Definition norm_target (c : cfg) : N := N.min (min_eff c + c_warm c) (c_max c).

(* len(existing), existing = Workers(ctx, ""): all tracked workers *)
Definition listing (s : st) : N := tracked s.

(* the ForkWorker mutations one round requests after its listing (N subtraction
   truncates at 0: nothing is requested when the pool is at or above the target) *)
Definition norm_forks (c : cfg) (s : st) : N := norm_target c - listing s.

(* what an accepted event hands to the goroutine that queued it: the number of
   fork requests that follow *)
Definition requests (c : cfg) (s : st) (e : event) : N :=
  match e with ENormalize => norm_forks c s | _ => 0%N end.

Definition rem (k : nat) (l : list nat) : list nat := filter (fun x => negb (Nat.eqb x k)) l.
Definition has (k : nat) (l : list nat) : bool := existsb (Nat.eqb k) l.

Definition on_worker (s : st) (k : nat) (f : winfo -> winfo) : st :=
  match wfind k (s_workers s) with
  | Some i => upd s (wset k (f i) (s_workers s))
  | None => s
  end.

Definition rekeyed (i : winfo) : winfo :=
  {| w_conn := true; w_ready := true; w_errs := w_errs i; w_recent := w_recent i;
     w_killreq := w_killreq i; w_delivered := w_delivered i; w_fork := w_fork i |}.

(* ErrWorkerState's bookkeeping for a countable error *)
Definition counted_err (c : cfg) (i : winfo) : winfo :=
  {| w_conn := w_conn i; w_ready := w_ready i; w_errs := w_errs i + 1;
     w_recent := w_recent i + 1;
     w_killreq := w_killreq i || (c_errkill c <? w_errs i + 1)%N;
     w_delivered := w_delivered i + 1; w_fork := w_fork i |}.

(* the error was raised but ErrWorkerState did not run *)
Definition lost_err (i : winfo) : winfo :=
  {| w_conn := w_conn i; w_ready := w_ready i; w_errs := w_errs i; w_recent := w_recent i;
     w_killreq := w_killreq i; w_delivered := w_delivered i + 1; w_fork := w_fork i |}.

(* ---- gates (negotiation handlers) *)

Definition gate (fx : fixes) (c : cfg) (s : st) (e : event) : bool :=
  match e with
  | EForkReq | EForking _ => (tracked s <? c_max c)%N
  | ESetIns k =>
    if fx_insert_gate fx
    then (match wfind k (s_workers s) with Some _ => true | None => (tracked s <? c_max c)%N end)
    else true
  | ETryReady => s_poolready s || (min_eff c <=? ready s)%N
  | ETryUnready => negb (s_poolready s) || (ready s <? min_eff c)%N
  | _ => true
  end.

(* ---- effects of an accepted event (final handlers) *)

Definition effect (fx : fixes) (c : cfg) (s : st) (e : event) : st :=
  match e with
  | EForkReq => s
  | EForking k =>
    let infl := k :: s_inflight s in
    set_inflight s infl (Nat.max (s_peak s) (length infl)) (s_foreign s)
  | ESetIns k =>
    let known := has k (s_inflight s) ||
                 (match wfind k (s_workers s) with Some _ => true | None => false end) in
    upd (set_inflight s (rem k (s_inflight s)) (s_peak s) (s_foreign s || negb known))
        (wset k (fresh_info_of k) (s_workers s))
  | ESetDel k => upd s (wdel k (s_workers s))
  | EForkFail k =>
    set_errworker (set_inflight s (rem k (s_inflight s)) (s_peak s) (s_foreign s)) true
  | ERekey b a =>
    match wfind b (s_workers s) with
    | Some i => upd s (wset a (rekeyed i) (wdel b (s_workers s)))
    | None => s
    end
  | EKilled k => upd s (wdel k (s_workers s))
  | EKilling _ => s
  | EErr k counted =>
    let handled := fx_err_multi fx || negb (s_errworker s) in
    if counted then
      match wfind k (s_workers s) with
      | Some i =>
        if handled then
          let s1 := set_errworker (upd s (wset k (counted_err c i) (s_workers s))) true in
          if (c_errkill c <? w_errs i + 1)%N then log_kill s1 k else s1
        else set_lost (upd s (wset k (lost_err i) (s_workers s)))
      | None => set_errworker s true
      end
    else set_errworker s true
  | EErrAnon => set_errworker s true
  | EErrClear => set_errworker s false
  | EFlip k b =>
    on_worker s k (fun i => {| w_conn := w_conn i; w_ready := b; w_errs := w_errs i;
                               w_recent := w_recent i; w_killreq := w_killreq i;
                               w_delivered := w_delivered i; w_fork := w_fork i |})
  | EExpire k =>
    on_worker s k (fun i => {| w_conn := w_conn i; w_ready := w_ready i; w_errs := w_errs i;
                               w_recent := 0; w_killreq := w_killreq i;
                               w_delivered := w_delivered i; w_fork := w_fork i |})
  | EErrsExpire k =>
    on_worker s k (fun i => {| w_conn := w_conn i; w_ready := w_ready i; w_errs := 0;
                               w_recent := w_recent i; w_killreq := w_killreq i;
                               w_delivered := 0; w_fork := w_fork i |})
  | ETryReady => set_poolready s true
  | ETryUnready => set_poolready s false
  | ENormalize => s
  | EOther => s
  end.

(* one event: (state after, accepted) *)
Definition step (fx : fixes) (c : cfg) (s : st) (e : event) : st * bool :=
  if gate fx c s e then (effect fx c s e, true) else (s, false).

Definition run_from (fx : fixes) (c : cfg) (s : st) (evs : list event) : st :=
  fold_left (fun s e => fst (step fx c s e)) evs s.

Definition run (fx : fixes) (c : cfg) (evs : list event) : st := run_from fx c init_st evs.

(* the states visited, oldest first, initial state included *)
Fixpoint trace_from (fx : fixes) (c : cfg) (s : st) (evs : list event) : list st :=
  match evs with
  | [] => [s]
  | e :: r => s :: trace_from fx c (fst (step fx c s e)) r
  end.

(* forks for the bootstrap keys [ks]: each requested and started at once, then
   all completions *)
Definition burst_keys (ks : list nat) : list event :=
  flat_map (fun i => [EForkReq; EForking i]) ks ++ map ESetIns ks.

(* k fork requests, each started at once, then all k completions *)
Definition burst (k : nat) : list event := burst_keys (seq 1 k).

(* one whole round of the normalizer run from [s] with nothing else going on:
   the listing, then the forks it requests (bootstrap keys taken from [ks]) *)
Definition norm_round (c : cfg) (s : st) (ks : list nat) : list event :=
  ENormalize :: burst_keys (firstn (N.to_nat (norm_forks c s)) ks).

(* the forks started by an event list *)
Definition forkings (evs : list event) : nat :=
  length (filter (fun e => match e with EForking _ => true | _ => false end) evs).

(* the fork completions (SetWorker inserts) in an event list, and their keys *)
Definition insert_keys (evs : list event) : list nat :=
  flat_map (fun e => match e with ESetIns k => [k] | _ => [] end) evs.

(* the forks the tracked entries stem from *)
Definition forks_of (s : st) : list nat := map (fun p : nat * winfo => w_fork (snd p)) (s_workers s).
