(* Conc/Pipes.v - delivery model of pkg/states/pipes (property C18).
   PROOF-FREE, executable.  Mirrors

     pipes.add / pipes.remove      (the final handlers bound on the source:
                                    non-flat = `go target.EvAdd/EvRemove1`,
                                    flat+local = skip on the state of an IDLE
                                    target, else a synchronous call)
     pipes.BindAny                 (AnyState handler: skip when the target's
                                    active set equals the source's new
                                    states, else Set)
     pipes.Sync
     Machine.EvAdd / EvRemove      (queue-duplicate skip of queueMutation,
                                    the early return of Remove, enqueue,
                                    Queued when another goroutine drains)
     Machine.processQueue          (FIFO drain, one transition at a time)

   for k independent piped states S_i -> T_i without relations and without
   vetoing handlers.  A clock value is a tick; a state is active iff its tick
   is odd (C01).

   Concurrency: the goroutine forked by a non-flat pipe handler is an entry
   of the bag [c_bag]; a schedule step [SDel i] lets the i-th in-flight call
   reach the target - ANY order.  A target transition can be held before
   its effect is applied ([c_parks]: slow negotiation handlers; [SHold]: an
   unrelated mutation by a third party), during which the target is busy:
   m.Transition() != nil, further mutations are queued.  [SRel] lets the held
   transition finish and the drain go on. *)

From Coq Require Import List NArith Bool Arith.
Import ListNotations.

Inductive mkind := MAdd | MRem.

Definition mkind_eqb (a b : mkind) : bool :=
  match a, b with MAdd, MAdd | MRem, MRem => true | _, _ => false end.

(* a mutation of ONE piped state; m_args = called with a non-empty args map *)
Record mut := { m_kind : mkind; m_st : nat; m_args : bool }.

(* ---------------------------------------------------------------- clocks *)

Fixpoint upd (l : list N) (i : nat) (f : N -> N) : list N :=
  match l, i with
  | [], _ => []
  | x :: r, O => f x :: r
  | x :: r, S j => x :: upd r j f
  end.

Definition tick_at (l : list N) (i : nat) : N := nth i l 0%N.
Definition act (l : list N) (i : nat) : bool := N.odd (tick_at l i).
Definition is_multi (multi : list bool) (i : nat) : bool := nth i multi false.

Definition plus2 (t : N) : N := N.succ (N.succ t).

(* setActiveStates for one called state: +1 on a flip, +2 for a re-added
   Multi state, nothing otherwise *)
Definition apply_mut (multi : list bool) (ticks : list N) (m : mut) : list N :=
  let i := m_st m in
  match m_kind m with
  | MAdd =>
    if act ticks i
    then (if is_multi multi i then upd ticks i plus2 else ticks)
    else upd ticks i N.succ
  | MRem => if act ticks i then upd ticks i N.succ else ticks
  end.

(* ---------------------------------------------------------------- config *)

Record pcfg := {
  p_flat : bool;            (* AddFlat/RemoveFlat (target is local) *)
  p_addonly : bool;         (* BindErr: no Remove pipe *)
  p_n : nat;                (* number of piped states *)
  p_multiS : list bool;     (* source schema: Multi flags *)
  p_multiT : list bool;     (* target schema: Multi flags *)
  p_parks : list bool       (* n-th target transition is held before apply *)
}.

Definition parks_at (c : pcfg) (n : nat) : bool := nth n (p_parks c) false.

(* ---------------------------------------------------------------- target *)

Record tgt := {
  t_ticks : list N;
  t_queue : list mut;
  t_busy : bool;            (* a transition is in progress and held *)
  t_pend : option mut;      (* its effect, not applied yet (None: unrelated) *)
  t_ntx : nat;              (* transitions started *)
  t_nparks : nat            (* how many of them were held *)
}.

(* processQueue: pops mutations one by one; a held transition stops the
   drain with the machine busy *)
Fixpoint drain (c : pcfg) (ticks : list N) (q : list mut) (ntx np : nat) : tgt :=
  match q with
  | [] => {| t_ticks := ticks; t_queue := []; t_busy := false; t_pend := None;
             t_ntx := ntx; t_nparks := np |}
  | m :: q' =>
    if parks_at c ntx
    then {| t_ticks := ticks; t_queue := q'; t_busy := true; t_pend := Some m;
            t_ntx := S ntx; t_nparks := S np |}
    else drain c (apply_mut (p_multiT c) ticks m) q' (S ntx) np
  end.

(* detectQueueDuplicates: same type, same single state, queued without args *)
Definition is_dup (q : list mut) (m : mut) : bool :=
  existsb (fun x => mkind_eqb (m_kind x) (m_kind m) && Nat.eqb (m_st x) (m_st m)
                    && negb (m_args x)) q.

Definition is_nil {A} (l : list A) : bool := match l with [] => true | _ => false end.

(* result classes of a mutation call *)
Definition rExecuted : N := 0.
Definition rCanceled : N := 1.
Definition rQueued : N := 2.

(* Remove's early return: queue empty, a transition in progress, state not
   active right now *)
Definition rem_early (t : tgt) (m : mut) : bool :=
  mkind_eqb (m_kind m) MRem && is_nil (t_queue t) && t_busy t
  && negb (act (t_ticks t) (m_st m)).

(* queueMutation's duplicate skip (not for Multi states, not with args) *)
Definition dup_skip (c : pcfg) (t : tgt) (m : mut) : bool :=
  negb (is_multi (p_multiT c) (m_st m)) && negb (m_args m) && is_dup (t_queue t) m.

(* Machine.EvAdd / Machine.EvRemove reaching the target *)
Definition deliver (c : pcfg) (t : tgt) (m : mut) : tgt * N :=
  if rem_early t m
  then (t, rExecuted)   (* Remove: "none of the states is currently active" *)
  else if dup_skip c t m
  then (t, rExecuted)   (* queueMutation: duplicate, not queued *)
  else if t_busy t
  then ({| t_ticks := t_ticks t; t_queue := t_queue t ++ [m]; t_busy := true;
           t_pend := t_pend t; t_ntx := t_ntx t; t_nparks := t_nparks t |}, rQueued)
  else (drain c (t_ticks t) (t_queue t ++ [m]) (t_ntx t) (t_nparks t), rExecuted).

(* classification only: the early return drops a Remove although the held
   transition is about to activate that very state; the duplicate skip drops
   a mutation although the opposite mutation is queued behind its twin *)
Definition lossy_early (t : tgt) (m : mut) : bool :=
  rem_early t m &&
  match t_pend t with
  | Some p => mkind_eqb (m_kind p) MAdd && Nat.eqb (m_st p) (m_st m)
  | None => false
  end.

Definition lossy_dup (c : pcfg) (t : tgt) (m : mut) : bool :=
  negb (rem_early t m) && dup_skip c t m &&
  existsb (fun x => Nat.eqb (m_st x) (m_st m) && negb (mkind_eqb (m_kind x) (m_kind m)))
          (t_queue t).

(* the held transition goes on: its effect is applied, the drain continues *)
Definition release (c : pcfg) (t : tgt) : tgt :=
  let ticks := match t_pend t with
               | Some m => apply_mut (p_multiT c) (t_ticks t) m
               | None => t_ticks t
               end in
  drain c ticks (t_queue t) (t_ntx t) (t_nparks t).

(* a third party starts an unrelated transition on the idle target; held *)
Definition hold (t : tgt) : tgt :=
  {| t_ticks := t_ticks t; t_queue := t_queue t; t_busy := true; t_pend := None;
     t_ntx := S (t_ntx t); t_nparks := S (t_nparks t) |}.

(* ---------------------------------------------------------------- source *)

(* one Add1/Remove1 on the idle source: new clock and the pipe handler that
   fires (SState on activation - also for a re-added Multi state -, SEnd on
   deactivation) *)
Definition src_op (c : pcfg) (ticks : list N) (k : mkind) (st : nat)
  : list N * option mkind :=
  match k with
  | MAdd =>
    if act ticks st
    then (if is_multi (p_multiS c) st then (upd ticks st plus2, Some MAdd)
          else (ticks, None))
    else (upd ticks st N.succ, Some MAdd)
  | MRem =>
    if act ticks st
    then (upd ticks st N.succ, if p_addonly c then None else Some MRem)
    else (ticks, None)
  end.

(* ---------------------------------------------------------------- system *)

Inductive step :=
| SSrc (k : mkind) (st : nat) (args : bool)  (* source.Add1 / Remove1 *)
| SChk (k : mkind) (st : nat)                (* source.CanAdd1 / CanRemove1: negotiation handlers only *)
| SVeto (how : bool) (k : mkind) (st : nat) (args : bool)
    (* source.Add1 / Remove1 vetoed by a handler bound AFTER the pipe:
       how = false: the state's own Enter / Exit handler, true: AnyEnter *)
| SBar (veto : bool)
    (* source.Add1(Bar), Bar = {Remove: [state 0]}, then Remove1(Bar);
       veto: BarEnter says no (after state 0's Exit handlers ran) *)
| SDel (i : nat)                             (* the i-th in-flight forked call reaches the target *)
| SRel                                       (* the held target transition goes on *)
| SHold.                                     (* third-party mutation on the idle target, held *)

Definition mut_code (m : mut) : N :=
  (match m_kind m with MAdd => 0 | MRem => 1 end
   + 2 * (if m_args m then 1 else 0) + 4 * N.of_nat (m_st m))%N.

Record cfg := {
  c_src : list N;
  c_tgt : tgt;
  c_bag : list mut;           (* in-flight forked calls, oldest first *)
  c_blocked : bool;           (* the source's handler is stuck inside the target *)
  c_srclog : list N;          (* per source call: 0 done, 3 done only after SRel,
                                 4 canceled by the scripted veto, 9 not issued (source stuck) *)
  c_dellog : list (N * N);    (* per call that reached the target: (mut_code, result class) *)
  c_reord : bool;             (* a call overtook an older call for the same state *)
  c_busydel : bool;           (* a call (or a flat skip test) met a busy target *)
  c_lossy : bool * bool;      (* a call was dropped by (lossy_early, lossy_dup) *)
  c_evlog : list N;           (* per source call: pipe handlers invoked *)
  c_vetoed : bool             (* the history contains a check or a vetoed mutation *)
}.

Definition init_tgt (n : nat) : tgt :=
  {| t_ticks := repeat 0%N n; t_queue := []; t_busy := false; t_pend := None;
     t_ntx := 0; t_nparks := 0 |}.

Definition init (c : pcfg) : cfg :=
  {| c_src := repeat 0%N (p_n c); c_tgt := init_tgt (p_n c); c_bag := [];
     c_blocked := false; c_srclog := []; c_dellog := []; c_reord := false;
     c_busydel := false; c_lossy := (false, false); c_evlog := []; c_vetoed := false |}.

Fixpoint remove_nth {A} (i : nat) (l : list A) : list A :=
  match l, i with
  | [], _ => []
  | _ :: r, O => r
  | x :: r, S j => x :: remove_nth j r
  end.

Definition older_same (bag : list mut) (i : nat) (m : mut) : bool :=
  existsb (fun x => Nat.eqb (m_st x) (m_st m)) (firstn i bag).

Definition set_tgt (s : cfg) (t : tgt) : cfg :=
  {| c_src := c_src s; c_tgt := t; c_bag := c_bag s; c_blocked := c_blocked s;
     c_srclog := c_srclog s; c_dellog := c_dellog s; c_reord := c_reord s;
     c_busydel := c_busydel s; c_lossy := c_lossy s; c_evlog := c_evlog s;
     c_vetoed := c_vetoed s |}.

(* a source call that changes nothing and fires no pipe handler: not issued
   (code 9), a check (0), a vetoed mutation (4) *)
Definition log_only (s : cfg) (code : N) : cfg :=
  {| c_src := c_src s; c_tgt := c_tgt s; c_bag := c_bag s; c_blocked := c_blocked s;
     c_srclog := c_srclog s ++ [code]; c_dellog := c_dellog s; c_reord := c_reord s;
     c_busydel := c_busydel s; c_lossy := c_lossy s; c_evlog := c_evlog s ++ [0%N];
     c_vetoed := c_vetoed s |}.

Definition mark (s : cfg) : cfg :=
  {| c_src := c_src s; c_tgt := c_tgt s; c_bag := c_bag s; c_blocked := c_blocked s;
     c_srclog := c_srclog s; c_dellog := c_dellog s; c_reord := c_reord s;
     c_busydel := c_busydel s; c_lossy := c_lossy s; c_evlog := c_evlog s;
     c_vetoed := true |}.

(* pipes.targetIdle: QueueLen() == 0 && Transition() == nil *)
Definition target_idle (t : tgt) : bool := is_nil (t_queue t) && negb (t_busy t).

(* an accepted, applied source mutation: only a transition that flips the
   piped state (or re-adds a Multi one) fires a pipe handler *)
Definition src_call (c : pcfg) (s : cfg) (k : mkind) (i : nat) (args : bool) : cfg :=
  let '(src', ev) := src_op c (c_src s) k i in
  match ev with
  | None =>
    {| c_src := src'; c_tgt := c_tgt s; c_bag := c_bag s; c_blocked := false;
       c_srclog := c_srclog s ++ [0%N]; c_dellog := c_dellog s;
       c_reord := c_reord s; c_busydel := c_busydel s; c_lossy := c_lossy s;
       c_evlog := c_evlog s ++ [0%N]; c_vetoed := c_vetoed s |}
  | Some ek =>
    if p_flat c then
      (* flat: skip on the state of an IDLE target (targetIdle: nothing
         queued, no transition in progress), else a synchronous,
         argument-less call inside the source's final handler *)
      let t := c_tgt s in
      let skip := target_idle t &&
                  match ek with
                  | MAdd => act (t_ticks t) i
                  | MRem => negb (act (t_ticks t) i)
                  end in
      if skip
      then {| c_src := src'; c_tgt := t; c_bag := c_bag s; c_blocked := false;
              c_srclog := c_srclog s ++ [0%N]; c_dellog := c_dellog s;
              c_reord := c_reord s; c_busydel := c_busydel s || t_busy t;
              c_lossy := c_lossy s; c_evlog := c_evlog s ++ [1%N];
              c_vetoed := c_vetoed s |}
      else
        let m := {| m_kind := ek; m_st := i; m_args := false |} in
        let '(t', r) := deliver c t m in
        let stuck := negb (t_busy t) && t_busy t' in
        {| c_src := src'; c_tgt := t'; c_bag := c_bag s; c_blocked := stuck;
           c_srclog := c_srclog s ++ [if stuck then 3%N else 0%N];
           c_dellog := c_dellog s ++ [(mut_code m, r)];
           c_reord := c_reord s; c_busydel := c_busydel s || t_busy t;
           c_lossy := (fst (c_lossy s) || lossy_early t m,
                       snd (c_lossy s) || lossy_dup c t m);
           c_evlog := c_evlog s ++ [1%N];
           c_vetoed := c_vetoed s |}
    else
      {| c_src := src'; c_tgt := c_tgt s;
         c_bag := c_bag s ++ [{| m_kind := ek; m_st := i; m_args := args |}];
         c_blocked := false; c_srclog := c_srclog s ++ [0%N];
         c_dellog := c_dellog s; c_reord := c_reord s; c_busydel := c_busydel s;
         c_lossy := c_lossy s; c_evlog := c_evlog s ++ [1%N];
         c_vetoed := c_vetoed s |}
  end.

(* does the vetoing handler run at all?  The state's own Enter handler runs
   when the state is entered (or a Multi state re-added), its Exit handler
   when it is about to be left; AnyEnter runs in every transition *)
Definition veto_hits (c : pcfg) (s : cfg) (how : bool) (k : mkind) (i : nat) : bool :=
  how || match k with
         | MAdd => negb (act (c_src s) i) || is_multi (p_multiS c) i
         | MRem => act (c_src s) i
         end.

Definition exec_step (c : pcfg) (s : cfg) (st : step) : cfg :=
  match st with
  | SSrc k i args =>
    if c_blocked s then log_only s 9 else src_call c s k i args
  | SChk k i =>
    if c_blocked s then log_only s 9 else mark (log_only s 0)
  | SVeto how k i args =>
    if c_blocked s then log_only s 9
    else if veto_hits c s how k i then mark (log_only s 4)
    else mark (src_call c s k i args)
  | SBar veto =>
    if c_blocked s then log_only s 9
    else if veto then mark (log_only s 4)
    else src_call c s MRem 0 false
  | SDel i =>
    match nth_error (c_bag s) i with
    | None => s
    | Some m =>
      let '(t', r) := deliver c (c_tgt s) m in
      {| c_src := c_src s; c_tgt := t'; c_bag := remove_nth i (c_bag s);
         c_blocked := c_blocked s; c_srclog := c_srclog s;
         c_dellog := c_dellog s ++ [(mut_code m, r)];
         c_reord := c_reord s || older_same (c_bag s) i m;
         c_busydel := c_busydel s || t_busy (c_tgt s);
         c_lossy := (fst (c_lossy s) || lossy_early (c_tgt s) m,
                     snd (c_lossy s) || lossy_dup c (c_tgt s) m);
         c_evlog := c_evlog s; c_vetoed := c_vetoed s |}
    end
  | SRel =>
    if t_busy (c_tgt s)
    then let t' := release c (c_tgt s) in
         {| c_src := c_src s; c_tgt := t'; c_bag := c_bag s;
            c_blocked := c_blocked s && t_busy t'; c_srclog := c_srclog s;
            c_dellog := c_dellog s; c_reord := c_reord s; c_busydel := c_busydel s;
            c_lossy := c_lossy s; c_evlog := c_evlog s; c_vetoed := c_vetoed s |}
    else s
  | SHold =>
    if t_busy (c_tgt s) then s else set_tgt s (hold (c_tgt s))
  end.

Definition run (c : pcfg) (steps : list step) : cfg :=
  fold_left (exec_step c) steps (init c).

(* joint quiescence: no call in flight, both queues ended *)
Definition quiescent (s : cfg) : bool :=
  is_nil (c_bag s) && negb (t_busy (c_tgt s)) && is_nil (t_queue (c_tgt s))
  && negb (c_blocked s).

(* ---------------------------------------------------------------- Sync *)

(* pipes.Sync on an idle target: target.Add(active ones); target.Remove(rest) *)
Definition sync_ticks (c : pcfg) (src tg : list N) : list N :=
  let idx := seq 0 (p_n c) in
  let adds := filter (fun i => act src i) idx in
  let rems := filter (fun i => negb (act src i)) idx in
  let t1 := fold_left (fun t i => apply_mut (p_multiT c) t
                         {| m_kind := MAdd; m_st := i; m_args := false |}) adds tg in
  fold_left (fun t i => apply_mut (p_multiT c) t
               {| m_kind := MRem; m_st := i; m_args := false |}) rems t1.

(* ---------------------------------------------------------------- BindAny *)

(* active sets as bit vectors over the (common) state list *)
Inductive aop := AAdd (l : list nat) | ARem (l : list nat) | ASet (l : list nat).

Definition mem_nat (i : nat) (l : list nat) : bool := existsb (Nat.eqb i) l.

Definition any_src (n : nat) (a : list bool) (o : aop) : list bool :=
  map (fun i => let b := nth i a false in
                match o with
                | AAdd l => b || mem_nat i l
                | ARem l => b && negb (mem_nat i l)
                | ASet l => mem_nat i l
                end) (seq 0 n).

Fixpoint subset_b (a b : list bool) : bool :=
  match a, b with
  | [], _ => true
  | x :: r, [] => negb x && subset_b r []
  | x :: r, y :: s => implb x y && subset_b r s
  end.

Definition count_true (a : list bool) : nat := length (filter (fun b => b) a).

(* AnyState handler of BindAny:
   `if len(target.ActiveStates(nil)) == len(states) && target.Is(states) return;
    target.Set(states)` *)
Definition any_tgt (src' tg : list bool) : list bool :=
  if Nat.eqb (count_true tg) (count_true src') && subset_b src' tg then tg else src'.

Definition any_step (n : nat) (st : list bool * list bool) (o : aop)
  : list bool * list bool :=
  let src' := any_src n (fst st) o in (src', any_tgt src' (snd st)).

Definition any_run (n : nat) (ops : list aop) : list bool * list bool :=
  fold_left (any_step n) ops (repeat false n, repeat false n).
