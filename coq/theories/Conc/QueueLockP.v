(* Interleaving model of the mutation queue protocol of pkg/machine
   (queueMutation + processQueue), generalised over Conc/QueueLock.v: a thread
   may be a "check" thread (Machine.CanAdd / Eval / PrependMut): its mutation
   is tick-less and PREPENDED to the queue, queueTicksPending is not touched.

     PEnq     [q:enq]       queueMutation: append under queueMx, assign tick;
                            check thread: prepend (mutation, 0), no tick
     PEntry   [pq:entry]    processQueue: queueLen == 0 -> Canceled
     PCas     [pq:cas]      CompareAndSwap(queueProcessing): lost -> Queued tick
     PLoop    [pq:loop]     drain loop condition queueLen > 0
     PPop     [pq:pop]      pop under queueMx, ticks (tick 0 = tick-less);
                            then the transition runs ([nested] mutations its
                            handlers issue are appended here)
     PRelease [pq:release]  queueProcessing := false
     PRecheck [pq:released] after the release: re-check, by [rmode]
     PDone

   [rmode] selects the behaviour after the release:
     RmNone    return (the code as it was);
     RmLen     re-enter processQueue when queueLen <> 0 (the code);
     RmPending re-enter only when queueTicksPending <> 0 (seeded bug: tick-less
               entries do not count).
   Self-contained (does not import Conc/QueueLock.v). Proof-free. *)

From Coq Require Import List Bool Arith.
Import ListNotations.

Inductive pc := PEnq | PEntry | PCas | PLoop | PPop | PRelease | PRecheck | PDone.

Inductive tres := RNone | RExecuted | RCanceled | RQueued (tick : nat).

Inductive rmode := RmNone | RmLen | RmPending.

Record thread := {
  t_pc : pc;
  t_mut : nat;            (* id of the mutation this goroutine issues *)
  t_nested : list nat;    (* mutations the handlers of t_mut's transition issue *)
  t_tick : nat;           (* queue tick assigned at PEnq (0 for a check thread) *)
  t_first : bool;         (* ret is non-empty: at least one transition ran in this drain *)
  t_res : tres;
  t_chk : bool            (* check thread: tick-less mutation, prepended *)
}.

Record shared := {
  queue : list (nat * nat);     (* (mutation id, queue tick); tick 0 = tick-less *)
  processing : bool;            (* queueProcessing *)
  qtick : nat;
  pending : nat;                (* queueTicksPending *)
  executed : list (nat * nat);  (* (mutation id, executing thread), newest first *)
  nested_of : list (nat * list nat)  (* mutation id -> nested mutations of its handlers *)
}.

Record cfg := { sh : shared; ths : list thread }.

Definition qlen (s : shared) : nat := length (queue s).

Definition set_pc (t : thread) (p : pc) : thread :=
  {| t_pc := p; t_mut := t_mut t; t_nested := t_nested t; t_tick := t_tick t;
     t_first := t_first t; t_res := t_res t; t_chk := t_chk t |}.

Definition finish (t : thread) (r : tres) : thread :=
  {| t_pc := PDone; t_mut := t_mut t; t_nested := t_nested t; t_tick := t_tick t;
     t_first := t_first t; t_res := r; t_chk := t_chk t |}.

(* append one mutation: queueMutation's critical section *)
Definition enqueue (s : shared) (m : nat) : shared * nat :=
  let p := S (pending s) in
  let tick := p + qtick s in
  ({| queue := queue s ++ [(m, tick)]; processing := processing s; qtick := qtick s;
      pending := p; executed := executed s; nested_of := nested_of s |}, tick).

(* prepend one tick-less mutation: PrependMut's critical section *)
Definition prepend (s : shared) (m : nat) : shared :=
  {| queue := (m, 0) :: queue s; processing := processing s; qtick := qtick s;
     pending := pending s; executed := executed s; nested_of := nested_of s |}.

Fixpoint enqueue_all (s : shared) (ms : list nat) : shared :=
  match ms with
  | [] => s
  | m :: r => enqueue_all (fst (enqueue s m)) r
  end.

Definition nested_for (s : shared) (m : nat) : list nat :=
  match find (fun p => Nat.eqb (fst p) m) (nested_of s) with
  | Some p => snd p
  | None => []
  end.

(* the condition of the re-check after the release *)
Definition recheck_again (mode : rmode) (s : shared) : bool :=
  match mode with
  | RmNone => false
  | RmLen => negb (Nat.eqb (qlen s) 0)
  | RmPending => negb (Nat.eqb (pending s) 0)
  end.

(* one atomic action of thread [t] (index [i]) *)
Definition step_thread (mode : rmode) (s : shared) (i : nat) (t : thread) : shared * thread :=
  match t_pc t with
  | PEnq =>
    if t_chk t then
      (prepend s (t_mut t),
       {| t_pc := PEntry; t_mut := t_mut t; t_nested := t_nested t; t_tick := 0;
          t_first := false; t_res := RNone; t_chk := t_chk t |})
    else
      let '(s', tick) := enqueue s (t_mut t) in
      (s', {| t_pc := PEntry; t_mut := t_mut t; t_nested := t_nested t; t_tick := tick;
              t_first := false; t_res := RNone; t_chk := t_chk t |})
  | PEntry =>
    if Nat.eqb (qlen s) 0
    then (s, finish t (match t_res t with RNone => RCanceled | r => r end))
    else (s, set_pc t PCas)
  | PCas =>
    if processing s then
      (* lost the race: Queued; in a re-check round the result of the first
         round stands *)
      (s, finish t (match t_res t with RNone => RQueued (t_tick t) | r => r end))
    else ({| queue := queue s; processing := true; qtick := qtick s; pending := pending s;
             executed := executed s; nested_of := nested_of s |}, set_pc t PLoop)
  | PLoop =>
    if Nat.eqb (qlen s) 0 then (s, set_pc t PRelease) else (s, set_pc t PPop)
  | PPop =>
    match queue s with
    | [] => (s, finish t RCanceled)       (* "missing queue item" *)
    | (m, tick) :: rest =>
      let s1 := {| queue := rest; processing := processing s;
                   qtick := if Nat.eqb tick 0 then qtick s else S (qtick s);
                   pending := if Nat.eqb tick 0 then pending s else pending s - 1;
                   executed := (m, i) :: executed s; nested_of := nested_of s |} in
      (* the transition runs; its handlers' mutations are queued meanwhile *)
      let s2 := enqueue_all s1 (nested_for s m) in
      (s2, {| t_pc := PLoop; t_mut := t_mut t; t_nested := t_nested t; t_tick := t_tick t;
              t_first := true; t_res := t_res t; t_chk := t_chk t |})
    end
  | PRelease =>
    (* the Result of this processQueue call is decided here: ret[0] if any
       transition ran, Canceled otherwise (a re-check round does not change it) *)
    let r := match t_res t with
             | RNone => if t_first t then RExecuted else RCanceled
             | r => r
             end in
    ({| queue := queue s; processing := false; qtick := qtick s; pending := pending s;
        executed := executed s; nested_of := nested_of s |},
     {| t_pc := PRecheck; t_mut := t_mut t; t_nested := t_nested t; t_tick := t_tick t;
        t_first := t_first t; t_res := r; t_chk := t_chk t |})
  | PRecheck =>
    if recheck_again mode s
    then (s, set_pc t PEntry)    (* processQueue again *)
    else (s, finish t (t_res t))
  | PDone => (s, t)
  end.

Fixpoint replace_nth {A} (l : list A) (i : nat) (x : A) : list A :=
  match l, i with
  | [], _ => []
  | _ :: r, O => x :: r
  | y :: r, S j => y :: replace_nth r j x
  end.

Definition step (mode : rmode) (c : cfg) (i : nat) : cfg :=
  match nth_error (ths c) i with
  | None => c
  | Some t =>
    let '(s', t') := step_thread mode (sh c) i t in
    {| sh := s'; ths := replace_nth (ths c) i t' |}
  end.

(* run a schedule (list of thread indexes) *)
Definition exec_sched (mode : rmode) (c : cfg) (sched : list nat) : cfg :=
  fold_left (step mode) sched c.

Definition init_thread (p : nat * list nat * bool) : thread :=
  {| t_pc := PEnq; t_mut := fst (fst p); t_nested := snd (fst p); t_tick := 0;
     t_first := false; t_res := RNone; t_chk := snd p |}.

(* one thread per entry (mutation id, nested mutations, is-check-thread) *)
Definition init_cfg (muts : list (nat * list nat * bool)) : cfg :=
  {| sh := {| queue := []; processing := false; qtick := 1; pending := 0; executed := [];
              nested_of := map fst muts |};
     ths := map init_thread muts |}.

Definition all_done (c : cfg) : bool :=
  forallb (fun t => match t_pc t with PDone => true | _ => false end) (ths c).

(* a thread is inside the drain (holds queueProcessing) *)
Definition holding (t : thread) : bool :=
  match t_pc t with PLoop | PPop | PRelease => true | _ => false end.

Definition holders (c : cfg) : nat := length (filter holding (ths c)).

(* observables / predicates (as Spec/C04.v, over this model) *)

(* at most one goroutine inside the drain, and queueProcessing says so *)
Definition mutex_ok (c : cfg) : bool :=
  (holders c <=? 1) && Bool.eqb (processing (sh c)) (Nat.eqb (holders c) 1).

(* an idle machine never sits on a non-empty queue *)
Definition no_strand_ok (c : cfg) : bool :=
  negb (all_done c) || Nat.eqb (qlen (sh c)) 0.

(* every mutation that was enqueued is in the queue or was executed *)
Definition enqueued (c : cfg) : list nat :=
  map fst (rev (executed (sh c))) ++ map fst (queue (sh c)).
