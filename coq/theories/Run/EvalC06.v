(* Run-time evaluation for C06: a history case (EvalHist.hcase: inputs + the
   observed trace of the machine) + the subscription operations that were
   executed, what they returned and the closed flags of every returned channel
   / context polled after each top-level call. *)

From Coq Require Import List NArith Bool Arith.
From AMV Require Import Base.ListSet Model.Schema Model.Resolver Model.Machine Model.Subs
  Model.SubsTrace Run.EvalHist Spec.C06.
Import ListNotations.

Record c06case := {
  k_hist : hcase;
  k_ops : list sched_op;          (* executed ops, in execution order *)
  o_rets : list opobs;            (* per op *)
  o_polls : list (list bool)      (* per poll, per op: closed / canceled *)
}.

Definition has_faults (k : hcase) : bool :=
  existsb (fun a => match ha_fault a with FNone => false | _ => true end) (h_actions k).

Definition case_events (k : c06case) : list sevent :=
  let h := k_hist k in
  events_of (h_schema h) (h_topo h) (h_init h) (h_obs h) (k_ops k).

(* the model's answer for op k in the shape of the observation *)
(* smallest op index j < k that returned identity id, else k *)
Fixpoint first_from (l : list (nat * opret)) (id j n dflt : nat) : nat :=
  match n with
  | O => dflt
  | S m =>
    match ret_of l j with
    | RChan x | RCtx x _ => if Nat.eqb x id then j else first_from l id (S j) m dflt
    | _ => first_from l id (S j) m dflt
    end
  end.
Definition first_with (l : list (nat * opret)) (k id : nat) : nat := first_from l id 0 k k.

Definition model_ret (s : sst) (closed0 : list (nat * bool)) (k : nat) : opobs :=
  let c0 := aget closed0 k in
  match ret_of (ss_rets s) k with
  | RChan id => {| oo_kind := 1; oo_alias := if Nat.eqb id 0 then 0 else S (first_with (ss_rets s) k id);
                   oo_closed0 := c0; oo_tick := 0 |}
  | RCtx id t => {| oo_kind := 2; oo_alias := S (first_with (ss_rets s) k id);
                    oo_closed0 := c0; oo_tick := t |}
  | RPanic => {| oo_kind := 3; oo_alias := 0; oo_closed0 := false; oo_tick := 0 |}
  | RNone => no_obs
  end.

(* closed right at return: run the events and look right after each EOp *)
Fixpoint closed_at_return (s : sst) (es : list sevent) : list (nat * bool) :=
  match es with
  | [] => []
  | e :: r =>
    let s1 := step s e in
    match e with
    | EOp k _ _ => (k, closed_of s1 k) :: closed_at_return s1 r
    | _ => closed_at_return s1 r
    end
  end.

Definition opobs_eqb (a b : opobs) : bool :=
  N.eqb (oo_kind a) (oo_kind b) && Nat.eqb (oo_alias a) (oo_alias b)
  && Bool.eqb (oo_closed0 a) (oo_closed0 b) && N.eqb (oo_tick a) (oo_tick b).

Fixpoint bools_eqb (a b : list bool) : bool :=
  match a, b with
  | [], [] => true
  | x :: r, y :: t => Bool.eqb x y && bools_eqb r t
  | _, _ => false
  end.

(* the hypothesis of the When theorems, evaluated on the observed events: a
   When / WhenNot call outside the apply window reads the activity that
   processSubscriptions has told the manager so far *)
Fixpoint coherent_b (n : nat) (told : list nat) (es : list sevent) : bool :=
  match es with
  | [] => true
  | e :: r =>
    match e with
    | EOp _ v (OWhen _ _) | EOp _ v (OWhenNot _ _) =>
      v_applied v || forallb (fun x => Bool.eqb (mem x (v_active v)) (mem x told)) (seq 0 n)
    | _ => true
    end
    && coherent_b n
         (match e with
          | EProcess act deact _ _ _ =>
            filter (fun x => mem x act || (mem x told && negb (mem x deact))) (seq 0 n)
          | _ => told
          end) r
  end.

(* kind 1: 100+c = EvalHist.hist_mismatch code c; 20 what an op returned
   (kind / identity / closed at return / ctx tick); 21 closed flags of a poll;
   22 number of polls; 23 the model predicts a panic inside
   processSubscriptions (the generator must not produce that); 24 the events
   of a fault-free history are not coherent (hypothesis of the When theorems) *)
Definition mismatch (k : c06case) : list N :=
  let es := case_events k in
  let n := length (k_ops k) in
  let '(s, polls) := run_events n init_sst es in
  let c0 := closed_at_return init_sst es in
  map (fun c => (100 + c)%N) (hist_mismatch (k_hist k))
  ++ (if ss_crashed s then [23%N] else [])
  ++ (if has_faults (k_hist k)
         || coherent_b (length (h_schema (k_hist k))) (h_init (k_hist k)) es then [] else [24%N])
  ++ (if lists_eqb opobs_eqb (map (model_ret s c0) (seq 0 n)) (o_rets k) then [] else [20%N])
  ++ (if Nat.eqb (length polls) (length (o_polls k)) then
        (if lists_eqb bools_eqb polls (o_polls k) then [] else [21%N])
      else [22%N]).

(* WhenTime with a duplicated state (`WhenTime(S{A,A}, Time{t1,t2})`): the binding
   counts two states but keeps one completion flag per name, so it never
   completes by ticks (theorem whentime_dup_refuted; NoDup is the hypothesis of
   whentime_partial). The lost wake-ups of exactly those subscriptions are
   reported under their own code 632: the verdicts of the tracks are independent
   of each other, so the codes such subscriptions contribute are the multiset
   difference between the verdicts of the history and the verdicts of the same
   history with these subscriptions left out. Every other code they produce
   (spurious, closed at return, Dispose) keeps its number. *)
Definition dup_time (o : sop) : bool :=
  match o with
  | OWhenTime sts _ _ => negb (Nat.eqb (length (uniq sts)) (length sts))
  | _ => false
  end.
Definition mask_dup (e : sevent) : sevent :=
  match e with
  | EOp k v o => if dup_time o then EOp k v ONop else e
  | _ => e
  end.
Fixpoint remove_one (x : N) (l : list N) : list N :=
  match l with
  | [] => []
  | y :: r => if N.eqb x y then r else y :: remove_one x r
  end.
Definition msub (a b : list N) : list N := fold_left (fun acc x => remove_one x acc) b a.
Definition dup_code (c : N) : N :=
  (* the lost wake-up codes: held at a processed / unprocessed transition, after
     SetSchema, a pending identical (never completing) subscription reused *)
  if N.eqb c 631 || N.eqb c 639 || N.eqb c 637 || N.eqb c 635 then 632%N else c.

Definition viol (k : c06case) : list N :=
  let es := case_events k in
  let all := violations es (o_rets k) (o_polls k) in
  if existsb (fun e => match e with EOp _ _ o => dup_time o | _ => false end) es then
    let rest := violations (map mask_dup es) (o_rets k) (o_polls k) in
    rest ++ map dup_code (msub all rest)
  else all.

Definition check_one (ic : N * c06case) : list (N * N * N) :=
  let '(i, k) := ic in
  map (fun d => (i, 1%N, d)) (mismatch k) ++ map (fun d => (i, 2%N, d)) (viol k).

Definition check_all (cs : list (N * c06case)) : list (N * N * N) := flat_map check_one cs.
