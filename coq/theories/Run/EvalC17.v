(* Run-time evaluation of C17 cases: compares the model of pkg/history and of
   Machine.Export/Import with what the implementation did (kind 1) and
   evaluates the predicates of Spec/C17.v on the implementation's observation
   (kind 2). *)

From Coq Require Import List NArith ZArith Bool Arith.
From AMV Require Import Base.ListSet Model.History Spec.C17.
Import ListNotations.

Inductive oresult := OErr | OPanic | OIdx (l : list nat).

Record qobs := { qo_q : query; qo_limit : Z; qo_res : oresult }.

Record bobs := { bo_kind : N; bo_state : nat; bo_hs : N; bo_he : N;
                 bo_res : option bool (* None = panic *) }.

Record eiobs := { ei_src : emach;        (* the exporting machine *)
                  ei_dst : emach;        (* the importing machine, before Import *)
                  ei_res : imp_result }. (* observed *)

Record c17case := {
  k_nstates : nat;
  k_raw : rawcfg;
  o_new_err : bool;          (* NewMemory returned an error *)
  o_tracked : list nat;      (* Config().TrackedStates as machine indexes *)
  o_max : Z;                 (* Config().MaxRecords *)
  k_txs : list htx;          (* reference tracer, bound after the history tracer *)
  o_lens : list nat;         (* len(Export()) inside each TransitionEnd *)
  o_db : list hrec;          (* Export() at the end *)
  o_nextid : N;              (* MachineRecord().NextId at the end *)
  o_queries : list qobs;
  o_between : list bobs;
  o_ei : option eiobs
}.

(* ------------------------------------------------------------ model run *)

Definition model_cfg (k : c17case) : option hcfg :=
  new_memory (k_nstates k) (o_tracked k) (k_raw k).

Fixpoint model_lens (c : hcfg) (db : list hrec) (txs : list htx) : list nat :=
  match txs with
  | [] => []
  | tx :: rest => let db' := track c db tx in length db' :: model_lens c db' rest
  end.

Definition oresult_eqb (o : oresult) (m : fl_result) : bool :=
  match o, m with
  | OErr, FlErr => true
  | OPanic, FlPanic => true
  | OIdx a, FlOk b => list_nat_eqb a b
  | _, _ => false
  end.

Definition optbool_eqb (a b : option bool) : bool :=
  match a, b with
  | None, None => true
  | Some x, Some y => Bool.eqb x y
  | _, _ => false
  end.

Definition emach_eqb (a b : emach) : bool :=
  list_N_eqb (e_clock a) (e_clock b) && list_nat_eqb (e_active a) (e_active b)
  && list_nat_eqb (e_names a) (e_names b) && (e_mtick a =? e_mtick b)%N
  && (e_qtick a =? e_qtick b)%N.

Definition imp_eqb (a b : imp_result) : bool :=
  match a, b with
  | IErr x, IErr y => (x =? y)%N
  | IPanic, IPanic => true
  | IHang, IHang => true
  | IOk x, IOk y => emach_eqb x y
  | _, _ => false
  end.

Definition has_unknown (k : c17case) : bool :=
  existsb (fun s => k_nstates k <=? s) (o_tracked k).

(* kind 1 *)
Definition mismatch (k : c17case) : list N :=
  match model_cfg k with
  | None => if o_new_err k then [] else [1%N]
  | Some c =>
    if o_new_err k then [1%N] else
    (if list_nat_eqb (c_tracked c) (o_tracked k) && (Z.of_nat (c_max c) =? o_max k)%Z
     then [] else [2%N]) ++
    (if has_unknown k then [] else
     (if list_eqb_by hrec_eqb (o_db k) (run_log c (k_txs k)) then [] else [3%N]) ++
     (if (o_nextid k =? next_id c (k_txs k))%N then [] else [4%N]) ++
     (if list_nat_eqb (o_lens k) (model_lens c [] (k_txs k)) then [] else [5%N]) ++
     (if forallb (fun o => oresult_eqb (qo_res o) (find_latest c (o_db k) (qo_limit o) (qo_q o)))
                 (o_queries k) then [] else [6%N]) ++
     (if forallb (fun b => optbool_eqb (bo_res b)
                             (between c (o_db k) (bo_kind b) (bo_state b) (bo_hs b) (bo_he b)))
                 (o_between k) then [] else [7%N]))
  end ++
  match o_ei k with
  | None => []
  | Some e => if imp_eqb (ei_res e) (import (ei_dst e) (export (ei_src e))) then [] else [8%N]
  end.

(* ------------------------------------------------------------ kind 2 *)

Definition recorded (tx : htx) : bool := negb (x_htime tx =? 0)%N.

(* 11: Called block-list overridden by a Changed allow-list; 12: two
   allow-lists act as a union; 13: any other departure from the comments *)
Definition doc_codes (c : hcfg) (txs : list htx) : list N :=
  flat_map (fun tx =>
    if Bool.eqb (recorded tx) (matches_doc c tx) then []
    else match doc_gap_class c tx with
         | 1%N => [11%N] | 2%N => [12%N] | _ => [13%N]
         end) txs.

Definition sat_rel_at (c : hcfg) (q : query) (db : list hrec) (i : nat) : bool :=
  match nth_error db i with Some r => rec_sat_rel c q r (older_of db i) | None => false end.
Definition sat_at (c : hcfg) (q : query) (db : list hrec) (i : nat) : bool :=
  match nth_error db i with Some r => rec_sat c q r | None => false end.

(* a relapse to the reading FindLatest had before 3ac5b4b: the answer is what
   "Activated/Deactivated against the previous stored record" gives, and not
   what the query means.  The newest record on which the two readings part
   decides: 241/243 the oldest stored record (nothing to compare with: active
   resp. inactive was enough), 242/244 a record whose predecessor in the store
   is not the transition before it (unrecorded transitions in between) *)
Definition relapse_codes (c : hcfg) (db : list hrec) (q : query) : list N :=
  match filter (fun i => negb (Bool.eqb (sat_at c q db i) (sat_rel_at c q db i)))
               (positions_desc (length db)) with
  | [] => [249%N]
  | i :: _ =>
    match nth_error db i with
    | None => [249%N]
    | Some r =>
      let act := negb (Bool.eqb (forallb (st_activated c r) (q_activated q))
                                (forallb (rel_activated c r (older_of db i)) (q_activated q))) in
      match i with
      | 0 => if act then [241%N] else [243%N]
      | _ => if act then [242%N] else [244%N]
      end
    end
  end.

Definition query_codes (c : hcfg) (db : list hrec) (o : qobs) : list N :=
  let q := qo_q o in
  match qo_res o with
  | OPanic => if is_nil (q_inactive q) then [209%N] else [204%N]
  | OErr => if validate c q then [212%N] else []
  | OIdx l =>
    if negb (validate c q) then [211%N]
    else if negb (newest_first_ok db (qo_limit o) l) then [210%N]
    else if negb (mtime_wf q) then []
    else if list_nat_eqb l (find_latest_spec c db (qo_limit o) q) then []
    else if list_nat_eqb l (find_latest_spec_rel c db (qo_limit o) q) then relapse_codes c db q
    else
      match filter (fun i => negb (sat_at c q db i)) l with
      | i :: _ =>
        match nth_error db i with
        | Some r => [(200 + failing_clause c q r)%N]
        | None => [210%N]
        end
      | [] => [208%N]
      end
  end.

Definition between_codes (c : hcfg) (db : list hrec) (b : bobs) : list N :=
  match bo_res b with
  | None => if (bo_kind b =? 3)%N then [224%N] else [229%N]
  | Some v =>
    if Bool.eqb v (between_spec c db (bo_kind b) (bo_state b) (bo_hs b) (bo_he b)) then []
    else if Bool.eqb v (between_spec_rel c db (bo_kind b) (bo_state b) (bo_hs b) (bo_he b))
    then (if (bo_kind b =? 0)%N then [245%N] else if (bo_kind b =? 2)%N then [246%N]
          else [(220 + bo_kind b)%N])
    else [(220 + bo_kind b)%N]
  end.

Fixpoint dedup_N (l : list N) : list N :=
  match l with
  | [] => []
  | x :: r => if existsb (N.eqb x) r then dedup_N r else x :: dedup_N r
  end.

Definition violations (k : c17case) : list N :=
  dedup_N (
  match model_cfg k with
  | None => []
  | Some c0 =>
    if o_new_err k then [] else
    (* judge with the configuration the implementation reports *)
    let c := {| c_called := c_called c0; c_called_excl := c_called_excl c0;
                c_changed := c_changed c0; c_changed_excl := c_changed_excl c0;
                c_rejected := c_rejected c0; c_store_tx := c_store_tx c0;
                c_tracked := o_tracked k; c_max := Z.to_nat (o_max k) |} in
    if has_unknown k then [240%N] else
    (* the log clauses hold outright under the documented matching rule, or
       else are judged under the rule the code implements, each departure
       from the documentation being reported by doc_codes *)
    (if log_all_ok_by matches_doc c (k_txs k) (o_db k) (o_lens k) (o_nextid k) then [] else
     (if log_ok c (k_txs k) (o_db k) then [] else [10%N]) ++
     doc_codes c (k_txs k) ++
     (if bounded_ok c (o_lens k) then [] else [14%N]) ++
     (if lens_exact_ok c (k_txs k) (o_lens k) then [] else [15%N]) ++
     (if times_ok c (k_txs k) (o_db k) then [] else [16%N]) ++
     (if next_id_ok_by matches_spec c (k_txs k) (o_nextid k) then [] else [17%N])) ++
    flat_map (query_codes c (o_db k)) (o_queries k) ++
    flat_map (between_codes c (o_db k)) (o_between k)
  end ++
  match o_ei k with
  | None => []
  | Some e =>
    match ei_res e with
    | IHang => [231%N]
    | r => if e_has_restored (ei_src e) then []   (* Import then activates MachineRestored *)
           else if export_import_ok (ei_src e) r then [] else [230%N]
    end
  end).

Definition check_one (ic : N * c17case) : list (N * N * N) :=
  let '(i, k) := ic in
  map (fun d => (i, 1%N, d)) (mismatch k) ++ map (fun d => (i, 2%N, d)) (violations k).

Definition check_all (cs : list (N * c17case)) : list (N * N * N) :=
  flat_map check_one cs.
