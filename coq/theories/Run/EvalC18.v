(* Run-time evaluation of C18 cases: the model of Conc/Pipes.v is run on the
   case's schedule (the steps the harness forced on the real machines) and
   compared with the implementation's observation (kind 1); the predicates of
   Spec/C18.v are evaluated on the implementation's observation (kind 2). *)

From Coq Require Import List NArith Bool Arith.
From AMV Require Import Conc.Pipes Spec.C18.
Import ListNotations.
Open Scope N_scope.

Record pipecase := {
  k_cfg : pcfg;
  k_steps : list step;          (* generated steps ++ the harness' completion *)
  k_sync : bool;                (* pipes.Sync called after quiescence *)
  o_ok : bool;                  (* the schedule could be forced *)
  o_srclog : list N;
  o_dellog : list (N * N);
  o_src : list N;               (* ticks of the piped source states *)
  o_tgt : list N;               (* ticks of the piped target states *)
  o_ntx : N;                    (* target transitions *)
  o_nparks : N;                 (* ... of which held *)
  o_quiet : bool;               (* joint quiescence reached *)
  o_sync : list N;              (* target ticks after Sync *)
  o_evlog : list N;             (* per source call: invocations of the pipe's handlers *)
  o_chglog : list bool          (* per source call: a piped source tick moved *)
}.

Record anycase := {
  a_n : nat;
  a_ops : list aop;
  oa_res : list N;
  oa_src : list bool;
  oa_tgt : list bool;
  oa_ok : bool
}.

Inductive c18case := KPipe (k : pipecase) | KAny (a : anycase).

Fixpoint list_N_eqb (a b : list N) : bool :=
  match a, b with
  | [], [] => true
  | x :: r, y :: s => (x =? y) && list_N_eqb r s
  | _, _ => false
  end.

Fixpoint list_NN_eqb (a b : list (N * N)) : bool :=
  match a, b with
  | [], [] => true
  | (x1, x2) :: r, (y1, y2) :: s => (x1 =? y1) && (x2 =? y2) && list_NN_eqb r s
  | _, _ => false
  end.

Definition mismatch_pipe (k : pipecase) : list N :=
  let c := k_cfg k in
  let r := run c (k_steps k) in
  if negb (o_ok k) then [] else
  (if list_N_eqb (o_srclog k) (c_srclog r) then [] else [1]) ++
  (if list_NN_eqb (o_dellog k) (c_dellog r) then [] else [2]) ++
  (if list_N_eqb (o_src k) (c_src r) then [] else [3]) ++
  (if list_N_eqb (o_tgt k) (t_ticks (c_tgt r)) then [] else [4]) ++
  (if o_ntx k =? N.of_nat (t_ntx (c_tgt r)) then [] else [5]) ++
  (if o_nparks k =? N.of_nat (t_nparks (c_tgt r)) then [] else [6]) ++
  (if Bool.eqb (o_quiet k) (quiescent r) then [] else [7]) ++
  (if list_N_eqb (o_evlog k) (c_evlog r) then [] else [9]) ++
  (if k_sync k
   then (if list_N_eqb (o_sync k) (sync_ticks c (o_src k) (o_tgt k)) then [] else [8])
   else []).

Definition violations_pipe (k : pipecase) : list N :=
  let c := k_cfg k in
  let r := run c (k_steps k) in
  let n := p_n c in
  if negb (o_ok k) then [90] else
  (if o_quiet k then [] else [13]) ++
  (if follows n (o_src k) (o_tgt k) then []
   else if p_addonly c
   then (if forallb (fun i => implb (act (o_src k) i) (act (o_tgt k) i)) (seq 0 n)
         then [50] else [51])
   else if p_flat c
   then (if fst (c_lossy r) then [22]
         else if snd (c_lossy r) then [23]
         else if c_busydel r then [20] else [21])
   else if c_reord r then [10]
   else if fst (c_lossy r) then [11]
   else if snd (c_lossy r) then [14]
   else if c_busydel r then [15]
   else if c_vetoed r then [16] else [12]) ++
  (if events_justified (o_evlog k) (o_chglog k) then [] else [60]) ++
  (if existsb (N.eqb 3) (o_srclog k) then [if p_flat c then 30 else 31] else []) ++
  (if existsb (N.eqb 1) (o_srclog k) then [32] else []) ++
  (if existsb (N.eqb 2) (o_srclog k) then [33] else []) ++
  (if k_sync k && negb (follows n (o_src k) (o_sync k)) then [35] else []).

Definition mismatch_any (a : anycase) : list N :=
  if negb (oa_ok a) then [] else
  let '(s, t) := any_run (a_n a) (a_ops a) in
  (if sets_equal (oa_src a) s then [] else [10]) ++
  (if sets_equal (oa_tgt a) t then [] else [11]).

Definition violations_any (a : anycase) : list N :=
  if negb (oa_ok a) then [91] else
  (if sets_equal (oa_src a) (oa_tgt a) then []
   else if subset_b (oa_src a) (oa_tgt a) then [40] else [41]) ++
  (if forallb (N.eqb 0) (oa_res a) then [] else [42]).

Definition check_one (ic : N * c18case) : list (N * N * N) :=
  let '(i, k) := ic in
  match k with
  | KPipe p => map (fun d => (i, 1, d)) (mismatch_pipe p) ++ map (fun d => (i, 2, d)) (violations_pipe p)
  | KAny a => map (fun d => (i, 1, d)) (mismatch_any a) ++ map (fun d => (i, 2, d)) (violations_any a)
  end.

Definition check_all (cs : list (N * c18case)) : list (N * N * N) :=
  flat_map check_one cs.
