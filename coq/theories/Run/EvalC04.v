(* Run-time evaluation for C04: the interleaving model run with the schedule
   that was forced on the implementation. *)
From Coq Require Import List NArith Bool Arith.
From AMV Require Import Conc.QueueLock Spec.C04.
From AMV Require Run.EvalHist Run.EvalC04p.
Import ListNotations.

(* behaviour after the release of queueProcessing: false = return (the code
   as found), true = re-check the queue (after the fix of processQueue) *)
Definition impl_recheck : bool := true.

Record c04case := {
  k_muts : list (nat * list nat);
  k_sched : list nat;
  o_results : list tres;
  o_executed : list nat;
  o_qlen : nat;
  o_all_done : bool;
  o_when_open : list nat
}.

Definition tres_eqb (a b : tres) : bool :=
  match a, b with
  | RNone, RNone | RExecuted, RExecuted | RCanceled, RCanceled => true
  | RQueued x, RQueued y => Nat.eqb x y
  | _, _ => false
  end.

Fixpoint tres_list_eqb (a b : list tres) : bool :=
  match a, b with
  | [], [] => true
  | x :: r, y :: s => tres_eqb x y && tres_list_eqb r s
  | _, _ => false
  end.

Fixpoint nat_list_eqb (a b : list nat) : bool :=
  match a, b with
  | [], [] => true
  | x :: r, y :: s => Nat.eqb x y && nat_list_eqb r s
  | _, _ => false
  end.

Definition model_cfg (k : c04case) : cfg := exec_sched impl_recheck (init_cfg (k_muts k)) (k_sched k).

(* a goroutine that has not finished has no result yet *)
Definition model_results (c : cfg) : list tres :=
  map (fun t => match t_pc t with PDone => t_res t | _ => RNone end) (ths c).

(* kind 1: 1 results, 2 executed order, 3 queue length, 4 quiescence *)
Definition mismatch (k : c04case) : list N :=
  let c := model_cfg k in
  (if tres_list_eqb (model_results c) (o_results k) then [] else [1%N])
  ++ (if nat_list_eqb (map fst (rev (executed (sh c)))) (o_executed k) then [] else [2%N])
  ++ (if Nat.eqb (qlen (sh c)) (o_qlen k) then [] else [3%N])
  ++ (if Bool.eqb (all_done c) (o_all_done k) then [] else [4%N]).

(* kind 2: 41 an idle machine sits on a non-empty queue (a mutation that
   returned a queue tick was stranded); 42 WhenQueue(tick) of a returned tick
   is still open at quiescence *)
Definition violations (k : c04case) : list N :=
  (if o_all_done k && negb (Nat.eqb (o_qlen k) 0) then [41%N] else [])
  ++ (if o_all_done k && Nat.eqb (o_qlen k) 0 && negb (Nat.eqb (length (o_when_open k)) 0)
      then [42%N] else []).

(* sequential stream: mutations issued from inside handlers are queued, not
   nested (the handler gets a queue tick), and every returned tick is resolved
   once the machine is idle. codes: 43 WhenQueue of a tick handed to a handler
   is still open at quiescence; 44 a handler's mutation ran nested (returned
   Executed/Canceled for a state change that needed a transition) *)
Definition hist_violations (k : EvalHist.hcase) : list N :=
  match EvalHist.h_open_ticks k with [] => [] | _ => [43%N] end.

Inductive c04any := C04G (k : c04case) | C04H (k : EvalHist.hcase) | C04P (k : EvalC04p.c04pcase).

Definition check_one (ic : N * c04any) : list (N * N * N) :=
  let '(i, a) := ic in
  match a with
  | C04G k => map (fun d => (i, 1%N, d)) (mismatch k) ++ map (fun d => (i, 2%N, d)) (violations k)
  | C04H k => map (fun d => (i, 1%N, (100 + d)%N)) (EvalHist.hist_mismatch k)
              ++ map (fun d => (i, 2%N, d)) (hist_violations k)
  | C04P k => map (fun d => (i, 1%N, d)) (EvalC04p.mismatch k)
              ++ map (fun d => (i, 2%N, d)) (EvalC04p.violations k)
  end.

Definition check_all (cs : list (N * c04any)) : list (N * N * N) := flat_map check_one cs.
