(* Run-time evaluation of C10 cases: compares the model with what the
   implementation did (kind 1) and evaluates the property predicates of
   Spec/C10.v on the implementation's observation (kind 2). *)

From Coq Require Import List NArith Bool Arith.
From AMV Require Import Model.RpcCodec Spec.C10.
Import ListNotations.
Open Scope N_scope.

(* observed tracerData: (mTime, sum, q, m, checksum) *)
Definition odata := (option (list N) * N * N * N * N)%type.
(* observed update: (indexes, ticks, q, m, checksum); None = panic *)
Definition oupd := option (list N * list N * N * N * N).

Record c10case := {
  k_cfg : cfg;
  k_hello : bool;            (* lastPushData comes from RemoteHello *)
  k_s1 : snap;
  k_s2 : snap;
  k_custom : bool;           (* the mirror was chosen by the generator *)
  k_mt : list N;             (* the client's mirror before the update *)
  k_mq : N;
  k_mm : N;
  o_tracked : list nat;      (* impl: tracked idx -> machine idx *)
  o_hello : option odata;    (* impl: lastPushData memorised by RemoteHello *)
  o_d1 : odata;              (* impl: tracerData of snapshot 1 (tracer path) *)
  o_d2 : odata;
  o_upd : oupd;              (* impl: calcUpdate *)
  o_app : applied            (* impl: clockFromUpdate + checksum comparison *)
}.

Definition odata_of (d : tdata) : odata :=
  (d_mtime d, d_sum d, d_q d, d_m d, d_check d).

Definition oupd_of (u : option upd) : oupd :=
  match u with
  | None => None
  | Some u => Some (u_idx u, u_ticks u, u_q u, u_m u, u_check u)
  end.

Definition upd_of (o : oupd) : option upd :=
  match o with
  | None => None
  | Some (i, t, q, m, c) =>
    Some {| u_idx := i; u_ticks := t; u_q := q; u_m := m; u_check := c |}
  end.

Definition optlist_eqb (a b : option (list N)) : bool :=
  match a, b with
  | None, None => true
  | Some x, Some y => list_N_eqb x y
  | _, _ => false
  end.

Definition odata_eqb (a b : odata) : bool :=
  let '(t1, s1, q1, m1, c1) := a in
  let '(t2, s2, q2, m2, c2) := b in
  optlist_eqb t1 t2 && (s1 =? s2) && (q1 =? q2) && (m1 =? m2) && (c1 =? c2).

Definition oupd_eqb (a b : oupd) : bool :=
  match a, b with
  | None, None => true
  | Some (i1, t1, q1, m1, c1), Some (i2, t2, q2, m2, c2) =>
    list_N_eqb i1 i2 && list_N_eqb t1 t2 && (q1 =? q2) && (m1 =? m2) && (c1 =? c2)
  | _, _ => false
  end.

Definition applied_eqb (a b : applied) : bool :=
  match a, b with
  | None, None => true
  | Some (t1, q1, m1, a1), Some (t2, q2, m2, a2) =>
    list_N_eqb t1 t2 && (q1 =? q2) && (m1 =? m2) && Bool.eqb a1 a2
  | _, _ => false
  end.

Definition last_data (k : c10case) : tdata :=
  if k_hello k then hello_data (k_cfg k) (k_s1 k) else mk_data (k_cfg k) (k_s1 k).

(* the model run on the case's inputs *)
Definition model_upd (k : c10case) : option upd :=
  calc_update (k_cfg k) (shallow (k_cfg k)) (mk_data (k_cfg k) (k_s2 k)) (last_data k).

Definition model_app (k : c10case) : applied :=
  match upd_of (o_upd k) with
  | None => None
  | Some u => client_apply (k_cfg k) u (k_mt k) (k_mq k) (k_mm k)
  end.

(* kind 1: where the model and the implementation differ *)
Fixpoint list_nat_eqb (a b : list nat) : bool :=
  match a, b with
  | [], [] => true
  | x :: r, y :: s => Nat.eqb x y && list_nat_eqb r s
  | _, _ => false
  end.

Definition mismatch (k : c10case) : list N :=
  (if list_nat_eqb (o_tracked k) (tracked (k_cfg k)) then [] else [5]) ++
  (if k_custom k then [] else
     if list_N_eqb (k_mt k) (mirror (k_cfg k) (k_s1 k)) && (k_mq k =? s_q (k_s1 k))
        && (k_mm k =? s_m (k_s1 k)) then [] else [7]) ++
  (match o_hello k with
   | None => if k_hello k then [6] else []
   | Some h => if odata_eqb h (odata_of (hello_data (k_cfg k) (k_s1 k))) then [] else [6]
   end) ++
  (if odata_eqb (o_d1 k) (odata_of (mk_data (k_cfg k) (k_s1 k))) then [] else [1])
  ++ (if odata_eqb (o_d2 k) (odata_of (mk_data (k_cfg k) (k_s2 k))) then [] else [2])
  ++ (if oupd_eqb (o_upd k) (oupd_of (model_upd k)) then [] else [3])
  ++ (if applied_eqb (o_app k) (model_app k) then [] else [4]).

(* is the mirror the faithful copy of snapshot 1?  In shallow mode the mirror
   only has to agree in parity (it started from deep Hello ticks). *)
Definition faithful (k : c10case) : bool :=
  (if shallow (k_cfg k)
   then list_bool_eqb (parities (k_mt k)) (parities (mirror (k_cfg k) (k_s1 k)))
   else list_N_eqb (k_mt k) (mirror (k_cfg k) (k_s1 k)))
  && (k_mq k =? s_q (k_s1 k)) && (k_mm k =? s_m (k_s1 k)).

(* kind 2: the property's clauses on the implementation's observation.
   The detail code names the clause and which hypothesis of the round-trip
   theorem the input violates (0 = none: inside the theorem's domain). *)
Definition range_class (k : c10case) : N :=
  let s1 := k_s1 k in let s2 := k_s2 k in
  if negb (cfg_wf (k_cfg k) (length (s_time s1))) then 5
  else if negb (shallow (k_cfg k)) && negb (deltas_ok w32 (s_time s1) (s_time s2)) then 1
  else if negb ((s_q s1 <=? s_q s2) && (s_q s2 - s_q s1 <? w16) && (s_q s2 <? w64)) then 2
  else if negb ((s_m s1 <=? s_m s2) && (s_m s2 - s_m s1 <? w8) && (s_m s2 <? w32)) then 3
  else 0.

Definition violations (k : c10case) : list N :=
  let c := k_cfg k in
  if faithful k then
    if roundtrip_ok c (k_s2 k) (o_app k) then []
    else if shallow c then
      (if values_shallow_ok c (k_s2 k) (o_app k) then [200 + range_class k]
       else [220 + range_class k])
    else [100 + range_class k]
  else if negb (shallow c) && drifted c (k_s1 k) (k_mt k) (k_mq k) (k_mm k) then
    if rejected (o_app k) then [] else [300 + range_class k]
  else [].

Definition check_one (ic : N * c10case) : list (N * N * N) :=
  let '(i, k) := ic in
  map (fun d => (i, 1, d)) (mismatch k) ++ map (fun d => (i, 2, d)) (violations k).

Definition check_all (cs : list (N * c10case)) : list (N * N * N) :=
  flat_map check_one cs.
