From Coq Require Import List NArith Bool Arith.
From AMV Require Import Base.ListSet Model.Schema Model.Machine Run.EvalHist Spec.C07 Spec.C05b.
Import ListNotations.
Definition violations (k : hcase) : list N :=
  nodup N.eq_dec (c07_codes (h_schema k) (h_topo k) (h_health k) (h_obs k)
                  ++ c05b_codes (h_schema k) (h_topo k) (h_bindings k) (h_obs k)).
Definition check_all := check_hist violations.
