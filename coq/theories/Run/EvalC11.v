(* C11 — determinism. The harness re-executes every case in fresh machines and
   reports how the executions differed (h_rerun); the model comparison uses
   the first execution. codes: 111 results / machine times differ between
   runs; 112 handler call sequence differs; 113 transition records differ *)
From Coq Require Import List NArith Bool Arith.
From AMV Require Import Base.ListSet Model.Schema Model.Machine Run.EvalHist.
Import ListNotations.
Definition violations (k : hcase) : list N :=
  match h_rerun k with
  | 0%N => []
  | n => [(110 + n)%N]
  end.
Definition check_all := check_hist violations.
