(* Run-time evaluation for C04, prepend stream: the generalised interleaving
   model (Conc/QueueLockP.v: goroutines calling Add1 and goroutines calling
   CanAdd1, whose tick-less check mutation is PREPENDED by PrependMut) run with
   the schedule that was forced on the implementation. *)
From Coq Require Import List NArith Bool Arith.
From AMV Require Import Conc.QueueLockP.
Import ListNotations.

(* the code re-checks the queue LENGTH after the release of queueProcessing *)
Definition impl_mode : rmode := RmLen.

Record c04pcase := {
  k_muts : list (nat * list nat * bool);   (* (own mutation, nested, is a check) *)
  k_sched : list nat;
  o_results : list tres;   (* a check that lost the race returns the bare Queued: RQueued 0 *)
  o_executed : list nat;
  o_qlen : nat;
  o_all_done : bool
}.

Definition tres_eqb (a b : tres) : bool :=
  match a, b with
  | RNone, RNone | RExecuted, RExecuted | RCanceled, RCanceled => true
  | RQueued x, RQueued y => Nat.eqb x y
  | _, _ => false
  end.

Fixpoint tres_list_eqb (a b : list tres) : bool :=
  match a, b with
  | [], [] => true
  | x :: r, y :: s => tres_eqb x y && tres_list_eqb r s
  | _, _ => false
  end.

Fixpoint nat_list_eqb (a b : list nat) : bool :=
  match a, b with
  | [], [] => true
  | x :: r, y :: s => Nat.eqb x y && nat_list_eqb r s
  | _, _ => false
  end.

Definition model_cfg (k : c04pcase) : cfg := exec_sched impl_mode (init_cfg (k_muts k)) (k_sched k).

Definition model_results (c : cfg) : list tres :=
  map (fun t => match t_pc t with PDone => t_res t | _ => RNone end) (ths c).

(* kind 1: 11 results, 12 executed order, 13 queue length, 14 quiescence *)
Definition mismatch (k : c04pcase) : list N :=
  let c := model_cfg k in
  (if tres_list_eqb (model_results c) (o_results k) then [] else [11%N])
  ++ (if nat_list_eqb (map fst (rev (executed (sh c)))) (o_executed k) then [] else [12%N])
  ++ (if Nat.eqb (qlen (sh c)) (o_qlen k) then [] else [13%N])
  ++ (if Bool.eqb (all_done c) (o_all_done k) then [] else [14%N]).

(* kind 2: 45 an idle machine sits on a non-empty queue in a run with a
   prepended (tick-less) check mutation (theorem no_strand_p) *)
Definition violations (k : c04pcase) : list N :=
  if o_all_done k && negb (Nat.eqb (o_qlen k) 0) then [45%N] else [].
