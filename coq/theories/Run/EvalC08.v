From Coq Require Import List NArith Bool Arith.
From AMV Require Import Base.ListSet Model.Schema Model.Machine Run.EvalHist Spec.C08.
Import ListNotations.
Definition violations (k : hcase) : list N :=
  nodup N.eq_dec (c08_codes (h_schema k) (h_topo k) (h_exc k) (h_actions k) (h_interr k) (h_obs k)).
Definition check_all := check_hist violations.
