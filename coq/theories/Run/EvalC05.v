From Coq Require Import List NArith Bool Arith.
From AMV Require Import Base.ListSet Model.Schema Model.Machine Run.EvalHist Spec.C05 Spec.C05b Spec.C05d Spec.C05e.
From AMV Require Export Spec.C05d.
Import ListNotations.
Definition violations (k : hcase) : list N :=
  nodup N.eq_dec (c05_codes (h_schema k) (h_topo k) (h_bindings k) (h_obs k)
                  ++ c05b_codes (h_schema k) (h_topo k) (h_bindings k) (h_obs k)
                  ++ c05e_codes (h_bindings k) (h_obs k)).
Inductive c05case := C05H (k : hcase) | C05D (d : dcase).

Definition check_all (cs : list (N * c05case)) : list (N * N * N) :=
  flat_map (fun ic : N * c05case =>
    match snd ic with
    | C05H k => check_hist violations [(fst ic, k)]
    | C05D d => map (fun c => (fst ic, 2%N, c)) (detach_codes d)
    end) cs.
