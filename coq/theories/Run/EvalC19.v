(* Run-time evaluation for C19: per-schema well-formedness of the schemas
   regenerated from /repo, and real-machine steps compared with the model
   (EvalHist) and judged for Require closure and group exclusivity. *)
From Coq Require Import List NArith Bool Arith.
From AMV Require Import Base.ListSet Model.Schema Model.SchemaParse Model.Resolver Model.Machine
  Run.EvalHist Spec.C02 Spec.C19.
Import ListNotations.

Record wfcase := {
  w_raw : schema;            (* as written in the source *)
  w_parsed : schema;         (* what the real Schema.Parse returned *)
  w_exc_added : bool;        (* the schema does not define Exception: the last entry of
                                raw/parsed is the default Machine.New adds afterwards *)
  w_parse_err : bool;        (* the real Parse reported an error *)
  w_names_ok : bool;         (* the typed name list is a permutation of the keys *)
  w_groups : list (list nat)
}.

Inductive c19case :=
| C19Schema (w : wfcase)
| C19Step (groups : list (list nat)) (k : hcase).

(* the Exception state that Machine.New adds when missing is the last entry
   of raw/parsed (empty, Multi) - it takes part like any other state *)

(* codes: 191 Parse error; 192 a relation names a state the schema does not
   define; 193 Require cycle; 195 typed name list disagrees with the schema
   keys. (Declared groups need not be exclusive: exclusivity is claimed for
   the mutually Removing ones only.) *)
Definition wf_codes (w : wfcase) : list N :=
  (if w_parse_err w then [191%N] else [])
  ++ (if raw_refs_defined (w_raw w) then [] else [192%N])
  ++ (if require_acyclic (w_parsed w) then [] else [193%N])
  ++ (if w_names_ok w then [] else [195%N]).

(* mutually Removing groups the exclusivity theorem does not cover
   (group_safe false): reported as not decided by proof, never silently *)
Definition uncovered_groups (w : wfcase) : list (list nat) :=
  filter (fun g => pairwise_removing (w_parsed w) g && negb (group_safe (w_parsed w) g)) (w_groups w).

(* Parse runs on the schema as written: without the Exception entry that
   Machine.New appends later (references to it are then undefined for Parse) *)
Definition exception_default : sdef :=
  {| s_auto := false; s_multi := true; s_require := []; s_add := []; s_remove := []; s_after := [] |}.

Definition model_parsed (w : wfcase) : schema :=
  if w_exc_added w then parse_schema (removelast (w_raw w)) ++ [exception_default]
  else parse_schema (w_raw w).

Definition wf_mismatch (w : wfcase) : list N :=
  (if schema_eqb (model_parsed w) (w_parsed w) then [] else [1%N])
  ++ (if Bool.eqb (parse_error (if w_exc_added w then removelast (w_raw w) else w_raw w)) (w_parse_err w)
      then [] else [2%N]).

(* steps: 21 Require closure broken in a target; 198 two members of a
   mutually Removing group active *)
Definition step_codes (groups : list (list nat)) (k : hcase) : list N :=
  let sc := h_schema k in
  let tr := h_obs k in
  let sets := map tx_target (filter (fun t => tx_accepted t && negb (tx_check t)) (tr_txs tr))
              ++ map co_active (tr_calls tr) in
  (if forallb (r1_ok sc) sets then [] else [21%N])
  ++ (if forallb (fun g => negb (pairwise_removing sc g) || forallb (exclusive_ok g) sets) groups
      then [] else [198%N]).

Definition check_one (ic : N * c19case) : list (N * N * N) :=
  let '(i, c) := ic in
  match c with
  | C19Schema w => map (fun d => (i, 1%N, d)) (wf_mismatch w)
                   ++ map (fun d => (i, 2%N, d)) (nodup N.eq_dec (wf_codes w))
  | C19Step g k => map (fun d => (i, 1%N, (100 + d)%N)) (hist_mismatch k)
                   ++ map (fun d => (i, 2%N, d)) (step_codes g k)
  end.

Definition check_all (cs : list (N * c19case)) : list (N * N * N) := flat_map check_one cs.
