(* Run-time evaluation of C16 cases: compares the model (Model/DbgIndex.v)
   with what the real debugger store answered (kind 1) and evaluates the
   predicates of Spec/C16.v on the implementation's answers (kind 2). *)

From Coq Require Import List NArith ZArith Bool Arith.
From AMV Require Import Model.DbgIndex Spec.C16.
Import ListNotations.

(* what the headless debugger showed after a command *)
Record nav_obs := mkNavObs {
  no_flags : filters;         (* filtersFromStates() *)
  no_active : bool;           (* filtersActive() *)
  no_filtered : list nat;     (* C.MsgTxsFiltered *)
  no_cursor : Z;              (* C.CursorTx1 *)
  no_err : N;                 (* the debugger machine after the command: 0 fine, 1 Exception after an
                                 index-out-of-range panic of a handler, 2 Exception otherwise,
                                 3 the command never returned (the rest repeats the previous snapshot) *)
  no_sel : nat                (* whose snapshot this is (Debugger.C): 0 the main client, 1 the decoy *)
}.

(* a command of the harness: one on the selected client, or a client switch
   (SelectingClient; 0 the main client, 1 the decoy, anything else: no such
   client) *)
Inductive nav_cmd2 :=
| NC (c : nav_cmd)
| NSelect (who : nat).

Record c16case := mkCase {
  k_machine : bool;           (* the stream comes from a real machine through the real dbg.Tracer *)
  k_n : nat;                  (* len(MsgStruct.StatesIndex) *)
  k_errst : list nat;         (* indexes of Exception and Err* states *)
  k_health : list nat;        (* indexes of Healthcheck / Heartbeat *)
  k_init : list N;            (* machine time when the tracer was attached *)
  k_truth : list truth;       (* recording tracer on the source machine *)
  k_msgs : list msg;          (* the records the debugger stored *)
  (* the derived index, as the debugger built it *)
  o_parsed : list parsed;
  o_errors : list nat;
  o_mtime : N;
  (* lookups: query, answer *)
  o_qtick : list (N * Z);
  o_htime : list (N * Z);
  o_mtimeq : list (N * Z);
  o_txidx : list (nat * Z);
  k_dists : list Z;           (* the distances of the HadErrSinceTx queries *)
  o_haderr : list (Z * list bool);  (* tx, answers per distance *)
  k_fset : list nat;          (* MsgTxsFiltered during the FilterIndexByCursor1 queries *)
  o_fidx : list (Z * Z);
  (* headless debugger: 0 none, 1 imported session, 2 live messages, 3 live messages of TWO clients
     (main + decoy, interleaved batches) *)
  k_nav : N;
  o_nav0 : nav_obs;           (* after the client got selected *)
  o_nav : list (nav_cmd2 * nav_obs);
  (* export / import *)
  (* the lists below are delta-encoded by the harness against k_msgs /
     o_parsed: (length, entries that print differently); see [unpatch] *)
  d_stored : nat * list (nat * msg);     (* Client.MsgTxs after loading (imported file or live messages) *)
  k_reimp : bool;             (* the debugger's own store was exported and imported again *)
  d_re_msgs : nat * list (nat * msg);    (* second generation: Client.MsgTxs *)
  d_re_parsed : nat * list (nat * parsed);  (* second generation: MsgTxsParsed *)
  o_re_errors : list nat;     (* second generation: Errors *)
  (* the decoy client (k_nav = 3): its records and the index the debugger derived from them; it shares
     the main client's schema *)
  k_msgs2 : list msg;
  o_parsed2 : list parsed;
  o_txidx2 : list (nat * Z);  (* TxIndex of the decoy client, every id, at the end *)
  (* live sessions: ScrollToTx by id issued BETWEEN two ClientMsg batches for an id no record of the
     selected (main) client had at that moment: (id, number of main records received so far, snapshot
     before, snapshot after) *)
  o_early : list (nat * nat * nav_obs * nav_obs)
}.

(* the same case seen from the decoy: its records take the place of the main
   client's (only the navigation functions are applied to it) *)
Definition k_decoy (k : c16case) : c16case :=
  mkCase (k_machine k) (k_n k) (k_errst k) (k_health k) (k_init k) (k_truth k) (k_msgs2 k) (o_parsed2 k)
         (o_errors k) (o_mtime k) (o_qtick k) (o_htime k) (o_mtimeq k) (o_txidx k) (k_dists k) (o_haderr k)
         (k_fset k) (o_fidx k) (k_nav k) (o_nav0 k) (o_nav k) (d_stored k) (k_reimp k) (d_re_msgs k)
         (d_re_parsed k) (o_re_errors k) (k_msgs k) (o_parsed k) (o_txidx2 k) (o_early k).

Definition k_of (k : c16case) (who : bool) : c16case := if who then k_decoy k else k.

(* one client: a client switch is rejected by SelectingClientEnter (the same
   client, or none of that name) and changes nothing, like a jump to cursor 0 *)
Definition as_single (c : nav_cmd2) : nav_cmd :=
  match c with NC c => c | NSelect _ => NScroll 0 end.

Definition nav1 (k : c16case) : list (nav_cmd * nav_obs) :=
  map (fun co => (as_single (fst co), snd co)) (o_nav k).

Definition is_live (k : c16case) : bool := N.eqb (k_nav k) 2 || N.eqb (k_nav k) 3.

Definition unpatch {A} (d : A) (base : list A) (p : nat * list (nat * A)) : list A :=
  map (fun i => match find (fun e => Nat.eqb (fst e) i) (snd p) with
                | Some e => snd e
                | None => nth i base d
                end) (seq 0 (fst p)).

Definition o_stored (k : c16case) : list msg := unpatch dmsg (k_msgs k) (d_stored k).
Definition o_re_msgs (k : c16case) : list msg := unpatch dmsg (k_msgs k) (d_re_msgs k).
Definition o_re_parsed (k : c16case) : list parsed := unpatch dparsed (o_parsed k) (d_re_parsed k).

Definition parsed_eqb (a b : parsed) : bool :=
  N.eqb (p_sum a) (p_sum b) && N.eqb (p_diff a) (p_diff b) &&
  lnat_eqb (p_added a) (p_added b) && lnat_eqb (p_removed a) (p_removed b) &&
  list_eqb Z.eqb (p_touched a) (p_touched b).

(* hParseMsg rewrites a stored record's steps to index form, which drops
   names the index does not have: endpoints are compared modulo that *)
Definition norm_endp (e : option Z) : option Z :=
  match e with Some z => if Z.ltb z 0 then None else Some z | None => None end.

Definition endp_eqb (a b : option Z) : bool :=
  match norm_endp a, norm_endp b with
  | None, None => true
  | Some x, Some y => Z.eqb x y
  | _, _ => false
  end.

Definition msg_eqb (a b : msg) : bool :=
  Nat.eqb (m_id a) (m_id b) && lN_eqb (m_clocks a) (m_clocks b) && N.eqb (m_qtick a) (m_qtick b)
  && N.eqb (m_mqtick a) (m_mqtick b) && N.eqb (m_token a) (m_token b)
  && N.eqb (m_htime a) (m_htime b) && Bool.eqb (m_accepted a) (m_accepted b)
  && Bool.eqb (m_check a) (m_check b) && Bool.eqb (m_auto a) (m_auto b)
  && Bool.eqb (m_queued a) (m_queued b) && lnat_eqb (m_called a) (m_called b)
  && list_eqb (fun s t => endp_eqb (fst s) (fst t) && endp_eqb (snd s) (snd t)) (m_steps a) (m_steps b).

(* the same derived record, apart from touched indexes that are no states *)
Definition parsed_eqb_mod_any (a b : parsed) : bool :=
  N.eqb (p_sum a) (p_sum b) && N.eqb (p_diff a) (p_diff b) &&
  lnat_eqb (p_added a) (p_added b) && lnat_eqb (p_removed a) (p_removed b) &&
  list_eqb Z.eqb (filter (fun z => Z.leb 0 z) (p_touched a)) (filter (fun z => Z.leb 0 z) (p_touched b)).

Definition model_parse (k : c16case) := parse_all (k_n k) (k_errst k) (k_msgs k).

Definition all_ok {Q R} (f : Q -> R -> bool) (l : list (Q * R)) : bool :=
  forallb (fun qr => f (fst qr) (snd qr)) l.

(* ------------------------------------------------------------------ kind 1 *)

Definition nav_mismatch_one (k : c16case) (prev : nav_obs) (c : nav_cmd) (cur : nav_obs) : bool :=
  if N.eqb (no_err cur) 3 then false else
  let '(fl, cu) := nav_step (no_flags prev) (no_flags cur) (no_active cur) (k_health k) (k_msgs k) (o_parsed k)
                            (no_filtered prev) (no_cursor prev) c in
  negb (lnat_eqb fl (no_filtered cur) && Z.eqb cu (no_cursor cur)).

Fixpoint nav_mismatch (k : c16case) (prev : nav_obs) (l : list (nav_cmd * nav_obs)) : bool :=
  match l with
  | [] => false
  | (c, o) :: r => nav_mismatch_one k prev c o || nav_mismatch k o r
  end.

(* the list the debugger holds right after the client was selected *)
Definition nav0_filtered (k : c16case) : list nat :=
  let o := o_nav0 k in
  if is_live k then filter_live (no_flags o) (k_health k) (k_msgs k) (o_parsed k)
  else if no_active o then filter_client_txs (no_flags o) (k_health k) (k_msgs k) (o_parsed k)
  else [].

(* ---- two clients (k_nav = 3). Judged step by step from the previous
   snapshot, as above; what is not in a snapshot is carried along: *)
Record nav2_st := mkN2 {
  n_oc : Z;                   (* CursorTx1 of the client that is NOT selected (as seen when it was left; 0: never selected) *)
  n_ofl : list nat;           (* its MsgTxsFiltered *)
  n_last : option N;          (* lastScrolledTxTime; None = not known yet (no command went through hSetCursor1) *)
  n_live : bool;              (* the selected client's list was (partly) built message by message *)
  n_olive : bool;             (* ... the other client's *)
  n_fresh : bool              (* the selected client's list was recomputed by a selection under the current flags *)
}.

Definition nav2_init (k : c16case) : nav2_st :=
  mkN2 0 (filter_live (no_flags (o_nav0 k)) (k_health k) (k_msgs2 k) (o_parsed2 k)) None true true false.

Definition sel_of (o : nav_obs) : bool := Nat.eqb (no_sel o) 1.

(* the model state the previous snapshot stands for *)
Definition obs_dbg (k : c16case) (prev : nav_obs) (st : nav2_st) : dbg :=
  let s := sel_of prev in
  let csel := mkClient (k_msgs (k_of k s)) (o_parsed (k_of k s)) (no_filtered prev) (no_cursor prev) in
  let coth := mkClient (k_msgs (k_of k (negb s))) (o_parsed (k_of k (negb s))) (n_ofl st) (n_oc st) in
  mkDbg s (if s then coth else csel) (if s then csel else coth) (no_flags prev)
        (match n_last st with Some t => t | None => 0%N end).

Definition to_event (prev cur : nav_obs) (c : nav_cmd2) : event :=
  match c with
  | NC NRefilter => EToggle (no_flags cur)
  | NC c => ENav c
  | NSelect w => if Nat.ltb w 2 then ESelect (Nat.eqb w 1) else ESelect (sel_of prev)
  end.

Definition switching (d : dbg) (e : event) : bool :=
  match e with ESelect w => negb (Bool.eqb w (d_sel d)) | _ => false end.

(* a client switch during which a handler of the debugger panicked (the
   machine ended in Exception) and that did not take place: ClientSelectedEnd
   / SelectingClientState redraw the tx bars, which panics in the class of
   code 640; the transition is abandoned. Reported through the error codes,
   not compared with the model; the time of the last scroll is unknown after it. *)
Definition switch_failed (d : dbg) (e : event) (prev cur : nav_obs) : bool :=
  switching d e && negb (N.eqb (no_err cur) 0) && Nat.eqb (no_sel cur) (no_sel prev).

(* codes 12 who is selected, 13 / 14 list / cursor after a client switch,
   11 list or cursor after another command *)
Definition nav2_mismatch_one (k : c16case) (prev : nav_obs) (st : nav2_st) (c : nav_cmd2) (cur : nav_obs)
    : list N :=
  if N.eqb (no_err cur) 3 then [] else
  let d := obs_dbg k prev st in
  let e := to_event prev cur c in
  let d' := dbg_step (k_health k) d e in
  let cl := sel_client d' in
  let sw := switching d e in
  if switch_failed d e prev cur then [] else
  ((if Nat.ltb (no_sel cur) 2 && Bool.eqb (d_sel d') (sel_of cur) then [] else [12]) ++
   (if lnat_eqb (c_filtered cl) (no_filtered cur) then [] else [if sw then 13 else 11]) ++
   (if (sw && match n_last st with None => true | Some _ => false end)
       || Z.eqb (c_cursor cl) (no_cursor cur) then [] else [if sw then 14 else 11]))%N.

Definition nav2_next (k : c16case) (prev : nav_obs) (st : nav2_st) (c : nav_cmd2) (cur : nav_obs)
    : nav2_st :=
  let d := obs_dbg k prev st in
  let e := to_event prev cur c in
  let sw := switching d e in
  if switch_failed d e prev cur
  then mkN2 (n_oc st) (n_ofl st) None (n_live st) (n_olive st) (n_fresh st) else
  let before := if sw then n_oc st else no_cursor prev in
  let last' := if sets_cursor d e
               then Some (scrolled_time (k_msgs (k_of k (sel_of cur))) before (no_cursor cur))
               else n_last st in
  if sw then
    mkN2 (no_cursor prev) (no_filtered prev) last'
         (if no_active cur then false else n_olive st) (n_live st) (no_active cur)
  else
    match c with
    | NC NRefilter => mkN2 (n_oc st) (n_ofl st) last' (n_live st && negb (no_active cur)) (n_olive st) false
    | _ => mkN2 (n_oc st) (n_ofl st) last' (n_live st) (n_olive st) (n_fresh st)
    end.

Fixpoint nav2_mismatch (k : c16case) (prev : nav_obs) (st : nav2_st) (l : list (nav_cmd2 * nav_obs))
    : list N :=
  match l with
  | [] => []
  | (c, o) :: r => nav2_mismatch_one k prev st c o ++ nav2_mismatch k o (nav2_next k prev st c o) r
  end.

(* an early jump by id: the model looks the id up in the records received so
   far; not found = refused, nothing changes *)
Definition early_same (a b : nav_obs) : bool :=
  Z.eqb (no_cursor a) (no_cursor b) && lnat_eqb (no_filtered a) (no_filtered b)
  && Nat.eqb (no_sel a) (no_sel b).

Definition early_mismatch (k : c16case) : bool :=
  existsb (fun e => let '(id, n, a, b) := e in
                    Z.eqb (tx_index (firstn n (k_msgs k)) id) (-1) && negb (early_same a b))
          (o_early k).

Definition mismatch (k : c16case) : list N :=
  let '(ps, errs, mt) := model_parse k in
  ((if list_eqb parsed_eqb (o_parsed k) ps then [] else [1]) ++
  (if lnat_eqb (o_errors k) errs then [] else [2]) ++
  (if N.eqb (o_mtime k) mt then [] else [3]) ++
  (if all_ok (fun q r => Z.eqb r (tx_at_queue_tick (k_msgs k) q)) (o_qtick k) then [] else [4]) ++
  (if all_ok (fun q r => Z.eqb r (tx_at_htime (k_msgs k) q)) (o_htime k) then [] else [5]) ++
  (if all_ok (fun q r => Z.eqb r (tx_at_mach_time (o_parsed k) q)) (o_mtimeq k) then [] else [6]) ++
  (if all_ok (fun q r => Z.eqb r (tx_index (k_msgs k) q)) (o_txidx k)
      && all_ok (fun q r => Z.eqb r (tx_index (k_msgs2 k) q)) (o_txidx2 k) then [] else [7]) ++
  (if all_ok (fun tx row => list_eqb Bool.eqb row
                               (map (had_err_since (o_errors k) tx) (k_dists k))) (o_haderr k)
   then [] else [8]) ++
  (if all_ok (fun q r => Z.eqb r (filter_index_by_cursor1 (k_fset k) q)) (o_fidx k) then [] else [9]) ++
  (if N.eqb (k_nav k) 0 then [] else
     (if N.eqb (no_err (o_nav0 k)) 3 || lnat_eqb (no_filtered (o_nav0 k)) (nav0_filtered k)
      then [] else [10]) ++
     (if early_mismatch k then [15] else []) ++
     (if N.eqb (k_nav k) 3 then
        (if Nat.eqb (no_sel (o_nav0 k)) 0 then [] else [12]) ++
        nav2_mismatch k (o_nav0 k) (nav2_init k) (o_nav k)
      else if nav_mismatch k (o_nav0 k) (nav1 k) then [11] else [])))%N.

(* ------------------------------------------------------------------ kind 2 *)

Definition dedup (l : list N) : list N :=
  fold_right (fun x acc => if existsb (N.eqb x) acc then acc else x :: acc) [] l.

(* a listed record that does not match: which class? *)
Definition unsound_class (f : filters) (k : c16case) (live : bool) (i : nat) : N :=
  let tx := nth i (k_msgs k) dmsg in
  if live && m_queued tx && m_auto tx && f_autocanceled f then 601 else 60.

Definition filtered_codes (k : c16case) (live : bool) (o : nav_obs) : list N :=
  if negb (no_active o) then [] else
  flat_map (fun i =>
              if Nat.ltb i (length (k_msgs k))
                 && tx_matches (no_flags o) (k_health k) (k_msgs k) (o_parsed k) i
              then [] else [unsound_class (no_flags o) k live i])
           (no_filtered o).

(* the shown record does not match: which class? *)
Definition shown_codes (k : c16case) (live : bool) (o : nav_obs) : list N :=
  let len := length (k_msgs k) in
  if negb (cursor_in_range len (no_cursor o)) then [63%N]
  else if shown_matches (no_flags o) (k_health k) (k_msgs k) (o_parsed k) (no_cursor o) then []
  else if negb (no_active o) then
    (* nothing is skipped: filtersActive() is false although a flag is on *)
    (if f_checks (no_flags o) && m_check (nth (Z.to_nat (no_cursor o - 1)) (k_msgs k) dmsg)
     then [610%N] else [611%N])
  else
    let i := Z.to_nat (no_cursor o - 1) in
    if Z.eqb (index_of (no_cursor o - 1) (no_filtered o)) (-1) then [61%N]
    else [unsound_class (no_flags o) k live i + 1]%N.   (* 61 / 602: shown although listed wrongly *)

(* the debugger machine itself failed during the command. 640 / 650: the
   class "no group filter is on and the cursor is on the last record"
   (hNextTxIdx = len(MsgTxs): hUpdateTxBars / hNextTx index out of range; in
   the Auto state Paused the panic repeats forever) *)
Definition err_codes (k : c16case) (prev cur : nav_obs) : list N :=
  let len := Z.of_nat (length (k_msgs k)) in
  let cls := (negb (no_active prev) || negb (no_active cur))
             && (Z.eqb (no_cursor prev) len || Z.eqb (no_cursor cur) len) in
  (* a hung command repeats the previous snapshot: the cursor was on, or one
     step before, the last record *)
  let cls3 := negb (no_active prev)
              && (Z.eqb (no_cursor prev) len || Z.eqb (no_cursor prev + 1) len) in
  if N.eqb (no_err cur) 0 then []
  else if N.eqb (no_err cur) 3 then (if cls3 then [650%N] else [65%N])
  else if N.eqb (no_err cur) 1 && cls then [640%N] else [64%N].

(* a jump by id (ScrollToTx{TxId}) against the linear scan over the records *)
Definition jump_codes (k : c16case) (prev : nav_obs) (c : nav_cmd) (o : nav_obs) : list N :=
  match c with
  | NScrollId id =>
    if N.eqb (no_err o) 3 then []
    else id_jump_codes (no_active o) (no_filtered prev) (k_msgs k) id (no_cursor prev) (no_cursor o)
  | _ => []
  end.

(* live: the list was (partly) built message by message. A refilter
   recomputes it, after which it is an ordinary list again. *)
Fixpoint nav_codes (k : c16case) (live : bool) (prev : nav_obs) (l : list (nav_cmd * nav_obs)) : list N :=
  match l with
  | [] => []
  | (c, o) :: r =>
    let live' := match c with NRefilter => live && negb (no_active o) | _ => live end in
    err_codes k prev o ++
    (if N.eqb (no_err o) 3 then [] else filtered_codes k live' o ++ shown_codes k live' o) ++
    jump_codes k prev c o ++
    (match c, r with
     | NFwd a, (NBack b, o2) :: _ =>
       if Z.leb a 1 && Z.leb b 1
          && cursor_ok (no_active prev) (no_filtered prev) (length (k_msgs k)) (no_cursor prev)
          && negb (fwd_back_ok (no_cursor prev) (no_cursor o) (no_cursor o2))
       then [62%N] else []
     | _, _ => []
     end) ++
    nav_codes k live' o r
  end.

(* ---- two clients. A client switch recomputes the view of the newly
   selected client under the current flags: right after it the view is judged
   against the matching records of THAT client (66 / 67 / 660), the cursor
   against them (68); until the next toggle every cursor command is judged
   against a scan over the records (68 landed on a hidden record, 69 passed
   over a matching one). Everything else as with one client. *)
Definition step_target (k : c16case) (prev : nav_obs) (c : nav_cmd2) : option (Z * bool) :=
  match c with
  | NC NRefilter => None
  | NC c' => nav_target (k_msgs k) (no_cursor prev) c'
  | NSelect _ => None
  end.

Fixpoint nav2_codes (k : c16case) (prev : nav_obs) (st : nav2_st) (l : list (nav_cmd2 * nav_obs)) : list N :=
  match l with
  | [] => []
  | (c, o) :: r =>
    let d := obs_dbg k prev st in
    let e := to_event prev o c in
    let sw := switching d e && negb (switch_failed d e prev o) in
    let st' := nav2_next k prev st c o in
    let kp := k_of k (sel_of prev) in
    let ks := k_of k (sel_of o) in
    let len := length (k_msgs ks) in
    (if N.eqb (no_err o) 3 then err_codes kp prev o
     else if sw then err_codes ks o o else err_codes kp prev o) ++
    (if N.eqb (no_err o) 3 then []
     else if sw && no_active o then
       view_codes (no_flags o) (k_health ks) (k_msgs ks) (o_parsed ks) (no_filtered o) ++
       (if negb (cursor_in_range len (no_cursor o)) then [63%N]
        else if shown_matches (no_flags o) (k_health ks) (k_msgs ks) (o_parsed ks) (no_cursor o) then []
        else [68%N])
     else if negb sw && n_fresh st' && no_active o then
       (if negb (cursor_in_range len (no_cursor o)) then [63%N]
        else match step_target ks prev c with
             | Some (new, back) =>
               scan_codes (no_flags o) (k_health ks) (k_msgs ks) (o_parsed ks) new (no_cursor o) back
             | None => []
             end)
     else filtered_codes ks (n_live st') o ++ shown_codes ks (n_live st') o) ++
    (match c with NC c' => jump_codes kp prev c' o | NSelect _ => [] end) ++
    (match c, r with
     | NC (NFwd a), (NC (NBack b), o2) :: _ =>
       if Z.leb a 1 && Z.leb b 1
          && cursor_ok (no_active prev) (no_filtered prev) (length (k_msgs kp)) (no_cursor prev)
          && negb (fwd_back_ok (no_cursor prev) (no_cursor o) (no_cursor o2))
       then [62%N] else []
     | _, _ => []
     end) ++
    nav2_codes k o st' r
  end.

Definition violations (k : c16case) : list N :=
  let ms := k_msgs k in
  let mono_s := sums_monotone ms in
  let mono_q := qticks_monotone ms in
  dedup (
  (* (1) records *)
  (if k_machine k then
     records_codes (k_init k) (k_truth k) ms ++
     (if mono_q then [] else [40]) ++ (if mono_s then [] else [41])
   else []) ++
  (* (2) derived data, inside the domain of parse_derives_from_consecutive *)
  (if mono_s then
     all_derived_codes (k_n k) None ms (o_parsed k) ++ touched_codes (k_n k) (o_parsed k) ++
     (if lnat_eqb (o_errors k) (exp_errors (k_errst k) ms) then [] else [23]) ++
     (if N.eqb (o_mtime k) (sumN (m_clocks (last ms dmsg))) then [] else [24])
   else []) ++
  (if desc_sorted (o_errors k) then [] else [25]) ++
  (* (3) lookups *)
  (if mono_q then
     (if all_ok (fun q r => Z.eqb r (queue_tick_scan ms q)) (o_qtick k) then [] else [30])
   else []) ++
  (if htimes_monotone ms then
     (if all_ok (fun q r => Z.eqb r (htime_scan ms q)) (o_htime k) then [] else [31])
   else []) ++
  (if psums_monotone (o_parsed k) then
     flat_map (fun qr =>
                 let s := mach_time_scan (o_parsed k) (fst qr) in
                 if Z.eqb (snd qr) s then []
                 else if Z.eqb s (-1) && Z.eqb (snd qr) 0 then [33] else [32]) (o_mtimeq k)
   else []) ++
  flat_map (fun qr =>
              if Z.eqb (snd qr) (tx_index_scan ms (fst qr)) then []
              else if Z.eqb (snd qr) (-1)
                      && existsb (fun e => Nat.eqb (fst (fst (fst e))) (fst qr)) (o_early k)
                   then [341] else [34]) (o_txidx k) ++
  (if all_ok (fun q r => Z.eqb r (tx_index_scan (k_msgs2 k) q)) (o_txidx2 k) then [] else [34]) ++
  flat_map (fun e => let '(id, n, a, b) := e in
                     if Z.eqb (tx_index_scan (firstn n ms) id) (-1) && negb (Z.eqb (no_cursor a) (no_cursor b))
                     then [71] else []) (o_early k) ++
  (if desc_sorted (o_errors k) then
     (if all_ok (fun tx row => list_eqb Bool.eqb row
                                 (map (had_err_scan (o_errors k) tx) (k_dists k))) (o_haderr k)
      then [] else [35])
   else []) ++
  (if all_ok (fun q r => Z.eqb r (filter_index_scan (k_fset k) q)) (o_fidx k) then [] else [36]) ++
  (* (5) export / import *)
  (if list_eqb msg_eqb (k_msgs k) (o_stored k) then [] else [50]) ++
  (if k_reimp k then
     (if list_eqb msg_eqb (o_stored k) (o_re_msgs k) then [] else [51]) ++
     (if list_eqb parsed_eqb (o_parsed k) (o_re_parsed k) && lnat_eqb (o_errors k) (o_re_errors k)
      then []
      else if list_eqb parsed_eqb_mod_any (o_parsed k) (o_re_parsed k)
              && lnat_eqb (o_errors k) (o_re_errors k) then [521] else [52])
   else []) ++
  (* (4) filters and navigation *)
  (if N.eqb (k_nav k) 0 then [] else
     let live := is_live k in
     err_codes k (o_nav0 k) (o_nav0 k) ++
     (if N.eqb (no_err (o_nav0 k)) 3 then []
      else filtered_codes k live (o_nav0 k) ++ shown_codes k live (o_nav0 k)) ++
     (if N.eqb (k_nav k) 3 then nav2_codes k (o_nav0 k) (nav2_init k) (o_nav k)
      else nav_codes k live (o_nav0 k) (nav1 k))))%N.

Definition check_one (ic : N * c16case) : list (N * N * N) :=
  let '(i, k) := ic in
  map (fun d => (i, 1%N, d)) (mismatch k) ++ map (fun d => (i, 2%N, d)) (violations k).

Definition check_all (cs : list (N * c16case)) : list (N * N * N) :=
  flat_map check_one cs.
