(* Shared run-time evaluation for the sequential properties: the history
   case type, the model run on the case's inputs, and the comparison of the
   model's trace with the trace observed on the implementation. *)

From Coq Require Import List NArith Bool Arith.
From AMV Require Import Base.ListSet Model.Schema Model.Resolver Model.Machine.
Import ListNotations.

Record hcase := {
  h_schema : schema;
  h_topo : list nat;            (* resolver topology as observed *)
  h_sorted : list nat;          (* state indexes in alphabetical name order *)
  h_health : list nat;
  h_exc : nat;
  h_qlimit : N;
  h_bindings : list (list hkey);
  h_actions : list haction;
  h_calls : list api_call;
  h_init : list nat;            (* initial ordered active set (VerifSetActive), [] = fresh machine *)
  h_obs : trace;                (* what the implementation did *)
  h_extra : list (list tev);    (* event sequences seen by additional tracers *)
  h_open_ticks : list N;        (* queue ticks returned to handlers whose WhenQueue channel is
                                   still open after the history (machine idle) *)
  h_interr : nat;               (* errors received on Machine.ErrInternal() *)
  h_rerun : N                   (* re-executions of the same case: 0 = all identical,
                                   1 = results/times differ, 2 = handler calls differ,
                                   3 = transition records differ *)
}.

Definition hist_fuel : nat := 5000.

Definition model_trace (k : hcase) : trace :=
  let s0 := init_st (h_schema k) (topo_sort (h_schema k) (h_sorted k)) (h_health k) (h_exc k)
                    (h_bindings k) (h_qlimit k) (h_actions k) in
  let s1 := match h_init k with
            | [] => s0
            | act => set_mach s0 (map (fun i => if mem i act then 1%N else 0%N)
                                      (seq 0 (length (h_schema k)))) act
            end in
  run hist_fuel s1 (h_calls k).

Fixpoint nlist_eqb (a b : list N) : bool :=
  match a, b with
  | [], [] => true
  | x :: r, y :: s => N.eqb x y && nlist_eqb r s
  | _, _ => false
  end.

Section ListEq.
  Context {A : Type} (eqb : A -> A -> bool).
  Fixpoint lists_eqb (a b : list A) : bool :=
    match a, b with
    | [], [] => true
    | x :: r, y :: s => eqb x y && lists_eqb r s
    | _, _ => false
    end.
End ListEq.

Definition callobs_eqb (a b : callobs) : bool :=
  result_eqb (co_result a) (co_result b) && nlist_eqb (co_time a) (co_time b)
  && list_eqb (co_active a) (co_active b) && N.eqb (co_qtick a) (co_qtick b)
  && Nat.eqb (co_ntx a) (co_ntx b) && N.eqb (co_err a) (co_err b).

Definition txrec_eqb (a b : txrec) : bool :=
  mut_type_eqb (tx_type a) (tx_type b) && list_eqb (tx_called a) (tx_called b)
  && Bool.eqb (tx_auto a) (tx_auto b) && Bool.eqb (tx_check a) (tx_check b)
  && N.eqb (tx_qtick a) (tx_qtick b)
  && nlist_eqb (tx_before a) (tx_before b) && nlist_eqb (tx_after a) (tx_after b)
  && list_eqb (tx_active_before a) (tx_active_before b)
  && list_eqb (tx_target a) (tx_target b) && Bool.eqb (tx_accepted a) (tx_accepted b)
  && nlist_eqb (tx_mach_after a) (tx_mach_after b)
  && Nat.eqb (tx_hfrom a) (tx_hfrom b) && Nat.eqb (tx_hto a) (tx_hto b).

Definition hlentry_eqb (a b : hlentry) : bool :=
  hkey_eqb (hl_key a) (hl_key b) && Nat.eqb (hl_binding a) (hl_binding b)
  && list_eqb (hl_active a) (hl_active b) && nlist_eqb (hl_clock a) (hl_clock b)
  && lists_eqb result_eqb (hl_results a) (hl_results b)
  && Bool.eqb (hl_ret a) (hl_ret b).

(* first differing observable, as a code *)
Definition hist_mismatch (k : hcase) : list N :=
  let m := model_trace k in
  let o := h_obs k in
  if negb (tr_fuel_ok m) then [10%N]
  else if negb (list_eqb (h_topo k) (topo_sort (h_schema k) (h_sorted k))) then [11%N]
  else if negb (Bool.eqb (tr_crashed m) (tr_crashed o)) then [8%N]
  else if negb (Bool.eqb (tr_hung m) (tr_hung o)) then [12%N]
  else if negb (lists_eqb txrec_eqb (tr_txs m) (tr_txs o)) then
    (if Nat.eqb (length (tr_txs m)) (length (tr_txs o)) then [5%N] else [4%N])
  else if negb (lists_eqb callobs_eqb (tr_calls m) (tr_calls o)) then
    (if lists_eqb result_eqb (map co_result (tr_calls m)) (map co_result (tr_calls o))
     then [2%N] else [1%N])
  else if negb (lists_eqb tev_eqb (tr_evs m) (tr_evs o)) then [6%N]
  else if negb (lists_eqb hlentry_eqb (tr_hlog m) (tr_hlog o)) then [7%N]
  else [].

(* generic driver: mismatch (kind 1) + property violations (kind 2) *)
Definition check_hist (viol : hcase -> list N) (cs : list (N * hcase)) : list (N * N * N) :=
  flat_map (fun ic : N * hcase =>
    let '(i, k) := ic in
    map (fun d => (i, 1%N, d)) (hist_mismatch k)
    ++ map (fun d => (i, 2%N, d)) (viol k)) cs.
