From Coq Require Import List NArith Bool Arith.
From AMV Require Import Base.ListSet Model.Schema Model.Machine Run.EvalHist Spec.C01 Spec.C01f.
From AMV Require Export Spec.C01r.
Import ListNotations.

(* a history whose handler script contains a fault is judged by the every-history
   part of the predicate (Spec/C01f.v, theorem c01_judge_run) *)
Definition violations (k : hcase) : list N :=
  nodup N.eq_dec (c01_judge (h_schema k) (h_actions k) (h_obs k)).
Inductive c01case := C01H (k : hcase) | C01R (r : rcase).

Definition check_all (cs : list (N * c01case)) : list (N * N * N) :=
  flat_map (fun ic : N * c01case =>
    match snd ic with
    | C01H k => check_hist violations [(fst ic, k)]
    | C01R r => map (fun c => (fst ic, 2%N, c)) (reader_codes r)
    end) cs.
