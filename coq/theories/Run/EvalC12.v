(* C12 - run-time evaluation of the race detector's observations against the
   lock table.

   A case is one concurrent program that the harness ran in a child process
   built with -race: the methods every goroutine loops over, whether the
   export copy of the state names was built before the goroutines started,
   and the observation (raced?, the field the first report was attributed to,
   the two public methods the racing goroutines were in).

   kind 1: 1 = a method of the table does not exist any more (reflection)
   kind 2: 100 + f  = race on field f that the table (variant Cur = /repo as it
                      is) PREDICTS for the blamed pair, i.e. an unprotected pair
                      involving VerifyStates, SetSchema or Import - the known
                      findings (f = 0 activeStates, 1 clock, 4 schema,
                      5 stateNames, 21 resolver index)
           199      = a race the harness could not attribute to any field, in a
                      program for which the table predicts a race
           200 + c  = race on a field of class c (Spec.C12.field_class) for a
                      pair the table proves protected; c = 0: unattributed.
                      The races repaired by f998d9b / f656cf0 / 031458c would
                      come back as 203 / 209 / 209
   Predicted-but-not-observed never alarms. Proof-free. *)
From Coq Require Import List Bool Arith NArith String.
From AMV Require Import Conc.Locks Spec.C12.
Import ListNotations.

Record c12case := {
  k_warm : bool;
  k_threads : list (list string);
  k_missing : list string;
  o_raced : bool;
  o_fields : list nat;      (* candidate fields of the first report; a singleton
                               when the two source lines name the field, the
                               fields named in the enclosing functions
                               otherwise; [] = not attributed *)
  o_m1 : string;            (* "" = not attributed *)
  o_m2 : string
}.

(* duplicate-free summaries of the table, computed once *)
Definition summ_table (v : variant) : list (string * list acc) :=
  map (fun e => (e_name e, csumm (e_prog e))) (api_table v).

(* /repo as it is: since f998d9b a cold StateNames() is the same entry *)
Definition summ_cur := Eval vm_compute in (summ_table Cur).

Definition summ_of (warm : bool) (name : string) : option (list acc) :=
  match find (fun x => String.eqb (fst x) name) summ_cur with
  | Some x => Some (snd x)
  | None => None
  end.

Definition racy_fields_s (xs ys : list acc) : list field :=
  filter (fun f => negb (accs_protected f xs ys))
    (dedupb Nat.eqb (map a_field xs ++ map a_field ys)).

Definition racy_names (warm : bool) (a b : string) : list field :=
  match summ_of warm a, summ_of warm b with
  | Some xs, Some ys => racy_fields_s xs ys
  | _, _ => []
  end.

(* every pair of methods run by two different goroutines *)
Fixpoint cross_pairs (ths : list (list string)) : list (string * string) :=
  match ths with
  | [] => []
  | t :: r =>
      flat_map (fun a => flat_map (fun u => map (fun b => (a, b)) u) r) t ++ cross_pairs r
  end.

Definition known_name (warm : bool) (n : string) : bool :=
  match summ_of warm n with Some _ => true | None => false end.

(* k_warm (the export copy of the state names was built before the start) is
   recorded but no longer matters for the prediction *)
Definition warm_eff (c : c12case) : bool := k_warm c.

Definition predicted (c : c12case) : list field :=
  let w := warm_eff c in
  if known_name w (o_m1 c) && known_name w (o_m2 c)
  then racy_names w (o_m1 c) (o_m2 c)
  else dedupb Nat.eqb
         (flat_map (fun ab => racy_names w (fst ab) (snd ab))
                   (dedupb (fun x y => String.eqb (fst x) (fst y) && String.eqb (snd x) (snd y))
                           (cross_pairs (k_threads c)))).

Definition check_case (c : c12case) : list (N * N) :=
  (match k_missing c with [] => [] | _ => [(1%N, 1%N)] end) ++
  (if o_raced c then
     let pr := predicted c in
     match find (fun f => existsb (Nat.eqb f) pr) (o_fields c) with
     | Some f => [(2%N, N.of_nat (100 + f))]
     | None =>
         match o_fields c, pr with
         | [], [] => [(2%N, 200%N)]
         | [], _ => [(2%N, 199%N)]
         | f :: _, _ => [(2%N, N.of_nat (200 + field_class f))]
         end
     end
   else []).

Definition check_all (cases : list (N * c12case)) : list (N * N * N) :=
  flat_map (fun ic => map (fun kd => (fst ic, fst kd, snd kd)) (check_case (snd ic))) cases.

(* ------------------------------------------------------------ dump for the harness *)
(* printed by a tiny .v file that the harness compiles at start-up: the method
   list with footprints (which fields a call reads / writes), the unprotected
   pairs, the field identifiers *)
Definition dump_footprints := Eval vm_compute in (footprints Cur).
