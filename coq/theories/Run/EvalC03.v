From Coq Require Import List NArith Bool Arith.
From AMV Require Import Base.ListSet Model.Schema Model.Machine Run.EvalHist Spec.C03.
Import ListNotations.
Definition violations (k : hcase) : list N :=
  nodup N.eq_dec (c03_codes (h_schema k) (Nat.eqb (length (h_bindings k)) 0) (h_calls k) (h_obs k)).
Definition check_all := check_hist violations.
