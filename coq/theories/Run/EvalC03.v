From Coq Require Import List NArith Bool Arith.
From AMV Require Import Base.ListSet Model.Schema Model.Machine Run.EvalHist Spec.C03.
From AMV Require Export Spec.C03e.
Import ListNotations.
Definition violations (k : hcase) : list N :=
  nodup N.eq_dec (c03_codes (h_schema k) (Nat.eqb (length (h_bindings k)) 0) (h_calls k) (h_obs k)).
Inductive c03case := C03H (k : hcase) | C03E (e : ecase).

Definition check_all (cs : list (N * c03case)) : list (N * N * N) :=
  flat_map (fun ic : N * c03case =>
    match snd ic with
    | C03H k => check_hist violations [(fst ic, k)]
    | C03E e => map (fun c => (fst ic, 2%N, c)) (early_codes e)
    end) cs.
