(* Run-time evaluation of C20 cases.
   kind 1: the model (Model/Helpers.v) and the implementation returned
           different values for the same call;
   kind 2: a clause of the property (Spec/C20.v) is false on the value the
           IMPLEMENTATION returned. The detail code names the clause and the
           input class. Sweep cases (exploration of the rest of the exported
           surface) only have a kind-2 reading: anything but "ok". *)

From Coq Require Import List NArith ZArith Bool Arith.
From AMV Require Import Base.ListSet Model.Helpers Spec.C20.
Import ListNotations.

Inductive c20case :=
| KSet (op : set_op) (o : val)
| KTime (op : time_op) (o : val)
| KParse (n : nat) (fn : N) (states : sl) (o : val)
| KQueue (n : nat) (queue : list qmut) (fn : N) (q : qquery) (threshold : Z) (o : val)
(* item: which function / scenario (table in bin/props.d/C20.json);
   phase: 0 fresh 1 mid-queue 2 errored 3 after SetSchema 4 disposed 5 n/a;
   obs: 0 ok 1 panic 2 hang 3 wrong result 4 process died *)
| KSweep (item phase obs : N).

(* ---- equality of values *)

Fixpoint list_Z_eqb (a b : list Z) : bool :=
  match a, b with
  | [], [] => true
  | x :: r, y :: s => Z.eqb x y && list_Z_eqb r s
  | _, _ => false
  end.
Fixpoint list_N_eqb (a b : list N) : bool :=
  match a, b with
  | [], [] => true
  | x :: r, y :: s => N.eqb x y && list_N_eqb r s
  | _, _ => false
  end.
Definition name_eqb (a b : name) : bool :=
  match a, b with
  | Known x, Known y => Nat.eqb x y
  | Unknown x, Unknown y => Z.eqb x y
  | NoName, NoName => true
  | _, _ => false
  end.
Fixpoint list_name_eqb (a b : list name) : bool :=
  match a, b with
  | [], [] => true
  | x :: r, y :: s => name_eqb x y && list_name_eqb r s
  | _, _ => false
  end.

Definition val_eqb (a b : val) : bool :=
  match a, b with
  | VPanic, VPanic => true
  | VS x, VS y => list_eqb x y
  | VB x, VB y => Bool.eqb x y
  | VI x, VI y => list_Z_eqb x y
  | VN x, VN y => N.eqb x y
  | VT x, VT y => list_N_eqb x y
  | VNames x, VNames y => list_name_eqb x y
  | VQ f i t, VQ g j u => Bool.eqb f g && N.eqb i j && N.eqb t u
  | _, _ => false
  end.

(* same, but state lists compared as duplicate-free sets (Go map order) *)
Definition val_eqb_unordered (a b : val) : bool :=
  match a, b with
  | VS x, VS y => perm_eqb x y && nodupb x && nodupb y
  | _, _ => val_eqb a b
  end.

(* ---- constructor numbers, used in the detail codes *)

Definition set_tag (op : set_op) : N :=
  match op with
  | OAdd _ _ => 1 | OAdd1 _ _ => 2 | OSAdd _ => 3 | ODelete _ _ => 4 | ODelete1 _ _ => 5
  | OSRem _ _ => 6 | OSub _ _ => 7 | OShared _ _ => 8 | OEqual _ _ => 9
  | OEqualOrder _ _ => 10 | OUnique _ => 11 | OHas _ _ => 12 | OIndex _ _ => 13
  | OIndexToStates _ _ => 14
  end%N.

Definition time_tag (op : time_op) : N :=
  match op with
  | TNew _ _ => 1 | TIncrement _ _ => 2 | TAdd _ _ => 3 | TFilter _ _ => 4 | TSum _ _ => 5
  | TDiffSince _ _ => 6 | TNonZero _ => 7 | TAfter _ _ _ => 8 | TBefore _ _ _ => 9
  | TEqual _ _ _ => 10 | TTick _ _ => 11 | TIs1 _ _ => 12 | TIs _ _ => 13 | TNot _ _ => 14
  | TNot1 _ _ => 15 | TAny _ _ => 16 | TAny1 _ _ => 17 | TActive _ _ => 18 | TTickFn _ _ => 19
  | XStateName _ _ => 20 | XSum _ _ _ => 21 | XFilter _ _ _ => 22 | XNonZero _ _ => 23
  | XIs _ _ _ => 24 | XNot _ _ _ => 25 | XAny1 _ _ _ => 26 | XActive _ _ _ => 27
  end%N.

(* ---- kind 1 *)

Definition mismatch (k : c20case) : list N :=
  match k with
  | KSet op o => if val_eqb o (run_set op) then [] else [100 + set_tag op]%N
  | KTime op o => if val_eqb o (run_time op) then [] else [200 + time_tag op]%N
  | KParse n fn states o =>
    let '(ordered, v) := run_parse n fn states in
    if (if ordered then val_eqb o v else val_eqb_unordered o v) then [] else [300 + fn]%N
  | KQueue n queue fn q th o =>
    if val_eqb o (run_queue n queue fn q th) then [] else [400 + fn]%N
  | KSweep _ _ _ => []
  end.

(* ---- kind 2 *)

(* S.Delete / S.Delete1 / SRem: why did a name survive?
   201/202/206: there is exactly one list (the call S.Delete(list),
                S.Delete1(names...), SRem(s, list)) and nothing was removed;
   203: several lists, and a name of the FIRST list survived untouched (none of
        its occurrences was removed: the loop skipped that list);
   204: a name survived although an occurrence of it was removed (the receiver
        held it more than once; slicesWithout drops the first occurrence only);
   205: anything else (something was lost or invented). *)
Definition count (x : nat) (l : sl) : nat := length (filter (Nat.eqb x) l).

(* a named state is still there although one of its occurrences was removed *)
Definition removed_but_left (s r : sl) (x : nat) : bool :=
  mem x r && Nat.ltb (count x r) (count x s).

Definition delete_class (base : N) (s : sl) (ls : list sl) (r : sl) : N :=
  match ls with
  | [l] => if list_eqb r s then base
           else if every s r && existsb (fun x => mem x r) l then 204 else 205
  | l :: rest =>
    if negb (every s r) then 205
    else if existsb (removed_but_left s r) (concat ls) then 204
    else if existsb (fun x => mem x r) l then 203 else 205
  | [] => 205
  end%N.

Definition set_violations (op : set_op) (o : val) : list N :=
  if negb (not_panic o) then (if set_in_domain op then [229] else [])%N else
  match op, o with
  | OAdd s ls, VS r =>
    if add_ok s ls r then [] else
    match ls with [] => [211] | _ => [210] end
  | OAdd1 s names, VS r => if add_ok s [names] r then [] else [212]
  | OSAdd ls, VS r => if add_ok [] ls r then [] else [213]
  | ODelete s ls, VS r => if delete_ok s ls r then [] else [delete_class 201 s ls r]
  | ODelete1 s names, VS r => if delete_ok s [names] r then [] else [delete_class 202 s [names] r]
  | OSRem s ls, VS r => if delete_ok s ls r then [] else [delete_class 206 s ls r]
  | OSub a b, VS r => if sub_ok a b r then [] else [220]
  | OShared a b, VS r => if shared_ok a b r then [] else [221]
  | OEqual a b, VB r => if equal_ok a b r then [] else [222]
  | OUnique a, VS r => if unique_ok a r then [] else [223]
  | OHas a x, VB r => if Bool.eqb r (mem x a) then [] else [224]
  | _, _ => []
  end%N.

Definition time_violations (op : time_op) (o : val) : list N :=
  match o with
  | VPanic =>
    if time_in_domain op then
      match op with
      | TEqual false t t2 => [252]   (* non-strict Equal, receiver longer *)
      | _ => [2500 + time_tag op]
      end
    else []
  | VS r =>
    match op with
    | TActive t idxs => if active_ok t idxs r then [] else [251]
    | _ => []
    end
  | _ => []
  end%N.

Definition parse_violations (n : nat) (fn : N) (states : sl) (o : val) : list N :=
  match fn, o with
  | 0%N, VS r =>
    if parse_ok n states r then []
    else if existsb (fun x => negb (known n x)) r && has_known_dup n [] states
         then [231]%N else [230]%N
  | 0%N, _ => [232]%N    (* ParseStates never panics *)
  | _, VPanic => if forallb (known n) states then [233]%N else []
  | _, _ => []
  end.

Definition queue_violations (n : nat) (queue : list qmut) (fn : N) (q : qquery) (o : val)
  : list N :=
  match o with
  | VPanic =>
    match qq_pos q, queue with
    | 1%N, [] =>                        (* PositionFirst on an empty queue *)
      match fn with 0%N => [241]%N | 2%N => [245]%N | 3%N => [246]%N | _ => [240]%N end
    | _, _ => [240]%N
    end
  | _ =>
    match fn with
    | 0%N =>
      (if is_queued_sound n queue q o then [] else
         match qq_pos q with 2%N => [242]%N | _ => [243]%N end) ++
      (if is_queued_complete n queue q o then [] else [244]%N)
    | _ => []
    end
  end.

Definition violations (k : c20case) : list N :=
  match k with
  | KSet op o => set_violations op o
  | KTime op o => time_violations op o
  | KParse n fn states o => parse_violations n fn states o
  | KQueue n queue fn q th o => queue_violations n queue fn q o
  | KSweep item phase obs =>
    match obs with 0%N => [] | _ => [9000 + 10 * item + obs]%N end
  end.

Definition check_one (ic : N * c20case) : list (N * N * N) :=
  let '(i, k) := ic in
  map (fun d => (i, 1%N, d)) (mismatch k) ++ map (fun d => (i, 2%N, d)) (violations k).

Definition check_all (cs : list (N * c20case)) : list (N * N * N) :=
  flat_map check_one cs.
