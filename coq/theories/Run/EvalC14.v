From Coq Require Import List NArith Bool Arith.
From AMV Require Import Base.ListSet Model.Schema Model.Machine Run.EvalHist Spec.C14.
Import ListNotations.
Definition violations (k : hcase) : list N := nodup N.eq_dec (c14_codes (h_obs k) (h_extra k)).
Definition check_all := check_hist violations.
