From Coq Require Import List NArith Bool Arith.
From AMV Require Import Base.ListSet Model.Schema Model.Machine Run.EvalHist Spec.C14 Spec.C14f.
Import ListNotations.
(* judged with the fault-aware predicate (Spec/C14f.v): identical to
   c14_codes on fault-free scripts (theorem c14f_conservative) *)
Definition violations (k : hcase) : list N :=
  nodup N.eq_dec (c14f_codes (h_actions k) (h_obs k) (h_extra k)).
Definition check_all := check_hist violations.
