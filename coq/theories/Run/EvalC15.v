(* Run-time evaluation of C15 cases. A pool case is the list of transitions
   the real Supervisor machine went through, each classified as one event of
   Conc/Pool.v with the (tracked, ready) samples the tracer took. Kind 1: the
   event model replayed on the same events disagrees with the implementation
   (bookkeeping, gate decisions, ready bounds). Kind 2: a clause of Spec/C15.v
   is false on the implementation's observation. A sets case is a list of
   active sets reached by a handler-less machine of a real schema.

   Rounds of the normalizer: the listing (Add ListWorkers{""}) is the event
   ENormalize; its record carries the tracked count of that very transition
   (what ListWorkersState handed out is a snapshot of the same map) and the
   number of ForkWorker mutations the listing goroutine queued afterwards
   (attributed by goroutine, so nothing asynchronous can blur the count). *)
From Coq Require Import List NArith Bool Arith.
From AMV Require Import Base.ListSet Model.Schema Spec.C19 Conc.Pool Spec.C15.
Import ListNotations.
Open Scope N_scope.

Record oev := {
  o_ev : event;                (* the mutation, classified *)
  o_acc : bool;                (* Transition.IsAccepted at TransitionEnd *)
  o_fgate : option (N * N);    (* (tracked, ready) when ForkWorkerEnter / ForkingWorkerEnter was called *)
  o_rgate : option (N * N);    (* (tracked, ready) when PoolReadyEnter / PoolReadyExit was called *)
  o_rexit : bool;              (* ... it was PoolReadyExit *)
  o_rstable : bool;            (* the same sample when that handler returned *)
  o_tracked : N;               (* VerifPool() at TransitionEnd *)
  o_ready : N;
  o_min : N;
  o_exact : bool;              (* driver: no asynchronous change of a worker's mirror is pending *)
  o_before : list nat;         (* active states before / after (indexes of the real machine) *)
  o_after : list nat;
  o_kills : list nat;          (* keys of the Add KillingWorker mutations queued during the transition *)
  o_started : bool;            (* ForkingWorkerState ran: the fork was started *)
  o_round : option (N * N * bool);
                               (* ENormalize: (id of the round, ForkWorker mutations its goroutine
                                  queued after this listing and before its next mutation, that
                                  count is final: the goroutine was seen to move on and the
                                  listing was answered in time) *)
  o_src : N                    (* EForkReq / EForking: id of the round that requested the fork;
                                  0: not a normalizer round (the driver) *)
}.

(* [emulti]: ErrWorker is a Multi state in the real (regenerated) schema *)
Definition fx_of (emulti : bool) : fixes := {| fx_insert_gate := false; fx_err_multi := emulti |}.

Inductive c15case :=
| C15Pool (c : cfg) (emulti : bool) (pr ew : nat) (groups : list (N * list nat)) (evs : list oev)
          (wgroups : list (N * list nat)) (wsets : list (list nat))
| C15Sets (sc : schema) (groups : list (N * list nat)) (sets : list (list nat)).

Definition is_fork_ev (e : event) : bool :=
  match e with EForkReq | EForking _ => true | _ => false end.
Definition is_ins (e : event) : bool := match e with ESetIns _ => true | _ => false end.
Definition is_try (e : event) : bool :=
  match e with ETryReady | ETryUnready => true | _ => false end.

Definition group_codes (groups : list (N * list nat)) (active : list nat) : list (N * N) :=
  flat_map (fun cg : N * list nat =>
    if exclusive_ok (snd cg) active then [] else [(2, fst cg)]) groups.

(* ErrWorker's activity is taken from the observation (it is also dropped by
   paths the event model does not have: handler-timeout recovery) *)
Definition synced (ew : nat) (s : st) (o : oev) : st := set_errworker s (mem ew (o_before o)).

(* the kill requests are taken from the observation as well, so that the
   error clause is judged on what the implementation requested *)
Definition mark_kill (s : st) (k : nat) : st :=
  on_worker s k (fun i => {| w_conn := w_conn i; w_ready := w_ready i; w_errs := w_errs i;
                             w_recent := w_recent i; w_killreq := true;
                             w_delivered := w_delivered i; w_fork := w_fork i |}).

Definition set_kill (s : st) (k : nat) (b : bool) : st :=
  on_worker s k (fun i => {| w_conn := w_conn i; w_ready := w_ready i; w_errs := w_errs i;
                             w_recent := w_recent i; w_killreq := b;
                             w_delivered := w_delivered i; w_fork := w_fork i |}).

(* the model's own kill request is replaced by what was observed *)
Definition observed_kills (before after : st) (o : oev) : st :=
  let s1 := match o_ev o with
            | EErr k _ =>
              set_kill after k (match wfind k (s_workers before) with
                                | Some j => w_killreq j
                                | None => false
                                end)
            | _ => after
            end in
  fold_left mark_kill (o_kills o) s1.

(* the model's state after the event, given what the implementation decided *)
Definition model_next (c : cfg) (em : bool) (ew : nat) (s : st) (o : oev) : st :=
  observed_kills s
    (if o_acc o then effect (fx_of em) c (synced ew s o) (o_ev o) else synced ew s o) o.

Definition mismatch (c : cfg) (em : bool) (pr ew : nat) (s : st) (o : oev) : list (N * N) :=
  let s' := model_next c em ew s o in
  (if tracked s' =? o_tracked o then [] else [(1, 1)])
  ++ (match o_fgate o with
      | Some (t, _) =>
        (if is_fork_ev (o_ev o) && negb (Bool.eqb (gate (fx_of em) c s (o_ev o)) (o_acc o))
         then [(1, 2)] else [])
        ++ (if t =? tracked s then [] else [(1, 9)])
      | None => []
      end)
  ++ (match o_rgate o with
      | Some (_, r) =>
        if o_rstable o then
          let expect := if o_rexit o then r <? min_eff c else min_eff c <=? r in
          if negb expect && o_acc o then [(1, 3)]
          else if expect && negb (o_acc o) && is_try (o_ev o) then [(1, 3)] else []
        else []
      | None => []
      end)
  ++ (if o_ready o <=? ready_bound s' then [] else [(1, 4)])
  ++ (if o_exact o && negb (o_ready o =? ready s') then [(1, 5)] else [])
  ++ (if o_min o =? min_eff c then [] else [(1, 6)])
  ++ (match o_ev o with
      | ETryReady => if o_acc o && negb (mem pr (o_after o)) then [(1, 8)] else []
      | ETryUnready => if o_acc o && mem pr (o_after o) then [(1, 8)] else []
      | _ => []
      end)
  (* the forks a round requests: the model's count for the listing it got *)
  ++ (match o_ev o, o_round o with
      | ENormalize, Some (_, n, final) =>
        let expect := if o_acc o then requests c s ENormalize else 0 in
        if final then (if n =? expect then [] else [(1, 10)])
        else (if n <=? expect then [] else [(1, 10)])
      | ENormalize, None => [(1, 11)]
      | _, _ => []
      end).

(* does the model request a kill for this event? (key, expected) *)
Definition lost (em : bool) (ew : nat) (o : oev) : bool := negb em && mem ew (o_before o).

Definition expect_kill (c : cfg) (em : bool) (ew : nat) (s : st) (o : oev) : option (nat * bool) :=
  match o_ev o with
  | EErr k counted =>
    Some (k, o_acc o && counted && negb (lost em ew o) &&
             match wfind k (s_workers s) with
             | Some i => over_limit c (w_errs i + 1)
             | None => false
             end)
  | _ => None
  end.

(* the worker the error was raised for accumulated more than the limit and no
   kill has been requested for it: was this error counted at all? *)
Definition kill_codes (c : cfg) (em : bool) (ew : nat) (s' : st) (o : oev) : list (N * N) :=
  match o_ev o with
  | EErr k true =>
    match wfind k (s_workers s') with
    | Some i' => if kill_ok c i' then []
                 else [(2, if lost em ew o then 159 else 155)]
    | None => []
    end
  | _ => []
  end.

(* rounds that requested more than their free slots, and the keys of the
   workers forked on their request ([t_keys] follows the re-keying) *)
Record taint := { t_rounds : list N; t_keys : list nat }.
Definition no_taint : taint := {| t_rounds := []; t_keys := [] |}.

Definition memN (x : N) (l : list N) : bool := existsb (N.eqb x) l.

Definition taint_next (c : cfg) (tn : taint) (o : oev) : taint :=
  match o_ev o with
  | ENormalize =>
    match o_round o with
    | Some (id, n, _) =>
      if round_ok c (o_tracked o) n then tn
      else {| t_rounds := id :: t_rounds tn; t_keys := t_keys tn |}
    | None => tn
    end
  | EForking k =>
    if memN (o_src o) (t_rounds tn) then {| t_rounds := t_rounds tn; t_keys := k :: t_keys tn |}
    else tn
  | ERekey b a =>
    if o_acc o && mem b (t_keys tn) then {| t_rounds := t_rounds tn; t_keys := a :: t_keys tn |}
    else tn
  | _ => tn
  end.

(* a tracked worker stems from a fork requested by such a round *)
Definition tainted_pool (tn : taint) (s : st) : bool :=
  existsb (fun p : nat * winfo => mem (fst p) (t_keys tn)) (s_workers s).

Definition violations (c : cfg) (em : bool) (pr ew : nat) (groups : list (N * list nat)) (s : st) (prev : N)
           (tn : taint) (o : oev) : list (N * N) :=
  let was := mem pr (o_before o) in
  let now := mem pr (o_after o) in
  let s' := model_next c em ew s o in
  (* tracked > Max, reported where the count grows beyond Max. The known
     "forks in flight are not counted" (151) only when the count grew by a fork
     completion, no tracked worker was forked on the request of a round that
     asked for more than its free slots, the event model arrives at the same
     count, and the forks in flight account for the excess (Props bound_partial: tracked + in flight <= Max + peak - 1,
     here with the implementation's tracked count) *)
  (if negb (bound_ok c (o_tracked o)) && (prev <? o_tracked o)
   then [(2, if is_ins (o_ev o) && negb (tainted_pool (taint_next c tn o) s')
                && (o_tracked o =? tracked s')
                && (s_foreign s' || bound_partial_obs c (o_tracked o) s')
             then 151 else 150)]
   else [])
  (* WorkerForked added an entry instead of moving one *)
  ++ (match o_ev o with
      | ERekey _ _ => if rekey_ok prev (o_tracked o) then [] else [(2, 160)]
      | _ => []
      end)
  (* a round of the normalizer requested more forks than the free slots it saw *)
  ++ (match o_ev o, o_round o with
      | ENormalize, Some (_, n, _) => if round_ok c (o_tracked o) n then [] else [(2, 158)]
      | _, _ => []
      end)
  (* fork path entered although the gate saw tracked >= Max *)
  ++ (match o_fgate o with
      | Some (t, _) =>
        if o_acc o && is_fork_ev (o_ev o) && negb (fork_ok c t) then [(2, 152)] else []
      | None => []
      end)
  (* PoolReady activated *)
  ++ (if negb was && now then
        match o_rgate o with
        | Some (_, r) =>
          if o_rexit o then [(2, 157)]
          else if o_rstable o then (if activation_ok c was now r then [] else [(2, 153)]) else []
        | None => [(2, 157)]
        end
      else [])
  (* PoolReady withdrawn *)
  ++ (if was && negb now then
        match o_rgate o with
        | Some (_, r) =>
          if o_rexit o
          then (if o_rstable o then (if withdrawal_ok c was now r then [] else [(2, 154)]) else [])
          else (if withdrawal_ok c was now (o_ready o) then [] else [(2, 156)])
        | None => if withdrawal_ok c was now (o_ready o) then [] else [(2, 156)]
        end
      else [])
  (* error limit *)
  ++ (match expect_kill c em ew s o with
      | Some (k, b) => if Bool.eqb b (mem k (o_kills o)) then [] else [(1, 7)]
      | None => []
      end)
  ++ kill_codes c em ew (model_next c em ew s o) o
  ++ group_codes groups (o_after o).

Fixpoint pool_codes (c : cfg) (em : bool) (pr ew : nat) (groups : list (N * list nat)) (s : st) (prev : N)
         (tn : taint) (evs : list oev) : list (N * N) :=
  match evs with
  | [] => []
  | o :: r =>
    mismatch c em pr ew s o ++ violations c em pr ew groups s prev tn o
    ++ pool_codes c em pr ew groups (model_next c em ew s o) (o_tracked o) (taint_next c tn o) r
  end.

Definition pair_eqb (a b : N * N) : bool := (fst a =? fst b) && (snd a =? snd b).

Fixpoint dedup (l : list (N * N)) : list (N * N) :=
  match l with
  | [] => []
  | x :: r => if existsb (pair_eqb x) r then dedup r else x :: dedup r
  end.

(* sets of a handler-less machine: a group the theorem covers (group_safe) that
   is seen with two members contradicts the model (kind 1, detail 20); a group
   it does not cover is only explored (kind 2, the group's code) *)
Definition sets_codes (sc : schema) (groups : list (N * list nat)) (sets : list (list nat))
  : list (N * N) :=
  flat_map (fun cg : N * list nat =>
    if forallb (exclusive_ok (snd cg)) sets then []
    else if group_safe sc (snd cg) then [(1, 20)] else [(2, fst cg)]) groups.

Definition case_codes (k : c15case) : list (N * N) :=
  match k with
  | C15Pool c em pr ew groups evs wgroups wsets =>
    pool_codes c em pr ew groups init_st 0 no_taint evs ++ flat_map (group_codes wgroups) wsets
  | C15Sets sc groups sets => sets_codes sc groups sets
  end.

Definition check_one (ic : N * c15case) : list (N * N * N) :=
  let '(i, k) := ic in
  map (fun kd : N * N => (i, fst kd, snd kd)) (dedup (case_codes k)).

Definition check_all (cs : list (N * c15case)) : list (N * N * N) := flat_map check_one cs.

(* which of the groups the exclusivity theorem covers for this schema *)
Definition covered (sc : schema) (groups : list (N * list nat)) : list (N * bool) :=
  map (fun cg : N * list nat => (fst cg, group_safe sc (snd cg))) groups.
