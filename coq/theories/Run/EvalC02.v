From Coq Require Import List NArith Bool Arith.
From AMV Require Import Base.ListSet Model.Schema Model.Resolver Model.Machine Run.EvalHist Spec.C02.
Import ListNotations.

(* codes: 21 R1; 220 R2 where both states survived the blocked-by scan,
   221 R2 where the remover or the removed state was (re-)introduced by the
   second parseAdd pass, after the scan; 230 R3, 231 R3 where the activated
   state itself was introduced by the second pass (Add chain deeper than the
   two passes), 232 R3 where the missing Add state was dropped by the scan
   because of a blocker that is itself not in the target;
   24 unjustified gain; 250 unjustified loss, 251 unjustified loss of a state
   whose Require was missing in the first pass and only supplied by the
   second parseAdd pass (theorem r4_loss_partial) *)
Definition tx_codes (sc : schema) (topo : list nat) (t : txrec) : list N :=
  if negb (applies t) then [] else
  let s := tx_active_before t in
  let s' := tx_target t in
  let mt := tx_type t in
  let called := tx_called t in
  let c := {| rc_schema := sc; rc_before := s; rc_mtype := mt; rc_called := called;
              rc_topology := topo |} in
  (* auto mutations are re-resolved with the called states that survived *)
  let to_set :=
    if tx_auto t then
      let t1 := target_states c (states_to_set MAdd called s) in
      states_to_set MAdd (diff called (diff called t1)) s
    else states_to_set mt called s in
  let p1 := pass1_list c to_set in
  let res := resolved_list c to_set in
  (* the attribution to the resolver's pass structure (221 231 232 251) is
     only meaningful when the observed target IS what the modelled resolver
     computes from the observed before/called: a target the model does not
     produce gets the plain codes *)
  let same := tx_auto t
              || (forallb (fun x => mem x s') (target_states c to_set)
                  && forallb (fun x => mem x (target_states c to_set)) s') in
  (if r1_ok sc s' then [] else [21%N])
  ++ map (fun p : nat * nat => if (mem (fst p) res && mem (snd p) res) || negb same then 220%N else 221%N)
         (r2_pairs sc s')
  ++ map (fun p : nat * nat =>
            if negb same then 230%N
            else if negb (mem (fst p) res) then 231%N
            else if mem (snd p) p1 && negb (mem (snd p) res) then 232%N
            else 230%N)
         (r3_missing sc mt called s s')
  ++ (if r4_gain_ok sc mt called s s' then [] else [24%N])
  ++ map (fun l => if forallb (fun r => mem r p1) (s_require (sget sc l)) || negb same then 250%N else 251%N)
         (filter (fun l => negb (loss_justified sc mt called s s' l)) (diff s s')).

Definition violations (k : hcase) : list N :=
  (* auto transitions with partial acceptance re-resolve; the attribution
     above is still computed from the recorded before/called *)
  nodup N.eq_dec (flat_map (tx_codes (h_schema k) (h_topo k)) (tr_txs (h_obs k))).

Definition check_all := check_hist violations.
