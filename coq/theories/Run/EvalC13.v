(* Run-time evaluation for C13: the interleaving model Conc/Dispose.v run
   with the schedule that was forced on the implementation (gated cases) or
   with the disposal triggered by the case's mode (whole-run cases), the
   outstanding waiters registered first and the sweep of later calls run at
   the end, all as threads of one schedule. *)
From Coq Require Import List NArith Bool Arith.
From AMV Require Import Conc.Dispose Spec.C13.
Import ListNotations.

(* the repairs present in the implementation under test. Switch a knob on
   when the corresponding fix lands in /repo (a fix without its knob, or a
   knob without its fix, shows up as kind-1 mismatches). Present now:
   Subscriptions.dispose closes whenQuery bindings; When / WhenNot / WhenArgs
   return Closed when mustParseStates returns nil. *)
Definition impl_fixes : fixes :=
  {| fx_close_query := true; fx_recheck := false; fx_nil_guard := true;
     fx_ctx_closed := false; fx_ctx_watch := false; fx_err_guard := false;
     fx_tx_guard := false |}.

Record c13case := {
  k_mode : nat;            (* 0 gated; 1..7 trigger of a whole-run case *)
  k_handlers : bool;
  k_pre : list nat;        (* call kinds registered before anything else *)
  k_ndisp : nat;
  k_threads : list nat;    (* gated: thread kinds *)
  k_sched : list nat;
  k_post : list nat;       (* calls after the disposal completed *)
  k_load : nat;
  o_disposed : bool;
  o_pre_closed : list bool;
  o_th_res : list nat;
  o_th_closed : list nat;  (* 0 no waiter, 1 closed at the end, 2 open at the end *)
  o_hcounts : list nat;
  o_post_res : list nat;
  o_post_closed : list nat;
  o_load_bad : list nat;   (* kinds of background calls that panicked *)
  o_load_stuck : nat;
  o_trig_bad : nat;        (* 1 the trigger panicked, 2 it blocked *)
  o_gor : nat;             (* goroutines left over (serial cases) *)
  o_err : bool
}.

Definition kind_of_code (n : nat) : kind :=
  match n with
  | 0 | 29 => KDispose
  | 28 | 31 => KDisposeNF
  | 1 | 26 => KWhen
  | 2 => KWhenQuery
  | 3 => KWhenNot
  | 4 => KWhenTime
  | 27 => KWhenTicks
  | 5 => KWhenArgs
  | 6 => KWhenQueue
  | 7 => KWhenQueueEnds
  | 8 => KStateCtx
  | 9 => KAdd
  | 32 => KAddP
  | 33 => KEvalP
  | 10 | 11 | 12 | 13 => KFlag
  | 14 => KFalse
  | 15 | 17 | 18 | 30 => KNum
  | 16 => KTime
  | 19 => KEval
  | 20 | 21 | 22 | 23 | 24 | 25 => KMut
  | _ => KOther
  end.

Definition code_of_res (x : res) : nat :=
  match x with
  | RNone => 0 | RPanic => 1 | RClosed => 2 | ROpen _ => 3 | RCanceled => 4 | RExecuted => 5
  | RQueued => 6 | RBool true => 7 | RBool false => 8 | RZero => 9 | RNonzero => 10 | RVoid => 11
  | REither => 12
  end.

Definition res_of_code (n : nat) : res :=
  match n with
  | 1 => RPanic | 2 => RClosed | 3 => ROpen 0 | 4 => RCanceled | 5 => RExecuted | 6 => RQueued
  | 7 => RBool true | 8 => RBool false | 9 => RZero | 10 => RNonzero | 11 => RVoid
  | _ => RNone
  end.

Fixpoint nat_list_eqb (a b : list nat) : bool :=
  match a, b with
  | [], [] => true
  | x :: r, y :: s => Nat.eqb x y && nat_list_eqb r s
  | _, _ => false
  end.

(* model result codes against observed ones: REither (12) stands for true or false *)
Fixpoint res_list_match (m o : list nat) : bool :=
  match m, o with
  | [], [] => true
  | x :: r, y :: s =>
    (Nat.eqb x y || (Nat.eqb x 12 && (Nat.eqb y 7 || Nat.eqb y 8))) && res_list_match r s
  | _, _ => false
  end.

Fixpoint bool_list_eqb (a b : list bool) : bool :=
  match a, b with
  | [], [] => true
  | x :: r, y :: s => Bool.eqb x y && bool_list_eqb r s
  | _, _ => false
  end.

(* ---------------- the model run ---------------- *)

Definition main_kinds (k : c13case) : list kind :=
  if Nat.eqb (k_mode k) 0 then map kind_of_code (k_threads k)
  else trigger_threads impl_fixes (k_mode k) (k_handlers k).

Definition rep (i n : nat) : list nat := repeat i n.

Definition main_sched (k : c13case) (nmain : nat) : list nat :=
  if Nat.eqb (k_mode k) 0 then filter (fun i => i <? nmain) (k_sched k)
  else if Nat.eqb (k_mode k) 3
       then flat_map (fun _ => seq 0 nmain) (seq 0 6)       (* concurrently: round robin *)
       else flat_map (fun i => rep i 6) (seq 0 nmain).      (* one after the other *)

Record mrun := {
  m_cfg : cfg;         (* final configuration *)
  m_nmain : nat;
  m_npre : nat;
  m_done : bool;       (* every main thread finished under the schedule *)
  m_disposed : bool    (* disposal complete before the sweep *)
}.

Definition is_done (t : thread) : bool := match th_pc t with PDone => true | _ => false end.

Definition model_run (k : c13case) : mrun :=
  let mk := main_kinds k in
  let nmain := length mk in
  let npre := length (k_pre k) in
  let npost := length (k_post k) in
  let kinds := mk ++ map kind_of_code (k_pre k) ++ map kind_of_code (k_post k) in
  let c0 := init_cfg (k_handlers k) (k_ndisp k) kinds in
  let pre_sched := flat_map (fun j => rep (nmain + j) 2) (seq 0 npre) in
  let c1 := exec_sched impl_fixes c0 (pre_sched ++ main_sched k nmain) in
  let disp := cfg_complete c1 in
  let post_sched := flat_map (fun j => rep (nmain + npre + j) 12) (seq 0 npost) in
  let c2 := if disp then exec_sched impl_fixes c1 post_sched else c1 in
  {| m_cfg := c2; m_nmain := nmain; m_npre := npre;
     m_done := forallb is_done (firstn nmain (ths c1)); m_disposed := disp |}.

Definition waiter_at (c : cfg) (w : nat) : option waiter := nth_error (waiters (rs (sh c))) w.

(* 0 no waiter, 1 closed at the end, 2 open at the end *)
Definition closed_code (c : cfg) (x : res) : nat :=
  match x with
  | RClosed => 1
  | ROpen w => match waiter_at c w with Some wt => if w_closed wt then 1 else 2 | None => 2 end
  | _ => 0
  end.

Definition late (c : cfg) (x : res) : bool :=
  match x with
  | ROpen w => match waiter_at c w with Some wt => 4 <=? w_stage wt | None => false end
  | _ => false
  end.

Definition slice {A} (l : list A) (from n : nat) : list A := firstn n (skipn from l).

Definition m_main (m : mrun) : list thread := slice (ths (m_cfg m)) 0 (m_nmain m).
Definition m_pre (m : mrun) : list thread := slice (ths (m_cfg m)) (m_nmain m) (m_npre m).
Definition m_post (m : mrun) : list thread :=
  skipn (m_nmain m + m_npre m) (ths (m_cfg m)).

(* ---------------- kind 1: model vs implementation ---------------- *)

Definition mismatch (k : c13case) : list N :=
  let m := model_run k in
  let c := m_cfg m in
  let gated := Nat.eqb (k_mode k) 0 in
  (if o_err k then [99%N] else [])
  ++ (if Bool.eqb (m_disposed m) (o_disposed k) then [] else [1%N])
  ++ (if bool_list_eqb (map (fun t => Nat.eqb (closed_code c (th_res t)) 1) (m_pre m)) (o_pre_closed k)
      then [] else [2%N])
  ++ (if gated then
        (if m_done m then [] else [9%N])
        ++ (if res_list_match (map (fun t => code_of_res (th_res t)) (m_main m)) (o_th_res k) then [] else [3%N])
        ++ (if nat_list_eqb (map (fun t => closed_code c (th_res t)) (m_main m)) (o_th_closed k) then [] else [4%N])
      else [])
  ++ (if nat_list_eqb (hcounts (dc (sh c))) (o_hcounts k) then [] else [5%N])
  ++ (if m_disposed m && o_disposed k then
        (if res_list_match (map (fun t => code_of_res (th_res t)) (m_post m)) (o_post_res k) then [] else [6%N])
        ++ (if nat_list_eqb (map (fun t => closed_code c (th_res t)) (m_post m)) (o_post_closed k) then [] else [7%N])
      else []).

(* ---------------- kind 2: the property on the observation ---------------- *)

Fixpoint zip3 {A B C} (a : list A) (b : list B) (c : list C) : list (A * B * C) :=
  match a, b, c with
  | x :: a', y :: b', z :: c' => (x, y, z) :: zip3 a' b' c'
  | _, _, _ => []
  end.

Definition has_disposer (k : c13case) : bool :=
  if Nat.eqb (k_mode k) 0 then existsb (fun n => is_disposer (kind_of_code n)) (k_threads k)
  else negb (Nat.eqb (k_mode k) 4).

Fixpoint nodupN (l : list N) : list N :=
  match l with
  | [] => []
  | x :: r => if existsb (N.eqb x) r then nodupN r else x :: nodupN r
  end.

(* codes:
     1  WhenDisposed still open after Dispose / DisposeForce
     2  a background goroutine never returned      3  the trigger call blocked
     4  parent context cancelled, machine without handler binding: not disposed
     5  parent context cancelled, machine with handler binding: not disposed
     6  a dispose handler did not run              7  a dispose handler ran more than once
     8  goroutines left over (exploration)         9  the trigger call panicked
     100+K  an outstanding waiter of call kind K is still open after the disposal
     200+K  the waiter returned by a call K racing with the disposal is still open (registered before subs.dispose())
     250+K  the same, registered after subs.dispose() ran (late binding)
     300+K  a call K racing with the disposal panicked
     400+K  a call K racing with the disposal did not return
     500+K  a call K after the disposal panicked   600+K  did not return within 2 s
     700+K  a call K after the disposal returned a non-neutral value *)
Definition violations (k : c13case) : list N :=
  let m := model_run k in
  let c := m_cfg m in
  let gated := Nat.eqb (k_mode k) 0 in
  let disp := o_disposed k in
  nodupN (
  (if has_disposer k && negb disp then [1%N] else [])
  ++ (if Nat.eqb (k_mode k) 4 && negb disp then (if k_handlers k then [5%N] else [4%N]) else [])
  ++ (if Nat.eqb (o_load_stuck k) 0 then [] else [2%N])
  ++ (match o_trig_bad k with 0 => [] | 1 => [9%N] | _ => [3%N] end)
  ++ flat_map (fun n => (if disp && Nat.eqb n 0 then [6%N] else []) ++ (if 1 <? n then [7%N] else []))
              (o_hcounts k)
  ++ (if Nat.eqb (o_gor k) 0 then [] else [8%N])
  ++ (if released disp (o_pre_closed k) then []
      else flat_map (fun p : nat * bool => if snd p then [] else [N.of_nat (100 + fst p)])
                    (combine (k_pre k) (o_pre_closed k)))
  ++ (if gated && has_disposer k then
        flat_map (fun p : nat * nat * nat * thread =>
          let '(kk, r, cl, t) := p in
          (if Nat.eqb r 1 then [N.of_nat (300 + kk)] else [])
          ++ (if Nat.eqb r 0 then [N.of_nat (400 + kk)] else [])
          ++ (if disp && Nat.eqb cl 2
              then [N.of_nat ((if late c (th_res t) then 250 else 200) + kk)] else []))
          (combine (zip3 (k_threads k) (o_th_res k) (o_th_closed k)) (m_main m))
      else [])
  ++ map (fun kk => N.of_nat (300 + kk)) (o_load_bad k)
  ++ (if disp then
        flat_map (fun p : nat * nat =>
          let '(kk, r) := p in
          if Nat.eqb r 1 then [N.of_nat (500 + kk)]
          else if Nat.eqb r 0 then [N.of_nat (600 + kk)]
          else if neutral_call (kind_of_code kk) (res_of_code r) then []
          else [N.of_nat (700 + kk)])
          (combine (k_post k) (o_post_res k))
      else [])).

Definition check_one (ic : N * c13case) : list (N * N * N) :=
  let '(i, k) := ic in
  map (fun d => (i, 1%N, d)) (mismatch k) ++ map (fun d => (i, 2%N, d)) (violations k).

Definition check_all (cs : list (N * c13case)) : list (N * N * N) := flat_map check_one cs.
