(* Run-time evaluation of C09 cases: runs the protocol model (Conc/RpcSync.v)
   on the step list the harness executed against the real Server / Client /
   NetworkMachine, with the delivery order that was forced (kind 1), and
   evaluates the clauses of Spec/C09.v on the implementation's observation
   (kind 2). *)

From Coq Require Import List NArith Bool Arith.
From AMV Require Import Model.RpcCodec Spec.C10 Conc.RpcSync Spec.C09.
Import ListNotations.
Open Scope N_scope.

(* observed mirror: NetworkMachine.Time / QueueTick / MachineTick / Is1 / Tick *)
Record omir := { m_t : list N; m_q : N; m_m : N; m_a : list bool; m_c : list N }.

Inductive ostep :=
| OLocal                                   (* source.Add/Remove/Set *)
| OClient (rc rs : N)                      (* NetworkMachine.Add/Remove/Set: results *)
| ORace (parked : bool) (trans2 : list snap) (mir2 mir_ret : omir) (rc rs : N)
    (* mir2: mirror while the reply was parked; mir_ret: when the call returned;
       o_mir of a race step: after the client settled (async Sync) *)
| OPush
| OSync
| ODrop (rehello srv_ready : bool)  (* client re-handshaken; server Ready again *)
| ONoop.

Record orec := {
  o_step : ostep;
  o_trans : list snap;      (* source snapshots at each TransitionEnd of the step *)
  o_src : snap;             (* the source after the step *)
  o_mir : omir;             (* the mirror after the step (client: when the call returned) *)
  o_timeout : bool;         (* the call through the client did not return *)
  o_pushes : N              (* pushClient runs that reached storeLastPush *)
}.

Record c09case := {
  k_p : pcfg;
  k_pushes : bool;          (* false: PushInterval 0 for the whole run (no pushes at all) *)
  k_n : nat;                (* source states incl. Exception *)
  k_norel : bool;           (* relation-free schema *)
  k_err : bool;             (* the harness could not set the pair up / panicked *)
  k_hello_src : snap;
  k_hello : omir;
  k_steps : list orec;
  k_final_src : snap;
  k_final : omir;
  k_final_pushes : N;
  k_ready : bool;           (* client Ready at the end *)
  k_exc : bool              (* client Exception active at the end *)
}.

Definition mir_eqb (s : st) (m : omir) : bool :=
  list_N_eqb (cl_t (st_cl s)) (m_t m) && (cl_q (st_cl s) =? m_q m) && (cl_m (st_cl s) =? m_m m).

Definition srcs (l : list snap) : list ev := map Src l.

(* one step of the harness as protocol events; returns the model state and
   the mismatch codes *)
Definition run_step (p : pcfg) (pushes : bool) (s : st) (o : orec) : st * list N :=
  let pushev := if pushes then [Push; Settle] else [] in
  let np := st_npush s in
  let pushes_ok (s' : st) :=
    if N.of_nat (st_npush s' - np) =? o_pushes o then [] else [6] in
  match o_step o with
  | ONoop => (s, if mir_eqb s (o_mir o) then [] else [2])
  | OLocal =>
    let s' := exec p s (srcs (o_trans o)) in
    (s', (if mir_eqb s' (o_mir o) then [] else [2]) ++ pushes_ok s')
  | OClient _ _ =>
    if cl_stuck (st_cl s) then
      (s, (if o_timeout o then [] else [4]) ++ (if mir_eqb s (o_mir o) then [] else [3]))
    else
      let s' := exec p s (srcs (o_trans o) ++ [Reply; Write; Settle]) in
      let blocked := negb (Nat.eqb (length (st_wire s')) 0) in
      (s', (if Bool.eqb blocked (o_timeout o) then [] else [4])
           ++ (if mir_eqb s' (o_mir o) then [] else [3]) ++ pushes_ok s')
  | ORace parked trans2 mir2 _ _ _ =>
    if cl_stuck (st_cl s) then
      (s, (if o_timeout o then [] else [4]) ++ (if mir_eqb s (o_mir o) then [] else [3]))
    else if negb parked then (s, [12])
    else
      let s1 := exec p s (srcs (o_trans o) ++ [Reply] ++ srcs trans2 ++ pushev) in
      let s' := exec p s1 [Write; Settle] in
      let blocked := negb (Nat.eqb (length (st_wire s')) 0) in
      (s', (if mir_eqb s1 mir2 then [] else [9])
           ++ (if Bool.eqb blocked (o_timeout o) then [] else [4])
           ++ (if mir_eqb s' (o_mir o) then [] else [3]) ++ pushes_ok s')
  | OPush =>
    let s' := exec p s (srcs (o_trans o) ++ pushev) in
    (s', (if mir_eqb s' (o_mir o) then [] else [5]) ++ pushes_ok s')
  | OSync =>
    if cl_stuck (st_cl s) then
      (s, (if o_timeout o then [] else [4]) ++ (if mir_eqb s (o_mir o) then [] else [7]))
    else
      let s' := exec p s [SyncReq; Settle] in
      (s', (if o_timeout o then [4] else [])
           ++ (if mir_eqb s' (o_mir o) then [] else [7]) ++ pushes_ok s')
  | ODrop rehello srv_ready =>
    let s1 := exec p s [Hello] in
    (* the server may miss the new session: the disconnect notification of the
       previous connection can arrive after the new handshake (observed order) *)
    let s' := if rehello then set_conn s1 srv_ready else s1 in
    (s', (if Bool.eqb rehello (negb (cl_stuck (st_cl s))) then [] else [8])
         ++ (if mir_eqb s' (o_mir o) then [] else [8]) ++ pushes_ok s')
  end.

Fixpoint run_steps (p : pcfg) (pushes : bool) (s : st) (l : list orec) : st * list N :=
  match l with
  | [] => (s, [])
  | o :: r =>
    let '(s1, e1) := run_step p pushes s o in
    let '(s2, e2) := run_steps p pushes s1 r in
    (s2, e1 ++ e2)
  end.

Definition model_final (k : c09case) : st * list N :=
  let p := k_p k in
  let s0 := init p (k_hello_src k) in
  let e0 := if mir_eqb s0 (k_hello k) then [] else [1] in
  let '(s1, e1) := run_steps p (k_pushes k) s0 (k_steps k) in
  let s2 := exec p s1 (if k_pushes k then [Push; Settle] else []) in
  let e2 := (if mir_eqb s2 (k_final k) then [] else [10])
            ++ (if N.of_nat (st_npush s2 - st_npush s1) =? k_final_pushes k then [] else [6]) in
  (s2, e0 ++ e1 ++ e2 ++ (if st_err s2 then [11] else [])).

Fixpoint dedup (l : list N) : list N :=
  match l with
  | [] => []
  | x :: r => if existsb (N.eqb x) r then dedup r else x :: dedup r
  end.

Definition mismatch (k : c09case) : list N :=
  if k_err k then [11] else dedup (snd (model_final k)).

(* ---------------------------------------------------------------- kind 2 *)

Definition raced (k : c09case) : bool :=
  existsb (fun o => match o_step o with ORace true _ _ _ _ _ => true | _ => false end) (k_steps k).

Definition dropped (k : c09case) : bool :=
  existsb (fun o => match o_step o with ODrop _ _ => true | _ => false end) (k_steps k).

(* a reconnect after which the server side never got back to Ready *)
Definition lost_session (k : c09case) : bool :=
  existsb (fun o => match o_step o with ODrop true false => true | _ => false end) (k_steps k).

(* the input class a violation is attributed to (first that applies):
   9 after a reconnect the server did not return to Ready (the previous
     connection was still open, or its disconnect notification came late);
   5 a full Sync was refused by the client ("wrong clock len": no schema and an
     allow / skip list) - a drift can then never be repaired;
   6 a source with MachineTick <> 0 while /repo lacks one of the machine-tick
     repairs of the client side;
   10 shallow clocks and a reply computed against a stale lastPushData (after
     a Sync) that the weak shallow checksum accepted by coincidence;
   (8 was: per-mutation sync and a reconnect, RemoteHello kept the tracer's
     dataQueue - repaired by aabeecb, now plain class 3);
   2 shallow clocks; 3 per-mutation sync; 1 a reply was overtaken by a push;
   7 reconnect; 4 a full Sync was applied; 0 none of these.
   (old code: 4 was "silent push", 8 "placeholder pushed", 5 "a Sync happened") *)
(* shallow clocks: a reply accepted although the client did not hold what the
   server believed (the queue tick the client ends with is not the one of the
   exported data, and no Sync was needed): the shallow checksum - number of
   tracked states + queue tick + machine tick - matched by coincidence *)
Fixpoint belief_coinc (p : pcfg) (pushes : bool) (s : st) (l : list orec) : bool :=
  match l with
  | [] => false
  | o :: r =>
    let s' := fst (run_step p pushes s o) in
    (match o_step o with
     | OClient _ _ | ORace true _ _ _ _ _ =>
       negb (o_timeout o)
       && negb (cl_q (st_cl s') =? d_q (sv_last (st_sv s')))
       && Bool.eqb (st_synced s) (st_synced s')
       && Nat.eqb (cl_errs (st_cl s)) (cl_errs (st_cl s'))
     | _ => false
     end) || belief_coinc p pushes s' r
  end.

Definition cls (k : c09case) : N :=
  let s := fst (model_final k) in
  if lost_session k then 9
  else if shallow (p_codec (k_p k))
          && belief_coinc (k_p k) (k_pushes k) (init (k_p k) (k_hello_src k)) (k_steps k) then 10
  else if negb (Nat.eqb (cl_errs (st_cl s)) 0) then 5
  else if negb (s_m (k_hello_src k) =? 0)
          && negb (p_hello_m (k_p k) && p_sync_m (k_p k)) then 6
  else if shallow (p_codec (k_p k)) then 2
  else if p_mut (k_p k) then 3
  else if raced k then 1
  else if dropped k then 7
  else if st_synced s then 4
  else 0.

(* effect visible on return: the mirror agrees with the source as it was
   when the reply was computed or as it is on return *)
Definition visible (c : cfg) (o : orec) (m : omir) : bool * bool :=
  let cands := o_src o :: match rev (o_trans o) with x :: _ => [x] | [] => [] end in
  (existsb (fun x => activity_ok c (s_time x) (m_t m)) cands,
   existsb (fun x => mirror_ok c (s_time x) (m_t m)) cands).

Definition step_viol (k : c09case) (o : orec) : list N :=
  let c := p_codec (k_p k) in
  let res rc rs m :=
    if o_timeout o then []
    else (if (rs =? 0) || result_ok rc rs then [] else [200])
         ++ (let '(act, full) := visible c o m in
             if full then [] else if act then [320] else [300]) in
  (if o_timeout o then [400] else []) ++
  match o_step o with
  | OClient rc rs => res rc rs (o_mir o)
  | ORace true _ _ mret rc rs => res rc rs mret
  | ODrop false _ => [500]
  | ODrop true false => [520]
  | _ => []
  end.

Definition act_viol (k : c09case) (m : omir) : list N :=
  if k_norel k && negb (list_bool_eqb (m_a m) (parities (m_t m))) then [700] else [].

(* without pushes the mirror can only follow through replies and explicit
   syncs: the quiescence clause applies when no source transition came after
   the last client-issued mutation / Sync *)
Fixpoint changed_since (l : list orec) (acc : bool) : bool :=
  match l with
  | [] => acc
  | o :: r =>
    match o_step o with
    | OClient _ _ | OSync | ODrop true _ => changed_since r (o_timeout o)
    | ORace _ _ _ _ _ _ => changed_since r (o_timeout o)
    | _ => changed_since r (acc || negb (Nat.eqb (length (o_trans o)) 0))
    end
  end.

(* every view of the mirror agrees with every other: the ticks behind
   Tick / Clock / WhenTime (m_c, an empty list = not sampled) are the ones Time
   reports, at every observation of the case *)
Fixpoint nlist_eqb (a b : list N) : bool :=
  match a, b with
  | [], [] => true
  | x :: r, y :: t => (x =? y) && nlist_eqb r t
  | _, _ => false
  end.
Definition view_ok (m : omir) : bool :=
  match m_c m with [] => true | c => nlist_eqb c (m_t m) end.
Definition step_mirs (o : orec) : list omir :=
  o_mir o :: match o_step o with ORace _ _ m2 mr _ _ => [m2; mr] | _ => [] end.
Definition view_viol (k : c09case) : list N :=
  if forallb view_ok (k_hello k :: k_final k :: flat_map step_mirs (k_steps k)) then [] else [800].

Definition violations (k : c09case) : list N :=
  if k_err k then [] else
  let c := p_codec (k_p k) in
  let cl := cls k in
  let fin :=
    if negb (k_pushes k) && changed_since (k_steps k) false then []
    else if mirror_ok c (s_time (k_final_src k)) (m_t (k_final k)) then []
    else if activity_ok c (s_time (k_final_src k)) (m_t (k_final k)) then [120] else [100] in
  let ready := if k_ready k && negb (k_exc k) then [] else [600] in
  (* the lost-session clause names its own cause *)
  map (fun d => if d =? 520 then 529 else d + cl)
      (dedup (fin ++ flat_map (step_viol k) (k_steps k) ++ ready
              ++ act_viol k (k_final k) ++ view_viol k)).

Definition check_one (ic : N * c09case) : list (N * N * N) :=
  let '(i, k) := ic in
  map (fun d => (i, 1, d)) (mismatch k) ++ map (fun d => (i, 2, d)) (violations k).

Definition check_all (cs : list (N * c09case)) : list (N * N * N) :=
  flat_map check_one cs.
