(* C14 — tracers see every transition once, in order, with the true times. *)
From Coq Require Import List NArith Bool Arith.
From AMV Require Import Base.ListSet Model.Schema Model.Machine Spec.C01.
Import ListNotations.

Inductive bstate := BIdle | BInit | BStart | BFinals.

(* Init; Start; Finals?; End per processed mutation, never interleaved.
   Returns the Finals flag of every bracket, in order. *)
Fixpoint brackets (b : bstate) (evs : list tev) (acc : list bool) : option (list bool) :=
  match evs with
  | [] => match b with BIdle => Some (rev acc) | _ => None end
  | e :: r =>
    match e, b with
    | EvQueued _ _, _ => brackets b r acc
    | EvInit, BIdle => brackets BInit r acc
    | EvStart, BInit => brackets BStart r acc
    | EvFinals, BStart => brackets BFinals r acc
    | EvEnd, BStart => brackets BIdle r (false :: acc)
    | EvEnd, BFinals => brackets BIdle r (true :: acc)
    | EvQueueEnd, BIdle => brackets BIdle r acc
    | _, _ => None
    end
  end.

Definition count_ev (f : tev -> bool) (evs : list tev) : nat := length (filter f evs).

Fixpoint bools_eqb (a b : list bool) : bool :=
  match a, b with
  | [], [] => true
  | x :: r, y :: s => Bool.eqb x y && bools_eqb r s
  | _, _ => false
  end.

(* time chain: before(i+1) = after(i) *)
Fixpoint chain_ok (prev : list N) (txs : list txrec) : bool :=
  match txs with
  | [] => true
  | t :: r => clock_eqb prev (tx_before t) && chain_ok (tx_after t) r
  end.

Fixpoint tevs_eqb (a b : list tev) : bool :=
  match a, b with
  | [], [] => true
  | x :: r, y :: s => tev_eqb x y && tevs_eqb r s
  | _, _ => false
  end.

Definition c14_codes (tr : trace) (extra : list (list tev)) : list N :=
  let txs := tr_txs tr in
  (match brackets BIdle (tr_evs tr) [] with
   | None => if tr_crashed tr then [] else [141%N]
   | Some fl =>
     (if Nat.eqb (length fl) (length txs) then [] else [142%N])
     ++ (if bools_eqb fl (map (fun t => tx_accepted t && negb (tx_check t)) txs) then [] else [143%N])
     ++ (if Nat.eqb (count_ev (fun e => match e with EvQueued _ _ => true | _ => false end) (tr_evs tr))
                    (length txs) then [] else [142%N])
   end)
  ++ (match txs with
      | [] => []
      | t :: r => if chain_ok (tx_after t) r then [] else [144%N]
      end)
  ++ (if forallb (fun t => if tx_check t || negb (tx_accepted t) then clock_eqb (tx_before t) (tx_after t) else true) txs
      then [] else [145%N])
  ++ (if forallb (fun t => clock_eqb (tx_after t) (tx_mach_after t)) txs then [] else [146%N])
  ++ (match rev txs, rev (tr_calls tr) with
      | t :: _, c :: _ => if tr_crashed tr || clock_eqb (tx_after t) (co_time c) then [] else [147%N]
      | _, _ => []
      end)
  ++ (if forallb (fun ev => tevs_eqb ev (tr_evs tr)) extra then [] else [148%N]).
