(* C02 — relations keep the active set consistent after every transition.
   Boolean predicates over one completed, fault-free transition
   S --(type, called)--> S'. Proof-free. *)

From Coq Require Import List NArith Bool Arith.
From AMV Require Import Base.ListSet Model.Schema Model.Resolver Model.Machine.
Import ListNotations.

(* R1: every active state has all its Require states active *)
Definition r1_ok (sc : schema) (s' : list nat) : bool :=
  forallb (fun a => forallb (fun r => mem r s') (s_require (sget sc a))) s'.

(* R2: no active state is listed in the Remove relation of another active state *)
Definition r2_pairs (sc : schema) (s' : list nat) : list (nat * nat) :=
  flat_map (fun a => map (fun b => (a, b))
    (filter (fun b => negb (Nat.eqb a b) && mem b (s_remove (sget sc a))) s')) s'.
Definition r2_ok (sc : schema) (s' : list nat) : bool :=
  match r2_pairs sc s' with [] => true | _ => false end.

(* R3: every state activated by the transition has each of its Add states
   active unless that state is excluded by a Remove relation or misses a
   Require *)
(* A state called for removal by this very Remove mutation is excluded too:
   the mutation wins over an Add relation (relations.go parseAdd filters it). *)
Definition excluded (sc : schema) (mt : mut_type) (called s' : list nat) (x : nat) : bool :=
  (mut_type_eqb mt MRemove && mem x called) ||
  existsb (fun c => mem x (s_remove (sget sc c))) s'
  || negb (forallb (fun r => mem r s') (s_require (sget sc x))).
Definition r3_missing (sc : schema) (mt : mut_type) (called s s' : list nat) : list (nat * nat) :=
  flat_map (fun a => map (fun x => (a, x))
    (filter (fun x => negb (mem x s') && negb (excluded sc mt called s' x)) (s_add (sget sc a))))
    (diff s' s).
Definition r3_ok (sc : schema) (mt : mut_type) (called s s' : list nat) : bool :=
  match r3_missing sc mt called s s' with [] => true | _ => false end.

(* Add-closure (fuelled by the number of states) *)
Fixpoint add_closure (fuel : nat) (sc : schema) (l : list nat) : list nat :=
  match fuel with
  | O => l
  | S f => add_closure f sc (uniq (l ++ flat_map (fun a => s_add (sget sc a)) l))
  end.

(* R4: nothing changes without a justification.
   A gained state must be called (Add/Set) or reachable through Add relations
   from a called or previously active state; a lost state must be called for
   removal, left out of a Set, Removed by a state of that reachable set or of
   the new active set, or have lost a Require. *)
Definition candidates (sc : schema) (mt : mut_type) (called s : list nat) : list nat :=
  add_closure (length sc) sc (uniq ((match mt with MRemove => [] | _ => called end) ++ s)).

Definition gain_justified (sc : schema) (mt : mut_type) (called s s' : list nat) (g : nat) : bool :=
  mem g (candidates sc mt called s).

Definition loss_justified (sc : schema) (mt : mut_type) (called s s' : list nat) (l : nat) : bool :=
  match mt with
  | MRemove => mem l called
  | MSet => negb (mem l called)
  | MAdd => false
  end
  || existsb (fun c => mem l (s_remove (sget sc c))) (candidates sc mt called s ++ s')
  || negb (forallb (fun r => mem r s') (s_require (sget sc l))).

Definition r4_gain_ok sc mt called s s' : bool :=
  forallb (gain_justified sc mt called s s') (diff s' s).
Definition r4_loss_ok sc mt called s s' : bool :=
  forallb (loss_justified sc mt called s s') (diff s s').

Definition post_ok (sc : schema) (mt : mut_type) (called s s' : list nat) : bool :=
  r1_ok sc s' && r2_ok sc s' && r3_ok sc mt called s s' && r4_gain_ok sc mt called s s'
  && r4_loss_ok sc mt called s s'.

(* which transitions the property speaks about: completed (accepted), not a
   dry run *)
Definition applies (t : txrec) : bool := tx_accepted t && negb (tx_check t).

(* the list that enters the reverse blocked-by scan, and the list that leaves
   it: used to attribute R2/R3 failures to the resolver's pass structure *)
Definition pass1_list (c : rctx) (to_set : list nat) : list nat :=
  parse_require (rc_schema c) (uniq (parse_add c (uniq to_set))).
Definition resolved_list (c : rctx) (to_set : list nat) : list nat :=
  blocked_scan (rc_schema c) (pass1_list c to_set).
