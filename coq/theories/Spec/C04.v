(* C04 — one queue, one transition at a time, in order, none lost: predicates
   over configurations of the interleaving model Conc/QueueLock.v. *)
From Coq Require Import List Bool Arith.
From AMV Require Import Conc.QueueLock.
Import ListNotations.

(* at most one goroutine inside the drain, and queueProcessing says so *)
Definition mutex_ok (c : cfg) : bool :=
  (holders c <=? 1) && Bool.eqb (processing (sh c)) (Nat.eqb (holders c) 1).

(* mutations are executed in the order of their queue ticks = enqueue order *)
Fixpoint increasing (l : list nat) : bool :=
  match l with
  | a :: ((b :: _) as r) => (a <? b) && increasing r
  | _ => true
  end.

(* an idle machine never sits on a non-empty queue *)
Definition no_strand_ok (c : cfg) : bool :=
  negb (all_done c) || Nat.eqb (qlen (sh c)) 0.

(* every mutation that was enqueued is in the queue or was executed, once *)
Definition enqueued (c : cfg) : list nat :=
  map fst (rev (executed (sh c))) ++ map fst (queue (sh c)).

Fixpoint nodupb (l : list nat) : bool :=
  match l with
  | [] => true
  | x :: r => negb (existsb (Nat.eqb x) r) && nodupb r
  end.
