(* C09 — "RPC mirror converges": the property as boolean predicates over
   observables. Shared by the theorems (Props/C09.v) and by the run-time
   evaluation of implementation observations (Run/EvalC09.v). Proof-free. *)

From Coq Require Import List NArith Bool Arith.
From AMV Require Import Model.RpcCodec Spec.C10 Conc.RpcSync.
Import ListNotations.
Open Scope N_scope.

(* the synchronised part of a source time slice / of a mirror, in tracked
   order (client indexes differ from source indexes without a schema) *)
Definition src_tracked (c : cfg) (src : list N) : list N :=
  filter_time src (tracked c).

Definition mir_tracked (c : cfg) (mir : list N) : list N :=
  filter_time mir (client_tracked c).

(* ticks of every synchronised state equal the source's *)
Definition ticks_ok (c : cfg) (src mir : list N) : bool :=
  list_N_eqb (mir_tracked c mir) (src_tracked c src).

(* activity (tick parity) of every synchronised state equals the source's *)
Definition activity_ok (c : cfg) (src mir : list N) : bool :=
  list_bool_eqb (parities (mir_tracked c mir)) (parities (src_tracked c src)).

(* the clause of the statement: ticks and activity, parity only for shallow *)
Definition mirror_ok (c : cfg) (src mir : list N) : bool :=
  if shallow c then activity_ok c src mir else ticks_ok c src mir.

(* the mirror the client holds, as a triple *)
Definition client_view (s : st) : list N * N * N :=
  (cl_t (st_cl s), cl_q (st_cl s), cl_m (st_cl s)).

(* the client is an exact copy of snapshot x *)
Definition synced_with (p : pcfg) (s : st) (x : snap) : Prop :=
  client_view s = (mirror (p_codec p) x, s_q x, s_m x).

(* quiescence of the protocol: nothing in flight, nothing outstanding *)
Definition quiescent (s : st) : bool :=
  match st_wire s, st_pend s with
  | [], None => negb (cl_need (st_cl s))
  | _, _ => false
  end.

(* some synchronised state's tick differs between two snapshots *)
Definition tracked_changed (c : cfg) (a b : snap) : bool :=
  existsb (fun i => negb (nth i (s_time a) 0 =? nth i (s_time b) 0)) (tracked c).

(* hypotheses on a chain of snapshots (each in range of the previous one) *)
Fixpoint chain_in_range (a : snap) (l : list snap) : bool :=
  match l with
  | [] => true
  | b :: r =>
    Nat.eqb (length (s_time a)) (length (s_time b)) && snaps_in_range a b
    && chain_in_range b r
  end.

(* result enum used by the harness: 1 Executed, 2 Canceled, 3 Queued *)
Definition result_ok (from_client from_source : N) : bool := from_client =? from_source.

(* ---------------------------------------------------------------- vocabulary of the theorems *)

(* what the server memorised about the client: the Hello data or the data of
   the last export *)
Definition srv_believes (c : cfg) (hello : bool) (x : snap) : tdata :=
  if hello then hello_data c x else mk_data c x.

(* client and server agree on snapshot x and nothing is in flight *)
Definition synced (p : pcfg) (s : st) (x : snap) (hello : bool) : Prop :=
  st_err s = false /\ st_wire s = [] /\ st_pend s = None /\ st_conn s = true /\
  cl_stuck (st_cl s) = false /\ cl_need (st_cl s) = false /\
  client_view s = (mirror (p_codec p) x, s_q x, s_m x) /\
  sv_last (st_sv s) = srv_believes (p_codec p) hello x.

(* the server's belief is snapshot x, the client may hold anything *)
Definition srv_at (p : pcfg) (s : st) (x : snap) (hello : bool) : Prop :=
  st_err s = false /\ st_wire s = [] /\ st_pend s = None /\ st_conn s = true /\
  cl_stuck (st_cl s) = false /\ cl_need (st_cl s) = false /\
  sv_last (st_sv s) = srv_believes (p_codec p) hello x.

(* a connected, error-free state *)
Definition mkst sv cl wire pend cur sil rej syn np : st :=
  {| st_sv := sv; st_cl := cl; st_wire := wire; st_pend := pend; st_cur := cur; st_err := false;
     st_silent := sil; st_rejpush := rej; st_synced := syn; st_npush := np; st_conn := true;
     st_initpush := false |}.

(* in-order histories: rounds of source transitions followed by one export
   that is delivered before anything else happens *)
Inductive round :=
| RPush (mid : list snap) (y : snap)     (* local transitions, then a push, delivered *)
| RReply (mid : list snap) (y : snap).   (* a client-issued mutation: transitions, reply, delivered *)

Definition round_end (r : round) : snap :=
  match r with RPush _ y => y | RReply _ y => y end.

Definition round_events (r : round) : list ev :=
  match r with
  | RPush mid y => map Src mid ++ [Src y; Push; Settle]
  | RReply mid y => map Src mid ++ [Src y; Reply; Write; Settle]
  end.

Fixpoint last_end (x : snap) (rs : list round) : snap :=
  match rs with
  | [] => x
  | r :: rest => last_end (round_end r) rest
  end.

(* every export is within the field widths of the previous one; a push round
   exports a snapshot whose queue tick moved (every transition moves it).
   old code: "... AND some synchronised tick moved" (tracked_changed) *)
Fixpoint rounds_ok (c : cfg) (x : snap) (rs : list round) : Prop :=
  match rs with
  | [] => True
  | r :: rest =>
    let y := round_end r in
    length (s_time x) = length (s_time y) /\ snaps_in_range x y = true /\
    match r with
    | RPush _ _ => s_q x <> s_q y
    | RReply _ _ => True
    end /\ rounds_ok c y rest
  end.
