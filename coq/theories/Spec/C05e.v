(* C05, final handlers judged on the clocks. Spec.C05's code 55 counts the
   final handlers of the transitions whose IsAccepted flag is set at
   TransitionEnd; a transition that moved ticks while reporting itself as
   not accepted would escape it. Here the changed states are read off the
   machine's own time (sampled inside TransitionEnd):

     code 550: the tick of state x moved in this transition, yet FooState
       (x ended active: entered, or a Multi state re-entered) resp. FooEnd
       (x ended inactive) did not run exactly once in every binding that
       defines it.

   Proof-free. *)
From Coq Require Import List NArith Bool Arith.
From AMV Require Import Base.ListSet Model.Schema Model.Machine Spec.C01 Spec.C05.
Import ListNotations.

Definition moved_states (t : txrec) : list nat :=
  filter (fun x => negb (N.eqb (nth x (tx_before t) 0%N) (nth x (tx_mach_after t) 0%N)))
         (seq 0 (length (tx_before t))).

Definition moved_codes (bs : list (list hkey)) (hlog : list hlentry) (t : txrec) : list N :=
  let hs := slice hlog (tx_hfrom t) (tx_hto t) in
  let moved := moved_states t in
  let act x := N.odd (nth x (tx_mach_after t) 0%N) in
  if forallb (fun ib : nat * list hkey =>
       let '(i, b) := ib in
       forallb (fun k =>
         match k with
         | HState x => negb (mem x moved && act x) || Nat.eqb (count_key hs k i) 1
         | HEnd x => negb (mem x moved && negb (act x)) || Nat.eqb (count_key hs k i) 1
         | _ => true
         end) b) (combine (seq 0 (length bs)) bs)
  then [] else [550%N].

Definition c05e_codes (bs : list (list hkey)) (tr : trace) : list N :=
  flat_map (moved_codes bs (tr_hlog tr)) (tr_txs tr).
