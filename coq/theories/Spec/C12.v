(* C12 - the lock table of am.Machine / rpc.NetworkMachine.

   One entry per public method: the abstracted access sequence of the call,
   hand-abstracted from /repo/pkg/machine/{machine,transition,subscriptions,
   relations}.go and /repo/pkg/rpc/netmach.go:

     - every mutex region is an Acq ... Rel bracket in the code's mode
       (RLock = Sh, Lock = Ex), nested exactly as in the code;
     - every plain access to one of the shared fields below is a Read / Write
       at the place (= under the locks) where the code performs it;
     - accesses through sync/atomic are Atomic;
     - branches and loops are FLATTENED: the sequence contains the accesses of
       every path, one after the other (the analysis is path-insensitive, every
       path's lock brackets are balanced);
     - callee methods are inlined (Add contains queueMutation, processQueue,
       the transition, ...), so a nested call is covered by its caller's entry;
     - procTok is the "queue token": processQueue's CompareAndSwap on
       queueProcessing behaves as an exclusive try-lock that is held by the
       goroutine draining the queue; the model acquires it blockingly (the
       CAS-loser's path [p_pqFail] is part of every entry that drains);
     - handlers run on the handler goroutine, in lock-step with the draining
       goroutine (channel hand-off): their effects are part of the transition;
       what the USER's handler bodies call is not part of an entry (in the
       harness a handler's calls are attributed to the called method);
     - fields reachable only through an object that is published under a lock
       (handler records, bindings, transitions, mutations) are not modelled;
     - not in the table: Dispose / DisposeForce (C13; DisposeForce takes no
       locks by design), the handler-timeout/deadline and panic-recovery
       branches of processHandlers, DetachHandlers (recurses forever, C20),
       Go/Fork/Pool*, NetworkMachine.Export (self-deadlock: RLock then Lock
       of schemaMx) and its remote (network) mutations.

   [variant]:
     Cur    = /repo as it is (HEAD 031458c). stateNamesExport is an
              atomic.Pointer (f998d9b), so a first-time ("cold") StateNames()
              and a later one are the same entry; NetworkMachine.Tracers takes
              tracersMx (f656cf0); updateClock swaps logEntries under
              logEntriesLock (031458c). The harness is judged against Cur.
     Fixed  = Cur + the candidate repairs that are NOT applied
              (corpus/C12/fix_c12_machine.diff): VerifyStates writes under
              activeStatesMx + schemaMx exclusively, Has reads under schemaMx,
              Import takes activeStatesMx exclusively. SetSchema is not
              repaired.
     Legacy = the code before the three commits (StateNames() writes the
              export copy under schemaMx.RLock when it is nil; Tracers() under
              clockMx; updateClock touches logEntries without the lock); kept
              only to state what the repairs removed.

   The table follows /repo at commit 031458c ("fix: NetworkMachine.updateClock
   takes the log entries under logEntriesLock").

   Proof-free. *)
From Coq Require Import List Bool Arith String.
From AMV Require Import Conc.Locks.
Import ListNotations.

(* ------------------------------------------------------------ locks *)
Definition activeStatesMx : lock := 0.
Definition queueMx : lock := 1.
Definition schemaMx : lock := 2.
Definition tracersMx : lock := 3.
Definition handlersMx : lock := 4.
Definition subsMx : lock := 5.
Definition logEntriesLock : lock := 6.
Definition procTok : lock := 7.
Definition breakpointsMx : lock := 8.
(* NetworkMachine *)
Definition nmClockMx : lock := 20.
Definition nmSchemaMx : lock := 21.
Definition nmTracersMx : lock := 22.
Definition nmHandlersMx : lock := 23.
Definition nmLogLock : lock := 24.

(* ------------------------------------------------------------ fields *)
Definition activeStates : field := 0.
Definition clock : field := 1.
Definition queue : field := 2.
Definition queueTick : field := 3.
Definition schema : field := 4.
Definition stateNames : field := 5.
Definition stateNamesExport : field := 6.
Definition machineTick : field := 7.
Definition groups : field := 8.
Definition tracers : field := 9.
Definition handlers : field := 10.
Definition disposeHandlers : field := 11.
Definition subsWhen : field := 12.
Definition subsTime : field := 13.
Definition subsArgs : field := 14.
Definition subsQuery : field := 15.
Definition subsStateCtx : field := 16.
Definition subsQueue : field := 17.
Definition subsClock : field := 18.
Definition logEntries : field := 19.
Definition breakpoints : field := 20.
Definition resolver : field := 21.
Definition tDbg : field := 22.
Definition nextHandlerNum : field := 23.
Definition queuePending : field := 24.
(* atomics *)
Definition a_flags : field := 30.     (* disposing, disposed, statesVerified, queueRunning, ... *)
Definition a_tags : field := 31.
Definition a_err : field := 32.
Definition a_curTx : field := 33.
Definition a_logLevel : field := 34.
Definition a_logger : field := 35.
Definition a_logArgs : field := 36.
Definition a_queueLen : field := 37.
Definition a_onError : field := 38.
Definition a_onChange : field := 39.
Definition a_sem : field := 40.       (* semLogger flags, logId *)
Definition a_cur : field := 41.       (* currentHandler, currentEval, timeLast, backoff *)
(* NetworkMachine *)
Definition nmMachTime : field := 50.
Definition nmMachClock : field := 51.
Definition nmQueueTick : field := 52.
Definition nmMachTick : field := 53.
Definition nmStateNames : field := 54.
Definition nmTracers : field := 56.
Definition nmHandlers : field := 57.
Definition nmLogEntries : field := 58.
Definition nmActiveDbg : field := 60.
Definition a_nmActive : field := 55.
Definition a_nmCurTx : field := 59.
(* the NetworkMachine's own Subscriptions instance *)
Definition nmSubsWhen : field := 62.
Definition nmSubsTime : field := 63.
Definition nmSubsQuery : field := 65.
Definition nmSubsStateCtx : field := 66.
Definition nmSubsQueue : field := 67.
Definition nmSubsClock : field := 68.
Definition nmSubsMx : lock := 25.

(* field classes (the narrowness of violation codes) *)
Definition field_class (f : field) : nat :=
  if Nat.ltb f 2 then 1            (* active states / clock *)
  else if Nat.ltb f 4 then 2       (* queue / queue tick *)
  else if Nat.ltb f 9 then 3       (* schema / state names / machine tick / groups *)
  else if Nat.eqb f 9 then 4       (* tracers *)
  else if Nat.ltb f 12 then 5      (* handlers *)
  else if Nat.ltb f 19 then 6      (* subscription indexes *)
  else if Nat.eqb f 19 then 7      (* log entries *)
  else if Nat.eqb f 21 then 3      (* resolver index *)
  else if Nat.eqb f 23 then 5
  else if Nat.eqb f 24 then 2
  else if Nat.ltb f 50 then 8      (* breakpoints, tDbg, others *)
  else if Nat.ltb f 70 then 9      (* NetworkMachine *)
  else 0.

Inductive variant := Legacy | Cur | Fixed.

Record entry := E { e_name : string; e_prog : prog }.

Definition atom (f : field) : prog := [Atomic f].
Definition none : prog := [].


Definition locked (l : lock) (m : mode) (body : prog) : prog :=
  Acq l m :: body ++ [Rel l m].

(* ------------------------------------------------------------ building blocks *)
Section Blocks.
Variable v : variant.

Definition p_flags : prog := [Atomic a_flags].

(* StateNames(): Load; when nil: Clone(m.stateNames), Store *)
Definition p_stateNames : prog :=
  match v with
  | Legacy => locked schemaMx Sh
      [Read stateNamesExport; Read stateNames; Write stateNamesExport; Read stateNamesExport]
  | _ => locked schemaMx Sh [Atomic stateNamesExport; Read stateNames; Atomic stateNamesExport]
  end.

(* the writers' reset of the export copy: Store(nil) *)
Definition p_resetExport : prog :=
  match v with Legacy => [Write stateNamesExport] | _ => [Atomic stateNamesExport] end.

Definition p_schemaSafe : prog := locked schemaMx Sh [Read schema].
Definition p_index : prog := p_flags ++ p_stateNames.
Definition p_mustParse : prog := p_flags ++ p_schemaSafe.

(* logEv, machine.go:2239 (the transition's own LogEntries are not modelled) *)
Definition p_log : prog :=
  [Atomic a_logLevel; Atomic a_flags; Atomic a_sem; Atomic a_logger; Atomic a_curTx] ++
  locked logEntriesLock Ex [Read logEntries; Write logEntries].
Definition p_Log : prog := p_flags ++ p_log.

Definition p_tracers : prog := locked tracersMx Sh [Read tracers].

(* is() / not(): the caller holds activeStatesMx *)
Definition p_is_inner : prog := p_flags ++ [Read activeStates; Read stateNames] ++ p_log.
Definition p_Is : prog := p_flags ++ locked activeStatesMx Sh p_is_inner.
Definition p_not_inner : prog := p_mustParse ++ [Read activeStates].
Definition p_Not : prog := p_flags ++ locked activeStatesMx Sh p_not_inner.

Definition p_breakpoint : prog :=
  locked breakpointsMx Ex ([Read breakpoints] ++ p_Is ++ p_Not) ++ p_log.
Definition p_AddBreakpoint : prog :=
  locked breakpointsMx Ex [Read breakpoints; Write breakpoints].

Definition p_IsQueued : prog :=
  p_flags ++ locked queueMx Sh ([Read queue] ++ p_index).

(* queueMutation, machine.go:1296 *)
Definition p_queueMutation : prog :=
  p_mustParse ++ p_schemaSafe ++ p_IsQueued ++ p_log ++ p_index ++
  locked queueMx Ex [Read queue; Write queue; Atomic a_queueLen;
                     Read queuePending; Write queuePending; Read queueTick] ++
  p_log ++ [Atomic a_logArgs] ++ p_tracers ++ p_breakpoint.

(* time(): the caller holds activeStatesMx or the queue token *)
Definition p_time_inner : prog :=
  p_flags ++ locked schemaMx Sh [Read stateNames; Read clock].

(* setActiveStates: the caller holds activeStatesMx Ex *)
Definition p_setActive : prog :=
  p_flags ++ [Read activeStates; Write activeStates] ++ p_schemaSafe ++
  [Read clock; Write clock; Atomic a_logLevel; Atomic a_curTx; Atomic a_logArgs] ++ p_log.

(* resolver.TargetStates: reads m.schema directly *)
Definition p_resolverTarget : prog :=
  [Write resolver; Read resolver] ++ p_mustParse ++ [Read schema] ++ p_is_inner ++ p_log.

Definition p_setupExitEnter : prog :=
  [Read activeStates; Read resolver; Read schema] ++ p_is_inner.

(* newTransition, transition.go:76: activeStatesMx RLock for the whole body *)
Definition p_newTransition : prog :=
  locked activeStatesMx Sh
    (locked schemaMx Sh [Read stateNames; Read schema] ++ p_time_inner ++
     [Read activeStates; Read clock; Atomic a_curTx; Write tDbg] ++ p_log ++
     [Read activeStates] ++ p_resolverTarget ++ p_schemaSafe ++ p_index ++ p_log ++
     p_setupExitEnter ++ p_tracers).

Definition p_getHandlers : prog := locked handlersMx Ex [Read handlers].

(* processHandlers, machine.go:2358 (timeout / deadline / panic branches excluded) *)
Definition p_processHandlers : prog :=
  p_flags ++ p_getHandlers ++ p_log ++ [Atomic a_curTx; Atomic a_cur] ++ p_tracers ++
  locked activeStatesMx Sh (locked subsMx Ex ([Read subsArgs; Write subsArgs] ++ p_log)).

(* PrependMut up to (excluding) its processQueue *)
Definition p_prependCore : prog :=
  p_flags ++ p_mustParse ++ p_stateNames ++ p_log ++
  locked queueMx Ex [Read queue; Write queue; Atomic a_queueLen; Read queueTick] ++
  p_tracers.

(* processQueue when the CAS is lost *)
Definition p_pqFail : prog :=
  [Atomic a_queueLen; Atomic a_flags] ++ locked queueMx Ex ([Read queue] ++ p_log).

(* resolver.NewAutoMutation + PrependMut from inside the drain *)
Definition p_autoMutation : prog :=
  [Read resolver; Read stateNames; Read schema; Read activeStates] ++ p_is_inner ++
  p_log ++ p_index ++ p_prependCore ++ p_pqFail.

Definition p_recoverFinal : prog :=
  locked activeStatesMx Sh [Read activeStates] ++ p_log ++
  locked activeStatesMx Ex p_setActive.

Definition p_IsTime : prog :=
  p_flags ++ locked activeStatesMx Sh [Read stateNames; Read clock].

(* emitEvents, transition.go:684: the caller (processQueue) holds the queue
   token and schemaMx RLock *)
Definition p_emitEvents : prog :=
  p_tracers ++ p_processHandlers ++
  [Read activeStates] ++ p_resolverTarget ++ p_stateNames ++ p_index ++ p_setupExitEnter ++
  locked activeStatesMx Ex p_setActive ++
  [Read activeStates] ++
  locked subsMx Ex ([Read subsStateCtx; Write subsStateCtx] ++ p_log) ++
  p_time_inner ++ p_tracers ++
  locked subsMx Ex [Read subsArgs] ++
  p_processHandlers ++ p_recoverFinal ++ p_IsTime ++ [Atomic a_onChange] ++
  p_autoMutation ++
  locked logEntriesLock Ex [Read logEntries; Atomic a_queueLen; Write logEntries] ++
  p_tracers ++ p_Not.

(* processSubscriptions, machine.go:2169 *)
Definition p_processSubs : prog :=
  locked activeStatesMx Sh
    (locked subsMx Ex ([Read subsWhen; Write subsWhen] ++ p_log) ++
     locked subsMx Ex ([Read subsTime; Write subsTime; Read subsClock; Read clock] ++ p_log) ++
     [Read queueTick] ++
     locked subsMx Ex ([Read subsQueue; Write subsQueue] ++ p_log) ++
     locked subsMx Ex ([Read subsQuery; Write subsQuery; Read subsClock; Read clock] ++ p_log)).

(* processQueue, machine.go:2039 *)
Definition p_processQueue : prog :=
  p_pqFail ++
  locked procTok Ex
    ([Atomic a_flags; Atomic a_queueLen] ++
     locked queueMx Ex [Read queue; Write queue; Atomic a_queueLen;
                        Read queuePending; Write queuePending;
                        Read queueTick; Write queueTick] ++
     [Atomic a_cur] ++ p_Log ++
     p_newTransition ++
     locked schemaMx Sh (p_emitEvents ++ [Atomic a_cur]) ++
     p_processSubs ++
     (* a canceled mutation still releases the waiters of its queue tick *)
     locked activeStatesMx Sh
       ([Read queueTick] ++ locked subsMx Ex ([Read subsQueue; Write subsQueue] ++ p_log)) ++
     [Atomic a_curTx; Atomic a_flags]) ++
  p_tracers ++
  locked queueMx Ex (locked subsMx Ex [Read subsQueue; Write subsQueue]).

(* ---- mutations *)
Definition p_pre : prog := [Atomic a_flags; Atomic a_cur; Atomic a_queueLen].
Definition p_Add : prog := p_pre ++ p_Is ++ p_queueMutation ++ p_breakpoint ++ p_processQueue.
Definition p_Remove : prog :=
  p_pre ++ p_Is ++
  locked queueMx Sh ([Read queue; Atomic a_curTx] ++ p_Is) ++
  p_queueMutation ++ p_breakpoint ++ p_processQueue.
Definition p_Set : prog := p_pre ++ p_queueMutation ++ p_processQueue.
Definition p_Toggle : prog := p_flags ++ p_Is ++ p_Remove ++ p_Add.
(* drivers for transitions with EMPTY target states (every active state exits:
   setupExitEnter sorts the whole exit list): Add(F, G); Remove(ActiveStates())
   and Add(F, G); Set(S{}) - the same accesses as Add / Remove / Set, newTransition
   reading activeStates under the SHARED activeStatesMx *)
Definition p_RemoveAll : prog :=
  p_Add ++ p_flags ++ locked activeStatesMx Sh [Read activeStates] ++ p_Remove.
Definition p_SetNone : prog := p_Add ++ p_Set.
Definition p_AddErr : prog := p_pre ++ [Atomic a_err; Atomic a_onError] ++ p_Add.
Definition p_PrependMut : prog := p_prependCore ++ p_processQueue.
Definition p_CanAdd : prog := p_pre ++ p_index ++ p_PrependMut.
Definition p_Eval : prog := p_flags ++ [Atomic a_cur] ++ p_log ++ p_PrependMut ++ p_log.

(* ---- checks and getters *)
Definition p_Has : prog :=
  match v with
  | Fixed => p_flags ++ locked schemaMx Sh [Read stateNames]
  | _ => p_flags ++ [Read stateNames]
  end.
Definition p_IsClock : prog := p_flags ++ locked activeStatesMx Sh [Read clock].
Definition p_WillBe : prog := p_IsQueued ++ [Atomic a_queueLen].
Definition p_ActiveStates : prog := p_flags ++ locked activeStatesMx Sh [Read activeStates].
Definition p_Time : prog := p_flags ++ locked activeStatesMx Sh p_time_inner.
Definition p_Clock : prog := p_flags ++ locked activeStatesMx Sh [Read stateNames; Read clock].
Definition p_Tick : prog := p_flags ++ locked activeStatesMx Sh [Read clock].
Definition p_String : prog :=
  p_flags ++ locked activeStatesMx Sh [Read stateNames; Read activeStates; Read clock].
Definition p_Inspect : prog :=
  p_flags ++ locked activeStatesMx Sh
    ([Read stateNames; Read activeStates; Read clock] ++ p_schemaSafe).
Definition p_Queue : prog := p_flags ++ locked queueMx Sh [Read queue].
Definition p_QueueTick : prog := locked queueMx Ex [Read queueTick].
Definition p_MachineTick : prog := locked schemaMx Sh [Read machineTick].
Definition p_Tracers : prog := locked tracersMx Ex [Read tracers].
Definition p_Handlers : prog := locked handlersMx Sh [Read handlers].
Definition p_Groups : prog := locked schemaMx Sh [Read groups].
Definition p_SetGroups : prog := locked schemaMx Ex [Read stateNames; Write groups].
Definition p_ParseStates : prog := p_flags ++ p_schemaSafe.

(* ---- subscriptions *)
Definition p_When : prog :=
  p_flags ++ locked activeStatesMx Ex
    (p_mustParse ++ p_is_inner ++
     locked subsMx Ex ([Read subsWhen] ++ p_is_inner ++ p_log ++ [Write subsWhen])).
(* subscriptions.go:629: the index is read BEFORE sm.Mx is taken *)
Definition p_WhenNot : prog :=
  p_flags ++ locked activeStatesMx Ex
    (p_mustParse ++ p_not_inner ++ [Read subsWhen] ++
     locked subsMx Ex (p_is_inner ++ p_log ++ [Read subsWhen; Write subsWhen])).
Definition p_WhenTime : prog :=
  p_flags ++ locked activeStatesMx Ex
    (locked subsMx Ex ([Read subsTime; Read subsClock; Read clock] ++ p_log ++ [Write subsTime])).
Definition p_WhenTicks : prog := p_Tick ++ p_WhenTime.
Definition p_WhenQuery : prog :=
  p_flags ++ locked activeStatesMx Ex
    (locked subsMx Ex ([Read subsQuery] ++ p_log ++ [Write subsQuery])).
Definition p_WhenQueueEnds : prog :=
  p_flags ++ locked queueMx Ex (locked subsMx Ex [Read subsQueue; Write subsQueue]).
Definition p_WhenQueue : prog :=
  p_flags ++ locked queueMx Ex
    ([Read queueTick] ++ locked subsMx Ex ([Read subsQueue; Write subsQueue] ++ p_log)).
Definition p_WhenArgs : prog :=
  p_flags ++ locked activeStatesMx Ex
    (p_mustParse ++ locked subsMx Ex (p_log ++ [Read subsArgs; Write subsArgs])).
Definition p_NewStateCtx : prog :=
  p_flags ++ p_mustParse ++ locked activeStatesMx Ex
    (locked subsMx Ex
       ([Read subsStateCtx; Read subsClock; Read clock; Write subsStateCtx] ++ p_log)).

(* ---- bindings *)
Definition p_bindHandlers : prog :=
  p_flags ++ locked handlersMx Ex
    ([Read handlers; Read nextHandlerNum; Write nextHandlerNum; Write handlers] ++ p_log) ++
  p_Is ++ [Atomic a_err] ++ p_AddErr.
Definition p_HandlersDetach : prog :=
  p_flags ++ locked handlersMx Ex ([Read handlers; Write handlers] ++ p_log).
Definition p_TracerBind : prog :=
  p_flags ++ locked tracersMx Ex ([Read tracers; Write tracers] ++ p_log).
Definition p_OnDispose : prog :=
  locked handlersMx Ex [Read disposeHandlers; Write disposeHandlers].

(* ---- export / import / schema *)
Definition p_Export : prog :=
  locked activeStatesMx Sh (locked queueMx Sh (locked schemaMx Sh
    (p_flags ++ p_time_inner ++ p_log ++
     [Read machineTick; Read stateNames; Read queueTick; Read schema]))).
(* machine.go:3397: activeStates / clock are written under activeStatesMx RLock *)
Definition p_Import : prog :=
  locked activeStatesMx (match v with Fixed => Ex | _ => Sh end)
   (locked queueMx Sh (locked schemaMx Ex
    ([Read schema; Write activeStates; Read stateNames; Read activeStates; Write clock;
      Write stateNames] ++ p_resetExport ++ [Atomic a_flags; Write machineTick] ++
     (match v with Fixed => [Read stateNames] | _ => p_Has end) ++ p_log))).
(* machine.go:1833: stateNames / stateNamesExport are written under schemaMx RLock *)
Definition p_verifyInner : prog :=
  [Read schema; Read stateNames; Write stateNames] ++ p_resetExport ++
  [Atomic a_flags] ++ p_tracers.
Definition p_VerifyStates : prog :=
  match v with
  | Fixed =>
      p_flags ++
      locked activeStatesMx Ex (locked schemaMx Ex
        ([Read schema; Read stateNames; Write stateNames] ++ p_resetExport ++ [Atomic a_flags])) ++
      p_tracers
  | _ => p_flags ++ locked schemaMx Sh p_verifyInner
  end.
(* machine.go:3201: m.schema / m.stateNames are read again, and the resolver
   is rebuilt, after schemaMx is released *)
Definition p_SetSchema : prog :=
  [Atomic a_curTx] ++
  Acq schemaMx Ex :: Acq queueMx Sh ::
  ([Read schema; Write schema] ++ p_verifyInner ++
   locked subsMx Ex [Write subsClock]) ++
  [Rel schemaMx Ex] ++
  [Read schema; Read stateNames; Write resolver; Read resolver] ++ p_log ++ p_tracers ++
  [Rel queueMx Sh].

(* ------------------------------------------------------------ NetworkMachine *)
Definition p_nmStateNames : prog := locked nmSchemaMx Ex [Read nmStateNames].
Definition p_nmActive : prog := [Atomic a_nmActive].
Definition p_nmLog : prog :=
  [Atomic a_logLevel; Atomic a_sem; Atomic a_logger] ++
  locked nmLogLock Ex [Read nmLogEntries; Write nmLogEntries].
Definition p_nmIs : prog := p_nmActive ++ p_nmStateNames.
Definition p_nmSubsAll : prog :=
  locked nmSubsMx Ex [Read nmSubsStateCtx; Write nmSubsStateCtx] ++
  locked nmSubsMx Ex [Read nmSubsWhen; Write nmSubsWhen] ++
  locked nmSubsMx Ex [Read nmSubsTime; Write nmSubsTime; Read nmSubsClock; Read nmMachClock] ++
  [Read nmQueueTick] ++
  locked nmSubsMx Ex [Read nmSubsQueue; Write nmSubsQueue] ++
  locked nmSubsMx Ex [Read nmSubsQuery; Write nmSubsQuery; Read nmSubsClock; Read nmMachClock].
(* NetMachInternal.Lock() + UpdateClock(): logEntries is swapped under
   logEntriesLock since 031458c (without it before); queueFlush reads the
   queue indexes without sm.Mx (protected by clockMx) *)
Definition p_nmUpdateClock : prog :=
  Acq nmClockMx Ex ::
  locked nmTracersMx Ex
    ([Read nmMachTime; Read nmMachClock] ++ p_nmActive ++ p_nmStateNames ++ p_nmStateNames ++
     (match v with
      | Legacy => [Read nmLogEntries; Write nmLogEntries]
      | _ => locked nmLogLock Ex [Read nmLogEntries; Write nmLogEntries]
      end) ++
     [Atomic a_nmCurTx; Read nmTracers;
      Write nmMachTime; Write nmMachClock; Write nmMachTick; Read nmQueueTick] ++
     p_nmLog ++ [Read nmSubsQueue; Write nmQueueTick; Atomic a_nmActive; Write nmActiveDbg] ++
     locked nmHandlersMx Ex [Read nmHandlers] ++
     [Rel nmClockMx Ex; Read nmTracers] ++
     locked nmClockMx Sh p_nmSubsAll ++ [Atomic a_nmCurTx]).
Definition p_nmNot : prog := locked nmClockMx Sh (p_nmStateNames ++ p_nmActive).
Definition p_nmTick : prog := locked nmClockMx Sh (p_nmStateNames ++ [Read nmMachClock]).
Definition p_nmTime : prog := locked nmClockMx Sh (p_nmStateNames ++ [Read nmMachTime]).
Definition p_nmString : prog :=
  locked nmClockMx Sh (p_nmStateNames ++ p_nmActive ++ [Read nmMachTime]).
Definition p_nmQueueTick : prog := locked nmClockMx Sh [Read nmQueueTick].
Definition p_nmMachineTick : prog := locked nmClockMx Sh [Read nmMachTick].
Definition p_nmWhen : prog :=
  locked nmClockMx Ex
    (p_nmStateNames ++ p_nmIs ++
     locked nmSubsMx Ex ([Read nmSubsWhen] ++ p_nmIs ++ p_nmLog ++ [Write nmSubsWhen])).
Definition p_nmWhenNot : prog :=
  locked nmClockMx Ex
    (p_nmStateNames ++ p_nmIs ++ [Read nmSubsWhen] ++
     locked nmSubsMx Ex (p_nmIs ++ p_nmLog ++ [Read nmSubsWhen; Write nmSubsWhen])).
Definition p_nmWhenTime : prog :=
  locked nmClockMx Ex
    (locked nmSubsMx Ex ([Read nmSubsTime; Read nmSubsClock; Read nmMachClock] ++ p_nmLog ++
                       [Write nmSubsTime])).
Definition p_nmWhenQueue : prog :=
  locked nmClockMx Ex
    ([Read nmQueueTick] ++ locked nmSubsMx Ex ([Read nmSubsQueue; Write nmSubsQueue] ++ p_nmLog)).
Definition p_nmNewStateCtx : prog :=
  locked nmClockMx Ex
    (locked nmSubsMx Ex ([Read nmSubsStateCtx; Read nmSubsClock; Read nmMachClock;
                        Write nmSubsStateCtx] ++ p_nmLog)).
(* Tracers(): tracersMx.RLock since f656cf0 (clockMx before) *)
Definition p_nmTracers : prog :=
  match v with
  | Legacy => locked nmClockMx Ex [Read nmTracers]
  | _ => locked nmTracersMx Sh [Read nmTracers]
  end.
Definition p_nmTracerBind : prog :=
  locked nmTracersMx Ex ([Read nmTracers; Write nmTracers] ++ p_nmLog).

(* ------------------------------------------------------------ the table *)

Local Open Scope string_scope.

Definition api_table : list entry := [
  (* mutations *)
  E "Add" p_Add; E "Add1" p_Add; E "Remove" p_Remove; E "Remove1" p_Remove;
  E "Set" p_Set; E "Toggle" p_Toggle; E "Toggle1" p_Toggle;
  E "Remove.all" p_RemoveAll; E "Set.none" p_SetNone;
  E "AddErr" p_AddErr; E "AddErrState" p_AddErr;
  E "EvAdd" p_Add; E "EvAdd1" p_Add; E "EvRemove" p_Remove; E "EvRemove1" p_Remove;
  E "EvAddErr" p_AddErr; E "EvAddErrState" p_AddErr;
  E "EvToggle" p_Toggle; E "EvToggle1" p_Toggle;
  E "CanAdd" p_CanAdd; E "CanAdd1" p_CanAdd; E "CanRemove" p_CanAdd; E "CanRemove1" p_CanAdd;
  E "PrependMut" p_PrependMut; E "Eval" p_Eval;
  E "PanicToErr" p_AddErr; E "PanicToErrState" p_AddErr;
  (* checks *)
  E "Is" p_Is; E "Is1" p_Is; E "IsErr" p_Is; E "Any" p_Is; E "Any1" p_Is;
  E "Not" p_Not; E "Not1" p_Not;
  E "Has" p_Has; E "Has1" p_Has;
  E "IsClock" p_IsClock; E "WasClock" p_IsClock; E "IsTime" p_IsTime; E "WasTime" p_IsTime;
  E "IsQueued" p_IsQueued; E "IsQueuedAbove" p_IsQueued;
  E "WillBe" p_WillBe; E "WillBe1" p_WillBe; E "WillBeAny" p_WillBe;
  E "WillBeRemoved" p_WillBe; E "WillBeRemoved1" p_WillBe;
  E "Switch" p_ActiveStates;
  E "IsDisposed" (atom a_flags); E "StatesVerified" (atom a_flags); E "Backoff" (atom a_cur);
  (* getters *)
  E "ActiveStates" p_ActiveStates; E "Time" p_Time; E "Clock" p_Clock; E "Tick" p_Tick;
  E "String" p_String; E "StringAll" p_String; E "Inspect" p_Inspect;
  E "Schema" p_schemaSafe; E "SchemaVer" p_stateNames; E "StateNames" p_stateNames;
  E "Index" p_index; E "Index1" p_index; E "ParseStates" p_ParseStates;
  E "Queue" p_Queue; E "QueueLen" (atom a_queueLen); E "QueueTick" p_QueueTick;
  E "MachineTick" p_MachineTick;
  E "Tags" (atom a_tags); E "SetTags" (atom a_tags);
  E "Tracers" p_Tracers; E "Handlers" p_Handlers;
  E "Transition" (atom a_curTx); E "Err" (atom a_err);
  E "Groups" p_Groups; E "SetGroups" p_SetGroups; E "SetGroupsString" p_SetGroups;
  E "Id" none; E "ParentId" none; E "Context" none; E "ContextParent" none;
  E "Resolver" none; E "SemLogger" none; E "IsLocal" none; E "ErrInternal" none;
  E "WhenDisposed" none;
  (* subscriptions *)
  E "When" p_When; E "When1" p_When; E "WhenErr" p_When;
  E "WhenNot" p_WhenNot; E "WhenNot1" p_WhenNot;
  E "WhenTime" p_WhenTime; E "WhenTime1" p_WhenTime;
  E "WhenTicks" p_WhenTicks; E "WhenNextActive" p_WhenTicks;
  E "WhenQuery" p_WhenQuery; E "WhenQueueEnds" p_WhenQueueEnds; E "WhenQueue" p_WhenQueue;
  E "WhenArgs" p_WhenArgs; E "NewStateCtx" p_NewStateCtx;
  (* bindings *)
  E "HandlersBind" p_bindHandlers; E "HandlersBindMaps" p_bindHandlers;
  E "BindHandlers" p_bindHandlers; E "HandlersDetach" p_HandlersDetach;
  E "TracerBind" p_TracerBind; E "BindTracer" p_TracerBind;
  E "TracerDetach" p_TracerBind; E "DetachTracer" p_TracerBind;
  E "OnDispose" p_OnDispose; E "OnError" (atom a_onError); E "OnChange" (atom a_onChange);
  E "AddBreakpoint" p_AddBreakpoint; E "AddBreakpoint1" p_AddBreakpoint;
  (* logging *)
  E "Log" p_Log; E "LogEv" p_Log; E "LogCtx" p_Log;
  E "SemLogger.SetLevel" (atom a_logLevel); E "SemLogger.Level" (atom a_logLevel);
  E "SemLogger.SetLogger" (atom a_logger); E "SemLogger.Logger" (atom a_logger);
  E "SemLogger.SetEmpty" (atom a_logger); E "SemLogger.SetSimple" (atom a_logger);
  E "SemLogger.SetArgsMapper" (atom a_logArgs); E "SemLogger.SetArgsMapperDef" (atom a_logArgs);
  E "SemLogger.ArgsMapper" (atom a_logArgs);
  E "SemLogger.EnableId" (atom a_sem); E "SemLogger.IsId" (atom a_sem);
  E "SemLogger.EnableSteps" (atom a_sem); E "SemLogger.IsSteps" (atom a_sem);
  E "SemLogger.EnableGraph" (atom a_sem); E "SemLogger.IsGraph" (atom a_sem);
  E "SemLogger.EnableQueued" (atom a_sem); E "SemLogger.IsQueued" (atom a_sem);
  E "SemLogger.EnableArgs" (atom a_sem); E "SemLogger.IsArgs" (atom a_sem);
  E "SemLogger.EnableCan" (atom a_sem); E "SemLogger.IsCan" (atom a_sem);
  E "SemLogger.EnableStateCtx" none; E "SemLogger.IsStateCtx" none;
  E "SemLogger.EnableWhen" none; E "SemLogger.IsWhen" none;
  (* export / schema *)
  E "Export" p_Export; E "Import" p_Import; E "VerifyStates" p_VerifyStates;
  E "SetSchema" p_SetSchema;
  (* NetworkMachine *)
  E "NM.UpdateClock" p_nmUpdateClock;
  E "NM.Is" p_nmIs; E "NM.Is1" p_nmIs; E "NM.IsErr" p_nmIs; E "NM.Any1" p_nmIs;
  E "NM.Not" p_nmNot; E "NM.Not1" p_nmNot;
  E "NM.ActiveStates" p_nmActive;
  E "NM.Tick" p_nmTick; E "NM.Clock" p_nmTick;
  E "NM.Time" p_nmTime; E "NM.IsTime" p_nmTime; E "NM.WasTime" p_nmTime;
  E "NM.IsClock" p_nmTime; E "NM.WasClock" p_nmTime;
  E "NM.String" p_nmString; E "NM.StringAll" p_nmString;
  E "NM.QueueTick" p_nmQueueTick; E "NM.MachineTick" p_nmMachineTick;
  E "NM.StateNames" p_nmStateNames; E "NM.Index1" p_nmStateNames;
  E "NM.When1" p_nmWhen; E "NM.WhenNot1" p_nmWhenNot; E "NM.WhenTime1" p_nmWhenTime;
  E "NM.WhenQueue" p_nmWhenQueue; E "NM.NewStateCtx" p_nmNewStateCtx;
  E "NM.Tracers" p_nmTracers; E "NM.TracerBind" p_nmTracerBind; E "NM.TracerDetach" p_nmTracerBind;
  E "NM.Log" p_nmLog
].

End Blocks.

Local Open Scope string_scope.

(* the methods whose OWN locking is insufficient in /repo as it is (every
   unprotected pair of the Cur table involves one of them) *)
Definition culprits : list string := ["VerifyStates"; "SetSchema"; "Import"].

(* entries that do not follow the guard discipline [guards] below (on the
   Legacy table: every entry that can run StateNames()'s write branch, and
   NM.Tracers, as well) *)
Definition discipline_exceptions : list string :=
  ["Has"; "Has1"; "WhenNot"; "WhenNot1"; "Import"; "VerifyStates"; "SetSchema";
   "NM.UpdateClock"; "NM.WhenNot1"].

(* Go identifiers of the modelled fields, per package, for attributing a race
   report's source lines to a field *)
Definition field_idents : list (string * string * field) :=
  [("machine", "activeStates", activeStates); ("machine", "clock", clock);
   ("machine", "queue", queue); ("machine", "queueTick", queueTick);
   ("machine", "queueTicksPending", queuePending);
   ("machine", "schema", schema); ("machine", "stateNames", stateNames);
   ("machine", "stateNamesExport", stateNamesExport);
   ("machine", "machineTick", machineTick);
   ("machine", "groups", groups); ("machine", "groupsOrder", groups);
   ("machine", "tracers", tracers); ("machine", "handlers", handlers);
   ("machine", "disposeHandlers", disposeHandlers);
   ("machine", "nextHandlerNum", nextHandlerNum);
   ("machine", "when", subsWhen); ("machine", "whenCtx", subsWhen);
   ("machine", "whenTime", subsTime); ("machine", "whenTimeCtx", subsTime);
   ("machine", "whenArgs", subsArgs); ("machine", "whenArgsCtx", subsArgs);
   ("machine", "whenQuery", subsQuery); ("machine", "whenQueryCtx", subsQuery);
   ("machine", "stateCtx", subsStateCtx);
   ("machine", "whenQueue", subsQueue); ("machine", "whenQueueEnds", subsQueue);
   ("machine", "logEntries", logEntries); ("machine", "breakpoints", breakpoints);
   ("machine", "rr.Index", resolver); ("machine", "rr.topology", resolver);
   ("machine", "rr.Transition", resolver); ("machine", "rr.Machine", resolver);
   ("machine", "tDbg", tDbg);
   ("rpc", "machTime", nmMachTime); ("rpc", "machClock", nmMachClock);
   ("rpc", "queueTick", nmQueueTick); ("rpc", "machTick", nmMachTick);
   ("rpc", "stateNames", nmStateNames); ("rpc", "tracers", nmTracers);
   ("rpc", "handlers", nmHandlers); ("rpc", "logEntries", nmLogEntries);
   ("rpc", "activeStatesDbg", nmActiveDbg)].

Local Close Scope string_scope.

Definition breaks_discipline (name : string) : bool :=
  existsb (String.eqb name) discipline_exceptions.

Definition lookup (v : variant) (name : string) : option entry :=
  find (fun e => String.eqb (e_name e) name) (api_table v).

Definition prog_of (v : variant) (name : string) : prog :=
  match lookup v name with Some e => e_prog e | None => [] end.

(* what is left of them under the candidate repairs *)
Definition culprits_v (v : variant) : list string :=
  match v with Fixed => ("SetSchema"%string) :: nil | _ => culprits end.

Definition is_culprit_v (v : variant) (name : string) : bool :=
  existsb (String.eqb name) (culprits_v v).

Definition is_culprit (name : string) : bool := is_culprit_v Cur name.

Definition safe_entries (v : variant) : list entry :=
  filter (fun e => negb (is_culprit_v v (e_name e))) (api_table v).

Definition safe_progs (v : variant) : list prog := map e_prog (safe_entries v).

Definition all_progs (v : variant) : list prog := map e_prog (api_table v).

(* ------------------------------------------------------------ guard map *)

(* the discipline the code follows where it is consistent: readers hold one
   of the guards, writers hold all of them exclusively *)
Definition guards : guard_map := fun f =>
  if Nat.eqb f activeStates then [activeStatesMx; procTok]
  else if Nat.eqb f clock then [activeStatesMx; procTok]
  else if Nat.eqb f queue then [queueMx]
  else if Nat.eqb f queueTick then [queueMx; procTok]
  else if Nat.eqb f queuePending then [queueMx]
  else if Nat.eqb f schema then [schemaMx; procTok]
  else if Nat.eqb f stateNames then [schemaMx; activeStatesMx]
  else if Nat.eqb f stateNamesExport then [schemaMx]
  else if Nat.eqb f machineTick then [schemaMx]
  else if Nat.eqb f groups then [schemaMx]
  else if Nat.eqb f tracers then [tracersMx]
  else if Nat.eqb f handlers then [handlersMx]
  else if Nat.eqb f disposeHandlers then [handlersMx]
  else if Nat.eqb f nextHandlerNum then [handlersMx]
  else if Nat.eqb f subsWhen then [subsMx]
  else if Nat.eqb f subsTime then [subsMx]
  else if Nat.eqb f subsArgs then [subsMx]
  else if Nat.eqb f subsQuery then [subsMx]
  else if Nat.eqb f subsStateCtx then [subsMx]
  else if Nat.eqb f subsQueue then [subsMx]
  else if Nat.eqb f subsClock then [subsMx]
  else if Nat.eqb f logEntries then [logEntriesLock]
  else if Nat.eqb f breakpoints then [breakpointsMx]
  else if Nat.eqb f resolver then [procTok]
  else if Nat.eqb f tDbg then [procTok]
  else if Nat.eqb f nmMachTime then [nmClockMx]
  else if Nat.eqb f nmMachClock then [nmClockMx]
  else if Nat.eqb f nmQueueTick then [nmClockMx]
  else if Nat.eqb f nmMachTick then [nmClockMx]
  else if Nat.eqb f nmStateNames then [nmSchemaMx]
  else if Nat.eqb f nmTracers then [nmTracersMx]
  else if Nat.eqb f nmHandlers then [nmHandlersMx]
  else if Nat.eqb f nmLogEntries then [nmLogLock]
  else if Nat.eqb f nmActiveDbg then [nmClockMx]
  else if Nat.eqb f nmSubsWhen then [nmSubsMx]
  else if Nat.eqb f nmSubsTime then [nmSubsMx]
  else if Nat.eqb f nmSubsQuery then [nmSubsMx]
  else if Nat.eqb f nmSubsStateCtx then [nmSubsMx]
  else if Nat.eqb f nmSubsQueue then [nmSubsMx]
  else if Nat.eqb f nmSubsClock then [nmSubsMx]
  else [].

(* entries that break the guard discipline, with the fields they break it on *)
Definition ill_locked_fields (e : entry) : list field :=
  filter (fun f => negb (well_locked guards f (e_prog e))) (dedupb Nat.eqb (fields_of (e_prog e))).

Definition ill_locked (v : variant) : list (string * list field) :=
  filter (fun x => negb (match snd x with [] => true | _ => false end))
    (map (fun e => (e_name e, ill_locked_fields e)) (api_table v)).

(* ------------------------------------------------------------ predictions *)

(* fields on which two programs are NOT pairwise protected *)
Definition racy_fields (p q : prog) : list field :=
  let xs := csumm p in let ys := csumm q in
  filter (fun f => negb (accs_protected f xs ys))
    (dedupb Nat.eqb (map a_field xs ++ map a_field ys)).

Definition may_race (v : variant) (a b : string) : list field :=
  racy_fields (prog_of v a) (prog_of v b).

(* unprotected pairs of a table, by name *)
Definition unprotected_pairs (v : variant) : list (string * string * list field) :=
  flat_map (fun a =>
    flat_map (fun b =>
      match racy_fields (e_prog a) (e_prog b) with
      | [] => []
      | fs => [(e_name a, e_name b, fs)]
      end) (api_table v)) (api_table v).

(* footprint for the harness: (field, written?) *)
Definition footprint (e : entry) : list (field * bool) :=
  dedupb (fun x y => Nat.eqb (fst x) (fst y) && Bool.eqb (snd x) (snd y))
    (map (fun a => (a_field a, a_write a)) (summ [] (e_prog e))).

Definition footprints (v : variant) : list (string * list (field * bool)) :=
  map (fun e => (e_name e, footprint e)) (api_table v).
