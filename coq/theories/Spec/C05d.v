(* C05 — bindings detached while an event is being dispatched. Every binding
   that is bound when an event's dispatch starts is called exactly once for it
   (a later HandlersDetach only affects later events), a veto of a still-bound
   binding is delivered, detached bindings see no later event. Scenario: k
   bindings defining AEnter/AState/BEnter/BState; Add1(A) then Add1(B);
   binding i's AEnter may detach binding j and may veto. Proof-free. *)
From Coq Require Import List NArith Bool Arith.
From AMV Require Import Base.ListSet.
Import ListNotations.

Record dcase := {
  d_k : nat;
  d_detach : list (nat * nat);   (* (i, j): AEnter of binding i detaches binding j *)
  d_veto : list nat;             (* bindings whose AEnter returns false *)
  o_dcalls : list (nat * nat);   (* observed (binding, handler) 0 AEnter 1 AState 2 BEnter 3 BState *)
  o_res1 : bool;                 (* Add1(A) executed *)
  o_res2 : bool
}.

Definition detached_by (d : list (nat * nat)) (i : nat) : list nat :=
  map snd (filter (fun p => Nat.eqb (fst p) i) d).

(* negotiation event over the snapshot: returns (calls, bound afterwards, vetoed) *)
Fixpoint neg_dispatch (h : nat) (d : list (nat * nat)) (veto : list nat) (snap bound : list nat)
  : list (nat * nat) * list nat * bool :=
  match snap with
  | [] => ([], bound, false)
  | i :: r =>
    let bound' := filter (fun x => negb (mem x (detached_by d i))) bound in
    if mem i veto then ([(i, h)], bound', true)
    else let '(cs, b, v) := neg_dispatch h d veto r bound' in ((i, h) :: cs, b, v)
  end.

Definition expected_calls (k : dcase) : list (nat * nat) * bool * bool :=
  let all := seq 0 (d_k k) in
  let '(c1, b1, v1) := neg_dispatch 0 (d_detach k) (d_veto k) all all in
  let c2 := if v1 then [] else map (fun i => (i, 1)) b1 in
  (* second mutation: no detaching, no vetoes *)
  let c3 := map (fun i => (i, 2)) b1 ++ map (fun i => (i, 3)) b1 in
  (c1 ++ c2 ++ c3, negb v1, true).

Fixpoint pairs_eqb (a b : list (nat * nat)) : bool :=
  match a, b with
  | [], [] => true
  | (x1, y1) :: r, (x2, y2) :: s => Nat.eqb x1 x2 && Nat.eqb y1 y2 && pairs_eqb r s
  | _, _ => false
  end.

(* code 595 *)
Definition detach_codes (k : dcase) : list N :=
  let '(cs, r1, r2) := expected_calls k in
  if pairs_eqb cs (o_dcalls k) && Bool.eqb r1 (o_res1 k) && Bool.eqb r2 (o_res2 k) then [] else [595%N].
