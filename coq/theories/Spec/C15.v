(* C15 — supervision keeps the pool within bounds, never calls a short pool
   ready. The clauses of the property as boolean predicates, shared by the
   theorems (over the event model Conc/Pool.v) and by the run-time evaluation
   of what the real Supervisor did. Proof-free. *)
From Coq Require Import List NArith Bool Arith.
From AMV Require Import Base.ListSet Model.Schema Spec.C19 Conc.Pool.
Import ListNotations.

(* never tracks more workers than Max *)
Definition bound_ok (c : cfg) (tracked_now : N) : bool := (tracked_now <=? c_max c)%N.

(* never forks while at Max: the count the fork gate saw *)
Definition fork_ok (c : cfg) (tracked_at_gate : N) : bool := (tracked_at_gate <? c_max c)%N.

(* PoolReady becomes active only when at least min workers are ready at that moment *)
Definition activation_ok (c : cfg) (was now : bool) (ready_at_gate : N) : bool :=
  was || negb now || (min_eff c <=? ready_at_gate)%N.

(* ... and is not withdrawn while that many still are *)
Definition withdrawal_ok (c : cfg) (was now : bool) (ready_at_gate : N) : bool :=
  negb was || now || (ready_at_gate <? min_eff c)%N.

(* a worker that accumulated more than WorkerErrKill errors has a kill requested
   for it: [w_delivered] counts the countable errors raised for the entry *)
Definition over_limit (c : cfg) (errs : N) : bool := (c_errkill c <? errs)%N.
Definition kill_ok (c : cfg) (i : winfo) : bool :=
  negb (over_limit c (w_delivered i)) || w_killreq i.
Definition all_kill_ok (c : cfg) (s : st) : bool := forallb (fun p => kill_ok c (snd p)) (s_workers s).

(* the weaker clause that holds of the code as found: the errors ErrWorkerState
   has COUNTED ([w_errs]) *)
Definition kill_counted_ok (c : cfg) (i : winfo) : bool :=
  negb (over_limit c (w_errs i)) || w_killreq i.
Definition all_kill_counted_ok (c : cfg) (s : st) : bool :=
  forallb (fun p => kill_counted_ok c (snd p)) (s_workers s).

(* what is true of the code as found instead of bound_ok: every fork started
   below Max may still complete *)
Definition bound_partial_ok (c : cfg) (s : st) : bool :=
  (length (s_workers s) + length (s_inflight s) <=? N.to_nat (c_max c) + pred (s_peak s))%nat.

(* a round of the normalizer requests no more forks than min(min()+Warm, Max)
   minus the tracked workers its listing could see *)
Definition round_ok (c : cfg) (tracked_at_listing requested : N) : bool :=
  (requested <=? norm_target c - tracked_at_listing)%N.

(* ... so that, with no other fork in flight, completing all of them leaves a
   pool that was within Max within Max *)
Definition round_within_max (c : cfg) (tracked_at_listing requested : N) : bool :=
  (tracked_at_listing + requested <=? N.max (c_max c) tracked_at_listing)%N.

(* events that change a worker's standing (errors, mirrored Ready, cache expiry)
   but not the map: the normalizer's listing does not look at any of that *)
Definition status_event (e : event) : bool :=
  match e with
  | EErr _ _ | EErrAnon | EErrClear | EFlip _ _ | EExpire _ | EErrsExpire _ => true
  | _ => false
  end.

(* bound_partial_ok with the IMPLEMENTATION's tracked count in place of the
   model's: an excess over Max that forks in flight account for *)
Definition bound_partial_obs (c : cfg) (tracked_now : N) (s : st) : bool :=
  (N.to_nat tracked_now + length (s_inflight s) <=? N.to_nat (c_max c) + pred (s_peak s))%nat.

(* WorkerForked moves an entry from the boot address to the local address (or
   finds none): it never adds one *)
Definition rekey_ok (tracked_before tracked_after : N) : bool := (tracked_after <=? tracked_before)%N.

(* state groups: at most one member active *)
Definition groups_ok (groups : list (list nat)) (active : list nat) : bool :=
  forallb (fun g => exclusive_ok g active) groups.
