(* C08 — handler faults contained: panic/timeout becomes Exception, machine
   lives on. Predicates over a trace produced under scripted faults; the
   j-th handler invocation of a run consumes the j-th scripted action, so the
   fault of handler-log entry j is that of action j. *)
From Coq Require Import List NArith Bool Arith.
From AMV Require Import Base.ListSet Model.Schema Model.Resolver Model.Machine Spec.C01 Spec.C05.
Import ListNotations.

Definition fault_at (acts : list haction) (j : nat) : fault :=
  ha_fault (nth j acts default_action).

Definition is_fault (f : fault) : bool := match f with FNone => false | _ => true end.
Definition is_panic (f : fault) : bool := match f with FPanic => true | _ => false end.
Definition is_stall (f : fault) : bool := match f with FStall => true | _ => false end.

(* handler-log entries of a transition, with their global index *)
Definition tx_entries (hlog : list hlentry) (t : txrec) : list (nat * hlentry) :=
  slice (combine (seq 0 (length hlog)) hlog) (tx_hfrom t) (tx_hto t).

Definition first_fault (acts : list haction) (es : list (nat * hlentry)) : option (nat * hlentry) :=
  find (fun e => is_fault (fault_at acts (fst e))) es.

Definition active_of_clock (cl : list N) : list nat :=
  filter (fun i => N.odd (nth i cl 0%N)) (seq 0 (length cl)).

(* states at and after [x] in [l] *)
Fixpoint from_state (x : nat) (l : list nat) : list nat :=
  match l with
  | [] => []
  | y :: r => if Nat.eqb x y then l else from_state x r
  end.

(* codes: 80 parity broken after a fault; 81 a panic escaped to the caller;
   82 the machine wedged (a call blocked forever); 84 a recovered panic is not
   followed by the prepended Add[Exception]; 86 a timeout/panic in the
   negotiation phase did not cancel the transition or moved ticks;
   87 a timeout was not reported on ErrInternal;
   890 final-phase rollback wrong after a fault in a State handler,
   891 after a fault in an End handler, 892 after a fault in AnyState *)
Definition tx_fault_codes (sc : schema) (topo : list nat) (exc : nat) (acts : list haction)
  (hlog : list hlentry) (t : txrec) (next : option txrec) : list N :=
  let es := tx_entries hlog t in
  match first_fault acts es with
  | None => []
  | Some (j, h) =>
    let k := hl_key h in
    let panics_here := existsb (fun e => is_panic (fault_at acts (fst e))) es in
    (* Exception follows a recovered panic, unless this mutation called Exception itself *)
    (if panics_here && negb (mem exc (tx_called t)) then
       match next with
       | Some n => if mut_type_eqb (tx_type n) MAdd && list_eqb (tx_called n) [exc]
                      && negb (tx_auto n) && N.eqb (tx_qtick n) 0 then [] else [84%N]
       | None => [84%N]
       end
     else [])
    ++
    (if negb (is_final_key k) then
       (* negotiation fault: canceled, nothing moved (auto transitions accept
          partially: a fault there is one state's veto) *)
       if tx_auto t then []
       else if negb (tx_accepted t) && clock_eqb (tx_before t) (tx_mach_after t) then [] else [86%N]
     else
       (* final fault: exactly the states whose final handlers had not
          completed are rolled back. A called, already active Multi state is
          in the enter list without having been activated: left out of the
          comparison. *)
       let before := tx_active_before t in
       let exits := sort_states sc topo (diff before (tx_target t)) in
       let enters := filter (fun x => negb (mem x before)
                                      || (s_multi (sget sc x) && mem x (tx_called t))) (tx_target t) in
       let ambiguous := filter (fun x => mem x before) enters in
       let expected :=
         match k with
         | HState x => diff (tx_target t) (from_state x enters)
         | HEnd x => diff (tx_target t) enters ++ from_state x exits
         | _ => tx_target t
         end in
       if set_eqb (diff expected ambiguous) (diff (active_of_clock (tx_mach_after t)) ambiguous) then []
       else match k with HState _ => [890%N] | HEnd _ => [891%N] | _ => [892%N] end)
  end.

Fixpoint txs_fault_codes (sc : schema) (topo : list nat) (exc : nat) (acts : list haction)
  (hlog : list hlentry) (txs : list txrec) : list N :=
  match txs with
  | [] => []
  | t :: r => tx_fault_codes sc topo exc acts hlog t (hd_error r)
              ++ txs_fault_codes sc topo exc acts hlog r
  end.

Definition count_stalls (acts : list haction) (n : nat) : nat :=
  length (filter (fun j => is_stall (fault_at acts j)) (seq 0 n)).

Definition c08_codes (sc : schema) (topo : list nat) (exc : nat) (acts : list haction)
  (interr : nat) (tr : trace) : list N :=
  (if tr_crashed tr then [81%N] else [])
  ++ (if tr_hung tr then [82%N] else [])
  ++ (if forallb (fun c => parity_ok (co_time c) (co_active c)) (tr_calls tr) then [] else [80%N])
  ++ txs_fault_codes sc topo exc acts (tr_hlog tr) (tr_txs tr)
  ++ (if tr_hung tr || tr_crashed tr || (count_stalls acts (length (tr_hlog tr)) <=? interr) then [] else [87%N]).
