(* C07 — auto states are retried after every change and judged one by one. *)
From Coq Require Import List NArith Bool Arith.
From AMV Require Import Base.ListSet Model.Schema Model.Resolver Model.Machine Spec.C01 Spec.C05.
Import ListNotations.

Definition tx_is_health (health : list nat) (t : txrec) : bool :=
  match tx_type t, tx_called t with
  | MAdd, [x] => mem x health
  | _, _ => false
  end.

Definition triggers_auto (health : list nat) (t : txrec) : bool :=
  tx_accepted t && negb (tx_check t) && negb (tx_auto t) && negb (tx_is_health health t)
  && negb (clock_eqb (tx_before t) (tx_after t)).

(* the handlers that speak for one called Auto state *)
Definition own_key (x : nat) (k : hkey) : bool :=
  match k with
  | HEnter y | HSelf y => Nat.eqb x y
  | HTrans _ y => Nat.eqb x y
  | _ => false
  end.

(* codes: 71 a triggering transition is not followed by the auto mutation
   calling exactly the inactive, unblocked Auto states; 72 an auto mutation
   follows a transition that must not trigger one (auto, no change, canceled,
   check, health); 73 a called Auto state that relations accept and whose own
   handlers did not veto did not end up active; 74 a panic escaped (Exit veto
   of an Auto state inside an auto transition) *)
Fixpoint follow_codes (sc : schema) (health : list nat) (crashed : bool) (txs : list txrec) : list N :=
  match txs with
  | [] => []
  | t :: r =>
    (let cands := if triggers_auto health t then auto_candidates sc (tx_target t) else [] in
     match cands, r with
     | [], [] => []
     | [], n :: _ => if tx_auto n then [72%N] else []
     | _ :: _, [] => if crashed then [] else [71%N]
     | _ :: _, n :: _ => if tx_auto n && mut_type_eqb (tx_type n) MAdd && perm_eqb (tx_called n) cands
                         then [] else [71%N]
     end) ++ follow_codes sc health crashed r
  end.

Definition judged_codes (sc : schema) (topo : list nat) (hlog : list hlentry) (t : txrec) : list N :=
  if negb (tx_auto t) then [] else
  let hs := slice hlog (tx_hfrom t) (tx_hto t) in
  let vetoes := filter (fun h => negb (is_final_key (hl_key h)) && negb (hl_ret h)) hs in
  let called := tx_called t in
  (* a veto that is not specific to a called Auto state cancels legitimately *)
  let global_veto := existsb (fun h => negb (existsb (fun x => own_key x (hl_key h)) called)) vetoes in
  if global_veto then [] else
  let nv := filter (fun x => negb (existsb (fun h => own_key x (hl_key h)) vetoes)) called in
  (* judged one by one: the states that relations accept jointly and whose own
     handlers did not veto are resolved again on their own (what a rejected
     neighbour cannot take away) *)
  let joint := resolve sc topo (tx_active_before t) MAdd called in
  let clean := filter (fun x => mem x joint) nv in
  let expected := resolve sc topo (tx_active_before t) MAdd clean in
  let active_after := filter (fun i => N.odd (nth i (tx_after t) 0%N)) (seq 0 (length (tx_after t))) in
  if forallb (fun x => negb (mem x expected) || mem x active_after) clean then [] else [73%N].

Definition c07_codes (sc : schema) (topo health : list nat) (tr : trace) : list N :=
  follow_codes sc health (tr_crashed tr) (tr_txs tr)
  ++ flat_map (judged_codes sc topo (tr_hlog tr)) (tr_txs tr)
  ++ (if tr_crashed tr then [74%N] else []).
