(* C14 under handler faults. The property states the time clauses "for
   transitions without handler faults": a transition one of whose handler
   invocations panicked or stalled is exempt from them (and so is a
   before/after pair it takes part in, since its reported time-after is not
   required to be true), and from the Finals-iff-accepted clause (the fault
   flips IsAccepted after the fact). The bracket clause - Init, Start, End
   exactly once, in order, never interleaved - is judged on every
   transition. With a fault-free script this is Spec.C14.c14_codes
   (Proofs/C14fProofs.v). Proof-free. *)
From Coq Require Import List NArith Bool Arith.
From AMV Require Import Base.ListSet Model.Schema Model.Machine Spec.C01 Spec.C14.
Import ListNotations.

(* the j-th handler invocation of a run consumes the j-th scripted action *)
Definition act_faulted (acts : list haction) (j : nat) : bool :=
  match ha_fault (nth j acts default_action) with FNone => false | _ => true end.

Definition tx_faulted (acts : list haction) (t : txrec) : bool :=
  existsb (act_faulted acts) (seq (tx_hfrom t) (tx_hto t - tx_hfrom t)).

Fixpoint flags_ok_f (fl : txrec -> bool) (a : list bool) (txs : list txrec) : bool :=
  match a, txs with
  | [], [] => true
  | x :: r, t :: s =>
    (fl t || Bool.eqb x (tx_accepted t && negb (tx_check t))) && flags_ok_f fl r s
  | _, _ => false
  end.

Fixpoint chain_ok_f (fl : txrec -> bool) (prev : txrec) (txs : list txrec) : bool :=
  match txs with
  | [] => true
  | t :: r => (fl prev || fl t || clock_eqb (tx_after prev) (tx_before t)) && chain_ok_f fl t r
  end.

Definition c14f_codes (acts : list haction) (tr : trace) (extra : list (list tev)) : list N :=
  let txs := tr_txs tr in
  let fl := tx_faulted acts in
  (match brackets BIdle (tr_evs tr) [] with
   | None => if tr_crashed tr then [] else [141%N]
   | Some fs =>
     (if Nat.eqb (length fs) (length txs) then [] else [142%N])
     ++ (if flags_ok_f fl fs txs then [] else [143%N])
     ++ (if Nat.eqb (count_ev (fun e => match e with EvQueued _ _ => true | _ => false end) (tr_evs tr))
                    (length txs) then [] else [142%N])
   end)
  ++ (match txs with
      | [] => []
      | t :: r => if chain_ok_f fl t r then [] else [144%N]
      end)
  ++ (if forallb (fun t => fl t || (if tx_check t || negb (tx_accepted t)
                                    then clock_eqb (tx_before t) (tx_after t) else true)) txs
      then [] else [145%N])
  ++ (if forallb (fun t => fl t || clock_eqb (tx_after t) (tx_mach_after t)) txs then [] else [146%N])
  ++ (match rev txs, rev (tr_calls tr) with
      | t :: _, c :: _ =>
        if fl t || tr_crashed tr || clock_eqb (tx_after t) (co_time c) then [] else [147%N]
      | _, _ => []
      end)
  ++ (if forallb (fun ev => tevs_eqb ev (tr_evs tr)) extra then [] else [148%N]).
