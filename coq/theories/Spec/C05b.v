(* C05/C07 — every bound negotiation handler is consulted. A veto can only
   stop a transition (C05) or reject an Auto state (C07) if the handler is
   asked: in an applied (accepted, non-check) transition every bound Exit,
   Enter and state-state handler that the transition concerns has been called
   exactly once per binding. Self handlers are left out (for auto transitions
   the in-place deletion of a vetoed state skips the next one: known quirk,
   and they never concern a called Auto state). Proof-free. *)
From Coq Require Import List NArith Bool Arith.
From AMV Require Import Base.ListSet Model.Schema Model.Resolver Model.Machine Spec.C01 Spec.C05 Spec.C07.
Import ListNotations.

(* the negotiation events an applied transition must have consulted *)
(* a negotiation handler speaking for state x returned false *)
Definition vetoed_own (hs : list hlentry) (x : nat) : bool :=
  existsb (fun h => negb (is_final_key (hl_key h)) && negb (hl_ret h) && own_key x (hl_key h)) hs.

Definition expected_negotiation (sc : schema) (topo : list nat) (hs : list hlentry) (t : txrec) : list hkey :=
  let before := tx_active_before t in
  if tx_auto t then
    (* the negotiation of an auto transition runs against the first
       resolution, which the record does not keep; what is certain: every
       called Auto state that ended up newly active was in it, so its own
       Enter and state-state handlers must have been consulted *)
    let first := resolve sc topo before MAdd (tx_called t) in
    let activated := filter (fun x => mem x (tx_called t) && negb (mem x before) && mem x first
                                      && negb (vetoed_own hs x)) (tx_target t) in
    map HEnter activated
    ++ flat_map (fun b => map (fun a => HTrans b a) (filter (fun a => negb (Nat.eqb a b)) activated)) before
  else
    let exits := diff before (tx_target t) in
    let enters := expected_enters sc t in
    map HExit exits ++ map HEnter enters
    ++ flat_map (fun b => map (fun a => HTrans b a) (filter (fun a => negb (Nat.eqb a b)) (tx_target t))) before.

(* code 59: a bound negotiation handler of an applied transition was not
   called exactly once *)
Definition consulted_codes (sc : schema) (topo : list nat) (bs : list (list hkey))
  (hlog : list hlentry) (t : txrec) : list N :=
  if negb (tx_accepted t && negb (tx_check t)) then [] else
  let hs := slice hlog (tx_hfrom t) (tx_hto t) in
  let ok :=
    forallb (fun ib : nat * list hkey =>
      let '(i, b) := ib in
      forallb (fun k => negb (existsb (hkey_eqb k) b) || Nat.eqb (count_key hs k i) 1)
              (expected_negotiation sc topo hs t)) (combine (seq 0 (length bs)) bs) in
  if ok then [] else [59%N].

(* code 591: an auto transition activated a state that was not in its first
   resolution (it came in through the re-resolution after partial
   acceptance, e.g. by an Add relation): its bound Enter / state-state
   handlers were never consulted *)
Definition reresolved_codes (sc : schema) (topo : list nat) (bs : list (list hkey))
  (hlog : list hlentry) (t : txrec) : list N :=
  if negb (tx_auto t && tx_accepted t && negb (tx_check t)) then [] else
  let before := tx_active_before t in
  let hs := slice hlog (tx_hfrom t) (tx_hto t) in
  let first := resolve sc topo before MAdd (tx_called t) in
  let late := filter (fun x => negb (mem x before) && negb (mem x first)) (tx_target t) in
  let keys := map HEnter late
              ++ flat_map (fun b => map (fun a => HTrans b a) (filter (fun a => negb (Nat.eqb a b)) late)) before in
  if forallb (fun ib : nat * list hkey =>
       let '(i, b) := ib in
       forallb (fun k => negb (existsb (hkey_eqb k) b) || negb (Nat.eqb (count_key hs k i) 0)) keys)
     (combine (seq 0 (length bs)) bs)
  then [] else [591%N].

(* code 592: a called Auto state whose own negotiation handler returned false
   ended up active all the same (brought back by the re-resolution) *)
Definition vetoed_active_codes (hlog : list hlentry) (t : txrec) : list N :=
  if negb (tx_auto t && tx_accepted t && negb (tx_check t)) then [] else
  let hs := slice hlog (tx_hfrom t) (tx_hto t) in
  if existsb (fun x => negb (mem x (tx_active_before t)) && mem x (tx_called t) && vetoed_own hs x)
             (tx_target t)
  then [592%N] else [].

Definition c05b_codes (sc : schema) (topo : list nat) (bs : list (list hkey)) (tr : trace) : list N :=
  flat_map (consulted_codes sc topo bs (tr_hlog tr)) (tr_txs tr)
  ++ flat_map (reresolved_codes sc topo bs (tr_hlog tr)) (tr_txs tr)
  ++ flat_map (vetoed_active_codes (tr_hlog tr)) (tr_txs tr).
