(* Spec/C18.v - "Pipes make the target follow the source": the property's
   clauses as boolean predicates over observables (final clocks of the piped
   states, the log of the source's calls, active sets).  Shared by the
   theorems of Props/C18.v and the run-time evaluation of Run/EvalC18.v. *)

From Coq Require Import List NArith Bool Arith.
From AMV Require Import Conc.Pipes.
Import ListNotations.

(* at joint quiescence the target state is active exactly when the source
   state is, for each of the n piped states (clocks: active = odd tick) *)
Definition follows (n : nat) (src tg : list N) : bool :=
  forallb (fun i => Bool.eqb (act src i) (act tg i)) (seq 0 n).

(* every call on the source returned at once - Executed, or Canceled by the
   history's OWN scripted veto - without having been stuck in the target
   (log entries of Conc/Pipes.v: 0 = returned at once, Executed; 4 = vetoed
   by the script; 3 = returned only after the target went on; 1/2 = Canceled /
   Queued for another reason) *)
Definition src_unhindered (log : list N) : bool :=
  forallb (fun x => N.eqb x 0 || N.eqb x 4) log.

(* a pipe handler runs only in a source transition that changed a piped
   state: per source call, (pipe handlers invoked, a piped tick moved) *)
Fixpoint events_justified (evlog : list N) (chglog : list bool) : bool :=
  match evlog, chglog with
  | e :: r, c :: s => (N.eqb e 0 || c) && events_justified r s
  | _, _ => true
  end.

(* BindAny: the target's active set equals the source's *)
Fixpoint sets_equal (a b : list bool) : bool :=
  match a, b with
  | [], [] => true
  | x :: r, y :: s => Bool.eqb x y && sets_equal r s
  | _, _ => false
  end.

(* schedules *)
Definition is_hold (s : step) : bool := match s with SHold => true | _ => false end.
Definition oldest_first (s : step) : bool :=
  match s with SDel (S _) => false | _ => true end.

(* the target is never held: no third-party mutation, no slow transition *)
Definition never_held (c : pcfg) (steps : list step) : bool :=
  forallb negb (p_parks c) && forallb (fun s => negb (is_hold s)) steps.

Definition adds_only (ops : list aop) : bool :=
  forallb (fun o => match o with AAdd _ => true | _ => false end) ops.
