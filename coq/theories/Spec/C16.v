(* C16 — "The debugger shows each transition as it happened and navigates
   consistently": the property as boolean predicates over observables.
   Shared by the theorems (Props/C16.v, about the model) and by the run-time
   evaluation of what the implementation answered (Run/EvalC16.v).

   Nothing here is defined through the model's search / parse functions:
   the predicates are linear scans and pointwise comparisons. *)

From Coq Require Import List NArith ZArith Bool Arith.
From AMV Require Import Model.DbgIndex.
Import ListNotations.

(* ------------------------------------------------------------------ list equality *)

Fixpoint list_eqb {A} (eqb : A -> A -> bool) (a b : list A) : bool :=
  match a, b with
  | [], [] => true
  | x :: r, y :: s => eqb x y && list_eqb eqb r s
  | _, _ => false
  end.

Definition lnat_eqb := list_eqb Nat.eqb.
Definition lN_eqb := list_eqb N.eqb.

(* ------------------------------------------------------------------ (1) records are faithful *)

(* what a recording tracer saw on the source machine, per tracer callback
   that the dbg tracer turns into a record *)
Record truth := mkTruth {
  t_queued : bool;            (* MutationQueued (true) or TransitionEnd (false) *)
  t_time : list N;            (* Machine.Time(nil) inside TransitionEnd *)
  t_active : list nat;        (* Machine.ActiveStates(nil) inside TransitionEnd, as sorted indexes *)
  t_qtick : N;                (* Machine.QueueTick() inside the callback *)
  t_mqtick : N;               (* Mutation.QueueTick (queued only) *)
  t_accepted : bool;
  t_check : bool;
  t_auto : bool;
  t_called : list nat
}.

Definition active_idxs (t : list N) : list nat :=
  filter (fun i => active_tick (tick t i)) (seq 0 (length t)).

(* codes: 10 clocks, 11 active states, 12 flags / queue tick of a transition
   record, 13 queued-mutation record *)
Definition record_codes (last_time : list N) (t : truth) (m : msg) : list N :=
  if t_queued t then
    (if m_queued m && lN_eqb (m_clocks m) last_time && N.eqb (m_qtick m) (t_qtick t)
        && N.eqb (m_mqtick m) (t_mqtick t) && Bool.eqb (m_check m) (t_check t)
        && Bool.eqb (m_auto m) (t_auto t) && lnat_eqb (m_called m) (t_called t)
     then [] else [13%N])
  else
    (if lN_eqb (m_clocks m) (t_time t) then [] else [10%N]) ++
    (if lnat_eqb (active_idxs (m_clocks m)) (t_active t) then [] else [11%N]) ++
    (if negb (m_queued m) && N.eqb (m_qtick m) (t_qtick t)
        && Bool.eqb (m_accepted m) (t_accepted t) && Bool.eqb (m_check m) (t_check t)
        && Bool.eqb (m_auto m) (t_auto t) && lnat_eqb (m_called m) (t_called t)
     then [] else [12%N]).

(* record N against the N-th traced callback; last_time = machine time after
   the latest traced transition (initially: when the tracer was attached) *)
Fixpoint records_codes (last_time : list N) (ts : list truth) (ms : list msg) : list N :=
  match ts, ms with
  | [], [] => []
  | t :: tr, m :: mr =>
    record_codes last_time t m ++
    records_codes (if t_queued t then last_time else t_time t) tr mr
  | _, _ => [14%N]
  end.

Definition records_faithful (init : list N) (ts : list truth) (ms : list msg) : bool :=
  match records_codes init ts ms with [] => true | _ => false end.

(* ------------------------------------------------------------------ (2) derived data *)

Definition act (t : list N) (i : nat) : bool := N.odd (nth i t 0%N).

(* states removed / added between two consecutive clock lists. `prev = []`
   stands for "no previous record" *)
Definition exp_removed (n : nat) (prev cur : list N) : list nat :=
  filter (fun i => act prev i && negb (act cur i)) (seq 0 n).

Definition exp_added (n : nat) (prev cur : list N) : list nat :=
  filter (fun i =>
            (negb (act prev i) && act cur i) ||
            (match prev with [] => false | _ => true end
             && Bool.eqb (act prev i) (act cur i)
             && negb (N.eqb (nth i prev 0%N) (nth i cur 0%N))))
         (seq 0 n).

(* the states a transition's steps name; names the index does not have (the
   pseudo-state Any of global handlers, printed as -1) are no states *)
Definition is_state (z : Z) : bool := Z.leb 0 z.
Definition endpoints (m : msg) : list Z := filter is_state (flat_map step_states (m_steps m)).

Fixpoint nodupb (l : list Z) : bool :=
  match l with
  | [] => true
  | x :: r => negb (mem_z x r) && nodupb r
  end.

Definition same_set (a b : list Z) : bool :=
  forallb (fun x => mem_z x b) a && forallb (fun x => mem_z x a) b.

(* every touched index names a state of the index *)
Definition touched_in_index (n : nat) (l : list Z) : bool :=
  forallb (fun x => is_state x && Z.ltb x (Z.of_nat n)) l.

(* codes: 20 sum / diff, 21 added / removed, 22 touched (as a set, no duplicates) *)
Definition derived_codes (n : nat) (prev : option msg) (cur : msg) (p : parsed) : list N :=
  let pc := match prev with Some pm => m_clocks pm | None => [] end in
  (if N.eqb (p_sum p) (sumN (m_clocks cur)) && N.eqb (p_diff p) (sumN (m_clocks cur) - sumN pc)
   then [] else [20%N]) ++
  (if lnat_eqb (p_added p) (exp_added n pc (m_clocks cur))
      && lnat_eqb (p_removed p) (exp_removed n pc (m_clocks cur)) then [] else [21%N]) ++
  (if nodupb (p_touched p) && same_set (filter is_state (p_touched p)) (endpoints cur)
   then [] else [22%N]).

Definition derived_ok (n : nat) (prev : option msg) (cur : msg) (p : parsed) : bool :=
  match derived_codes n prev cur p with [] => true | _ => false end.

(* time sums never decrease from one record to the next *)
Fixpoint sums_monotone_from (prev : N) (ms : list msg) : bool :=
  match ms with
  | [] => true
  | m :: r => N.leb prev (sumN (m_clocks m)) && sums_monotone_from (sumN (m_clocks m)) r
  end.
Definition sums_monotone (ms : list msg) : bool := sums_monotone_from 0 ms.

Fixpoint qticks_monotone_from (prev : N) (ms : list msg) : bool :=
  match ms with
  | [] => true
  | m :: r => N.leb prev (m_qtick m) && qticks_monotone_from (m_qtick m) r
  end.
Definition qticks_monotone (ms : list msg) : bool := qticks_monotone_from 0 ms.

Fixpoint htimes_monotone_from (prev : N) (ms : list msg) : bool :=
  match ms with
  | [] => true
  | m :: r => N.leb prev (m_htime m) && htimes_monotone_from (m_htime m) r
  end.
Definition htimes_monotone (ms : list msg) : bool := htimes_monotone_from 0 ms.

Fixpoint psums_monotone_from (prev : N) (ps : list parsed) : bool :=
  match ps with
  | [] => true
  | p :: r => N.leb prev (p_sum p) && psums_monotone_from (p_sum p) r
  end.
Definition psums_monotone (ps : list parsed) : bool := psums_monotone_from 0 ps.

(* pointwise check of all derived records *)
Fixpoint all_derived_codes (n : nat) (prev : option msg) (ms : list msg) (ps : list parsed) : list N :=
  match ms, ps with
  | [], [] => []
  | m :: mr, p :: pr => derived_codes n prev m p ++ all_derived_codes n (Some m) mr pr
  | _, _ => [20%N]
  end.

(* code 221: a touched "state" that the index does not have *)
Definition touched_codes (n : nat) (ps : list parsed) : list N :=
  if forallb (fun p => touched_in_index n (p_touched p)) ps then [] else [221%N].

(* the error index: every record with an active error state, newest first *)
Definition exp_errors (errst : list nat) (ms : list msg) : list nat :=
  rev (filter (fun i => is_err errst (nth i ms dmsg)) (seq 0 (length ms))).

Fixpoint desc_sorted (l : list nat) : bool :=
  match l with
  | [] => true
  | x :: r => match r with [] => true | y :: _ => Nat.ltb y x end && desc_sorted r
  end.

(* ------------------------------------------------------------------ (3) lookups = linear scans *)

(* index of the first element satisfying p; the length when there is none *)
Fixpoint first_idx {A} (p : A -> bool) (l : list A) : nat :=
  match l with
  | [] => 0
  | x :: r => if p x then 0 else S (first_idx p r)
  end.

(* "the first record at or after X, else the last one; -1 on an empty store" *)
Definition scan_at_or_after {A} (p : A -> bool) (l : list A) : Z :=
  match l with
  | [] => (-1)%Z
  | _ => let i := first_idx p l in
         Z.of_nat (if Nat.eqb i (length l) then length l - 1 else i)
  end.

Definition queue_tick_scan (ms : list msg) (q : N) : Z :=
  scan_at_or_after (fun m => N.leb q (m_qtick m)) ms.

Definition htime_scan (ms : list msg) (t : N) : Z :=
  scan_at_or_after (fun m => N.leb t (m_htime m)) ms.

(* "the first record with exactly this time sum; -1 when there is none" *)
Definition scan_exact {A} (p : A -> bool) (l : list A) : Z :=
  let i := first_idx p l in
  if Nat.ltb i (length l) then Z.of_nat i else (-1)%Z.

Definition mach_time_scan (ps : list parsed) (sum : N) : Z :=
  scan_exact (fun p => N.eqb (p_sum p) sum) ps.

Definition tx_index_scan (ms : list msg) (id : nat) : Z :=
  scan_exact (fun m => Nat.eqb (m_id m) id) ms.

(* "tx itself is an error record, or some error record lies less than
   `distance` records before tx" *)
Definition had_err_scan (errors : list nat) (tx distance : Z) : bool :=
  existsb (fun e => let ez := Z.of_nat e in
                    Z.eqb ez tx || (Z.ltb ez tx && Z.ltb (tx - ez) distance)) errors.

Definition filter_index_scan (filtered : list nat) (cursor1 : Z) : Z :=
  if Z.eqb cursor1 0 then 0%Z
  else scan_exact (fun i => Z.eqb (Z.of_nat i) (cursor1 - 1)) filtered.

(* ------------------------------------------------------------------ (4) filters and navigation *)

(* does record idx match (= pass) the filter flags? one clause per flag *)
Definition tx_matches (f : filters) (health : list nat) (ms : list msg) (ps : list parsed)
    (idx : nat) : bool :=
  let tx := nth idx ms dmsg in
  let p := nth idx ps dparsed in
  let exec_canceled :=
    match tx_executed_by ms idx with Some ex => negb (m_accepted ex) | None => false end in
  negb (f_auto f && m_auto tx) &&
  negb (f_autocanceled f && m_auto tx && (negb (m_accepted tx) || (m_queued tx && exec_canceled))) &&
  negb (f_canceled f && negb (m_accepted tx)) &&
  negb (f_queued f && m_queued tx) &&
  negb (f_checks f && m_check tx) &&
  negb (f_empty f && N.eqb (p_diff p) 0 && negb (m_queued tx) && m_accepted tx) &&
  negb (f_health f && match m_called tx with [c] => mem_nat c health | _ => false end).

Definition any_filter (f : filters) : bool :=
  f_canceled f || f_auto f || f_autocanceled f || f_empty f || f_health f || f_queued f
  || f_checks f.

(* every listed index is a record that matches *)
Definition filtered_sound (f : filters) (health : list nat) (ms : list msg) (ps : list parsed)
    (filtered : list nat) : bool :=
  forallb (fun i => Nat.ltb i (length ms) && tx_matches f health ms ps i) filtered.

(* a cursor (1-based, 0 = none) is inside the store *)
Definition cursor_in_range (len : nat) (c : Z) : bool :=
  Z.leb 0 c && Z.leb c (Z.of_nat len).

(* the cursor is on no record, or on a listed one (when listing is in force) *)
Definition cursor_ok (active : bool) (filtered : list nat) (len : nat) (c : Z) : bool :=
  cursor_in_range len c &&
  (negb active || Z.eqb c 0 || negb (Z.eqb (index_of (c - 1) filtered) (-1))).

(* the shown record matches the flags *)
Definition shown_matches (f : filters) (health : list nat) (ms : list msg) (ps : list parsed)
    (c : Z) : bool :=
  Z.leb c 0 || tx_matches f health ms ps (Z.to_nat (c - 1)).

(* forward then back: c0 -Fwd-> c1 -Back-> c2 *)
Definition fwd_back_ok (c0 c1 c2 : Z) : bool :=
  Z.eqb c1 c0 || Z.eqb c2 c0.

(* ------------------------------------------------------------------ (4b) several clients: the view of a client *)

(* the records of a client that match the flags, in order: what the view of
   the selected client has to be, whenever a filter was toggled and whoever
   was selected then *)
Definition matching_idxs (f : filters) (health : list nat) (ms : list msg) (ps : list parsed)
    : list nat :=
  filter (tx_matches f health ms ps) (seq 0 (length ms)).

(* codes: 66 the view lists a record that does not match (or no record at
   all), 67 the view lacks a record that matches, 660 the right records in
   another order / repeated *)
Definition view_codes (f : filters) (health : list nat) (ms : list msg) (ps : list parsed)
    (filtered : list nat) : list N :=
  let snd := filtered_sound f health ms ps filtered in
  let cmp := forallb (fun i => mem_nat i filtered) (matching_idxs f health ms ps) in
  if lnat_eqb filtered (matching_idxs f health ms ps) then []
  else (if snd then [] else [66%N]) ++ (if cmp then [] else [67%N]) ++
       (if snd && cmp then [660%N] else []).

Definition view_exact (f : filters) (health : list nat) (ms : list msg) (ps : list parsed)
    (filtered : list nat) : bool :=
  lnat_eqb filtered (matching_idxs f health ms ps).

(* the 1-based cursors new, new+1, ... below `upper` *)
Definition cursors_from (new upper : Z) : list Z :=
  map (fun i => (new + Z.of_nat i)%Z) (seq 0 (Z.to_nat (upper - new))).

(* a cursor command asked for `new` (scanning down when back, else up) and
   the cursor came to rest on c1. codes: 68 c1 is a record that does not
   match the flags; 69 a matching record lies between `new` and c1 in the
   scanning direction (it was passed over), or c1 is not in that direction at
   all although a matching record is *)
Definition scan_codes (f : filters) (health : list nat) (ms : list msg) (ps : list parsed)
    (new c1 : Z) (back : bool) : list N :=
  let lenz := Z.of_nat (length ms) in
  let m := fun k : Z => Z.ltb 0 k && Z.leb k lenz && tx_matches f health ms ps (Z.to_nat (k - 1)) in
  (if Z.ltb 0 c1 && negb (m c1) then [68%N] else []) ++
  (if back then
     let lower := if Z.leb 1 c1 && Z.leb c1 new then c1 else 0%Z in
     if existsb m (cursors_from (lower + 1) (new + 1)) then [69%N] else []
   else
     let upper := if Z.leb new c1 && Z.leb c1 lenz then c1 else (lenz + 1)%Z in
     if existsb m (cursors_from new upper) then [69%N] else []).

(* ------------------------------------------------------------------ (3b) jumps by transition id *)

(* ScrollToTx by id goes where the linear scan over the CURRENT records
   finds the id, whenever the id was asked for before. codes: 70 the id is
   present and its record is shown (no listing in force, or listed), yet the
   cursor is not on it afterwards; 71 no record has the id, yet the cursor
   moved *)
Definition id_jump_codes (active : bool) (filtered : list nat) (ms : list msg) (id : nat)
    (c0 c1 : Z) : list N :=
  let i := tx_index_scan ms id in
  if Z.leb 0 i then
    (if (negb active || mem_nat (Z.to_nat i) filtered) && negb (Z.eqb c1 (i + 1)) then [70%N] else [])
  else
    (if Z.eqb c0 c1 then [] else [71%N]).
