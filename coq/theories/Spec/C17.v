(* C17 - "History is a faithful, bounded log; queries and Export/Import mean
   what they say": the property as boolean predicates over observables.  The
   same definitions are the subject of the theorems (Props/C17.v) and are
   evaluated on the implementation's observations (Run/EvalC17.v). *)

From Coq Require Import List NArith ZArith Bool Arith.
From AMV Require Import Base.ListSet Model.History.
Import ListNotations.

(* ------------------------------------------------------------ helpers *)

Definition lastn {A} (n : nat) (l : list A) : list A := skipn (length l - n) l.

Fixpoint list_N_eqb (a b : list N) : bool :=
  match a, b with
  | [], [] => true
  | x :: r, y :: s => (x =? y)%N && list_N_eqb r s
  | _, _ => false
  end.

Fixpoint list_Z_eqb (a b : list Z) : bool :=
  match a, b with
  | [], [] => true
  | x :: r, y :: s => (x =? y)%Z && list_Z_eqb r s
  | _, _ => false
  end.

Definition txrec_eqb (a b : txrec) : bool :=
  list_Z_eqb (tr_called a) (tr_called b) && Bool.eqb (tr_auto a) (tr_auto b)
  && Bool.eqb (tr_accepted a) (tr_accepted b) && Bool.eqb (tr_check a) (tr_check b)
  && (tr_queued_at a =? tr_queued_at b)%N && (tr_executed_at a =? tr_executed_at b)%N.

Definition hrec_eqb (a b : hrec) : bool :=
  (r_type a =? r_type b)%N && (r_sum a =? r_sum b)%N && (r_tsum a =? r_tsum b)%N
  && (r_diff a =? r_diff b)%N && (r_tdiff a =? r_tdiff b)%N && (r_rdiff a =? r_rdiff b)%N
  && (r_htime a =? r_htime b)%N && list_N_eqb (r_tracked a) (r_tracked b)
  && list_N_eqb (r_tracked_diff a) (r_tracked_diff b) && (r_mtick a =? r_mtick b)%N
  && match r_tx a, r_tx b with
     | None, None => true
     | Some x, Some y => txrec_eqb x y
     | _, _ => false
     end.

Fixpoint list_eqb_by {A} (eqb : A -> A -> bool) (a b : list A) : bool :=
  match a, b with
  | [], [] => true
  | x :: r, y :: s => eqb x y && list_eqb_by eqb r s
  | _, _ => false
  end.

(* ------------------------------------------------------------ (1) matching *)

(* which transitions a history instance is about at all *)
Definition trackable (c : hcfg) (tx : htx) : bool :=
  negb (x_check tx) && (x_accepted tx || c_rejected c).

Definition called_hit (c : hcfg) (tx : htx) : bool := existsb (was_called tx) (c_called c).
Definition changed_hit (c : hcfg) (tx : htx) : bool := existsb (was_changed tx) (c_changed c).

(* what TransitionEnd computes, loop-free: the Changed list decides when one
   of its states changed, else the Called list when one of its states was
   called, else the transition is recorded iff no allow-list is configured *)
Definition matches_spec (c : hcfg) (tx : htx) : bool :=
  trackable c tx &&
  (if changed_hit c tx then negb (c_changed_excl c)
   else if called_hit c tx then negb (c_called_excl c)
   else (c_changed_excl c || is_nil (c_changed c)) && (c_called_excl c || is_nil (c_called c))).

(* what the field comments of BaseConfig say: each non-empty list is a
   condition "required to track a transition" (allow-list: some listed state
   hit; block-list: none hit); both must hold *)
Definition list_cond (l : list nat) (excl hit : bool) : bool :=
  is_nil l || (if excl then negb hit else hit).

Definition matches_doc (c : hcfg) (tx : htx) : bool :=
  trackable c tx
  && list_cond (c_called c) (c_called_excl c) (called_hit c tx)
  && list_cond (c_changed c) (c_changed_excl c) (changed_hit c tx).

(* the two configurations where the code and the comments part:
   1 = Called block-list hit, but a Changed allow-list hit overrides it;
   2 = two allow-lists, only one of them hit (the code takes the union) *)
Definition doc_gap_class (c : hcfg) (tx : htx) : N :=
  if negb (is_nil (c_called c)) && negb (is_nil (c_changed c)) && negb (c_changed_excl c)
  then (if c_called_excl c then 1 else 2)%N else 0%N.

(* ------------------------------------------------------------ (2) the log *)

(* the unbounded reference log: one record per matching transition, in order;
   each record's MTimeRecordDiffSum refers to the record before it *)
Fixpoint recs (c : hcfg) (prev : option hrec) (txs : list htx) : list hrec :=
  match txs with
  | [] => []
  | tx :: rest => let r := mk_record c prev tx in r :: recs c (Some r) rest
  end.

Definition reference_log (c : hcfg) (match_fn : hcfg -> htx -> bool) (txs : list htx)
  : list hrec :=
  lastn (c_max c) (recs c None (filter (match_fn c) txs)).

(* the stored log is exactly the last MaxRecords records of the reference.
   [mf] is the matching rule: matches_spec (what the code computes) or
   matches_doc (what the field comments say). *)
Definition log_ok_by (mf : hcfg -> htx -> bool) (c : hcfg) (txs : list htx) (db : list hrec) : bool :=
  list_eqb_by hrec_eqb db (reference_log c mf txs).
Definition log_ok := log_ok_by matches_spec.

(* log lengths after every transition: min(MaxRecords, matches so far) *)
Fixpoint expected_lens (mf : hcfg -> htx -> bool) (c : hcfg) (seen : nat) (txs : list htx) : list nat :=
  match txs with
  | [] => []
  | tx :: rest =>
    let seen' := if mf c tx then S seen else seen in
    Nat.min (c_max c) seen' :: expected_lens mf c seen' rest
  end.

Fixpoint list_nat_eqb (a b : list nat) : bool :=
  match a, b with
  | [], [] => true
  | x :: r, y :: s => Nat.eqb x y && list_nat_eqb r s
  | _, _ => false
  end.

Definition bounded_ok (c : hcfg) (lens : list nat) : bool :=
  forallb (fun n => n <=? c_max c) lens.

Definition lens_exact_ok_by (mf : hcfg -> htx -> bool) (c : hcfg) (txs : list htx) (lens : list nat) : bool :=
  list_nat_eqb lens (expected_lens mf c 0 txs).
Definition lens_exact_ok := lens_exact_ok_by matches_spec.

(* record times = the machine's time after the transition (as the machine
   itself reports it in TransitionEnd), restricted to the tracked states *)
Definition rec_times_of (c : hcfg) (r : hrec) (tx : htx) : bool :=
  list_N_eqb (r_tracked r) (time_filter (x_mach_after tx) (c_tracked c))
  && (r_sum r =? time_sum (x_mach_after tx))%N.

Fixpoint all2 {A B} (f : A -> B -> bool) (a : list A) (b : list B) : bool :=
  match a, b with
  | [], [] => true
  | x :: r, y :: s => f x y && all2 f r s
  | _, _ => false
  end.

Definition times_ok_by (mf : hcfg -> htx -> bool) (c : hcfg) (txs : list htx) (db : list hrec) : bool :=
  all2 (rec_times_of c) db (lastn (c_max c) (filter (mf c) txs)).
Definition times_ok := times_ok_by matches_spec.

(* NextId = 1 + number of records ever created *)
Definition next_id_ok_by (mf : hcfg -> htx -> bool) (c : hcfg) (txs : list htx) (nid : N) : bool :=
  (nid =? N.of_nat (S (length (filter (mf c) txs))))%N.

(* all log clauses under one matching rule *)
Definition log_all_ok_by (mf : hcfg -> htx -> bool) (c : hcfg) (txs : list htx)
  (db : list hrec) (lens : list nat) (nid : N) : bool :=
  log_ok_by mf c txs db && bounded_ok c lens && lens_exact_ok_by mf c txs lens
  && times_ok_by mf c txs db && next_id_ok_by mf c txs nid.

(* ------------------------------------------------------------ (3) queries *)

Definition tracked_tick (c : hcfg) (r : hrec) (s : nat) : N :=
  match pos_in (c_tracked c) s with 0 => 0%N | S i => nth i (r_tracked r) 0%N end.
Definition tracked_delta (c : hcfg) (r : hrec) (s : nat) : N :=
  match pos_in (c_tracked c) s with 0 => 0%N | S i => nth i (r_tracked_diff r) 0%N end.

(* Query field comments: Active/Inactive = state of affairs AFTER the mutation,
   Activated/Deactivated = flipped DURING the transition: the record carries
   the per-state delta of its own transition (MTimeTrackedDiff), odd = the
   state changed sides.  A Multi state re-entered in one transition moves its
   tick by 2: active before and after, neither activated nor deactivated. *)
Definition st_active (c : hcfg) (r : hrec) (s : nat) : bool := N.odd (tracked_tick c r s).
Definition st_inactive (c : hcfg) (r : hrec) (s : nat) : bool := negb (N.odd (tracked_tick c r s)).
Definition st_activated (c : hcfg) (r : hrec) (s : nat) : bool :=
  N.odd (tracked_tick c r s) && N.odd (tracked_delta c r s).
Definition st_deactivated (c : hcfg) (r : hrec) (s : nat) : bool :=
  negb (N.odd (tracked_tick c r s)) && N.odd (tracked_delta c r s).

(* the four state conditions *)
Definition state_sat (c : hcfg) (q : query) (r : hrec) : bool :=
  forallb (st_active c r) (q_active q)
  && forallb (st_activated c r) (q_activated q)
  && forallb (st_inactive c r) (q_inactive q)
  && forallb (st_deactivated c r) (q_deactivated q).

(* a scalar range applies when both ends are given (non-zero), inclusive *)
Definition in_range (s e v : N) : bool :=
  (s =? 0)%N || (e =? 0)%N || ((s <=? v)%N && (v <=? e)%N).

Definition scalar_sat (q : query) (r : hrec) : bool :=
  let s := q_start q in let e := q_end q in
  in_range (t_htime s) (t_htime e) (r_htime r)
  && in_range (t_sum s) (t_sum e) (r_sum r)
  && in_range (t_tsum s) (t_tsum e) (r_tsum r)
  && in_range (t_diff s) (t_diff e) (r_diff r)
  && in_range (t_tdiff s) (t_tdiff e) (r_tdiff r)
  && in_range (t_rdiff s) (t_rdiff e) (r_rdiff r)
  && in_range (t_mtick s) (t_mtick e) (r_mtick r).

(* the machine-time vector condition: every listed state within [start,end] *)
Fixpoint vec_in_range (c : hcfg) (r : hrec) (sts : list nat) (lo hi : list N) : bool :=
  match sts, lo, hi with
  | s :: rs, l :: rl, h :: rh =>
    (l <=? tracked_tick c r s)%N && (tracked_tick c r s <=? h)%N && vec_in_range c r rs rl rh
  | [], _, _ => true
  | _, _, _ => false
  end.

Definition mtime_sat (c : hcfg) (q : query) (r : hrec) : bool :=
  vec_in_range c r (t_mstates (q_start q)) (t_mtime (q_start q)) (t_mtime (q_end q)).

(* the vector condition is meaningful when both ends list the same states *)
Definition mtime_wf (q : query) : bool :=
  list_nat_eqb (t_mstates (q_start q)) (t_mstates (q_end q)).

(* the time conditions as FindLatest applies them: scalar ranges as specified,
   the machine-time vector by Time.Before/After (not a per-state range when
   several states are listed: 2:206) *)
Definition time_cond_impl (c : hcfg) (q : query) (r : hrec) : bool :=
  negb (mtime_skip c q r) && scalar_sat q r.

(* a record satisfies the query *)
Definition rec_sat (c : hcfg) (q : query) (r : hrec) : bool :=
  state_sat c q r && mtime_sat c q r && scalar_sat q r.

(* which clause a record fails first: 1 Active, 2 Activated, 3 Inactive,
   5 Deactivated, 6 machine-time vector, 7 scalar range, 0 none *)
Definition failing_clause (c : hcfg) (q : query) (r : hrec) : N :=
  if negb (forallb (st_active c r) (q_active q)) then 1
  else if negb (forallb (st_activated c r) (q_activated q)) then 2
  else if negb (forallb (st_inactive c r) (q_inactive q)) then 3
  else if negb (forallb (st_deactivated c r) (q_deactivated q)) then 5
  else if negb (mtime_sat c q r) then 6
  else if negb (scalar_sat q r) then 7
  else 0.

Definition take_limit {A} (limit : Z) (l : list A) : list A :=
  if (0 <? limit)%Z then firstn (Z.to_nat limit) l else l.

(* positions newest first: n-1, ..., 0 *)
Definition positions_desc (n : nat) : list nat := rev (seq 0 n).

(* positions (newest first, limited) of the stored records satisfying P *)
Definition filter_latest (P : hrec -> bool) (db : list hrec) (limit : Z) : list nat :=
  take_limit limit
    (filter (fun i => match nth_error db i with Some r => P r | None => false end)
            (positions_desc (length db))).

(* the reference answer: a plain filter over the log, newest first, limited *)
Definition find_latest_spec (c : hcfg) (db : list hrec) (limit : Z) (q : query) : list nat :=
  filter_latest (rec_sat c q) db limit.

Fixpoint strictly_desc (l : list nat) : bool :=
  match l with
  | a :: ((b :: _) as r) => (b <? a) && strictly_desc r
  | _ => true
  end.

Definition newest_first_ok (db : list hrec) (limit : Z) (idxs : list nat) : bool :=
  strictly_desc idxs && forallb (fun i => i <? length db) idxs
  && (negb (0 <? limit)%Z || (Z.of_nat (length idxs) <=? limit)%Z).

Definition states_free (q : query) : bool :=
  is_nil (q_active q) && is_nil (q_activated q) && is_nil (q_inactive q)
  && is_nil (q_deactivated q).

(* the single state condition of a *Between helper: 0 activated, 1 active,
   2 deactivated, 3 inactive *)
Definition between_cond (c : hcfg) (kind : N) (s : nat) (r : hrec) : bool :=
  match kind with
  | 0%N => st_activated c r s
  | 1%N => st_active c r s
  | 2%N => st_deactivated c r s
  | _ => st_inactive c r s
  end.

(* the *Between helpers: the state is tracked and some stored record with
   HTime within [hs,he] satisfies the state condition *)
Definition between_spec (c : hcfg) (db : list hrec) (kind : N) (s : nat) (hs he : N) : bool :=
  is_tracked c s
  && existsb (fun r => between_cond c kind s r && in_range hs he (r_htime r)) db.

(* ---- the reading of Activated / Deactivated that FindLatest had between
   eab91e0 and 3ac5b4b: the record against the record stored just before it
   (db[i-1]); the oldest stored record has none and passed.  Kept ONLY so that
   the evaluator can name a relapse (codes 2:241-2:246); no theorem is about it. *)
Definition older_of (db : list hrec) (i : nat) : option hrec :=
  match i with 0 => None | S j => nth_error db j end.

Definition rel_activated (c : hcfg) (r : hrec) (older : option hrec) (s : nat) : bool :=
  N.odd (tracked_tick c r s)
  && match older with None => true | Some o => negb (N.odd (tracked_tick c o s)) end.
Definition rel_deactivated (c : hcfg) (r : hrec) (older : option hrec) (s : nat) : bool :=
  negb (N.odd (tracked_tick c r s))
  && match older with None => true | Some o => N.odd (tracked_tick c o s) end.

Definition rec_sat_rel (c : hcfg) (q : query) (r : hrec) (older : option hrec) : bool :=
  forallb (st_active c r) (q_active q)
  && forallb (rel_activated c r older) (q_activated q)
  && forallb (st_inactive c r) (q_inactive q)
  && forallb (rel_deactivated c r older) (q_deactivated q)
  && mtime_sat c q r && scalar_sat q r.

Definition find_latest_spec_rel (c : hcfg) (db : list hrec) (limit : Z) (q : query) : list nat :=
  take_limit limit
    (filter (fun i => match nth_error db i with
                      | Some r => rec_sat_rel c q r (older_of db i) | None => false end)
            (positions_desc (length db))).

Fixpoint exists_with_older (P : hrec -> option hrec -> bool) (prev : option hrec) (db : list hrec) : bool :=
  match db with
  | [] => false
  | r :: rest => P r prev || exists_with_older P (Some r) rest
  end.

Definition between_spec_rel (c : hcfg) (db : list hrec) (kind : N) (s : nat) (hs he : N) : bool :=
  is_tracked c s
  && exists_with_older
       (fun r o => match kind with
                   | 0%N => rel_activated c r o s | 1%N => st_active c r s
                   | 2%N => rel_deactivated c r o s | _ => st_inactive c r s
                   end && in_range hs he (r_htime r)) None db.

(* ------------------------------------------------------------ (4) Export / Import *)

Definition same_set (a b : list nat) : bool := every a b && every b a.

(* same ticks (per state), same active states, machine tick one higher *)
Definition export_import_ok (src : emach) (res : imp_result) : bool :=
  match res with
  | IOk m' =>
    forallb (fun s => (tick (e_clock m') s =? tick (e_clock src) s)%N) (e_names src)
    && list_N_eqb (mach_time m') (z_time (export src))
    && same_set (e_active m') (e_active src)
    && (e_mtick m' =? e_mtick src + 1)%N
  | _ => false
  end.
