(* C03, early cancels: a mutation on a disposed or backing-off machine is
   Canceled with no effect; CanAdd/CanRemove likewise. One case = one call on
   a machine put into that mode. Proof-free. *)
From Coq Require Import List NArith Bool Arith.
Import ListNotations.

Record ecase := {
  e_mode : nat;        (* 0 backing off (LastHandlerDeadline just hit), 1 disposed *)
  e_call : nat;        (* 0 Add 1 Remove 2 Set 3 Toggle 4 AddErr 5 CanAdd 6 CanRemove 7 EvAdd 8 EvRemove *)
  o_canceled : bool;   (* the call returned Canceled *)
  o_unchanged : bool   (* time, active states and queue tick as before *)
}.

(* codes: 380 + call: not Canceled / something moved on a backing-off machine;
   390 + call: on a disposed machine *)
Definition early_codes (k : ecase) : list N :=
  if o_canceled k && o_unchanged k then []
  else [((if Nat.eqb (e_mode k) 0 then 380 else 390) + N.of_nat (e_call k))%N].
