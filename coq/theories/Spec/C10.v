(* C10 — statement of the property as boolean predicates over observables.
   Shared by the theorems (Props/C10.v) and by the run-time evaluation of
   implementation observations (Run/EvalC10.v). Proof-free. *)

From Coq Require Import List NArith Bool Arith.
From AMV Require Import Model.RpcCodec.
Import ListNotations.
Open Scope N_scope.

(* result of decoding an update against a mirror *)
Definition applied := option (list N * N * N * bool).

Fixpoint list_N_eqb (a b : list N) : bool :=
  match a, b with
  | [], [] => true
  | x :: r, y :: s => (x =? y) && list_N_eqb r s
  | _, _ => false
  end.

Fixpoint list_bool_eqb (a b : list bool) : bool :=
  match a, b with
  | [], [] => true
  | x :: r, y :: s => Bool.eqb x y && list_bool_eqb r s
  | _, _ => false
  end.

(* deep mode: the decoded mirror is exactly the second snapshot, ticks
   included, and the checksum accepts *)
Definition roundtrip_deep_ok (c : cfg) (s2 : snap) (r : applied) : bool :=
  match r with
  | Some (t', q', m', acc) =>
    list_N_eqb t' (mirror c s2) && (q' =? s_q s2) && (m' =? s_m s2) && acc
  | None => false
  end.

(* shallow mode: parity of every synchronised state, queue and machine ticks,
   accepted *)
Definition roundtrip_shallow_ok (c : cfg) (s2 : snap) (r : applied) : bool :=
  match r with
  | Some (t', q', m', acc) =>
    list_bool_eqb (parities t') (parities (mirror c s2))
    && (q' =? s_q s2) && (m' =? s_m s2) && acc
  | None => false
  end.

(* shallow mode without the acceptance bit: what the decoded mirror holds *)
Definition values_shallow_ok (c : cfg) (s2 : snap) (r : applied) : bool :=
  match r with
  | Some (t', q', m', _) =>
    list_bool_eqb (parities t') (parities (mirror c s2))
    && (q' =? s_q s2) && (m' =? s_m s2)
  | None => false
  end.

Definition roundtrip_ok (c : cfg) (s2 : snap) (r : applied) : bool :=
  if shallow c then roundtrip_shallow_ok c s2 r else roundtrip_deep_ok c s2 r.

(* the drift clause: "a mirror whose tick sum plus queue tick plus machine
   tick differs from the first snapshot's modulo 256 is rejected" *)
Definition drifted (c : cfg) (s1 : snap) (t : list N) (q m : N) : bool :=
  negb (checksum (sum64 t) q m
        =? checksum (sum64 (mirror c s1)) (s_q s1) (s_m s1)).

Definition rejected (r : applied) : bool :=
  match r with
  | Some (_, _, _, acc) => negb acc
  | None => false
  end.

(* hypotheses of the round-trip theorem, as a decidable predicate *)
Definition all_lt (n : nat) (l : list nat) : bool :=
  forallb (fun i => (i <? n)%nat) l.

Fixpoint nodupb (l : list nat) : bool :=
  match l with
  | [] => true
  | x :: r => negb (existsb (Nat.eqb x) r) && nodupb r
  end.

Definition cfg_wf (c : cfg) (n : nat) : bool :=
  all_lt n (tracked c) && nodupb (tracked c) && (N.of_nat n <? w16).

Fixpoint deltas_ok (bound : N) (a b : list N) : bool :=
  match a, b with
  | [], [] => true
  | x :: r, y :: s => (x <=? y) && (y - x <? bound) && (y <? w64) && deltas_ok bound r s
  | _, _ => false
  end.

Definition snaps_in_range (s1 s2 : snap) : bool :=
  deltas_ok w32 (s_time s1) (s_time s2)
  && (s_q s1 <=? s_q s2) && (s_q s2 - s_q s1 <? w16) && (s_q s2 <? w64)
  && (s_m s1 <=? s_m s2) && (s_m s2 - s_m s1 <? w8) && (s_m s2 <? w32).
