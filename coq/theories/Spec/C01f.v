(* C01 under handler faults. The statement exempts a transition with handler
   faults from the documented step sizes only: parity = activity in every view
   and "a tick never decreases" hold for every history. [c01f_codes] is the part
   of [c01_codes] that speaks about every history (codes 1 2 3 4); a history is
   judged by it when its handler script contains a fault, by the whole of
   [c01_codes] otherwise. Proof-free. *)
From Coq Require Import List NArith Bool Arith.
From AMV Require Import Base.ListSet Model.Schema Model.Machine Spec.C01.
Import ListNotations.

Definition c01f_codes (tr : trace) : list N :=
  (if forallb (fun c => parity_ok (co_time c) (co_active c)) (tr_calls tr) then [] else [1%N])
  ++ (if forallb (fun h => parity_ok (hl_clock h) (hl_active h)) (tr_hlog tr) then [] else [2%N])
  ++ (if forallb (fun t => parity_ok (tx_before t) (tx_active_before t)) (tr_txs tr) then [] else [3%N])
  ++ (match tr_txs tr with
      | [] => []
      | t :: _ => if chain_le (tx_before t) (flat_map (fun t => [tx_before t; tx_after t]) (tr_txs tr))
                  then [] else [4%N]
      end)
  ++ (match tr_calls tr with
      | [] => []
      | c :: r => if chain_le (co_time c) (map co_time r) then [] else [4%N]
      end).

Definition script_has_faults (acts : list haction) : bool :=
  existsb (fun a => match ha_fault a with FNone => false | _ => true end) acts.

(* the predicate the run-time evaluation applies to an observed history *)
Definition c01_judge (sc : schema) (acts : list haction) (tr : trace) : list N :=
  if script_has_faults acts then c01f_codes tr else c01_codes sc tr.
