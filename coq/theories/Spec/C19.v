(* C19 — shipped schemas are well-formed; exclusive groups hold in every
   reachable state. Per-schema decidable predicates (evaluated by vm_compute on
   the schemas regenerated from /repo on every run) and the reachability
   statement they feed. Proof-free. *)
From Coq Require Import List NArith Bool Arith.
From AMV Require Import Base.ListSet Model.Schema Model.Resolver Spec.C02.
Import ListNotations.

(* raw schema: as written in the source, before Schema.Parse; references to
   names the schema does not define are indexes >= length *)
Definition raw_refs_defined (raw : schema) : bool := refs_ok raw.

(* Schema.Parse reports an error for a state that Requires a state it Removes *)
Definition require_remove_conflicts (raw : schema) : list (nat * nat) :=
  flat_map (fun p : nat * sdef =>
    map (fun r => (fst p, r)) (filter (fun r => mem r (s_remove (snd p))) (s_require (snd p))))
    (combine (seq 0 (length raw)) raw).

Fixpoint req_closure (fuel : nat) (sc : schema) (l : list nat) : list nat :=
  match fuel with
  | O => l
  | S f => req_closure f sc (uniq (l ++ flat_map (fun a => s_require (sget sc a)) l))
  end.

Definition require_acyclic (sc : schema) : bool :=
  forallb (fun x => negb (mem x (req_closure (length sc) sc (s_require (sget sc x)))))
          (all_states sc).

(* a group whose members Remove one another *)
Definition pairwise_removing (sc : schema) (g : list nat) : bool :=
  forallb (fun a => forallb (fun b => Nat.eqb a b || mem b (s_remove (sget sc a))) g) g.

(* members of the group that some state Adds *)
Definition add_targets (sc : schema) (g : list nat) : list nat :=
  filter (fun z => existsb (fun a => mem z (s_add (sget sc a))) (all_states sc)) (uniq g).

(* side condition under which exclusivity is preserved by every resolution *)
Definition group_safe (sc : schema) (g : list nat) : bool :=
  pairwise_removing sc g && (length (add_targets sc g) <=? 1).

Definition count_in (g l : list nat) : nat := length (filter (fun x => mem x g) l).

(* the active sets reachable from the empty machine by mutations *)
Definition reach (sc : schema) (topo : list nat) (ops : list (mut_type * list nat)) : list nat :=
  fold_left (fun act op => resolve sc topo act (fst op) (snd op)) ops [].

Definition exclusive_ok (g active : list nat) : bool := count_in g active <=? 1.
