(* C05 — handler lifecycle: documented order, visibility and veto rules.
   Predicates over the handler log slice of one transition. *)
From Coq Require Import List NArith Bool Arith.
From AMV Require Import Base.ListSet Model.Schema Model.Resolver Model.Machine Spec.C01.
Import ListNotations.

Definition phase_rank (k : hkey) : nat :=
  match k with
  | HExit _ => 0 | HEnter _ => 1 | HSelf _ | HTrans _ _ | HAnyEnter => 2
  | HEnd _ => 3 | HState _ => 4 | HAnyState => 5
  end.

Fixpoint nondecreasing (l : list nat) : bool :=
  match l with
  | a :: ((b :: _) as r) => (a <=? b) && nondecreasing r
  | _ => true
  end.

Definition slice {A} (l : list A) (from to : nat) : list A := firstn (to - from) (skipn from l).

(* the state a phase-list handler belongs to *)
Definition key_state (k : hkey) : option nat :=
  match k with
  | HExit s | HEnter s | HEnd s | HState s => Some s
  | _ => None
  end.

(* states of the entries of one phase, in call order, deduplicated *)
Definition phase_states (rank : nat) (same : hkey -> bool) (hs : list hlentry) : list nat :=
  uniq (flat_map (fun h => if same (hl_key h) then
                             match key_state (hl_key h) with Some s => [s] | None => [] end
                           else []) hs).

(* relation closure (fuelled) used to skip contradictory Require/After pairs *)
Fixpoint rel_closure (fuel : nat) (next : nat -> list nat) (l : list nat) : list nat :=
  match fuel with
  | O => l
  | S f => rel_closure f next (uniq (l ++ flat_map next l))
  end.

(* pairs (a, b) with a before b in [order] although a must come after b *)
Fixpoint order_violations (must_after : nat -> nat -> bool) (order : list nat) : list (nat * nat) :=
  match order with
  | [] => []
  | a :: r => map (fun b => (a, b)) (filter (fun b => must_after a b) r) ++ order_violations must_after r
  end.

Definition adjacent_in (l : list nat) (a b : nat) : bool := Nat.eqb (S (pos_in l a)) (pos_in l b).

Definition expected_enters (sc : schema) (t : txrec) : list nat :=
  filter (fun x => negb (mem x (tx_active_before t))
                   || (s_multi (sget sc x) && mem x (tx_called t))) (tx_target t).
Definition expected_exits (t : txrec) : list nat := diff (tx_active_before t) (tx_target t).

Definition count_key (hs : list hlentry) (k : hkey) (b : nat) : nat :=
  length (filter (fun h => hkey_eqb (hl_key h) k && Nat.eqb (hl_binding h) b) hs).

(* codes: 51 phase order; 52 a negotiation handler did not see the pre-state;
   53 a final handler did not see the applied target; 54 a veto did not stop
   the transition; 55 final handler count (once per changed state per
   binding); 56 final handler of a non-accepted transition; 57 Require order;
   580 After order (adjacent states), 581 After order (states separated by
   others: the stable insertion sort only compares neighbours) *)
(* the Require graph has no cycle (with a cycle the resolver logs a schema
   error and keeps the states unsorted) *)
Definition require_acyclic (sc : schema) : bool :=
  forallb (fun x => negb (mem x (rel_closure (length sc) (fun y => s_require (sget sc y))
                                             (s_require (sget sc x))))) (all_states sc).

Definition tx_handler_codes (sc : schema) (topo : list nat) (bs : list (list hkey)) (hlog : list hlentry) (t : txrec)
  : list N :=
  let hs := slice hlog (tx_hfrom t) (tx_hto t) in
  let applied := tx_accepted t && negb (tx_check t) in
  let neg := filter (fun h => negb (is_final_key (hl_key h))) hs in
  let fin := filter (fun h => is_final_key (hl_key h)) hs in
  (if nondecreasing (map (fun h => phase_rank (hl_key h)) hs) then [] else [51%N])
  ++ (if forallb (fun h => list_eqb (hl_active h) (tx_active_before t)
                           && clock_eqb (hl_clock h) (tx_before t)) neg then [] else [52%N])
  ++ (if forallb (fun h => list_eqb (hl_active h) (tx_target t)
                           && clock_eqb (hl_clock h) (tx_after t)) fin then [] else [53%N])
  ++ (if tx_auto t then [] else
        (* after a false no further handler runs and nothing is applied *)
        let fix after_veto (l : list hlentry) : bool :=
          match l with
          | [] => true
          | h :: r => if negb (is_final_key (hl_key h)) && negb (hl_ret h)
                      then (match r with [] => true | _ => false end)
                           && negb (tx_accepted t) && clock_eqb (tx_before t) (tx_after t)
                      else after_veto r
          end in
        if after_veto hs then [] else [54%N])
  ++ (if applied then
        let exits := expected_exits t in
        let enters := expected_enters sc t in
        let ok :=
          forallb (fun ib : nat * list hkey =>
            let '(i, b) := ib in
            forallb (fun k =>
              match k with
              | HEnd x => Nat.eqb (count_key hs k i) (if mem x exits then 1 else 0)
              | HState x => Nat.eqb (count_key hs k i) (if mem x enters then 1 else 0)
              | _ => true
              end) b) (combine (seq 0 (length bs)) bs) in
        if ok then [] else [55%N]
      else match fin with [] => [] | _ => [56%N] end)
  ++ (let req_after a b := mem b (s_require (sget sc a))
                           && negb (mem a (rel_closure (length sc) (fun x => s_require (sget sc x)) [b]))
                           && negb (mem a (s_after (sget sc b))) in
      let aft_after a b := mem b (s_after (sget sc a))
                           && negb (mem a (rel_closure (length sc) (fun x => s_after (sget sc x)) [b])) in
      (* the full sorted lists the handlers are drawn from (for the
         adjacent / separated attribution of After violations) *)
      let full_exits := sort_states sc topo (expected_exits t) in
      let full_enters := tx_target t in   (* enters are drawn from the sorted target *)
      let phases :=
        [ (phase_states 0 (fun k => match k with HExit _ => true | _ => false end) hs, full_exits);
          (phase_states 1 (fun k => match k with HEnter _ => true | _ => false end) hs, full_enters);
          (phase_states 3 (fun k => match k with HEnd _ => true | _ => false end) hs, full_exits);
          (phase_states 4 (fun k => match k with HState _ => true | _ => false end) hs, full_enters) ] in
      flat_map (fun of : list nat * list nat =>
        let '(order, full) := of in
        (if require_acyclic sc then
           match order_violations req_after order with [] => [] | _ => [57%N] end
         else [])
        ++ map (fun p : nat * nat => if adjacent_in full (fst p) (snd p) then 580%N else 581%N)
               (order_violations aft_after order)) phases).

Definition c05_codes (sc : schema) (topo : list nat) (bs : list (list hkey)) (tr : trace) : list N :=
  flat_map (tx_handler_codes sc topo bs (tr_hlog tr)) (tr_txs tr).
