(* C20 — "public helpers are total and obey their algebra" as boolean
   predicates over observables. An observable is a call (an [*_op] value: which
   helper, which arguments) together with its result ([val]; a Go panic is
   [VPanic]). The same predicates are used by the theorems (Props/C20.v, on
   the model's results) and by the run-time evaluation of what the
   implementation returned (Run/EvalC20.v). Proof-free. *)

From Coq Require Import List NArith ZArith Bool Arith.
From AMV Require Import Base.ListSet Model.Helpers.
Import ListNotations.

(* ------------------------------------------------------------------ *)
(* results                                                              *)

Inductive val :=
| VPanic
| VS (l : list nat)            (* state list *)
| VB (b : bool)
| VI (l : list Z)              (* []int *)
| VN (n : N)                   (* uint64 / int *)
| VT (t : list N)              (* Time *)
| VNames (l : list name)
| VQ (found : bool) (idx tick : N).

Definition of_opt {A} (f : A -> val) (o : option A) : val :=
  match o with None => VPanic | Some x => f x end.

(* ------------------------------------------------------------------ *)
(* calls                                                                *)

Inductive set_op :=
| OAdd (s : sl) (ls : list sl)          (* s.Add(ls...) *)
| OAdd1 (s names : sl)                  (* s.Add1(names...) *)
| OSAdd (ls : list sl)                  (* SAdd(ls...) *)
| ODelete (s : sl) (ls : list sl)       (* s.Delete(ls...) *)
| ODelete1 (s names : sl)               (* s.Delete1(names...) *)
| OSRem (s : sl) (ls : list sl)         (* SRem(s, ls...) *)
| OSub (a b : sl)
| OShared (a b : sl)
| OEqual (a b : sl)
| OEqualOrder (a b : sl)
| OUnique (a : sl)
| OHas (a : sl) (x : nat)
| OIndex (index states : sl)            (* index.Index(states) *)
| OIndexToStates (index : sl) (idxs : list Z).

Definition run_set (op : set_op) : val :=
  match op with
  | OAdd s ls => VS (s_add s ls)
  | OAdd1 s names => VS (s_add1 s names)
  | OSAdd ls => VS (sadd ls)
  | ODelete s ls => VS (s_delete s ls)
  | ODelete1 s names => VS (s_delete1 s names)
  | OSRem s ls => VS (s_rem s ls)
  | OSub a b => VS (s_sub a b)
  | OShared a b => VS (s_shared a b)
  | OEqual a b => VB (s_equal a b)
  | OEqualOrder a b => VB (s_equal_order a b)
  | OUnique a => VS (s_unique a)
  | OHas a x => VB (s_has a x)
  | OIndex index states => VI (states_to_index index states)
  | OIndexToStates index idxs => of_opt VNames (index_to_states index idxs)
  end.

Inductive time_op :=
| TNew (len : nat) (active : list Z)
| TIncrement (t : tm) (i : Z)
| TAdd (t t2 : tm)
| TFilter (t : tm) (idxs : list Z)
| TSum (t : tm) (idxs : option (list Z))
| TDiffSince (t before : tm)
| TNonZero (t : tm)
| TAfter (or_equal : bool) (t t2 : tm)
| TBefore (or_equal : bool) (t t2 : tm)
| TEqual (strict : bool) (t t2 : tm)
| TTick (t : tm) (i : Z)
| TIs1 (t : tm) (i : Z)
| TIs (t : tm) (idxs : list Z)
| TNot (t : tm) (idxs : list Z)
| TNot1 (t : tm) (i : Z)
| TAny (t : tm) (ls : list (list Z))
| TAny1 (t : tm) (idxs : list Z)
| TActive (t : tm) (idxs : option (list Z))
| TTickFn (k : N) (tick : N)   (* 0 IsActiveTick 1 NextActive 2 NextInactive 3 NextActiveIn 4 NextInactiveIn *)
| XStateName (index : sl) (i : Z)
| XSum (index : sl) (t : tm) (states : sl)
| XFilter (index : sl) (t : tm) (states : sl)
| XNonZero (index : sl) (t : tm)
| XIs (index : sl) (t : tm) (states : sl)
| XNot (index : sl) (t : tm) (states : sl)
| XAny1 (index : sl) (t : tm) (states : sl)
| XActive (index : sl) (t : tm) (states : option sl).

Definition run_time (op : time_op) : val :=
  match op with
  | TNew len active => of_opt VT (new_time len active)
  | TIncrement t i => of_opt VT (increment t i)
  | TAdd t t2 => VT (time_add t t2)
  | TFilter t idxs => of_opt VT (time_filter t idxs)
  | TSum t idxs => of_opt VN (time_sum t idxs)
  | TDiffSince t b => VT (diff_since t b)
  | TNonZero t => VS (non_zero_states t)
  | TAfter e t t2 => VB (time_after e t t2)
  | TBefore e t t2 => VB (time_before e t t2)
  | TEqual s t t2 => of_opt VB (time_equal s t t2)
  | TTick t i => of_opt VN (time_tick t i)
  | TIs1 t i => of_opt VB (time_is1 t i)
  | TIs t idxs => of_opt VB (time_is t idxs)
  | TNot t idxs => of_opt VB (time_not t idxs)
  | TNot1 t i => of_opt VB (time_not1 t i)
  | TAny t ls => of_opt VB (time_any t ls)
  | TAny1 t idxs => of_opt VB (time_any1 t idxs)
  | TActive t idxs => VS (time_active t idxs)
  | TTickFn k tick =>
    match k with
    | 0%N => VB (is_active_tick tick)
    | 1%N => VN (next_active tick)
    | 2%N => VN (next_inactive tick)
    | 3%N => VN (next_active_in tick)
    | _ => VN (next_inactive_in tick)
    end
  | XStateName index i => of_opt (fun n => VNames [n]) (ti_state_name index i)
  | XSum index t states => of_opt VN (ti_sum index t states)
  | XFilter index t states => of_opt VT (ti_filter index t states)
  | XNonZero index t => of_opt VNames (ti_non_zero index t)
  | XIs index t states => of_opt VB (ti_is index t states)
  | XNot index t states => of_opt VB (ti_not index t states)
  | XAny1 index t states => of_opt VB (ti_any1 index t states)
  | XActive index t states => VNames (ti_active index t states)
  end.

(* fn: 0 ParseStates, 1 mustParseStates (observed through the Called list of
   the mutation that Machine.Add queues) *)
Definition run_parse (n : nat) (fn : N) (states : sl) : bool * val :=
  match fn with
  | 0%N => let '(ordered, l) := parse_states n states in (ordered, VS l)
  | _ => (true, of_opt VS (must_parse_states n states))
  end.

(* fn: 0 IsQueued, 1 IsQueuedAbove, 2 WillBe, 3 WillBeRemoved *)
Definition run_queue (n : nat) (queue : list qmut) (fn : N) (q : qquery) (threshold : Z) : val :=
  match fn with
  | 0%N => of_opt (fun r => let '(f, i, t) := r in VQ f i t) (is_queued n queue q)
  | 1%N => VB (is_queued_above n queue q threshold)
  | 2%N => of_opt VB (will_be n queue (qq_states q) (qq_pos q))
  | _ => of_opt VB (will_be_removed n queue (qq_states q) (qq_pos q))
  end.

(* ------------------------------------------------------------------ *)
(* the property's clauses                                               *)

Fixpoint nodupb (l : list nat) : bool :=
  match l with
  | [] => true
  | x :: r => negb (mem x r) && nodupb r
  end.

(* S.Delete "removes states": nothing named in any list is left, nothing
   else is lost or invented, order kept *)
Definition delete_ok (s : sl) (ls : list sl) (r : sl) : bool :=
  list_eqb r (filter (fun x => negb (mem x (concat ls))) s).

(* S.Add "unions without duplicates": duplicate-free, exactly the members of
   the receiver and the lists, in order of first occurrence *)
Definition add_ok (s : sl) (ls : list sl) (r : sl) : bool :=
  nodupb r && every r (s ++ concat ls) && every (s ++ concat ls) r.

(* set difference / intersection, as membership tables over every name in
   sight *)
Definition sub_ok (a b r : sl) : bool :=
  forallb (fun x => Bool.eqb (mem x r) (mem x a && negb (mem x b))) (a ++ b ++ r).
Definition shared_ok (a b r : sl) : bool :=
  forallb (fun x => Bool.eqb (mem x r) (mem x a && mem x b)) (a ++ b ++ r).
(* equality regardless of order = mutual inclusion *)
Definition equal_ok (a b : sl) (r : bool) : bool :=
  Bool.eqb r (forallb (fun x => mem x b) a && forallb (fun x => mem x a) b).
Definition unique_ok (a r : sl) : bool :=
  nodupb r && every r a && every a r.

(* ParseStates "removes unknown names and duplicates" *)
Definition parse_ok (n : nat) (states r : sl) : bool :=
  forallb (known n) r && nodupb r && every states r &&
  forallb (fun x => negb (known n x) || mem x r) states.

Definition not_panic (v : val) : bool := match v with VPanic => false | _ => true end.

(* ---- the domain of the totality clause *)

(* an index argument of Time: a position of the slice, or the documented -1 /
   beyond-the-end values where the method's comment allows them *)
Definition idx_in (len : nat) (i : Z) : bool := ((0 <=? i) && (i <? Z.of_nat len))%Z.
Definition idx_or_m1 (len : nat) (i : Z) : bool := idx_in len i || (i =? -1)%Z.
Definition idx_nonneg (i : Z) : bool := (0 <=? i)%Z.

Definition set_in_domain (op : set_op) : bool :=
  match op with
  | OIndexToStates _ idxs => forallb (fun i => (-1 <=? i)%Z) idxs
  | _ => true
  end.

(* which Time calls must not panic: any two Time values (of any lengths);
   indexes inside the slice, plus -1 ("not found") for the state checks and
   anything >= 0 for the getters that promise a fallback *)
Definition time_in_domain (op : time_op) : bool :=
  match op with
  | TNew len active => forallb (idx_in len) active
  | TIncrement t i => idx_nonneg i
  | TFilter t idxs => forallb idx_nonneg idxs
  | TSum t (Some idxs) => forallb idx_nonneg idxs
  | TTick t i => idx_nonneg i
  | TIs1 t i | TNot1 t i => (-1 <=? i)%Z
  | TIs t idxs | TNot t idxs => forallb (idx_or_m1 (length t)) idxs
  | TAny t ls => forallb (forallb (idx_or_m1 (length t))) ls
  | TAny1 t idxs => forallb (fun i => (-1 <=? i)%Z) idxs
  | XStateName _ i => idx_nonneg i
  (* TimeIndex: the names have to be in the index, the index as long as the time *)
  | XSum index t states | XFilter index t states | XIs index t states
  | XNot index t states | XAny1 index t states =>
    every index states && Nat.eqb (length index) (length t)
  | _ => true
  end.

(* Time.ActiveStates(idxs): "when idxs isn't nil, only the passed indexes are
   considered" *)
Definition active_ok (t : tm) (idxs : option (list Z)) (r : list nat) : bool :=
  list_eqb r (match idxs with
              | None => active_from 0 t
              | Some l => filter (fun k => zmem (Z.of_nat k) l) (active_from 0 t)
              end).

(* ---- queue queries *)

(* the answer of IsQueued designates a queued mutation that matches *)
Definition is_queued_sound (n : nat) (queue : list qmut) (q : qquery) (v : val) : bool :=
  match v with
  | VQ true i t =>
    match nth_error queue (N.to_nat i) with
    | Some m => qmatch n (qq_check q) q m && N.eqb (q_tick m) t
    | None => false
    end
  | _ => true
  end.

(* and "not found" means that nothing in the inspected part matches *)
Definition is_queued_complete (n : nat) (queue : list qmut) (q : qquery) (v : val) : bool :=
  match v with
  | VQ false _ _ =>
    match qq_pos q with
    | 1%N => match queue with [] => true | m :: _ => negb (qmatch n (qq_check q) q m) end
    | 2%N => match rev queue with [] => true | m :: _ => negb (qmatch n (qq_check q) q m) end
    | _ => negb (existsb (qmatch n (qq_check q) q) queue)
    end
  | _ => true
  end.
