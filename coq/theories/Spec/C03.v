(* C03 — transitions are all-or-nothing and the returned Result tells the
   truth; Can* are pure. Judged per top-level call on an idle machine, on the
   call's own transition record (the same drain also runs the auto mutation
   and mutations queued by handlers, which may legitimately move the machine
   before the caller looks). *)
From Coq Require Import List NArith Bool Arith.
From AMV Require Import Base.ListSet Model.Schema Model.Machine Spec.C01.
Import ListNotations.

Definition is_check_kind (k : api_kind) : bool :=
  match k with KCanAdd | KCanRemove => true | _ => false end.

(* codes: 31 Canceled but something moved; 32 Executed Add with a called state
   not active; 33 Executed Remove with a called state still active;
   34 a check moved states, ticks or the queue tick; 36 wrong kind of own
   transition; 37 Queued returned on an idle machine *)
Definition call_codes (c : api_call) (prev_time : list N) (prev_qtick : N) (prev_ntx : nat)
  (o : callobs) (txs : list txrec) : list N :=
  let own := if prev_ntx <? co_ntx o then nth_error txs prev_ntx else None in
  (match co_result o with
   | Canceled =>
     match own with
     | Some t => if clock_eqb (tx_before t) (tx_after t) then [] else [31%N]
     | None => if clock_eqb prev_time (co_time o) && N.eqb prev_qtick (co_qtick o) then [] else [31%N]
     end
   | Executed =>
     match own with
     | None => []
     | Some t =>
       if tx_check t then [] else
       match tx_type t with
       | MAdd => if every (tx_target t) (tx_called t) && tx_accepted t
                    && parity_ok (tx_after t) (tx_target t) then [] else [32%N]
       | MRemove => if none_in (tx_target t) (tx_called t) && tx_accepted t
                       && parity_ok (tx_after t) (tx_target t) then [] else [33%N]
       | MSet => if tx_accepted t && parity_ok (tx_after t) (tx_target t) then [] else [32%N]
       end
     end
   | Queued _ => [37%N]
   end)
  ++ (if is_check_kind (ac_kind c) then
        match own with
        | Some t =>
          if negb (tx_check t) then [36%N]
          else if negb (clock_eqb (tx_before t) (tx_after t)) then [34%N]
          else if Nat.eqb (co_ntx o) (S prev_ntx)
                  && negb (clock_eqb prev_time (co_time o) && N.eqb prev_qtick (co_qtick o))
               then [34%N] else []
        | None => if clock_eqb prev_time (co_time o) && N.eqb prev_qtick (co_qtick o) then [] else [34%N]
        end
      else match own with
           | Some t => if tx_check t then [36%N] else []
           | None => []
           end).

Fixpoint calls_codes (cs : list api_call) (obs : list callobs) (prev_time : list N)
  (prev_qtick : N) (prev_ntx : nat) (txs : list txrec) : list N :=
  match cs, obs with
  | c :: cr, o :: orest =>
    call_codes c prev_time prev_qtick prev_ntx o txs
    ++ calls_codes cr orest (co_time o) (co_qtick o) (co_ntx o) txs
  | _, _ => []
  end.

(* check_predicts: CanAdd/CanRemove S directly followed by Add/Remove S (no
   Multi state in S, no handlers bound): same answer. Code 35. *)
Definition res_class (r : result) : nat :=
  match r with Executed => 0 | Canceled => 1 | Queued _ => 2 end.

Fixpoint predicts_codes (sc : schema) (cs : list api_call) (obs : list callobs) : list N :=
  match cs, obs with
  | c1 :: ((c2 :: _) as cr), o1 :: ((o2 :: _) as orest) =>
    (match ac_kind c1, ac_kind c2 with
     | KCanAdd, KAdd | KCanRemove, KRemove =>
       if list_eqb (ac_states c1) (ac_states c2)
          && negb (existsb (fun x => s_multi (sget sc x)) (ac_states c1))
          && negb (ac_args c1) && negb (ac_args c2)
       then (if Nat.eqb (res_class (co_result o1)) (res_class (co_result o2)) then [] else [35%N])
       else []
     | _, _ => []
     end) ++ predicts_codes sc cr orest
  | _, _ => []
  end.

Definition c03_codes (sc : schema) (no_handlers : bool) (cs : list api_call) (tr : trace) : list N :=
  calls_codes cs (tr_calls tr) (map (fun _ => 0%N) sc) 1%N 0 (tr_txs tr)
  ++ (if no_handlers then predicts_codes sc cs (tr_calls tr) else []).
