(* C13 — Dispose releases every waiter and is safe from anywhere: the clauses
   as boolean predicates over plain observables (flags, closed bits, call
   counts, results), applied by the theorems to configurations of the
   interleaving model Conc/Dispose.v and by Run/EvalC13.v to what the
   implementation was seen to do. *)
From Coq Require Import List Bool Arith.
From AMV Require Import Conc.Dispose.
Import ListNotations.

(* every stage of doDispose runs at most once, however many Dispose /
   DisposeForce calls there are *)
Definition stages_once (prep subs fin : nat) : bool :=
  (prep <=? 1) && (subs <=? 1) && (fin <=? 1).

(* a dispose handler never runs twice, and has run exactly once when the
   disposal is complete *)
Definition counts_once (complete : bool) (h : list nat) : bool :=
  forallb (fun n => n <=? 1) h && (negb complete || forallb (Nat.eqb 1) h).

(* once the disposal is complete every waiter handed out is closed *)
Definition released (complete : bool) (closed : list bool) : bool :=
  negb complete || forallb (fun b => b) closed.

(* the same, for the waiters selected by [p] *)
Definition released_where (p : waiter -> bool) (complete : bool) (ws : list waiter) : bool :=
  negb complete || forallb (fun w => negb (p w) || w_closed w) ws.

Definition is_panic (x : res) : bool := match x with RPanic => true | _ => false end.

Definition no_panic (rs : list res) : bool := forallb (fun x => negb (is_panic x)) rs.

(* a call on a disposed machine returns its neutral value: [neutral] of
   Conc/Dispose.v (Closed / Canceled / false / zero) *)
Definition neutral_call (k : kind) (x : res) : bool := neutral k x.

(* projections of a configuration *)
Definition cfg_complete (c : cfg) : bool := complete (sh c).
Definition cfg_stages_once (c : cfg) : bool :=
  stages_once (n_prep (dc (sh c))) (n_subs (dc (sh c))) (n_end (dc (sh c))).
Definition cfg_counts_once (c : cfg) : bool := counts_once (cfg_complete c) (hcounts (dc (sh c))).
Definition cfg_released (c : cfg) : bool :=
  released (cfg_complete c) (map w_closed (waiters (rs (sh c)))).
Definition cfg_no_panic (c : cfg) : bool := no_panic (map th_res (ths c)).

(* the kinds of waiters the code as found releases whenever they were
   registered: everything but whenQuery bindings and the context.TODO() that
   NewStateCtx returns while disposing *)
Definition releasable (w : waiter) : bool :=
  match w_kind w with WQuery | WTodo => false | _ => true end.

(* registered before subs.dispose() ran, of a kind it closes *)
Definition early_closable (fx : fixes) (w : waiter) : bool :=
  (w_stage w <? 4) && closable fx (w_kind w).
