(* C01, schedule clause: concurrent readers. Each reader goroutine samples
   Machine.StringAll() - names, ticks and the active/inactive split taken in
   one critical section - while another goroutine runs the history. Every
   sample must be internally consistent (listed active <-> odd tick) and the
   ticks seen by one reader never decrease. Proof-free. *)
From Coq Require Import List NArith Bool Arith.
Import ListNotations.

(* one sample: per state (tick, listed as active) *)
Definition sample := list (N * bool).

Record rcase := { r_readers : list (list sample) }.

Definition sample_ok (s : sample) : bool :=
  forallb (fun p : N * bool => Bool.eqb (N.odd (fst p)) (snd p)) s.

Fixpoint sample_le (a b : sample) : bool :=
  match a, b with
  | [], [] => true
  | (x, _) :: r, (y, _) :: s => (x <=? y)%N && sample_le r s
  | _, _ => false
  end.

Fixpoint monotone (l : list sample) : bool :=
  match l with
  | a :: ((b :: _) as r) => sample_le a b && monotone r
  | _ => true
  end.

(* codes: 11 a reader saw a state listed active with an even tick (or inactive
   with an odd one); 14 a reader saw a tick decrease *)
Definition reader_codes (k : rcase) : list N :=
  (if forallb (forallb sample_ok) (r_readers k) then [] else [11%N])
  ++ (if forallb monotone (r_readers k) then [] else [14%N]).
