(* C06 - waiting: no lost or spurious wake-ups; state contexts bound to one
   state instance. The property as boolean predicates over the event list of
   a history (Model/Subs.v sevent: the subscription calls with the machine
   view they read, the transition ends with the machine view after them) and
   the closed flags observed on the returned channels / contexts.

   For a subscription op and a later poll:
     closed  <->  the condition held when subscribing           (not WhenQuery)
              \/  it held at the end of some later transition
              \/  its context was already done when subscribing
              \/  its context ended and a transition ended since
              \/  the machine was disposed.
   For a state context: canceled <-> the tick of its state differs from the
   tick at creation (or the machine was disposed).

   [verdict] classifies a disagreement into a narrow code (see bin/props.d). *)

From Coq Require Import List Bool Arith NArith.
From AMV Require Import Base.ListSet Model.Subs.
Import ListNotations.

(* WhenTicks / WhenNextActive are WhenTime with the times resolved against
   the live clock at subscription *)
Definition resolve_op (v : view) (o : sop) : sop :=
  match o with
  | OWhenTicks x n ctx => OWhenTime [x] [(n + tick_of (v_clock v) x)%N] ctx
  | OWhenNextActive x ctx =>
    let t := tick_of (v_clock v) x in
    OWhenTime [x] [((if N.odd t then 2 else 1) + t)%N] ctx
  | _ => o
  end.

(* the condition a (resolved) subscription waits for, on a machine view *)
Definition cond (o : sop) (v : view) : bool :=
  match o with
  | OWhen sts _ => forallb (fun x => mem x (v_active v)) sts
  | OWhenNot sts _ => forallb (fun x => negb (mem x (v_active v))) sts
  | OWhenTime sts times _ =>
    forallb (fun p : nat * N => (snd p <=? tick_of (v_clock v) (fst p))%N) (combine sts times)
  | OWhenQuery f _ => qfn_eval f (v_clock v)
  | OWhenQueue t => (t <=? v_qtick v)%N
  | OWhenQueueEnds => negb (v_running v)
  | _ => false
  end.

Definition op_ctx (o : sop) : option nat :=
  match o with
  | OWhen _ c | OWhenNot _ c | OWhenTime _ _ c | OWhenTicks _ _ c | OWhenNextActive _ c
  | OWhenQuery _ c => c
  | _ => None
  end.

Definition is_sub (o : sop) : bool :=
  match o with
  | OCancel _ | OSetSchema | ODispose | ONop => false
  | _ => true
  end.

(* is the condition looked at when subscribing? *)
Definition checks_at_subscribe (o : sop) : bool :=
  match o with
  | OWhenQuery _ _ | ONewStateCtx _ => false
  | _ => true
  end.

Definition base_code (o : sop) : N :=
  match o with
  | OWhen _ _ => 610 | OWhenNot _ _ => 620
  | OWhenTime _ _ _ | OWhenTicks _ _ _ | OWhenNextActive _ _ => 630
  | OWhenQuery _ _ => 650 | OWhenQueue _ => 660 | ONewStateCtx _ => 670
  | OWhenQueueEnds => 680
  | _ => 600
  end%N.

(* what is known about one subscription while walking the events *)
Record track := {
  tk_k : nat;
  tk_op : sop;             (* resolved *)
  tk_tick0 : N;            (* state context: real tick at creation *)
  tk_cond0 : bool;         (* condition held when subscribing *)
  tk_ctx0 : bool;          (* its context was done when subscribing *)
  tk_held_proc : bool;     (* condition held at the end of a later PROCESSED transition
                              (accepted, not a check: processSubscriptions ran) *)
  tk_held_unproc : bool;   (* ... of a later canceled / check transition *)
  tk_ctx_tx : bool;        (* a transition ended after its context ended *)
  tk_ctx_proc : bool;      (* a processed one *)
  tk_mixed : bool;         (* When: some processed transition activated one of its states
                              and deactivated another *)
  tk_window : bool;        (* subscribed between setActiveStates and ProcessStateCtx *)
  tk_fault : bool          (* a transition faulted in its final phase since the subscription *)
}.

Definition tk_set (t : track) (hp hu ct cp mx : bool) : track :=
  {| tk_k := tk_k t; tk_op := tk_op t; tk_tick0 := tk_tick0 t; tk_cond0 := tk_cond0 t;
     tk_ctx0 := tk_ctx0 t; tk_held_proc := hp; tk_held_unproc := hu; tk_ctx_tx := ct;
     tk_ctx_proc := cp; tk_mixed := mx; tk_window := tk_window t; tk_fault := tk_fault t |}.

Definition tk_mark_fault (t : track) : track :=
  {| tk_k := tk_k t; tk_op := tk_op t; tk_tick0 := tk_tick0 t; tk_cond0 := tk_cond0 t;
     tk_ctx0 := tk_ctx0 t; tk_held_proc := tk_held_proc t; tk_held_unproc := tk_held_unproc t;
     tk_ctx_tx := tk_ctx_tx t; tk_ctx_proc := tk_ctx_proc t; tk_mixed := tk_mixed t;
     tk_window := tk_window t; tk_fault := true |}.

Definition op_states (o : sop) : list nat :=
  match o with
  | OWhen sts _ | OWhenNot sts _ | OWhenTime sts _ _ => sts
  | OWhenTicks x _ _ | OWhenNextActive x _ | ONewStateCtx x => [x]
  | _ => []
  end.

(* the condition of track t at view v *)
Definition tk_cond (t : track) (v : view) : bool :=
  match tk_op t with
  | ONewStateCtx x => negb (N.eqb (tick_of (v_clock v) x) (tk_tick0 t))
  | o => cond o v
  end.

Definition spec_cond_part (t : track) : bool :=
  (checks_at_subscribe (tk_op t) && tk_cond0 t) || tk_held_proc t || tk_held_unproc t.

(* the property's right-hand side *)
Definition spec_closed (t : track) (disposed : bool) : bool :=
  spec_cond_part t || tk_ctx0 t || tk_ctx_tx t || disposed.

Record env := {
  en_faults : bool;        (* a transition faulted in its final phase (ticks moved, not accepted) *)
  en_setschema : bool;     (* SetSchema ran *)
  en_disposed : bool;
  en_done : list nat;      (* ended user contexts *)
  en_orphan : list nat     (* states of multi-state When bindings WITH a context (double gc) *)
}.

Definition is_time (o : sop) : bool := match o with OWhenTime _ _ _ => true | _ => false end.
Definition is_query (o : sop) : bool := match o with OWhenQuery _ _ => true | _ => false end.
Definition is_sctx (o : sop) : bool := match o with ONewStateCtx _ => true | _ => false end.
Definition is_when (o : sop) : bool := match o with OWhen _ _ => true | _ => false end.
Definition is_whenish (o : sop) : bool :=
  match o with OWhen _ _ | OWhenNot _ _ => true | _ => false end.

(* None = the observation agrees with the property *)
Definition verdict (e : env) (t : track) (closed : bool) : option N :=
  let o := tk_op t in
  let b := base_code o in
  let s := spec_closed t (en_disposed e) in
  let multi := Nat.ltb 1 (length (op_states o)) in
  let orphan := is_whenish o && existsb (fun x => mem x (en_orphan e)) (op_states o) in
  if Bool.eqb closed s then None
  else if closed then
    (* spurious *)
    Some (if is_sctx o then (if tk_window t then 674 else 670)
          else if tk_fault t then 691
          else if is_when o && multi && tk_mixed t then b + 2
          else if en_setschema e && (is_time o || is_query o) then b + 7
          else b)%N
  else
    (* lost *)
    Some (if en_disposed e then b + 8
          else if is_sctx o then (if tk_fault t then 672 else 671)
          else if tk_fault t then 690
          else if checks_at_subscribe o && tk_cond0 t then
            (if en_faults e then 690 else if en_setschema e && is_time o then b + 7 else b + 5)
          else if tk_held_proc t then
            (if en_setschema e && (is_time o || is_query o) then b + 7
             else if orphan then b + 3
             else b + 1)
          else if tk_held_unproc t then
            (* the queue tick only moves with non-check transitions, and those run
               ProcessWhenQueue also when canceled *)
            (match o with OWhenQueue _ => b + 1 | _ => b + 9 end)
          else if tk_ctx_proc t then
            (if orphan then b + 3 else b + 1)
          else b + 6)%N.

(* what the implementation returned for an op *)
Record opobs := {
  oo_kind : N;        (* 0 nothing, 1 channel, 2 state context, 3 panic *)
  oo_alias : nat;     (* 0 = Subscriptions.Closed, else 1 + index of the first op that
                         returned the same channel / context *)
  oo_closed0 : bool;  (* closed / canceled right at return *)
  oo_tick : N         (* state context: CtxValue.Tick *)
}.

Definition no_obs : opobs := {| oo_kind := 0; oo_alias := 0; oo_closed0 := false; oo_tick := 0 |}.

(* codes at subscription time *)
Definition subscribe_codes (e : env) (v : view) (o : sop) (ob : opobs) : list N :=
  let r := resolve_op v o in
  let b := base_code r in
  if (oo_kind ob =? 3)%N then
    match o with
    | OWhenQuery _ (Some _) => [652%N]       (* WhenQuery with a context panics *)
    | _ => []                                (* undefined state: documented panic *)
    end
  else if negb (is_sub o) then []
  else
    let ctx0 := match op_ctx o with Some c => mem c (en_done e) | None => false end in
    (* must be closed at return: the condition holds (or the machine is disposed);
       may be closed at return: its context has already ended (the implementation
       returns the closed channel unless an identical pending subscription is reused) *)
    let must := (checks_at_subscribe r && cond r v) || en_disposed e in
    (if oo_closed0 ob then (if must || ctx0 then [] else [(b + 4)%N])
     (* inside the apply window an identical pending subscription may be reused
        (the lookup precedes the check); it is served by this transition's
        processSubscriptions and judged at the next poll *)
     else if must && negb (v_applied v)
     then [(if en_faults e then 690   (* a pending identical subscription, stale since a faulted transition, was reused *)
            else if en_setschema e && is_time r then b + 7 else b + 5)%N] else [])
    ++ (if is_sctx o && negb (N.eqb (oo_tick ob) (tick_of (v_clock v) (hd 0 (op_states o))))
        then [(if v_window v then 675 else if en_setschema e then 677
              (* the context of an instance that survived the re-tick of a faulted
                 transition (2:672) is handed out again *)
              else if en_faults e then 672 else 673)%N] else []).

Definition new_track (e : env) (k : nat) (v : view) (o : sop) : track :=
  let r := resolve_op v o in
  {| tk_k := k; tk_op := r; tk_tick0 := tick_of (v_clock v) (hd 0 (op_states o));
     tk_cond0 := cond r v;
     tk_ctx0 := match op_ctx o with Some c => mem c (en_done e) | None => false end;
     tk_held_proc := false; tk_held_unproc := false; tk_ctx_tx := false; tk_ctx_proc := false;
     tk_mixed := false; tk_window := v_window v; tk_fault := false |}.

Definition inter (a b : list nat) : bool := existsb (fun x => mem x b) a.

Definition at_tx_end (e : env) (v : view) (processed : bool) (t : track) : track :=
  let h := tk_cond t v in
  let cd := match op_ctx (tk_op t) with Some c => mem c (en_done e) | None => false end in
  tk_set t (tk_held_proc t || (h && processed)) (tk_held_unproc t || (h && negb processed))
         (tk_ctx_tx t || cd) (tk_ctx_proc t || (cd && processed)) (tk_mixed t).

Definition at_process (act deact : list nat) (t : track) : track :=
  tk_set t (tk_held_proc t) (tk_held_unproc t) (tk_ctx_tx t) (tk_ctx_proc t)
         (tk_mixed t || (inter (op_states (tk_op t)) act && inter (op_states (tk_op t)) deact)).

Definition at_queue_end (t : track) : track :=
  match tk_op t with
  | OWhenQueueEnds => tk_set t true (tk_held_unproc t) (tk_ctx_tx t) (tk_ctx_proc t) (tk_mixed t)
  | _ => t
  end.

Record wstate := {
  w_env : env;
  w_tracks : list track;
  w_poll : nat;
  w_codes : list N;
  w_applied : bool    (* ProcessStateCtx of the transition in flight has run *)
}.

Definition env_fault (e : env) : env :=
  {| en_faults := true; en_setschema := en_setschema e; en_disposed := en_disposed e;
     en_done := en_done e; en_orphan := en_orphan e |}.

Definition env_upd (e : env) (o : sop) : env :=
  match o with
  | OCancel c => {| en_faults := en_faults e; en_setschema := en_setschema e;
                    en_disposed := en_disposed e; en_done := c :: en_done e;
                    en_orphan := en_orphan e |}
  | OSetSchema => {| en_faults := en_faults e; en_setschema := true; en_disposed := en_disposed e;
                     en_done := en_done e; en_orphan := en_orphan e |}
  | ODispose => {| en_faults := en_faults e; en_setschema := en_setschema e; en_disposed := true;
                   en_done := en_done e; en_orphan := en_orphan e |}
  | OWhen sts (Some _) =>
    if 1 <? length (uniq sts)
    then {| en_faults := en_faults e; en_setschema := en_setschema e; en_disposed := en_disposed e;
            en_done := en_done e; en_orphan := sts ++ en_orphan e |}
    else e
  | _ => e
  end.

Definition walk_step (rets : list opobs) (polls : list (list bool)) (w : wstate) (ev : sevent)
  : wstate :=
  let e := w_env w in
  match ev with
  | EOp k v o =>
    let ob := nth k rets no_obs in
    let tracked := is_sub o && ((oo_kind ob =? 1)%N || (oo_kind ob =? 2)%N) in
    {| w_env := env_upd e o;
       w_tracks := if tracked then w_tracks w ++ [new_track e k v o] else w_tracks w;
       w_poll := w_poll w;
       w_codes := w_codes w ++ subscribe_codes e v o ob; w_applied := w_applied w |}
  | EProcess act deact _ _ _ =>
    {| w_env := e; w_tracks := map (at_process act deact) (w_tracks w); w_poll := w_poll w;
       w_codes := w_codes w; w_applied := w_applied w |}
  | ETxEnd v processed =>
    (* applied (ticks moved) but not accepted: a fault in the final phase *)
    let faulted := w_applied w && negb processed in
    let e' := if faulted then env_fault e else e in
    {| w_env := e';
       w_tracks := map (fun t => let t' := at_tx_end e v processed t in
                                 if faulted then tk_mark_fault t' else t') (w_tracks w);
       w_poll := w_poll w;
       w_codes := w_codes w; w_applied := false |}
  | EQueueEnd =>
    {| w_env := e; w_tracks := map at_queue_end (w_tracks w); w_poll := w_poll w;
       w_codes := w_codes w; w_applied := w_applied w |}
  | EPoll =>
    let flags := nth (w_poll w) polls [] in
    {| w_env := e; w_tracks := w_tracks w; w_poll := S (w_poll w);
       w_codes := w_codes w ++
         flat_map (fun t => match verdict e t (nth (tk_k t) flags false) with
                            | Some c => [c] | None => [] end) (w_tracks w);
       w_applied := w_applied w |}
  | EStateCtx _ _ =>
    {| w_env := e; w_tracks := w_tracks w; w_poll := w_poll w; w_codes := w_codes w;
       w_applied := true |}
  | EQueueTick _ => w
  end.

Fixpoint dedup_n (l : list N) : list N :=
  match l with
  | [] => []
  | x :: r => if existsb (N.eqb x) r then dedup_n r else x :: dedup_n r
  end.

(* all violation codes of one history *)
Definition violations (es : list sevent) (rets : list opobs)
  (polls : list (list bool)) : list N :=
  let w0 := {| w_env := {| en_faults := false; en_setschema := false; en_disposed := false;
                           en_done := []; en_orphan := [] |};
               w_tracks := []; w_poll := 0; w_codes := []; w_applied := false |} in
  dedup_n (w_codes (fold_left (walk_step rets polls) es w0)).

(* ------------------------------------------------------------------------
   Theorem-facing definitions: runs of the manager over event lists and the
   activity the manager is told about. *)

Definition run (s : sst) (es : list sevent) : sst := fold_left step es s.

(* activity as told to the manager by processSubscriptions: a state listed
   as activated is active afterwards (also when it is listed as deactivated
   too), a state only listed as deactivated is inactive *)
Definition act_upd (a : nat -> bool) (e : sevent) : nat -> bool :=
  match e with
  | EProcess act deact _ _ _ =>
    fun x => if mem x act then true else if mem x deact then false else a x
  | _ => a
  end.

Definition acts (a : nat -> bool) (es : list sevent) : nat -> bool := fold_left act_upd es a.

(* the activity read by the When / WhenNot calls is the told activity *)
Fixpoint coherent (a : nat -> bool) (es : list sevent) : Prop :=
  match es with
  | [] => True
  | e :: r =>
    match e with
    | EOp _ v (OWhen _ _) | EOp _ v (OWhenNot _ _) => forall x, mem x (v_active v) = a x
    | _ => True
    end /\ coherent (act_upd a e) r
  end.

(* no context ends, no Dispose *)
Definition plain_ev (e : sevent) : bool :=
  match e with
  | EOp _ _ (OCancel _) | EOp _ _ ODispose => false
  | _ => true
  end.

Definition op_index (e : sevent) : option nat :=
  match e with EOp k _ _ => Some k | _ => None end.

(* op index k is not used by the events es *)
Definition fresh_k (k : nat) (es : list sevent) : Prop :=
  forall e, In e es -> op_index e <> Some k.

(* [c] held (on the told activity) at the end of some processed transition *)
Fixpoint held_later (c : (nat -> bool) -> bool) (a : nat -> bool) (es : list sevent) : bool :=
  match es with
  | [] => false
  | e :: r =>
    let a' := act_upd a e in
    match e with EProcess _ _ _ _ _ => c a' | _ => false end || held_later c a' r
  end.

(* ProcessWhen's pass 1 over activated ++ deactivated: after the walked
   states the binding's flags are the new activity for them and the old one
   for the others (used by the proofs) *)
Definition hybrid (a : nat -> bool) (act : list nat) (walked : list nat) (x : nat) : bool :=
  if mem x walked then mem x act else a x.

(* all the states of a When (neg = false) / WhenNot (neg = true) are active /
   inactive under the told activity *)
Definition told_cond (neg : bool) (sts : list nat) (a : nat -> bool) : bool :=
  forallb (fun x => Bool.eqb (a x) (negb neg)) sts.

Definition when_op (neg : bool) (sts : list nat) (ctx : option nat) : sop :=
  if neg then OWhenNot sts ctx else OWhen sts ctx.

(* some later processSubscriptions (or the ProcessWhenQueue of a canceled
   transition) ran with a queue tick satisfying c *)
Fixpoint processed_with (c : N -> bool) (es : list sevent) : bool :=
  match es with
  | [] => false
  | EProcess _ _ _ _ qt :: r => c qt || processed_with c r
  | EQueueTick qt :: r => c qt || processed_with c r
  | _ :: r => processed_with c r
  end.

(* some later ProcessStateCtx listed state x as activated or deactivated *)
Fixpoint ctx_touched (x : nat) (es : list sevent) : bool :=
  match es with
  | [] => false
  | EStateCtx act deact :: r => mem x (act ++ deact) || ctx_touched x r
  | _ :: r => ctx_touched x r
  end.

(* some later processSubscriptions found predicate f true on the clock *)
Fixpoint query_held (f : qfn) (es : list sevent) : bool :=
  match es with
  | [] => false
  | EProcess _ _ _ live _ :: r => qfn_eval f live || query_held f r
  | _ :: r => query_held f r
  end.
