(* C01 — clocks: tick parity is activity, ticks only grow, by the documented
   step. Boolean predicates over a trace (model's or observed). Proof-free. *)

From Coq Require Import List NArith Bool Arith.
From AMV Require Import Base.ListSet Model.Schema Model.Machine.
Import ListNotations.

(* a state is reported active exactly when its tick is odd *)
Definition parity_ok (cl : list N) (act : list nat) : bool :=
  forallb (fun p => Bool.eqb (N.odd (snd p)) (mem (fst p) act))
          (combine (seq 0 (length cl)) cl)
  && forallb (fun a => a <? length cl) act.

Fixpoint clock_le (a b : list N) : bool :=
  match a, b with
  | [], [] => true
  | x :: r, y :: s => (x <=? y)%N && clock_le r s
  | _, _ => false
  end.

Fixpoint clock_eqb (a b : list N) : bool :=
  match a, b with
  | [], [] => true
  | x :: r, y :: s => (x =? y)%N && clock_eqb r s
  | _, _ => false
  end.

(* the documented step of one state in one fault-free transition *)
Definition step_ok (sc : schema) (t : txrec) (i : nat) (b a : N) : bool :=
  let d := (a - b)%N in
  let multi_again := s_multi (sget sc i) && mem i (tx_called t)
                     && mem i (tx_active_before t) && mem i (tx_target t) in
  (b <=? a)%N &&
  (if (d =? 0)%N then negb multi_again
   else if (d =? 1)%N then true
   else if (d =? 2)%N then multi_again
   else false).

Fixpoint steps_ok (sc : schema) (t : txrec) (i : nat) (b a : list N) : bool :=
  match b, a with
  | [], [] => true
  | x :: r, y :: s => step_ok sc t i x y && steps_ok sc t (S i) r s
  | _, _ => false
  end.

Definition tx_moves_nothing (t : txrec) : bool := clock_eqb (tx_before t) (tx_after t).

(* per-transition clause; the code says which part fails *)
Definition tx_clock_code (sc : schema) (t : txrec) : list N :=
  if negb (parity_ok (tx_before t) (tx_active_before t)) then [3%N]
  else if negb (clock_le (tx_before t) (tx_after t)) then [4%N]
  else if tx_check t || negb (tx_accepted t) then
    (if tx_moves_nothing t then [] else [6%N])
  else if negb (steps_ok sc t 0 (tx_before t) (tx_after t)) then [5%N]
  else if negb (parity_ok (tx_after t) (tx_target t)) then [8%N]
  else if negb (clock_eqb (tx_after t) (tx_mach_after t)) then [7%N]
  else [].

Fixpoint chain_le (prev : list N) (l : list (list N)) : bool :=
  match l with
  | [] => true
  | c :: r => clock_le prev c && chain_le c r
  end.

Definition c01_codes (sc : schema) (tr : trace) : list N :=
  (if forallb (fun c => parity_ok (co_time c) (co_active c)) (tr_calls tr) then [] else [1%N])
  ++ (if forallb (fun h => parity_ok (hl_clock h) (hl_active h)) (tr_hlog tr) then [] else [2%N])
  ++ flat_map (tx_clock_code sc) (tr_txs tr)
  ++ (match tr_txs tr with
      | [] => []
      | t :: _ => if chain_le (tx_before t) (flat_map (fun t => [tx_before t; tx_after t]) (tr_txs tr))
                  then [] else [4%N]
      end)
  ++ (match tr_calls tr with
      | [] => []
      | c :: r => if chain_le (co_time c) (map co_time r) then [] else [4%N]
      end).

Definition c01_ok (sc : schema) (tr : trace) : bool :=
  match c01_codes sc tr with [] => true | _ => false end.
