(* Model of pkg/machine/subscriptions.go (the subscription manager) and of the
   Machine.When* / NewStateCtx wrappers of machine.go. Proof-free, executable.

   The manager is a separate layer DRIVEN BY EVENTS: subscription API calls
   (with the view of the machine the call reads), ProcessStateCtx at the
   apply point of a transition, processSubscriptions after an accepted
   non-check transition, ProcessWhenQueueEnds at the end of processQueue.
   Run/EvalC06.v derives the event list from a trace of Model/Machine.v.

   Representation. Go keeps pointer bindings in per-state index slices
   (sm.when[state], sm.whenTime[state]). Here every binding lives in one heap
   list (creation order) and records under which states it is currently
   indexed ([wb_idx], with multiplicity); len(sm.when[s]) is the number of
   index entries for s over the heap. This keeps the code's gc quirk exact:
   `if len(sm.when[state]) == 1 { delete(sm.when, state) }` drops the index
   entry of WHOEVER is the single binding left under [state], also when the
   binding being collected is not there any more (double gc, see
   process_when_ctx).

   Channel / context identities are naturals; 0 is Subscriptions.Closed.
   Go panics are the value [RPanic] (API call: undefined state). The flag
   [ss_crashed] (panic inside processSubscriptions) and the field [ss_frozen]
   (clock copy handed over by SetSchema) are not set by any function any more
   since the fixes of WhenQuery-with-context and of SetSchema; they are kept
   so that the code as it was can be modelled again by changing two lines. *)

From Coq Require Import List Bool Arith NArith ZArith.
From AMV Require Import Base.ListSet.
Import ListNotations.

(* ------------------------------------------------------------ inputs *)

(* clockCheck functions of WhenQuery, as data *)
Inductive qfn :=
| QActive (s : nat) | QInactive (s : nat) | QTickGe (s : nat) (n : N) | QNever | QAlways.

Definition tick_of (cl : list N) (s : nat) : N := nth s cl 0%N.

Definition qfn_eval (f : qfn) (cl : list N) : bool :=
  match f with
  | QActive s => N.odd (tick_of cl s)
  | QInactive s => N.even (tick_of cl s)
  | QTickGe s n => (n <=? tick_of cl s)%N
  | QNever => false
  | QAlways => true
  end.

(* what a subscription call can read of the machine *)
Record view := {
  v_active : list nat;   (* m.activeStates *)
  v_clock : list N;      (* m.clock (live) *)
  v_qtick : N;           (* m.queueTick *)
  v_running : bool;      (* m.queueRunning *)
  v_window : bool;       (* the call runs at the schedule point tx:applied of the transition in
                            flight - before the fix of emitEvents that was between
                            setActiveStates and ProcessStateCtx (informative: the manager
                            does not read it; it keeps the codes 2:674 / 2:675 narrow) *)
  v_applied : bool       (* the call runs between setActiveStates and processSubscriptions of
                            the transition in flight (informative) *)
}.

Inductive sop :=
| OWhen (sts : list nat) (ctx : option nat)
| OWhenNot (sts : list nat) (ctx : option nat)
| OWhenTime (sts : list nat) (times : list N) (ctx : option nat)
| OWhenTicks (s : nat) (n : N) (ctx : option nat)
| OWhenNextActive (s : nat) (ctx : option nat)
| OWhenQuery (f : qfn) (ctx : option nat)
| OWhenQueue (tick : N)
| OWhenQueueEnds
| ONewStateCtx (s : nat)
| OCancel (c : nat)        (* cancel user context c *)
| OSetSchema               (* Machine.SetSchema with a longer schema *)
| ODispose
| ONop.

Inductive opret :=
| RChan (id : nat)
| RCtx (id : nat) (tick : N)   (* state context + CtxValue.Tick *)
| RPanic
| RNone.

Inductive sevent :=
| EOp (k : nat) (v : view) (o : sop)
| EStateCtx (act deact : list nat)
| EProcess (act deact : list nat) (before live : list N) (qtick : N)
| EQueueEnd
| ETxEnd (v : view) (processed : bool)   (* marker, no effect on the manager *)
| EPoll
| EQueueTick (qtick : N).                (* canceled non-check transition: ProcessWhenQueue only *)

(* ------------------------------------------------------------ bindings *)

Record wbind := {
  wb_id : nat;                    (* channel *)
  wb_neg : bool;
  wb_states : list nat;           (* keys of binding.States *)
  wb_flags : list (nat * bool);   (* binding.States *)
  wb_total : nat;
  wb_matched : Z;
  wb_ctx : option nat;
  wb_idx : list nat               (* states under which sm.when holds it *)
}.

Record tbind := {
  tb_id : nat;
  tb_states : list nat;           (* as passed: binding.Index maps s to its LAST position *)
  tb_times : list N;
  tb_done : list (nat * bool);    (* binding.Completed *)
  tb_total : nat;
  tb_matched : nat;
  tb_ctx : option nat;
  tb_idx : list nat
}.

Record qbind := { qb_id : nat; qb_fn : qfn; qb_ctx : option nat }.

Record sst := {
  ss_next : nat;                       (* next fresh identity *)
  ss_closed : list nat;                (* closed channels / canceled contexts *)
  ss_wb : list wbind;                  (* When + WhenNot bindings, creation order *)
  ss_wctx : list (nat * list nat);     (* sm.whenCtx: ctx -> binding ids (insertion order, duplicates) *)
  ss_tb : list tbind;
  ss_tctx : list (nat * list nat);     (* sm.whenTimeCtx *)
  ss_qb : list qbind;                  (* sm.whenQuery *)
  ss_wq : list (nat * N);              (* sm.whenQueue *)
  ss_qe : list nat;                    (* sm.whenQueueEnds *)
  ss_sctx : list (nat * (nat * N));    (* sm.stateCtx: state -> ctx id, CtxValue.Tick *)
  ss_allctx : list nat;                (* every state context ever made (children of m.ctx) *)
  ss_frozen : option (list N);         (* Some c: sm.clock is the copy handed over by SetSchema *)
  ss_done : list nat;                  (* canceled user contexts *)
  ss_disposed : bool;
  ss_crashed : bool;                   (* a panic escaped from processSubscriptions *)
  ss_rets : list (nat * opret)         (* op index -> what the call returned *)
}.

Definition init_sst : sst :=
  {| ss_next := 1; ss_closed := [0]; ss_wb := []; ss_wctx := []; ss_tb := []; ss_tctx := [];
     ss_qb := []; ss_wq := []; ss_qe := []; ss_sctx := []; ss_allctx := []; ss_frozen := None;
     ss_done := []; ss_disposed := false; ss_crashed := false; ss_rets := [] |}.

Definition set_when (s : sst) (wb : list wbind) (wctx : list (nat * list nat)) (cl : list nat) : sst :=
  {| ss_next := ss_next s; ss_closed := cl; ss_wb := wb; ss_wctx := wctx; ss_tb := ss_tb s;
     ss_tctx := ss_tctx s; ss_qb := ss_qb s; ss_wq := ss_wq s; ss_qe := ss_qe s;
     ss_sctx := ss_sctx s; ss_allctx := ss_allctx s; ss_frozen := ss_frozen s; ss_done := ss_done s;
     ss_disposed := ss_disposed s; ss_crashed := ss_crashed s; ss_rets := ss_rets s |}.

Definition set_time (s : sst) (tb : list tbind) (tctx : list (nat * list nat)) (cl : list nat) : sst :=
  {| ss_next := ss_next s; ss_closed := cl; ss_wb := ss_wb s; ss_wctx := ss_wctx s; ss_tb := tb;
     ss_tctx := tctx; ss_qb := ss_qb s; ss_wq := ss_wq s; ss_qe := ss_qe s;
     ss_sctx := ss_sctx s; ss_allctx := ss_allctx s; ss_frozen := ss_frozen s; ss_done := ss_done s;
     ss_disposed := ss_disposed s; ss_crashed := ss_crashed s; ss_rets := ss_rets s |}.

Definition set_misc (s : sst) (qb : list qbind) (wq : list (nat * N)) (qe : list nat)
  (sctx : list (nat * (nat * N))) (cl : list nat) (crashed : bool) : sst :=
  {| ss_next := ss_next s; ss_closed := cl; ss_wb := ss_wb s; ss_wctx := ss_wctx s; ss_tb := ss_tb s;
     ss_tctx := ss_tctx s; ss_qb := qb; ss_wq := wq; ss_qe := qe;
     ss_sctx := sctx; ss_allctx := ss_allctx s; ss_frozen := ss_frozen s; ss_done := ss_done s;
     ss_disposed := ss_disposed s; ss_crashed := crashed; ss_rets := ss_rets s |}.

Definition set_env (s : sst) (frozen : option (list N)) (done : list nat) (disposed : bool) : sst :=
  {| ss_next := ss_next s; ss_closed := ss_closed s; ss_wb := ss_wb s; ss_wctx := ss_wctx s;
     ss_tb := ss_tb s; ss_tctx := ss_tctx s; ss_qb := ss_qb s; ss_wq := ss_wq s; ss_qe := ss_qe s;
     ss_sctx := ss_sctx s; ss_allctx := ss_allctx s; ss_frozen := frozen; ss_done := done;
     ss_disposed := disposed; ss_crashed := ss_crashed s; ss_rets := ss_rets s |}.

Definition set_alloc (s : sst) (next : nat) (allctx : list nat) : sst :=
  {| ss_next := next; ss_closed := ss_closed s; ss_wb := ss_wb s; ss_wctx := ss_wctx s;
     ss_tb := ss_tb s; ss_tctx := ss_tctx s; ss_qb := ss_qb s; ss_wq := ss_wq s; ss_qe := ss_qe s;
     ss_sctx := ss_sctx s; ss_allctx := allctx; ss_frozen := ss_frozen s; ss_done := ss_done s;
     ss_disposed := ss_disposed s; ss_crashed := ss_crashed s; ss_rets := ss_rets s |}.

Definition add_ret (s : sst) (k : nat) (r : opret) : sst :=
  {| ss_next := ss_next s; ss_closed := ss_closed s; ss_wb := ss_wb s; ss_wctx := ss_wctx s;
     ss_tb := ss_tb s; ss_tctx := ss_tctx s; ss_qb := ss_qb s; ss_wq := ss_wq s; ss_qe := ss_qe s;
     ss_sctx := ss_sctx s; ss_allctx := ss_allctx s; ss_frozen := ss_frozen s; ss_done := ss_done s;
     ss_disposed := ss_disposed s; ss_crashed := ss_crashed s; ss_rets := (k, r) :: ss_rets s |}.

(* ------------------------------------------------------------ helpers *)

Definition opt_eqb (a b : option nat) : bool :=
  match a, b with
  | None, None => true
  | Some x, Some y => Nat.eqb x y
  | _, _ => false
  end.

Fixpoint aget (l : list (nat * bool)) (k : nat) : bool :=
  match l with
  | [] => false
  | (k', v) :: r => if Nat.eqb k k' then v else aget r k
  end.

Fixpoint aset (l : list (nat * bool)) (k : nat) (v : bool) : list (nat * bool) :=
  match l with
  | [] => [(k, v)]
  | (k', v') :: r => if Nat.eqb k k' then (k, v) :: r else (k', v') :: aset r k v
  end.

Fixpoint cget (l : list (nat * list nat)) (k : nat) : list nat :=
  match l with
  | [] => []
  | (k', v) :: r => if Nat.eqb k k' then v else cget r k
  end.

Fixpoint cset (l : list (nat * list nat)) (k : nat) (v : list nat) : list (nat * list nat) :=
  match l with
  | [] => [(k, v)]
  | (k', v') :: r => if Nat.eqb k k' then (k, v) :: r else (k', v') :: cset r k v
  end.

Definition cdel (l : list (nat * list nat)) (k : nat) : list (nat * list nat) :=
  filter (fun p => negb (Nat.eqb (fst p) k)) l.

Definition cappend (l : list (nat * list nat)) (k : nat) (ids : list nat) : list (nat * list nat) :=
  cset l k (cget l k ++ ids).

(* slicesWithout applied n times *)
Fixpoint without_n (n : nat) (l : list nat) (x : nat) : list nat :=
  match n with
  | O => l
  | S m => without_n m (without l x) x
  end.

(* remove n occurrences of id from ctxmap[c]; delete the key when empty *)
Definition ctx_remove (m : list (nat * list nat)) (c : option nat) (id n : nat)
  : list (nat * list nat) :=
  match c with
  | None => m
  | Some c =>
    let l := without_n n (cget m c) id in
    match l with [] => cdel m c | _ => cset m c l end
  end.

Definition count_in (x : nat) (l : list nat) : nat := length (filter (Nat.eqb x) l).

Definition remove_all (x : nat) (l : list nat) : list nat := filter (fun y => negb (Nat.eqb x y)) l.

Definition ctx_done (s : sst) (c : option nat) : bool :=
  match c with None => false | Some c => mem c (ss_done s) end.

Definition is_closed (s : sst) (id : nat) : bool := mem id (ss_closed s).

Definition close (cl : list nat) (id : nat) : list nat := if mem id cl then cl else id :: cl.

(* sm.clock: the machine's live map, or the copy SetSchema handed over *)
Definition sclock (s : sst) (live : list N) : list N :=
  match ss_frozen s with Some c => c | None => live end.

Fixpoint nl_eqb (a b : list N) : bool :=
  match a, b with
  | [], [] => true
  | x :: r, y :: t => N.eqb x y && nl_eqb r t
  | _, _ => false
  end.

(* ------------------------------------------------------------ When / WhenNot *)

Fixpoint find_wb (h : list wbind) (id : nat) : option wbind :=
  match h with
  | [] => None
  | b :: r => if Nat.eqb (wb_id b) id then Some b else find_wb r id
  end.

Definition wb_set_idx (b : wbind) (idx : list nat) : wbind :=
  {| wb_id := wb_id b; wb_neg := wb_neg b; wb_states := wb_states b; wb_flags := wb_flags b;
     wb_total := wb_total b; wb_matched := wb_matched b; wb_ctx := wb_ctx b; wb_idx := idx |}.

Definition wb_set_match (b : wbind) (fl : list (nat * bool)) (m : Z) : wbind :=
  {| wb_id := wb_id b; wb_neg := wb_neg b; wb_states := wb_states b; wb_flags := fl;
     wb_total := wb_total b; wb_matched := m; wb_ctx := wb_ctx b; wb_idx := wb_idx b |}.

Definition put_wb (h : list wbind) (b : wbind) : list wbind :=
  map (fun x => if Nat.eqb (wb_id x) (wb_id b) then b else x) h.

(* len(sm.when[st]) *)
Definition when_len (h : list wbind) (st : nat) : nat :=
  fold_right (fun b acc => count_in st (wb_idx b) + acc) 0 h.

(* one iteration of gcWhenBinding's loop, index part *)
Definition gc_when_state (h : list wbind) (id st : nat) : list wbind :=
  if Nat.eqb (when_len h st) 1
  then map (fun b => wb_set_idx b (remove_all st (wb_idx b))) h      (* delete(sm.when, state) *)
  else map (fun b => if Nat.eqb (wb_id b) id then wb_set_idx b (without (wb_idx b) st) else b) h.

(* gcWhenBinding(binding, gcCtx) *)
Definition gc_when (h : list wbind) (wctx : list (nat * list nat)) (b : wbind) (gc_ctx : bool)
  : list wbind * list (nat * list nat) :=
  (fold_left (fun h st => gc_when_state h (wb_id b) st) (wb_states b) h,
   if gc_ctx then ctx_remove wctx (wb_ctx b) (wb_id b) (length (wb_states b)) else wctx).

(* processWhenCtx: every binding listed under an expired context is collected
   with gcCtx = false - once per LISTING (When lists a binding once per state) *)
Definition process_when_ctx (s : sst) : sst :=
  fold_left (fun st (p : nat * list nat) =>
    let '(c, ids) := p in
    if negb (mem c (ss_done st)) then st
    else
      let st1 := set_when st (ss_wb st) (cdel (ss_wctx st) c) (ss_closed st) in
      fold_left (fun st id =>
        match find_wb (ss_wb st) id with
        | None => st
        | Some b =>
          let '(h, wc) := gc_when (ss_wb st) (ss_wctx st) b false in
          set_when st h wc (close (ss_closed st) id)
        end) ids st1) (ss_wctx s) s.

(* ProcessWhen, pass 1, for binding [id] and state [x]: flag and counter *)
Definition touch_wb (s : sst) (id x : nat) (act : bool) : sst :=
  match find_wb (ss_wb s) id with
  | None => s
  | Some b =>
    let fl := aget (wb_flags b) x in
    let m := wb_matched b in
    let m' :=
      if act then (if fl then m else if wb_neg b then (m - 1)%Z else (m + 1)%Z)
      else (if fl then (if wb_neg b then (m + 1)%Z else (m - 1)%Z) else m) in
    set_when s (put_wb (ss_wb s) (wb_set_match b (aset (wb_flags b) x act) m'))
             (ss_wctx s) (ss_closed s)
  end.

(* ProcessWhen, pass 2, for a touched binding: completion on the final flags *)
Definition complete_wb (s : sst) (id : nat) : sst :=
  match find_wb (ss_wb s) id with
  | None => s
  | Some b =>
    if (wb_matched b <? Z.of_nat (wb_total b))%Z && negb (ctx_done s (wb_ctx b)) then s
    else
      let '(h2, wc) := gc_when (ss_wb s) (ss_wctx s) b true in
      set_when s h2 wc (close (ss_closed s) id)
  end.

(* sm.when[x] as binding ids *)
Definition when_ids (h : list wbind) (x : nat) : list nat :=
  flat_map (fun b => repeat (wb_id b) (count_in x (wb_idx b))) h.

Definition touch_state (act : list nat) (st : sst) (x : nat) : sst :=
  fold_left (fun st id => touch_wb st id x (mem x act)) (when_ids (ss_wb st) x) st.

(* ProcessWhen(activated, deactivated), two passes (before the fix the
   completion test followed every single flag update). Pass 1 does not move
   the index, so the touched bindings - in first-touch order - can be read
   off the heap it starts from. *)
Definition process_when (s : sst) (act deact : list nat) : sst :=
  let s0 := process_when_ctx s in
  let all := act ++ deact in
  let touched := uniq (flat_map (when_ids (ss_wb s0)) all) in
  fold_left complete_wb touched (fold_left (touch_state act) all s0).

(* Subscriptions.When / WhenNot (states already parsed: known, duplicate-free) *)
Definition reuse_when (s : sst) (neg : bool) (sts : list nat) (ctx : option nat) : option nat :=
  match sts with
  | [] => None
  | s0 :: _ =>
    match filter (fun b => mem s0 (wb_idx b) && Bool.eqb (wb_neg b) neg
                           && set_eqb (wb_states b) sts && opt_eqb (wb_ctx b) ctx) (ss_wb s) with
    | b :: _ => Some (wb_id b)
    | [] => None
    end
  end.

Definition sub_when (s : sst) (v : view) (neg : bool) (sts : list nat) (ctx : option nat)
  : sst * opret :=
  let is x := mem x (v_active v) in
  let cond := if neg then forallb (fun x => negb (is x)) sts else forallb is sts in
  if cond || ctx_done s ctx then (s, RChan 0)
  else
    match reuse_when s neg sts ctx with
    | Some id => (s, RChan id)
    | None =>
      let id := ss_next s in
      let matched := length (filter (fun x => if neg then negb (is x) else is x) sts) in
      let b := {| wb_id := id; wb_neg := neg; wb_states := sts;
                  wb_flags := fold_left (fun fl x => aset fl x (is x)) sts [];
                  wb_total := length sts; wb_matched := Z.of_nat matched; wb_ctx := ctx;
                  wb_idx := sts |} in
      (* one listing per context (before the fix of When: one per state, which
         made processWhenCtx collect the binding twice) *)
      let listings := [id] in
      let wc := match ctx with Some c => cappend (ss_wctx s) c listings | None => ss_wctx s end in
      (set_alloc (set_when s (ss_wb s ++ [b]) wc (ss_closed s)) (S id) (ss_allctx s), RChan id)
    end.

(* ------------------------------------------------------------ WhenTime *)

Fixpoint last_index_from (k : nat) (l : list nat) (x : nat) (acc : nat) : nat :=
  match l with
  | [] => acc
  | y :: r => last_index_from (S k) r x (if Nat.eqb x y then k else acc)
  end.
Definition last_index (l : list nat) (x : nat) : nat := last_index_from 0 l x 0.

(* binding.Times[binding.Index[s]] *)
Definition tb_time (b : tbind) (x : nat) : N := nth (last_index (tb_states b) x) (tb_times b) 0%N.

Fixpoint find_tb (h : list tbind) (id : nat) : option tbind :=
  match h with
  | [] => None
  | b :: r => if Nat.eqb (tb_id b) id then Some b else find_tb r id
  end.

Definition tb_set_idx (b : tbind) (idx : list nat) : tbind :=
  {| tb_id := tb_id b; tb_states := tb_states b; tb_times := tb_times b; tb_done := tb_done b;
     tb_total := tb_total b; tb_matched := tb_matched b; tb_ctx := tb_ctx b; tb_idx := idx |}.

Definition tb_set_match (b : tbind) (d : list (nat * bool)) (m : nat) : tbind :=
  {| tb_id := tb_id b; tb_states := tb_states b; tb_times := tb_times b; tb_done := d;
     tb_total := tb_total b; tb_matched := m; tb_ctx := tb_ctx b; tb_idx := tb_idx b |}.

Definition put_tb (h : list tbind) (b : tbind) : list tbind :=
  map (fun x => if Nat.eqb (tb_id x) (tb_id b) then b else x) h.

Definition time_len (h : list tbind) (st : nat) : nat :=
  fold_right (fun b acc => count_in st (tb_idx b) + acc) 0 h.

Definition gc_time_state (h : list tbind) (id st : nat) : list tbind :=
  if Nat.eqb (time_len h st) 1
  then map (fun b => tb_set_idx b (remove_all st (tb_idx b))) h
  else map (fun b => if Nat.eqb (tb_id b) id then tb_set_idx b (without (tb_idx b) st) else b) h.

(* gcWhenTimeBinding: ranges over the keys of binding.Index *)
Definition gc_time (h : list tbind) (tctx : list (nat * list nat)) (b : tbind) (gc_ctx : bool)
  : list tbind * list (nat * list nat) :=
  let keys := uniq (tb_states b) in
  (fold_left (fun h st => gc_time_state h (tb_id b) st) keys h,
   if gc_ctx then ctx_remove tctx (tb_ctx b) (tb_id b) (length keys) else tctx).

Definition process_time_ctx (s : sst) : sst :=
  fold_left (fun st (p : nat * list nat) =>
    let '(c, ids) := p in
    if negb (mem c (ss_done st)) then st
    else
      let st1 := set_time st (ss_tb st) (cdel (ss_tctx st) c) (ss_closed st) in
      fold_left (fun st id =>
        match find_tb (ss_tb st) id with
        | None => st
        | Some b =>
          let '(h, tc) := gc_time (ss_tb st) (ss_tctx st) b false in
          set_time st h tc (close (ss_closed st) id)
        end) ids st1) (ss_tctx s) s.

Definition visit_tb (s : sst) (cl : list N) (id x : nat) : sst :=
  match find_tb (ss_tb s) id with
  | None => s
  | Some b =>
    let hit := negb (aget (tb_done b) x) && (tb_time b x <=? tick_of cl x)%N in
    let b' := if hit then tb_set_match b (aset (tb_done b) x true) (S (tb_matched b)) else b in
    let h := put_tb (ss_tb s) b' in
    let expired := ctx_done s (tb_ctx b) in
    if (tb_matched b' <? tb_total b) && negb expired then set_time s h (ss_tctx s) (ss_closed s)
    else
      let '(h2, tc) := gc_time h (ss_tctx s) b' true in
      set_time s h2 tc (close (ss_closed s) id)
  end.

(* ProcessWhenTime(before): the ticked states are those whose value in
   sm.clock differs from the transition's ClockBefore *)
Definition process_when_time (s : sst) (before live : list N) : sst :=
  let s1 := process_time_ctx s in
  let cl := sclock s1 live in
  let ticked := filter (fun x => negb (N.eqb (tick_of cl x) (tick_of before x)))
                       (seq 0 (length before)) in
  fold_left (fun st x =>
    let ids := flat_map (fun b => repeat (tb_id b) (count_in x (tb_idx b))) (ss_tb st) in
    fold_left (fun st id => visit_tb st cl id x) ids st) ticked s1.

Definition index_eqb (a b : list nat) : bool :=
  set_eqb a b && forallb (fun x => Nat.eqb (last_index a x) (last_index b x)) a.

Definition reuse_time (s : sst) (sts : list nat) (times : list N) (ctx : option nat) : option nat :=
  match sts with
  | [] => None
  | s0 :: _ =>
    match filter (fun b => mem s0 (tb_idx b) && nl_eqb (tb_times b) times
                           && index_eqb sts (tb_states b) && opt_eqb (tb_ctx b) ctx) (ss_tb s) with
    | b :: _ => Some (tb_id b)
    | [] => None
    end
  end.

(* Subscriptions.WhenTime; [cl] is sm.clock *)
Definition sub_time (s : sst) (cl : list N) (sts : list nat) (times : list N) (ctx : option nat)
  : sst * opret :=
  match reuse_time s sts times ctx with
  | Some id => (s, RChan id)
  | None =>
    let pairs := combine sts times in
    let ge (p : nat * N) := (snd p <=? tick_of cl (fst p))%N in
    if forallb ge pairs || ctx_done s ctx then (s, RChan 0)
    else
      let id := ss_next s in
      let b := {| tb_id := id; tb_states := sts; tb_times := times;
                  tb_done := fold_left (fun d p => aset d (fst p) (ge p)) pairs [];
                  tb_total := length sts; tb_matched := length (filter ge pairs);
                  tb_ctx := ctx; tb_idx := sts |} in
      let tc := match ctx with Some c => cappend (ss_tctx s) c [id] | None => ss_tctx s end in
      (set_alloc (set_time s (ss_tb s ++ [b]) tc (ss_closed s)) (S id) (ss_allctx s), RChan id)
  end.

(* ------------------------------------------------------------ the rest *)

(* ProcessWhenQueue(queueTick) *)
Definition process_when_queue (s : sst) (qt : N) : sst :=
  let hit (p : nat * N) := (snd p <=? qt)%N in
  set_misc s (ss_qb s) (filter (fun p => negb (hit p)) (ss_wq s)) (ss_qe s) (ss_sctx s)
           (fold_left (fun cl p => if hit p then close cl (fst p) else cl) (ss_wq s) (ss_closed s))
           (ss_crashed s).

(* ProcessWhenQuery. processWhenQueryCtx collects the bindings of ended
   contexts first; the main loop collects a binding when its predicate holds
   or its context has ended - so one pass over the bindings that closes on
   (predicate || context ended) has the same outcome, and sm.whenQueryCtx
   needs no counterpart here. *)
Definition process_when_query (s : sst) (live : list N) : sst :=
  let cl := sclock s live in
  fold_left (fun st b =>
    if ss_crashed st then st
    else if negb (qfn_eval (qb_fn b) cl) && negb (ctx_done st (qb_ctx b)) then st
    else
      set_misc st (filter (fun x => negb (Nat.eqb (qb_id x) (qb_id b))) (ss_qb st))
               (ss_wq st) (ss_qe st) (ss_sctx st) (close (ss_closed st) (qb_id b)) (ss_crashed st))
    (ss_qb s) s.

(* ProcessWhenQueueEnds *)
Definition process_queue_ends (s : sst) : sst :=
  set_misc s (ss_qb s) (ss_wq s) [] (ss_sctx s)
           (fold_left close (ss_qe s) (ss_closed s)) (ss_crashed s).

Fixpoint sctx_get (l : list (nat * (nat * N))) (st : nat) : option (nat * N) :=
  match l with
  | [] => None
  | (k, v) :: r => if Nat.eqb k st then Some v else sctx_get r st
  end.

(* ProcessStateCtx(activated, deactivated) *)
Definition process_state_ctx (s : sst) (act deact : list nat) : sst :=
  fold_left (fun st x =>
    match sctx_get (ss_sctx st) x with
    | None => st
    | Some (id, _) =>
      set_misc st (ss_qb st) (ss_wq st) (ss_qe st)
               (filter (fun p => negb (Nat.eqb (fst p) x)) (ss_sctx st))
               (close (ss_closed st) id) (ss_crashed st)
    end) (act ++ deact) s.

(* processSubscriptions *)
Definition process_subs (s : sst) (act deact : list nat) (before live : list N) (qt : N) : sst :=
  let s1 := process_when s act deact in
  let s2 := process_when_time s1 before live in
  let s3 := process_when_queue s2 qt in
  process_when_query s3 live.

(* Subscriptions.dispose + the cancel of the machine context *)
Definition dispose (s : sst) : sst :=
  let cl1 := fold_left (fun cl b => match wb_idx b with [] => cl | _ => close cl (wb_id b) end)
                       (ss_wb s) (ss_closed s) in
  let cl2 := fold_left (fun cl b => match tb_idx b with [] => cl | _ => close cl (tb_id b) end)
                       (ss_tb s) cl1 in
  let cl3 := fold_left (fun cl p => close cl (fst p)) (ss_wq s) cl2 in
  let cl4 := fold_left close (ss_qe s) cl3 in
  let cl5 := fold_left close (ss_allctx s) cl4 in
  let cl5 := fold_left (fun cl b => close cl (qb_id b)) (ss_qb s) cl5 in
  set_env (set_misc s (ss_qb s) (ss_wq s) (ss_qe s) (ss_sctx s) cl5 (ss_crashed s))
          (ss_frozen s) (ss_done s) true.

(* ------------------------------------------------------------ API calls *)

Definition known (v : view) (sts : list nat) : bool :=
  forallb (fun x => x <? length (v_clock v)) sts.

(* the Machine.* wrapper + the Subscriptions.* function *)
Definition do_op (s : sst) (v : view) (o : sop) : sst * opret :=
  match o with
  | OWhen sts ctx =>
    if ss_disposed s then (s, RChan 0)
    else if negb (known v sts) then (s, RPanic)         (* mustParseStates *)
    else sub_when s v false (uniq sts) ctx
  | OWhenNot sts ctx =>
    if ss_disposed s then (s, RChan 0)
    else if negb (known v sts) then (s, RPanic)
    else sub_when s v true (uniq sts) ctx
  | OWhenTime sts times ctx =>
    if ss_disposed s then (s, RChan 0)
    else sub_time s (sclock s (v_clock v)) sts times ctx
  | OWhenTicks x n ctx =>
    (* Time{ticks + m.Tick(state)}: m.Tick reads the LIVE clock *)
    if ss_disposed s then (s, RChan 0)
    else sub_time s (sclock s (v_clock v)) [x] [(n + tick_of (v_clock v) x)%N] ctx
  | OWhenNextActive x ctx =>
    if ss_disposed s then (s, RChan 0)
    else
      let t := tick_of (v_clock v) x in
      sub_time s (sclock s (v_clock v)) [x] [((if N.odd t then 2 else 1) + t)%N] ctx
  | OWhenQuery f ctx =>
    if ss_disposed s || ctx_done s ctx then (s, RChan 0)
    else
      let id := ss_next s in
      let s1 := set_alloc (set_misc s (ss_qb s ++ [{| qb_id := id; qb_fn := f; qb_ctx := ctx |}])
                                    (ss_wq s) (ss_qe s) (ss_sctx s) (ss_closed s) (ss_crashed s))
                          (S id) (ss_allctx s) in
      (s1, RChan id)
  | OWhenQueue t =>
    if ss_disposed s || (t <=? v_qtick v)%N then (s, RChan 0)
    else
      let id := ss_next s in
      (set_alloc (set_misc s (ss_qb s) (ss_wq s ++ [(id, t)]) (ss_qe s) (ss_sctx s)
                           (ss_closed s) (ss_crashed s)) (S id) (ss_allctx s), RChan id)
  | OWhenQueueEnds =>
    if ss_disposed s || negb (v_running v) then (s, RChan 0)
    else
      let id := ss_next s in
      (set_alloc (set_misc s (ss_qb s) (ss_wq s) (ss_qe s ++ [id]) (ss_sctx s)
                           (ss_closed s) (ss_crashed s)) (S id) (ss_allctx s), RChan id)
  | ONewStateCtx x =>
    if negb (known v [x]) then (s, RPanic)
    else
      let tick := tick_of (sclock s (v_clock v)) x in
      match sctx_get (ss_sctx s) x with
      | Some (id, t0) => (s, RCtx id t0)     (* the existing context, with the tick it was made at *)
      | None =>
        let id := ss_next s in
        (set_alloc (set_misc s (ss_qb s) (ss_wq s) (ss_qe s) (ss_sctx s ++ [(x, (id, tick))])
                             (ss_closed s) (ss_crashed s)) (S id) (id :: ss_allctx s), RCtx id tick)
      end
  | OCancel c => (set_env s (ss_frozen s) (if mem c (ss_done s) then ss_done s else c :: ss_done s)
                          (ss_disposed s), RNone)
  (* SetSchema hands the manager the machine's own clock map again (before
     the fix: a copy, [set_env s (Some (v_clock v)) ...]) *)
  | OSetSchema => (s, RNone)
  | ODispose => (dispose s, RNone)
  | ONop => (s, RNone)
  end.

Definition step (s : sst) (e : sevent) : sst :=
  if ss_crashed s then s else
  match e with
  | EOp k v o => let '(s1, r) := do_op s v o in add_ret s1 k r
  | EStateCtx act deact => process_state_ctx s act deact
  | EProcess act deact before live qt => process_subs s act deact before live qt
  | EQueueEnd => process_queue_ends s
  | ETxEnd _ _ => s
  | EPoll => s
  | EQueueTick qt => process_when_queue s qt
  end.

Fixpoint ret_of (l : list (nat * opret)) (k : nat) : opret :=
  match l with
  | [] => RNone
  | (k', r) :: t => if Nat.eqb k k' then r else ret_of t k
  end.

(* is what op k returned closed / canceled now? *)
Definition closed_of (s : sst) (k : nat) : bool :=
  match ret_of (ss_rets s) k with
  | RChan id | RCtx id _ => is_closed s id
  | _ => false
  end.

(* runs the events; one snapshot of the closed flags of ops 0..nops-1 per EPoll *)
Fixpoint run_events (nops : nat) (s : sst) (es : list sevent) : sst * list (list bool) :=
  match es with
  | [] => (s, [])
  | e :: r =>
    let s1 := step s e in
    let '(s2, polls) := run_events nops s1 r in
    match e with
    | EPoll => (s2, map (closed_of s1) (seq 0 nops) :: polls)
    | _ => (s2, polls)
    end
  end.
