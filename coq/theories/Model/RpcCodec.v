(* Model of the RPC clock-diff codec of pkg/rpc (C10, reused by C09).

   Mirrors, function by function:
     sourceTracer.TransitionEnd (data construction)   -> mk_data
     RemoteHello (mirror + lastPushData)               -> hello_time, hello_data
     genDeepUpdate / genShallowUpdate / calcUpdate     -> gen_deep / gen_shallow / calc_update
     calcUpdateMutations                               -> calc_update_muts
     Client.clockFromUpdate                            -> clock_from_update
     checksum comparison of Client.clockUpdate         -> client_apply
     Checksum                                          -> checksum

   Integers are N with the Go field widths written out explicitly
   (uint8 / uint16 / uint32 / uint64 wrap-around). A Go index-out-of-range
   panic is the value None. Proof-free on purpose: this file must keep
   compiling (and running) when a proof breaks. *)

From Coq Require Import List NArith Bool Arith.
Import ListNotations.
Open Scope N_scope.

Definition w8  : N := 256.
Definition w16 : N := 65536.
Definition w32 : N := 4294967296.
Definition w64 : N := 18446744073709551616.

Definition add64 (a b : N) : N := (a + b) mod w64.
(* Go's uint64 subtraction *)
Definition sub64 (a b : N) : N := (a + w64 - b mod w64) mod w64.

Definition sum64 (l : list N) : N := fold_left add64 l 0.

(* Time.Filter: out-of-range indexes give 0 *)
Definition filter_time (t : list N) (idxs : list nat) : list N :=
  map (fun i => nth i t 0) idxs.

(* am.NewTime(t, t.ActiveStates(nil)) *)
Definition active01 (t : list N) : list N :=
  map (fun v => if N.odd v then 1 else 0) t.

(* Checksum(mTime, qTick, machTick) = uint8(mTime + qTick + uint64(machTick)) *)
Definition checksum (tsum q m : N) : N := (add64 (add64 tsum q) m) mod w8.

Record cfg := {
  sync_schema : bool;
  shallow : bool;
  tracked : list nat     (* tracked idx -> machine idx (server side) *)
}.

Record snap := { s_time : list N; s_q : N; s_m : N }.

(* tracerData. d_mtime = None models a nil slice (before the first Hello). *)
Record tdata := {
  d_mtime : option (list N);
  d_sum : N;
  d_q : N;
  d_m : N;
  d_check : N
}.

(* sourceTracer.TransitionEnd *)
Definition mk_data (c : cfg) (s : snap) : tdata :=
  let tsum0 := sum64 (filter_time (s_time s) (tracked c)) in
  let mt0 := if sync_schema c then s_time s
             else filter_time (s_time s) (tracked c) in
  let mt := if shallow c then active01 mt0 else mt0 in
  let tsum := if shallow c then sum64 mt else tsum0 in
  {| d_mtime := Some mt; d_sum := tsum; d_q := s_q s; d_m := s_m s;
     d_check := checksum tsum (s_q s) (s_m s) |}.

(* zero the non-tracked entries *)
Definition zero_untracked (t : list N) (tr : list nat) : list N :=
  map (fun p => if existsb (Nat.eqb (fst p)) tr then snd p else 0)
      (combine (seq 0 (length t)) t).

(* RemoteHello: the Time sent to the client (always deep ticks) *)
Definition hello_time (c : cfg) (s : snap) : list N :=
  if sync_schema c then zero_untracked (s_time s) (tracked c)
  else filter_time (s_time s) (tracked c).

(* RemoteHello: what the server memorises as lastPushData (the machine tick
   too, since the fix of RemoteHello; the checksum is not set there). *)
Definition hello_data (c : cfg) (s : snap) : tdata :=
  {| d_mtime := Some (hello_time c s);
     d_sum := sum64 (filter_time (s_time s) (tracked c));
     d_q := s_q s; d_m := s_m s; d_check := 0 |}.

(* client side tracked indexes: positions of the tracked names in the
   client's state names *)
Definition client_tracked (c : cfg) : list nat :=
  if sync_schema c then tracked c else seq 0 (length (tracked c)).

Record upd := {
  u_idx : list N; u_ticks : list N; u_q : N; u_m : N; u_check : N
}.

Definition u16 (n : nat) : N := (N.of_nat n) mod w16.

(* one iteration of the genDeepUpdate loop; None = index out of range *)
Definition deep_step (sync : bool) (prev : option (list N)) (now : list N)
  (acc : option (list N * list N)) (p : nat * nat) : option (list N * list N) :=
  match acc with
  | None => None
  | Some (is_, ts) =>
    let trackedIdx := fst p in
    let stateIdx := snd p in
    let pushed := if sync then u16 stateIdx else u16 trackedIdx in
    let pn := N.to_nat pushed in
    let first :=
      match nth_error now trackedIdx with
      | None => None
      | Some v =>
        if v =? 0 then Some (is_, ts)
        else match nth_error now pn with
             | None => None
             | Some w => Some (is_ ++ [pushed], ts ++ [w mod w32])
             end
      end in
    match prev with
    | None => first
    | Some pv =>
      if (length pv <=? trackedIdx)%nat then first
      else match nth_error pv pn, nth_error now pn with
           | Some a, Some b =>
             if a =? b then Some (is_, ts)
             else Some (is_ ++ [pushed], ts ++ [(sub64 b a) mod w32])
           | _, _ => None
           end
    end
  end.

Definition gen_deep (c : cfg) (prev : option (list N)) (now : list N)
  : option (list N * list N) :=
  fold_left (deep_step (sync_schema c) prev now)
    (combine (seq 0 (length (tracked c))) (tracked c)) (Some ([], [])).

Definition shallow_step (sync : bool) (prev : option (list N)) (now : list N)
  (acc : option (list N * list N)) (p : nat * nat) : option (list N * list N) :=
  match acc with
  | None => None
  | Some (is_, ts) =>
    let trackedIdx := fst p in
    let stateIdx := snd p in
    let pushed := if sync then u16 stateIdx else u16 trackedIdx in
    let pn := N.to_nat pushed in
    let first :=
      match nth_error now pn with
      | None => None
      | Some v =>
        if v =? 0 then Some (is_, ts)
        else Some (is_ ++ [pushed], ts ++ [if N.odd v then 1 else 0])
      end in
    match prev with
    | None => first
    | Some pv =>
      if (length pv <=? pn)%nat then first
      else match nth_error pv pn, nth_error now pn with
           | Some a, Some b =>
             if Bool.eqb (N.odd a) (N.odd b) then Some (is_, ts)
             else Some (is_ ++ [pushed], ts ++ [1])
           | _, _ => None
           end
    end
  end.

Definition gen_shallow (c : cfg) (prev : option (list N)) (now : list N)
  : option (list N * list N) :=
  fold_left (shallow_step (sync_schema c) prev now)
    (combine (seq 0 (length (tracked c))) (tracked c)) (Some ([], [])).

(* calcUpdate. [sh] is passed separately because calcUpdateMutations always
   calls it with shallowClocks = false. *)
Definition calc_update (c : cfg) (sh : bool) (data last : tdata) : option upd :=
  match d_mtime data with
  | None => None
  | Some now =>
    match (if sh then gen_shallow c (d_mtime last) now
           else gen_deep c (d_mtime last) now) with
    | None => None
    | Some (is_, ts) =>
      Some {| u_idx := is_; u_ticks := ts;
              u_q := (sub64 (d_q data) (d_q last)) mod w16;
              u_m := ((d_m data + w32 - (d_m last) mod w32) mod w32) mod w8;
              u_check := d_check data |}
    end
  end.

(* calcUpdateMutations *)
Fixpoint calc_update_muts (c : cfg) (muts : list tdata) (prev : tdata)
  : option (list upd) :=
  match muts with
  | [] => Some []
  | d :: rest =>
    match calc_update c false d prev with
    | None => None
    | Some u =>
      match calc_update_muts c rest d with
      | None => None
      | Some us => Some (u :: us)
      end
    end
  end.

(* functional update of one slot *)
Fixpoint upd_nth (l : list N) (i : nat) (f : N -> N) : list N :=
  match l, i with
  | [], _ => []
  | x :: r, O => f x :: r
  | x :: r, S j => x :: upd_nth r j f
  end.

(* Client.clockFromUpdate; None when Ticks is shorter than Indexes (Go panics) *)
Fixpoint apply_ticks (t : list N) (l16 : N) (idx ticks : list N)
  : option (list N) :=
  match idx with
  | [] => Some t
  | i :: ir =>
    match ticks with
    | [] => None
    | v :: vr =>
      if l16 <=? i then apply_ticks t l16 ir vr
      else apply_ticks (upd_nth t (N.to_nat i) (fun x => add64 x v)) l16 ir vr
    end
  end.

Definition clock_from_update (u : upd) (t : list N) (q m : N)
  : option (list N * N * N) :=
  match apply_ticks t ((N.of_nat (length t)) mod w16) (u_idx u) (u_ticks u) with
  | None => None
  | Some t' => Some (t', add64 q (u_q u), (m + u_m u) mod w32)
  end.

(* am.NewTime(index, activeStates): panics when an index is out of range *)
Definition new_time (len : nat) (idxs : list nat) : option (list N) :=
  if forallb (fun i => (i <? len)%nat) idxs
  then Some (map (fun i => if existsb (Nat.eqb i) idxs then 1 else 0)
                 (seq 0 len))
  else None.

(* clockFromUpdate + the checksum comparison of Client.clockUpdate.
   Result: None = panic; Some (time, q, m, accepted). *)
Definition client_apply (c : cfg) (u : upd) (t : list N) (q m : N)
  : option (list N * N * N * bool) :=
  match clock_from_update u t q m with
  | None => None
  | Some (t', q', m') =>
    let cs := if shallow c then new_time (length t') (client_tracked c)
              else Some t' in
    match cs with
    | None => None
    | Some ct =>
      Some (t', q', m', checksum (sum64 ct) q' m' =? u_check u)
    end
  end.

(* the mirror the property talks about: the client's copy of a snapshot *)
Definition mirror (c : cfg) (s : snap) : list N := hello_time c s.

Definition parities (t : list N) : list bool := map N.odd t.
