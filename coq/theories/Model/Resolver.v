(* Model of DefaultRelationsResolver (pkg/machine/relations.go) and of
   Transition.statesToSet. Mirrors the code function by function, quirks
   included (parseAdd is one level deep per call; reverse blocked-by scan
   with an "already blocked" set; stable insertion sorts). Proof-free. *)

From Coq Require Import List Bool Arith.
From AMV Require Import Base.ListSet Model.Schema.
Import ListNotations.

(* what the resolver reads besides its argument *)
Record rctx := {
  rc_schema : schema;
  rc_before : list nat;     (* Transition.StatesBefore(): active states, ordered *)
  rc_mtype : mut_type;
  rc_called : list nat;     (* Mutation.Called *)
  rc_topology : list nat    (* resolver topology (Require topological order) *)
}.

(* parseAdd: appends, for every first occurrence of a name that is not
   (previously active and non-Multi), its Add states minus the ones called
   for removal. One level only: the loop ranges over the *input* list. *)
Definition add_of (c : rctx) (name : nat) : list nat :=
  filter (fun a => negb (mut_type_eqb (rc_mtype c) MRemove && mem a (rc_called c)))
         (s_add (sget (rc_schema c) name)).

Fixpoint parse_add_loop (c : rctx) (visited : list nat) (l : list nat) : list nat :=
  match l with
  | [] => []
  | name :: r =>
    if mem name (rc_before c) && negb (s_multi (sget (rc_schema c) name))
    then parse_add_loop c visited r
    else if mem name visited then parse_add_loop c visited r
    else match add_of c name with
         | [] => parse_add_loop c visited r
         | adds => adds ++ parse_add_loop c (name :: visited) r
         end
  end.

Definition parse_add (c : rctx) (states : list nat) : list nat :=
  states ++ parse_add_loop c [] states.

(* parseRequire: filter out states with a missing Require until stable *)
Definition req_ok (sc : schema) (states : list nat) (name : nat) : bool :=
  forallb (fun r => mem r states) (s_require (sget sc name)).

Fixpoint parse_require_fuel (fuel : nat) (sc : schema) (states : list nat) : list nat :=
  match fuel with
  | O => states
  | S f =>
    let states' := filter (req_ok sc states) states in
    if Nat.eqb (length states') (length states) then states
    else parse_require_fuel f sc states'
  end.

Definition parse_require (sc : schema) (states : list nat) : list nat :=
  parse_require_fuel (S (length states)) sc states.

(* stateBlockedBy *)
Definition blocked_by (sc : schema) (blocking : list nat) (blocked : nat) : list nat :=
  filter (fun b => mem blocked (s_remove (sget sc b))) blocking.

(* the reverse scan: returns (kept, alreadyBlocked) *)
Definition scan_step (sc : schema) (all : list nat) (acc : list nat * list nat) (name : nat)
  : list nat * list nat :=
  let '(kept, ab) := acc in
  let bb := filter (fun b => negb (mem b ab)) (blocked_by sc all name) in
  match bb with
  | [] => (kept ++ [name], ab)
  | _ => (kept, name :: ab)
  end.

Definition blocked_scan (sc : schema) (all : list nat) : list nat :=
  fst (fold_left (scan_step sc all) (rev all) ([], [])).

(* SortStates: sortRequire (by topology index, absent first) then After *)
Definition less_topo (topo : list nat) (a b : nat) : bool :=
  pos_in topo a <? pos_in topo b.

Definition less_after (sc : schema) (a b : nat) : bool :=
  if mem b (s_after (sget sc a)) then false
  else if mem a (s_after (sget sc b)) then true
  else false.

Definition sort_states (sc : schema) (topo : list nat) (l : list nat) : list nat :=
  go_insertion_sort (less_after sc) (go_insertion_sort (less_topo topo) l).

(* TargetStates (without the final sort, for the theorems that do not
   depend on order) *)
Definition target_unsorted (c : rctx) (to_set : list nat) : list nat :=
  let sc := rc_schema c in
  let s1 := uniq to_set in                       (* mustParseStates *)
  let s2 := uniq (parse_add c s1) in
  let s3 := parse_require sc s2 in
  let resolved := blocked_scan sc s3 in
  let to_remove := flat_map (fun n => s_remove (sget sc n)) resolved in
  let r2 := uniq (filter (fun n => negb (mem n to_remove)) (parse_add c resolved)) in
  parse_require sc (rev r2).

Definition target_states (c : rctx) (to_set : list nat) : list nat :=
  sort_states (rc_schema c) (rc_topology c) (target_unsorted c to_set).

(* Transition.statesToSet *)
Definition states_to_set (mt : mut_type) (called active : list nat) : list nat :=
  match mt with
  | MRemove => filter (fun s => negb (mem s called)) active
  | MAdd => called ++ active
  | MSet => called
  end.

(* resolution of one mutation from an active list *)
Definition resolve (sc : schema) (topo : list nat) (active : list nat)
  (mt : mut_type) (called : list nat) : list nat :=
  let c := {| rc_schema := sc; rc_before := active; rc_mtype := mt;
              rc_called := called; rc_topology := topo |} in
  target_states c (states_to_set mt called active).

(* NewAutoMutation: the candidate set (order is the map-iteration oracle) *)
Definition auto_candidates (sc : schema) (active : list nat) : list nat :=
  filter (fun s =>
    s_auto (sget sc s) && negb (mem s active)
    && negb (existsb (fun a => mem s (s_remove (sget sc a))) active))
    (all_states sc).

(* DefaultRelationsResolver.NewSchema + graph.TopologicalSort: depth-first
   post-order over the Require edges, starting from the states that have a
   Require relation in the order [order] (Machine.New passes the state names
   sorted alphabetically). A Require cycle leaves the topology empty. *)
Fixpoint topo_visit (fuel : nat) (sc : schema) (node : nat) (temp : list nat)
  (acc : list nat * list nat) : option (list nat * list nat) :=
  match fuel with
  | O => None
  | S f =>
    if mem node temp then None
    else if mem node (fst acc) then Some acc
    else
      match fold_left (fun a nb => match a with
                                   | None => None
                                   | Some a' => topo_visit f sc nb (node :: temp) a'
                                   end) (s_require (sget sc node)) (Some acc) with
      | None => None
      | Some (vis, stack) => Some (node :: vis, stack ++ [node])
      end
  end.

Definition topo_sort (sc : schema) (order : list nat) : list nat :=
  let starts := filter (fun n => match s_require (sget sc n) with [] => false | _ => true end) order in
  match fold_left (fun a n => match a with
                              | None => None
                              | Some a' => topo_visit (S (length sc)) sc n [] a'
                              end) starts (Some ([], [])) with
  | None => []
  | Some (_, stack) => stack
  end.
