(* Drives the subscription manager (Model/Subs.v) by a trace of the frozen
   sequential machine model (Model/Machine.v): turns the transition records,
   the handler log and the per-call observations plus a list of scheduled
   subscription operations into the event list of Subs.step. Proof-free.

   Positions of a subscription operation:
     PCall c     between the top-level calls c-1 and c (c = number of calls:
                 after the last one); the queue is idle
     PHandler h  at the start of the h-th handler invocation of the history
                 (index into the handler log): inside a transition, before
                 the apply point for negotiation handlers, between
                 setActiveStates and processSubscriptions for final handlers
     PApplied j  at the schedule point `tx:applied` of transition j (right
                 after activeStatesMx is released: setActiveStates and
                 ProcessStateCtx have run under it, the collected contexts are
                 canceled right afterwards)
     PSubs j     at the schedule point `tx:subs` of transition j (right before
                 processSubscriptions)

   Per transition record r (machine.go processQueue / transition.go emitEvents):
     - cacheActivated / cacheDeactivated are Enters / Exits for a non-auto
       mutation, the plain set differences for an auto mutation;
     - ProcessStateCtx runs at the apply point (also when a final handler
       faults later);
     - processSubscriptions runs iff the transition is accepted and not a check;
       a canceled non-check transition runs ProcessWhenQueue alone;
     - the queue tick was incremented when the mutation was popped iff it
       carried a queue tick. *)

From Coq Require Import List Bool Arith NArith.
From AMV Require Import Base.ListSet Model.Schema Model.Resolver Model.Machine Model.Subs.
Import ListNotations.

Inductive pos := PCall (c : nat) | PHandler (h : nat) | PApplied (j : nat) | PSubs (j : nat).

Definition pos_eqb (a b : pos) : bool :=
  match a, b with
  | PCall x, PCall y | PHandler x, PHandler y | PApplied x, PApplied y | PSubs x, PSubs y =>
    Nat.eqb x y
  | _, _ => false
  end.

Record sched_op := { so_pos : pos; so_op : sop }.

(* the ops scheduled at position p, in list order; k = index in the op list *)
Fixpoint ops_at_from (k : nat) (ops : list sched_op) (p : pos) (v : view) : list sevent :=
  match ops with
  | [] => []
  | o :: r =>
    (if pos_eqb (so_pos o) p then [EOp k v (so_op o)] else []) ++ ops_at_from (S k) r p v
  end.
Definition ops_at (ops : list sched_op) (p : pos) (v : view) : list sevent := ops_at_from 0 ops p v.

(* t.cacheActivated *)
Definition activated (sc : schema) (r : txrec) : list nat :=
  if tx_auto r then diff (tx_target r) (tx_active_before r)
  else filter (fun x => negb (mem x (tx_active_before r))
                        || (s_multi (sget sc x) && mem x (tx_called r))) (tx_target r).

(* t.cacheDeactivated *)
Definition deactivated (sc : schema) (topo : list nat) (r : txrec) : list nat :=
  if tx_auto r then diff (tx_active_before r) (tx_target r)
  else sort_states sc topo (diff (tx_active_before r) (tx_target r)).

(* did setActiveStates move a tick? (ProcessStateCtx is a no-op otherwise) *)
Definition tx_applied (r : txrec) : bool := negb (tx_check r) && negb (nl_eqb (tx_before r) (tx_after r)).

Definition tx_processed (r : txrec) : bool := tx_accepted r && negb (tx_check r).

(* activity read off the tick parity (C01) *)
Definition odd_states (cl : list N) : list nat :=
  filter (fun x => N.odd (tick_of cl x)) (seq 0 (length cl)).

Definition tx_events (sc : schema) (topo : list nat) (ops : list sched_op) (hl : list hlentry)
  (j : nat) (r : txrec) (qt : N) : list sevent :=
  let hs := seq (tx_hfrom r) (tx_hto r - tx_hfrom r) in
  let hops (fin : bool) :=
    flat_map (fun h =>
      match nth_error hl h with
      | Some e =>
        if Bool.eqb (is_final_key (hl_key e)) fin
        then ops_at ops (PHandler h) {| v_active := hl_active e; v_clock := hl_clock e;
                                        v_qtick := qt; v_running := true; v_window := false;
                                        v_applied := fin |}
        else []
      | None => []
      end) hs in
  let act := activated sc r in
  let deact := deactivated sc topo r in
  let vapp := {| v_active := tx_target r; v_clock := tx_after r; v_qtick := qt; v_running := true;
                 v_window := true; v_applied := true |} in
  let vsub := {| v_active := if tx_processed r then tx_target r else odd_states (tx_mach_after r);
                 v_clock := tx_mach_after r; v_qtick := qt;
                 v_running := true; v_window := false; v_applied := true |} in
  let vend := {| v_active := odd_states (tx_mach_after r); v_clock := tx_mach_after r;
                 v_qtick := qt; v_running := true; v_window := false; v_applied := false |} in
  hops false
  ++ (if tx_applied r then [EStateCtx act deact] else [])
  ++ ops_at ops (PApplied j) vapp
  ++ hops true
  ++ ops_at ops (PSubs j) vsub
  ++ (if tx_processed r then [EProcess act deact (tx_before r) (tx_mach_after r) qt]
      else if negb (tx_check r) then [EQueueTick qt] else [])
  ++ [ETxEnd vend (tx_processed r)].

Fixpoint txs_events (sc : schema) (topo : list nat) (ops : list sched_op) (hl : list hlentry)
  (j : nat) (qt : N) (rs : list txrec) : list sevent :=
  match rs with
  | [] => []
  | r :: rest =>
    let qt' := if (0 <? tx_qtick r)%N then (qt + 1)%N else qt in
    tx_events sc topo ops hl j r qt' ++ txs_events sc topo ops hl (S j) qt' rest
  end.

(* c: index of the next call, v: view of the idle machine before it, j: number
   of transition records consumed so far *)
Fixpoint calls_events (sc : schema) (topo : list nat) (ops : list sched_op) (hl : list hlentry)
  (c : nat) (v : view) (j : nat) (txs : list txrec) (calls : list callobs) : list sevent :=
  match calls with
  | [] =>
    (* records left over belong to a call that did not return (escaped panic) *)
    txs_events sc topo ops hl j (v_qtick v) txs ++ ops_at ops (PCall c) v ++ [EPoll]
  | co :: rest =>
    let n := co_ntx co - j in
    let v' := {| v_active := co_active co; v_clock := co_time co; v_qtick := co_qtick co;
                 v_running := false; v_window := false; v_applied := false |} in
    ops_at ops (PCall c) v
    ++ txs_events sc topo ops hl j (v_qtick v) (firstn n txs)
    ++ [EQueueEnd; EPoll]
    ++ calls_events sc topo ops hl (S c) v' (co_ntx co) (skipn n txs) rest
  end.

Definition init_view (n : nat) (init : list nat) : view :=
  {| v_active := init;
     v_clock := map (fun i => if mem i init then 1%N else 0%N) (seq 0 n);
     v_qtick := 1; v_running := false; v_window := false; v_applied := false |}.

Definition events_of (sc : schema) (topo : list nat) (init : list nat) (tr : trace)
  (ops : list sched_op) : list sevent :=
  calls_events sc topo ops (tr_hlog tr) 0 (init_view (length sc) init) 0 (tr_txs tr) (tr_calls tr).

(* the closed flags after every top-level call and after the trailing ops *)
Definition run_subs (sc : schema) (topo : list nat) (init : list nat) (tr : trace)
  (ops : list sched_op) : sst * list (list bool) :=
  run_events (length ops) init_sst (events_of sc topo init tr ops).
