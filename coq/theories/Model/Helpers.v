(* C20 — executable model of the public helpers of pkg/machine:
     mach_utils.go  : S.Add/Add1/Delete/Delete1/Sub/Shared/Equal/EqualOrder/
                      Unique/Has/Index, SAdd, SRem, IndexToStates, StatesToIndex
     mach_misc.go   : Time / TimeIndex algebra
     machine.go     : ParseStates, mustParseStates, IsQueued, IsQueuedAbove,
                      WillBe, WillBeRemoved
   Function by function, quirks included. A Go panic (index out of range,
   slice bounds) is the explicit value [None] / [VPanic]. Proof-free.

   State names are nat: k stands for the Go string "S<k>". Indexes that Go
   types as int are Z (they can be -1 or otherwise out of range). Ticks are
   N, arithmetic wraps at 2^64 like uint64. *)

From Coq Require Import List NArith ZArith Bool Arith.
From AMV Require Import Base.ListSet.
Import ListNotations.

(* ------------------------------------------------------------------ *)
(* Knobs: the behaviour of the code as it is today. Each defect found by
   C20 is one of these lines. The values below mirror /repo AFTER the fix
   commits 62b8f1e (SRem), 15389c5 (ParseStates), 53e1b51 (PositionFirst),
   a6ca6ba (ActiveStates), b485b5c (Time.Equal), 11381de (S.Add); the other
   value of a knob is the code before its fix (the comments describe that
   old behaviour). last_idx_absolute is NOT fixed (known finding 2:242).
   Props/C20.v pins the values ([model_is_todays_code]) and proves for every
   knob that the unfixed value violates the clause ([*_unfixed_refuted]). *)

(* SRem: `for i := 1; i < len(states); i++` — the first list is skipped.
   Fixed code starts at 0. *)
Definition s_rem_from : nat := 0.
(* ParseStates: with a duplicate in the input it returns slicesUniq(states)
   without dropping unknown names. Fixed: true. *)
Definition parse_dup_filters : bool := true.
(* IsQueued: PositionFirst does iter[0:1] without looking at len(iter).
   Fixed: true. *)
Definition first_guards_empty : bool := true.
(* IsQueued: with PositionLast the returned index is relative to the
   one-element sub-slice (always 0). Fixed: true (index in the queue). *)
Definition last_idx_absolute : bool := false.
(* Time.ActiveStates(idxs) ignores idxs. Fixed: true. *)
Definition active_states_filters : bool := true.
(* Time.Equal(false, t2) indexes time2[i] for every i < len(t). Fixed: true
   (stops at the shorter one). *)
Definition time_equal_guards : bool := true.
(* S.Add() without arguments returns the receiver as is (duplicates kept).
   Fixed: true (always slicesUniq). *)
Definition add_noargs_uniq : bool := true.

(* ------------------------------------------------------------------ *)
(* State lists                                                          *)

Definition sl := list nat.

(* S.Add(states ...S) *)
Definition s_add_k (noargs_uniq : bool) (s : sl) (ls : list sl) : sl :=
  match ls with
  | [] => if noargs_uniq then uniq s else s
  | _ => uniq (s ++ concat ls)
  end.
Definition s_add := s_add_k add_noargs_uniq.

(* S.Add1(state ...string) *)
Definition s_add1 (s names : sl) : sl := uniq (s ++ names).

(* SAdd(states ...S) *)
Definition sadd (ls : list sl) : sl :=
  match ls with
  | [] => []
  | _ => uniq (concat ls)
  end.

(* inner loop of SRem: s = slicesWithout(s, states[i][ii]) *)
Definition rem_list (s l : sl) : sl := fold_left without l s.

(* SRem(src, states ...S) with the outer loop starting at [from] *)
Definition s_rem_at (from : nat) (src : sl) (ls : list sl) : sl :=
  match ls with
  | [] => src
  | _ => fold_left rem_list (skipn from ls) src
  end.
Definition s_rem := s_rem_at s_rem_from.
(* S.Delete(states ...S) *)
Definition s_delete (s : sl) (ls : list sl) : sl := s_rem s ls.
(* S.Delete1(states ...string) = SRem(s, states) *)
Definition s_delete1 (s names : sl) : sl := s_rem s [names].

Definition s_sub := diff.            (* StatesDiff *)
Definition s_shared := shared.       (* StatesShared *)
Definition s_equal := set_eqb.       (* StatesEqual *)
Definition s_equal_order := list_eqb.
Definition s_unique := uniq.
Definition s_has (s : sl) (x : nat) : bool := mem x s.

(* StatesToIndex: slices.Index, -1 when absent *)
Definition index_of (index : sl) (x : nat) : Z :=
  match pos_in index x with
  | O => (-1)%Z
  | S k => Z.of_nat k
  end.
Definition states_to_index (index states : sl) : list Z := map (index_of index) states.

(* names produced by IndexToStates / TimeIndex getters *)
Inductive name :=
| Known (k : nat)        (* "S<k>" *)
| Unknown (i : Z)        (* "unknown<i>" *)
| NoName.                (* "" *)

(* IndexToStates: `len(index) > states[i] && states[i] != -1` then
   index[states[i]] — a negative index other than -1 panics *)
Definition index_to_state (index : sl) (i : Z) : option name :=
  if (i =? -1)%Z then Some (Unknown i)
  else if (i <? 0)%Z then None
  else if (i <? Z.of_nat (length index))%Z
       then Some (Known (nth (Z.to_nat i) index 0)) else Some (Unknown i).

Fixpoint opt_map {A B} (f : A -> option B) (l : list A) : option (list B) :=
  match l with
  | [] => Some []
  | x :: r =>
    match f x with
    | None => None
    | Some y => match opt_map f r with None => None | Some ys => Some (y :: ys) end
    end
  end.

Definition index_to_states (index : sl) (idxs : list Z) : option (list name) :=
  opt_map (index_to_state index) idxs.

(* ------------------------------------------------------------------ *)
(* Time                                                                 *)

Open Scope N_scope.

Definition w64 : N := 18446744073709551616.
Definition wrap (x : N) : N := x mod w64.
Definition tm := list N.

Definition is_active_tick (t : N) : bool := N.odd t.
Definition next_active (t : N) : N := if is_active_tick t then wrap (t + 2) else wrap (t + 1).
Definition next_inactive (t : N) : N := if is_active_tick t then wrap (t + 1) else wrap (t + 2).
Definition next_active_in (t : N) : N := if is_active_tick t then 2 else 1.
Definition next_inactive_in (t : N) : N := if is_active_tick t then 1 else 2.

Definition zlen {A} (l : list A) : Z := Z.of_nat (length l).

(* t[idx]: None = index out of range *)
Definition get (t : tm) (i : Z) : option N :=
  if (i <? 0)%Z then None else nth_error t (Z.to_nat i).

Fixpoint set_nth (t : tm) (k : nat) (v : N) : tm :=
  match t, k with
  | [], _ => []
  | _ :: r, O => v :: r
  | x :: r, S k' => x :: set_nth r k' v
  end.

(* NewTime(index, activeStates): ret[idx] = 1 *)
Fixpoint new_time_go (ret : tm) (active : list Z) : option tm :=
  match active with
  | [] => Some ret
  | i :: r =>
    if ((i <? 0) || (zlen ret <=? i))%Z then None
    else new_time_go (set_nth ret (Z.to_nat i) 1) r
  end.
Definition new_time (len : nat) (active : list Z) : option tm :=
  new_time_go (repeat 0 len) active.

(* Time.Increment: `if idx < len(ret) { ret[idx]++ }` *)
Definition increment (t : tm) (i : Z) : option tm :=
  if (i <? zlen t)%Z then
    match get t i with
    | None => None
    | Some v => Some (set_nth t (Z.to_nat i) (wrap (v + 1)))
    end
  else Some t.

Fixpoint map2 (f : N -> N -> N) (a b : tm) : tm :=
  match a, b with
  | x :: r, y :: s => f x y :: map2 f r s
  | _, _ => []
  end.

(* Time.Add: length mismatch returns t *)
Definition time_add (t t2 : tm) : tm :=
  if Nat.eqb (length t) (length t2) then map2 (fun x y => wrap (x + y)) t t2 else t.

(* Time.Filter: `if idx >= len(t) { continue }; ret[i] = t[idx]` *)
Definition filter_one (t : tm) (i : Z) : option N :=
  if (zlen t <=? i)%Z then Some 0 else get t i.
Definition time_filter (t : tm) (idxs : list Z) : option tm := opt_map (filter_one t) idxs.

Definition sum_all (t : tm) : N := fold_left (fun a x => wrap (a + x)) t 0.

Fixpoint sum_sel (t : tm) (idxs : list Z) (acc : N) : option N :=
  match idxs with
  | [] => Some acc
  | i :: r =>
    if (zlen t <=? i)%Z then sum_sel t r acc
    else match get t i with
         | None => None
         | Some v => sum_sel t r (wrap (acc + v))
         end
  end.
(* Time.Sum(idxs): nil = everything *)
Definition time_sum (t : tm) (idxs : option (list Z)) : option N :=
  match idxs with
  | None => Some (sum_all t)
  | Some l => sum_sel t l 0
  end.

(* uint64 subtraction *)
Definition wsub (a b : N) : N := wrap (a + w64 - wrap b).

(* Time.DiffSince: length mismatch returns zeros *)
Definition diff_since (t before : tm) : tm :=
  if Nat.eqb (length t) (length before) then map2 wsub t before
  else repeat 0 (length t).

Fixpoint non_zero_from (k : nat) (t : tm) : list nat :=
  match t with
  | [] => []
  | x :: r => if x =? 0 then non_zero_from (S k) r else k :: non_zero_from (S k) r
  end.
Definition non_zero_states (t : tm) : list nat := non_zero_from 0 t.

(* Time.After: every compared tick of t is >= (orEqual) / > the one of time2 *)
Fixpoint time_after (or_equal : bool) (t t2 : tm) : bool :=
  match t, t2 with
  | [], _ => true
  | _, [] => true
  | a :: r, b :: s =>
    if (a <? b) || ((a =? b) && negb or_equal) then false else time_after or_equal r s
  end.
Fixpoint time_before (or_equal : bool) (t t2 : tm) : bool :=
  match t, t2 with
  | [], _ => true
  | _, [] => true
  | a :: r, b :: s =>
    if (b <? a) || ((a =? b) && negb or_equal) then false else time_before or_equal r s
  end.

(* Time.Equal: `for i, t1 := range t { if t1 != time2[i] ...` *)
Fixpoint time_equal_go (guard : bool) (t t2 : tm) : option bool :=
  match t, t2 with
  | [], _ => Some true
  | _ :: _, [] => if guard then Some true else None
  | a :: r, b :: s => if a =? b then time_equal_go guard r s else Some false
  end.
Definition time_equal_k (guard strict : bool) (t t2 : tm) : option bool :=
  if strict && negb (Nat.eqb (length t) (length t2)) then Some false
  else time_equal_go guard t t2.
Definition time_equal := time_equal_k time_equal_guards.

(* Time.Tick: `if len(t) <= idx { return 0 }` *)
Definition time_tick (t : tm) (i : Z) : option N :=
  if (zlen t <=? i)%Z then Some 0 else get t i.

Definition time_is1 (t : tm) (i : Z) : option bool :=
  if ((i =? -1) || (zlen t <=? i))%Z then Some false
  else match get t i with None => None | Some v => Some (is_active_tick v) end.

Fixpoint time_is_go (t : tm) (idxs : list Z) : option bool :=
  match idxs with
  | [] => Some true
  | i :: r =>
    if (i =? -1)%Z then Some false
    else match get t i with
         | None => None
         | Some v => if is_active_tick v then time_is_go t r else Some false
         end
  end.
Definition time_is (t : tm) (idxs : list Z) : option bool :=
  match idxs with [] => Some false | _ => time_is_go t idxs end.

Fixpoint time_not_go (t : tm) (idxs : list Z) : option bool :=
  match idxs with
  | [] => Some true
  | i :: r =>
    if (i =? -1)%Z then time_not_go t r
    else match get t i with
         | None => None
         | Some v => if is_active_tick v then Some false else time_not_go t r
         end
  end.
Definition time_not (t : tm) (idxs : list Z) : option bool := time_not_go t idxs.

Definition time_not1 (t : tm) (i : Z) : option bool :=
  if ((i =? -1) || (zlen t <=? i))%Z then Some false
  else match get t i with None => None | Some v => Some (negb (is_active_tick v)) end.

Fixpoint time_any (t : tm) (ls : list (list Z)) : option bool :=
  match ls with
  | [] => Some false
  | l :: r =>
    match time_is t l with
    | None => None
    | Some true => Some true
    | Some false => time_any t r
    end
  end.

Fixpoint time_any1 (t : tm) (idxs : list Z) : option bool :=
  match idxs with
  | [] => Some false
  | i :: r =>
    match time_is1 t i with
    | None => None
    | Some true => Some true
    | Some false => time_any1 t r
    end
  end.

Fixpoint active_from (k : nat) (t : tm) : list nat :=
  match t with
  | [] => []
  | x :: r => if is_active_tick x then k :: active_from (S k) r else active_from (S k) r
  end.
Definition zmem (i : Z) (l : list Z) : bool := existsb (Z.eqb i) l.
(* Time.ActiveStates(idxs) *)
Definition time_active_k (filters : bool) (t : tm) (idxs : option (list Z)) : list nat :=
  match idxs with
  | Some l => if filters then filter (fun k => zmem (Z.of_nat k) l) (active_from 0 t)
              else active_from 0 t
  | None => active_from 0 t
  end.
Definition time_active := time_active_k active_states_filters.

(* ---- TimeIndex (Time with a list of names) *)

Definition ti_state_name (index : sl) (i : Z) : option name :=
  if (zlen index <=? i)%Z then Some NoName
  else if (i <? 0)%Z then None else Some (Known (nth (Z.to_nat i) index 0%nat)).
Definition ti_sum (index : sl) (t : tm) (states : sl) : option N :=
  time_sum t (Some (states_to_index index states)).
Definition ti_filter (index : sl) (t : tm) (states : sl) : option tm :=
  time_filter t (states_to_index index states).
Definition ti_non_zero (index : sl) (t : tm) : option (list name) :=
  index_to_states index (map Z.of_nat (non_zero_states t)).
Definition ti_is (index : sl) (t : tm) (states : sl) : option bool :=
  time_is t (states_to_index index states).
Definition ti_not (index : sl) (t : tm) (states : sl) : option bool :=
  time_not t (states_to_index index states).
Definition ti_any1 (index : sl) (t : tm) (states : sl) : option bool :=
  time_any1 t (states_to_index index states).
Definition ti_name_at (index : sl) (k : nat) : name :=
  if Nat.ltb k (length index) then Known (nth k index 0%nat) else Unknown (Z.of_nat k).
Definition name_in (nm : name) (states : sl) : bool :=
  match nm with Known k => mem k states | _ => false end.
(* TimeIndex.ActiveStates(states): nil = all *)
Definition ti_active (index : sl) (t : tm) (states : option sl) : list name :=
  filter (fun nm => match states with None => true | Some l => name_in nm l end)
         (map (ti_name_at index) (active_from 0 t)).

Close Scope N_scope.

(* ------------------------------------------------------------------ *)
(* ParseStates / mustParseStates on a machine whose schema has the
   states S0..S(n-1) (and Exception, which the inputs never name)        *)

Definition known (n x : nat) : bool := Nat.ltb x n.

(* the loop: unknown names are skipped, a repeated known name sets dups *)
Fixpoint has_known_dup (n : nat) (seen states : sl) : bool :=
  match states with
  | [] => false
  | x :: r =>
    if known n x then (if mem x seen then true else has_known_dup n (x :: seen) r)
    else has_known_dup n seen r
  end.

(* returns (order is defined?, list): without duplicates the result is the
   key set of a Go map, in random order *)
Definition parse_states_k (dup_filters : bool) (n : nat) (states : sl) : bool * sl :=
  if has_known_dup n [] states then
    (true, if dup_filters then uniq (filter (known n) states) else uniq states)
  else (false, filter (known n) states).
Definition parse_states := parse_states_k parse_dup_filters.

(* mustParseStates: panics on the first unknown name *)
Definition must_parse_states (n : nat) (states : sl) : option sl :=
  if forallb (known n) states then
    Some (if has_known_dup n [] states then uniq states else states)
  else None.

(* ------------------------------------------------------------------ *)
(* Queue queries                                                        *)

Record qmut := mk_qmut {
  q_type : N;            (* 0 add, 1 remove, 2 set, 3 eval *)
  q_called : list nat;   (* Mutation.Called, state indexes *)
  q_hasargs : bool;      (* len(mut.Args) > 0 *)
  q_check : bool;        (* IsCheck *)
  q_tick : N             (* QueueTick *)
}.

Record qquery := mk_qquery {
  qq_type : N;
  qq_states : sl;        (* names; k < n is known and has index k *)
  qq_noargs : bool;      (* withoutArgsOnly *)
  qq_strict : bool;      (* statesStrictEqual *)
  qq_mintick : N;
  qq_check : bool;
  qq_pos : N             (* 0 any, 1 first, 2 last, others fall through *)
}.

(* m.Index(states) on the machine with states S0..S(n-1) in that order *)
Definition mach_index (n : nat) (states : sl) : list Z :=
  map (fun x => if known n x then Z.of_nat x else (-1)%Z) states.

(* slicesEvery(mut.Called, idxs) *)
Definition called_has_all (called : list nat) (idxs : list Z) : bool :=
  forallb (fun i => existsb (fun c => Z.eqb (Z.of_nat c) i) called) idxs.

Definition qmatch (n : nat) (check : bool) (q : qquery) (m : qmut) : bool :=
  negb (N.ltb 0 (qq_mintick q) && N.ltb (q_tick m) (qq_mintick q)) &&
  Bool.eqb (q_check m) check &&
  N.eqb (q_type m) (qq_type q) &&
  (negb (qq_noargs q) || negb (q_hasargs m)) &&
  (if qq_strict q then Nat.eqb (length (q_called m)) (length (qq_states q))
   else Nat.leb (length (qq_states q)) (length (q_called m))) &&
  called_has_all (q_called m) (mach_index n (qq_states q)).

Fixpoint find_from (n : nat) (q : qquery) (i : nat) (iter : list qmut) : bool * N * N :=
  match iter with
  | [] => (false, 0%N, 0%N)
  | m :: r => if qmatch n (qq_check q) q m then (true, N.of_nat i, q_tick m)
              else find_from n q (S i) r
  end.

(* IsQueued: None = slice bounds panic *)
Definition is_queued_k (first_guard last_abs : bool) (n : nat) (queue : list qmut) (q : qquery)
  : option (bool * N * N) :=
  match qq_pos q with
  | 2%N => (* PositionLast: iter[max(0,len-1):] *)
    let off := Nat.pred (length queue) in
    match find_from n q 0 (skipn off queue) with
    | (true, i, t) => Some (true, if last_abs then (i + N.of_nat off)%N else i, t)
    | r => Some r
    end
  | 1%N => (* PositionFirst: iter[0:1] *)
    match queue with
    | [] => if first_guard then Some (false, 0%N, 0%N) else None
    | m :: _ => Some (find_from n q 0 [m])
    end
  | _ => Some (find_from n q 0 queue)
  end.
Definition is_queued := is_queued_k first_guards_empty last_idx_absolute.

(* IsQueuedAbove(threshold, ...): counts non-check matches *)
Fixpoint queued_above_go (n : nat) (q : qquery) (threshold c : Z) (queue : list qmut) : bool :=
  match queue with
  | [] => false
  | m :: r =>
    if qmatch n false q m then
      (if (threshold <=? c + 1)%Z then true else queued_above_go n q threshold (c + 1)%Z r)
    else queued_above_go n q threshold c r
  end.
Definition is_queued_above (n : nat) (queue : list qmut) (q : qquery) (threshold : Z) : bool :=
  queued_above_go n q threshold 0%Z queue.

(* WillBe(states, position) / WillBeRemoved: IsQueued(type, states, false,
   false, 0, false, position) and every branch of the switch returns found *)
Definition will_query (typ : N) (states : sl) (pos : N) : qquery :=
  mk_qquery typ states false false 0%N false pos.
Definition will_be (n : nat) (queue : list qmut) (states : sl) (pos : N) : option bool :=
  match is_queued n queue (will_query 0%N states pos) with
  | None => None
  | Some (f, _, _) => Some f
  end.
Definition will_be_removed (n : nat) (queue : list qmut) (states : sl) (pos : N) : option bool :=
  match is_queued n queue (will_query 1%N states pos) with
  | None => None
  | Some (f, _, _) => Some f
  end.
